/-
  C11 at document level: what the whole default parse stack (`Pipeline.parseDefault`) makes of every
  block of the source, in terms of the splitter's blocks only.

  * `parseDefault_at`: position by position, the returned block is
    `mapBlock true (removeLive P) (resolveBlock strings (addSpec pre b))` - `Library.add`'s decision,
    then string resolution against the index of the *whole* document, then enclosing removal in place;
    the final `Library(blocks)` rebuild is the identity (C09 `readd_skeleton`).
  * `resolvedSrc`, `isRef`: resolution of a source value, in terms of the source blocks.
  * `split_fresh`: the splitter's blocks carry no parser metadata.
-/
import BibVerif.Lemmas.AddAllAgree
import BibVerif.Lemmas.StrBlocks
namespace Bib
open Bib.Enclosing Bib.Pipeline

/-! ### the string index, in terms of the document -/

/-- the two spellings of "first @string block with key `k`" (Lemmas/Interpolate.lean, AddAll.lean) -/
theorem firstString_eq (k : Str) (bs : List Block) : Interpolate.firstString k bs = Bib.firstString k bs := by
  induction bs with
  | nil => rfl
  | cons b rest ih =>
    match b with
    | .live (.string k' v l r m) => simp only [Interpolate.firstString, Bib.firstString, ih]
    | .live (.entry _) => simpa only [Interpolate.firstString, Bib.firstString] using ih
    | .live (.preamble ..) => simpa only [Interpolate.firstString, Bib.firstString] using ih
    | .live (.expl ..) => simpa only [Interpolate.firstString, Bib.firstString] using ih
    | .live (.impl ..) => simpa only [Interpolate.firstString, Bib.firstString] using ih
    | .failed .. => simpa only [Interpolate.firstString, Bib.firstString] using ih
    | .dupField .. => simpa only [Interpolate.firstString, Bib.firstString] using ih
    | .dupKey .. => simpa only [Interpolate.firstString, Bib.firstString] using ih
    | .mwError .. => simpa only [Interpolate.firstString, Bib.firstString] using ih

/-- `library.strings_dict` after the splitter's `add` calls: key ↦ first @string block with that key -/
theorem strings_index (bs : List Block) (k : Str) :
    Interpolate.lookup (Interpolate.addAll bs).strings k = Interpolate.firstString k bs := by
  simpa [Interpolate.addAll, Interpolate.Lib.empty, Interpolate.lookup] using
    Interpolate.strings_foldl bs Interpolate.Lib.empty k

/-- does resolution replace a field whose source value is `src`: the value is not enclosed in
braces / quotes (`_value_is_nonstring_or_enclosed`) and is - as it stands, case-sensitively - the key
of an @string block of the document -/
def isRef (bs : List Block) (src : Str) : Bool :=
  !Interpolate.valueIsNonstringOrEnclosed (.str src) && (Interpolate.firstString src bs).isSome

/-- the value after resolution: the source value of the FIRST @string block with that key anywhere
in the document for a reference, the value itself otherwise -/
def resolvedSrc (bs : List Block) (src : Str) : Str :=
  if Interpolate.valueIsNonstringOrEnclosed (.str src) then src
  else
    match Interpolate.firstString src bs with
    | some (.string _ (.str v) _ _ _) => v
    | _ => src

/-- the keys of the fields of `e` that are references, in field order -/
def resolvedKeys (bs : List Block) (e : Entry) : List Str :=
  (e.fields.filter fun f => isRef bs (strOf f.value)).map (·.key)

theorem resolvedSrc_of_not_ref (bs : List Block) (src : Str) (h : isRef bs src = false) :
    resolvedSrc bs src = src := by
  unfold resolvedSrc
  by_cases he : Interpolate.valueIsNonstringOrEnclosed (.str src) = true
  · simp [he]
  · simp only [he, Bool.false_eq_true, ↓reduceIte]
    have : Interpolate.firstString src bs = none := by
      simpa [isRef, he] using h
    rw [this]

theorem firstString_str {bs : List Block} (h : StrBlocks bs) {k : Str} {b : Live}
    (hf : Interpolate.firstString k bs = some b) : ∃ s l r m, b = .string k (.str s) l r m := by
  obtain ⟨v, l, r, m, rfl, hm⟩ := Interpolate.firstString_key hf
  obtain ⟨s, rfl⟩ : ∃ s, v = .str s := h _ hm
  exact ⟨s, l, r, m, rfl⟩

/-- the loop body of the middleware on a source value, in terms of the document -/
theorem resolution_doc (bs : List Block) (h : StrBlocks bs) (src : Str) :
    Interpolate.resolution (Interpolate.addAll bs).strings (.str src) =
      if isRef bs src then some (.str (resolvedSrc bs src)) else none := by
  unfold Interpolate.resolution isRef resolvedSrc
  by_cases he : Interpolate.valueIsNonstringOrEnclosed (.str src) = true
  · simp [he]
  · simp only [he, Bool.false_eq_true, ↓reduceIte, strings_index]
    cases hf : Interpolate.firstString src bs with
    | none => simp
    | some b =>
      obtain ⟨s, l, r, m, rfl⟩ := firstString_str h hf
      simp

theorem resolveField_doc (bs : List Block) (h : StrBlocks bs) (f : Field) (src : Str) (hv : f.value = .str src) :
    Interpolate.resolveField (Interpolate.addAll bs).strings f = { f with value := .str (resolvedSrc bs src) } := by
  unfold Interpolate.resolveField
  rw [hv, resolution_doc bs h src]
  by_cases hr : isRef bs src = true
  · simp [hr]
  · have hr' : isRef bs src = false := by simpa using hr
    simp only [hr', Bool.false_eq_true, ↓reduceIte, resolvedSrc_of_not_ref bs src hr']
    cases f; simp_all

/-! ### position by position through the stack -/

theorem mapBlocks_getElem (ip : Bool) (f : Live → Except PyErr Live) : ∀ (l l' : List Block),
    mapBlocks ip f l = .ok l' → ∀ (i : Nat) (b : Block), l[i]? = some b →
      ∃ b', l'[i]? = some b' ∧ mapBlock ip f b = .ok b' := by
  intro l
  induction l with
  | nil => intro l' _ i b hb; simp at hb
  | cons x r ih =>
    intro l' h i b hb
    simp only [mapBlocks] at h
    split at h
    · cases h
    · rename_i x' hx
      split at h
      · cases h
      · rename_i r' hr
        injection h with h; subst h
        cases i with
        | zero =>
          simp only [List.getElem?_cons_zero, Option.some.injEq] at hb
          subst hb
          exact ⟨x', by simp, hx⟩
        | succ i =>
          simp only [List.getElem?_cons_succ] at hb ⊢
          exact ih r' hr i b hb

theorem addAllSpec_getElem (pre post : List Block) (b : Block) :
    (addAllSpec [] (pre ++ b :: post))[pre.length]? = some (addSpec pre b) := by
  rw [addAllSpec_append, List.nil_append]
  rw [List.getElem?_append_right (by simp [addAllSpec_length])]
  simp [addAllSpec_length, addAllSpec]

/-- the default parse stack as one pass of `RemoveEnclosing` (in place) over the resolved blocks of
the library the splitter filled: the final `Library(blocks)` rebuild changes nothing -/
theorem parseDefault_stages (P : PyChars) (s : Str) (L : List Block) (h : parseDefault P s = .ok L) :
    ∃ bs, split P s = .ok bs ∧
      removeLib P true ((addAllSpec [] bs).map
        (Interpolate.resolveBlock (Interpolate.addAll bs).strings)) = .ok L := by
  simp only [parseDefault, Interpolate.defaultParse] at h
  cases hs : split P s with
  | error e => rw [hs] at h; cases h
  | ok bs =>
    rw [hs] at h
    refine ⟨bs, rfl, ?_⟩
    simp only at h
    cases hr : removeLib P true (Interpolate.transform (Interpolate.addAll bs)).blocks with
    | error e => rw [hr] at h; cases h
    | ok bs' =>
      rw [hr] at h
      simp only [Except.map] at h
      injection h with h
      have h1 : bs'.map skel = (addAllSpec [] bs).map skel := by
        rw [skel_removeLib P true _ bs' hr, skel_transform, addAll_blocks_spec]
      rw [addAll_blocks_spec, addAllSpec_of_skel bs' bs h1] at h
      subst h
      have : (Interpolate.transform (Interpolate.addAll bs)).blocks =
          (addAllSpec [] bs).map (Interpolate.resolveBlock (Interpolate.addAll bs).strings) := by
        rw [← addAll_blocks_spec]; rfl
      rw [← this]; exact hr

/-- **every block of the source, through the default stack** -/
theorem parseDefault_at (P : PyChars) (s : Str) (L : List Block) (h : parseDefault P s = .ok L) :
    ∃ bs, split P s = .ok bs ∧ StrBlocks bs ∧ ∀ pre b post, bs = pre ++ b :: post →
      ∃ b', L[pre.length]? = some b' ∧
        mapBlock true (removeLive P)
          (Interpolate.resolveBlock (Interpolate.addAll bs).strings (addSpec pre b)) = .ok b' := by
  obtain ⟨bs, hs, hr⟩ := parseDefault_stages P s L h
  refine ⟨bs, hs, split_strBlocks P s bs hs, ?_⟩
  intro pre b post hbs
  subst hbs
  refine mapBlocks_getElem true (removeLive P) _ L hr pre.length _ ?_
  rw [List.getElem?_map, addAllSpec_getElem]; rfl

/-! ### a live entry -/

/-- resolution, then enclosing removal, on an entry of the source -/
theorem removeEntry_resolve_doc (P : PyChars) (bs : List Block) (h : StrBlocks bs) (e e' : Entry)
    (he : AllStr e.fields)
    (hr : removeEntry P (Interpolate.resolveEntry (Interpolate.addAll bs).strings e) = .ok e') :
    e'.ty = e.ty ∧ e'.key = e.key ∧ e'.line = e.line ∧ e'.raw = e.raw ∧
    e'.fields = e.fields.map (fun f =>
      { f with value := .str (stripEnclosing P (resolvedSrc bs (strOf f.value))).1 }) ∧
    ∃ d, e'.md = assocSet
      (if resolvedKeys bs e = [] then e.md
       else assocSet e.md Interpolate.METADATA_KEY (.strs (resolvedKeys bs e)))
      REMOVED_ENCLOSING_KEY (.dict d) := by
  have hstr := (addAll_libStr bs h).strings
  have hall := resolveFields_allStr _ hstr e.fields he
  obtain ⟨d, hd⟩ := Interpolate.removeFields_allStr P _ hall []
  have hfields : (Interpolate.resolveFields (Interpolate.addAll bs).strings e.fields).1 =
      e.fields.map (fun f => { f with value := .str (resolvedSrc bs (strOf f.value)) }) := by
    rw [Interpolate.resolveFields_fst]
    apply List.map_congr_left
    intro f hf
    obtain ⟨src, hsrc⟩ := he f hf
    rw [resolveField_doc bs h f src hsrc, hsrc]; rfl
  have hkeys : (Interpolate.resolveFields (Interpolate.addAll bs).strings e.fields).2 = resolvedKeys bs e := by
    rw [Interpolate.resolveFields_snd, resolvedKeys]
    congr 1
    apply List.filter_congr
    intro f hf
    obtain ⟨src, hsrc⟩ := he f hf
    rw [hsrc, resolution_doc bs h src]
    simp only [strOf]
    cases isRef bs src <;> rfl
  simp only [removeEntry, Interpolate.resolveEntry, hd] at hr
  injection hr with hr
  subst hr
  refine ⟨rfl, rfl, rfl, rfl, ?_, d, ?_⟩
  · simp only [hfields, List.map_map]
    apply List.map_congr_left
    intro f _; rfl
  · simp only [hkeys, List.isEmpty_iff]

/-! ### the splitter attaches no parser metadata -/

def FreshLive : Live → Prop
  | .entry e => e.md = []
  | .string _ _ _ _ m => m = []
  | .preamble _ _ _ m => m = []
  | .expl _ _ _ m => m = []
  | .impl _ _ _ m => m = []

/-- `parser_metadata` is empty on every block (and inner block) the splitter creates -/
def FreshBlock : Block → Prop
  | .live l => FreshLive l
  | .dupField _ e => e.md = []
  | .dupKey _ p d => FreshLive p ∧ FreshLive d
  | .mwError _ i => FreshLive i
  | .failed .. => True

def FreshBlocks (bs : List Block) : Prop := ∀ b ∈ bs, FreshBlock b

theorem fresh_mkEntry (ty key : Str) (fs : List Field) (l : Int) (r : Str) : FreshBlock (mkEntry ty key fs l r) := by
  unfold mkEntry
  simp only
  split <;> rfl

theorem fresh_endImplicit (P : PyChars) (impl : List Tok) (il : Int) (out : List Block) (h : FreshBlocks out) :
    FreshBlocks ((endImplicit P impl il).reverse ++ out) := by
  intro b hb
  rcases List.mem_append.mp hb with hb | hb
  · simp only [endImplicit] at hb
    split at hb
    · simp at hb
    · simp only [List.reverse_cons, List.reverse_nil, List.nil_append, List.mem_singleton] at hb
      subst hb; rfl
  · exact h b hb

theorem fresh_cons {b : Block} {out : List Block} (hb : FreshBlock b) (h : FreshBlocks out) :
    FreshBlocks (b :: out) := by
  intro x hx
  rcases List.mem_cons.mp hx with rfl | hx
  · exact hb
  · exact h x hx

theorem stepTop_fresh (P : PyChars) (s : St) (impl : List Tok) (il : Int) (t : Tok) (h : FreshBlocks s.out) :
    FreshBlocks (stepTop P s impl il t).out := by
  unfold stepTop
  split
  · exact fresh_endImplicit P impl il s.out h
  · exact h
  · exact h

theorem absorb_fresh (s' : St) (m : Mode) (t : Tok) (hout : FreshBlocks s'.out) :
    FreshBlocks (absorb s' m t).out := by
  cases m <;> exact hout

theorem step_fresh (P : PyChars) (s : St) (t : Tok) (hout : FreshBlocks s.out) : FreshBlocks (step P s t).out := by
  unfold step
  split
  · exact hout
  · have hredo : ∀ why : Fail,
        FreshBlocks (match (abort s why).mode with
          | .top impl il => stepTop P (abort s why) impl il t
          | _ => abort s why).out := by
      intro why
      have hmode' : (abort s why).mode = .top [] s.line := by simp [abort, toTop]
      rw [hmode']
      exact stepTop_fresh P _ _ _ t (by
        simp only [abort, toTop]
        exact fresh_cons (by trivial) hout)
    cases hmd : s.mode with
    | top impl il => exact stepTop_fresh P s _ _ t hout
    | afterAt bk ty =>
      split
      · rename_i heq; cases heq
      split
      · exact absorb_fresh _ _ _ hout
      · exact absorb_fresh _ _ _ hout
      · simp only []
        repeat' first
          | exact hout
          | split
    | bracket bk d b =>
      split
      · rename_i heq; cases heq
      split
      · exact absorb_fresh _ _ _ hout
      · exact absorb_fresh _ _ _ hout
      · simp only []
        repeat' first
          | exact hredo _
          | exact hout
          | exact fresh_cons (by trivial) hout
          | exact fresh_cons rfl hout
          | (refine fresh_cons ?_ hout; split <;> rfl)
          | split
    | strKey key =>
      split
      · rename_i heq; cases heq
      split
      · exact absorb_fresh _ _ _ hout
      · exact absorb_fresh _ _ _ hout
      · simp only []
        repeat' first
          | exact hredo _
          | exact hout
          | split
    | strVal key d v =>
      split
      · rename_i heq; cases heq
      split
      · exact absorb_fresh _ _ _ hout
      · exact absorb_fresh _ _ _ hout
      · simp only []
        repeat' first
          | exact hredo _
          | exact hout
          | exact fresh_cons rfl hout
          | split
    | entKey ty key =>
      split
      · rename_i heq; cases heq
      split
      · exact absorb_fresh _ _ _ hout
      · exact absorb_fresh _ _ _ hout
      · simp only []
        repeat' first
          | exact hredo _
          | exact hout
          | exact fresh_cons (fresh_mkEntry _ _ _ _ _) hout
          | split
    | fldKey ty key fs fk =>
      split
      · rename_i heq; cases heq
      split
      · exact absorb_fresh _ _ _ hout
      · exact absorb_fresh _ _ _ hout
      · simp only []
        repeat' first
          | exact hredo _
          | exact hout
          | exact fresh_cons (fresh_mkEntry _ _ _ _ _) hout
          | split
    | fldVal ty key fs fk el q c qc v =>
      split
      · rename_i heq; cases heq
      split
      · exact absorb_fresh _ _ _ hout
      · exact absorb_fresh _ _ _ hout
      · simp only []
        repeat' first
          | exact hredo _
          | exact hout
          | exact fresh_cons (fresh_mkEntry _ _ _ _ _) hout
          | split

theorem run_fresh (P : PyChars) (ts : List Tok) : ∀ s, FreshBlocks s.out → FreshBlocks (run P s ts).out := by
  induction ts with
  | nil => intro s h; exact h
  | cons t ts ih => intro s h; exact ih _ (step_fresh P s t h)

/-- every block the splitter returns has empty parser metadata -/
theorem split_fresh (P : PyChars) (s : Str) (bs : List Block) (h : split P s = .ok bs) : FreshBlocks bs := by
  unfold split splitToks at h
  have hinv := run_fresh P (lex P s) init (by intro b hb; cases hb)
  generalize run P init (lex P s) = st at h hinv
  unfold finish at h
  split at h
  · cases h
  · split at h
    · injection h with h; subst h
      intro b hb
      exact fresh_endImplicit P _ _ st.out hinv b (List.mem_reverse.mp hb)
    · injection h with h; subst h
      intro b hb
      have hb' := List.mem_reverse.mp hb
      rcases List.mem_cons.mp hb' with rfl | hb'
      · trivial
      · exact hinv b hb'

/-! ### the document-level facts, class by class -/

theorem mapBlock_live_ok {ip : Bool} {f : Live → Except PyErr Live} {l : Live} {b' : Block}
    (h : mapBlock ip f (.live l) = .ok b') : ∃ l', f l = .ok l' ∧ b' = .live l' := by
  simp only [mapBlock] at h
  split at h
  · rename_i l' hl; injection h with h; exact ⟨l', hl, h.symm⟩
  · cases h

theorem mapBlock_dupKey_ok {f : Live → Except PyErr Live} {k : Str} {p d : Live} {b' : Block}
    (h : mapBlock true f (.dupKey k p d) = .ok b') : ∃ p', f p = .ok p' ∧ b' = .dupKey k p' d := by
  simp only [mapBlock, ↓reduceIte] at h
  split at h
  · rename_i p' hp; injection h with h; exact ⟨p', hp, h.symm⟩
  · cases h

theorem resolveBlock_live (strings : List (Str × Live)) (p : Live) :
    Interpolate.resolveBlock strings (.live p) = .live (Interpolate.resolveLive strings p) := by
  cases p <;> rfl

theorem resolveBlock_dupKey (strings : List (Str × Live)) (k : Str) (p d : Live) :
    Interpolate.resolveBlock strings (.dupKey k p d) = .dupKey k (Interpolate.resolveLive strings p) d := by
  cases p <;> rfl

/-- where the first live entry with a key stands -/
theorem firstEntry_pos {k : Str} {pre : List Block} {p : Live} (h : firstEntry k pre = some p) :
    ∃ a c, pre = a ++ .live p :: c ∧ firstEntry k a = none ∧ ∃ e0, p = .entry e0 ∧ e0.key = k := by
  induction pre with
  | nil => simp [firstEntry] at h
  | cons x pre ih =>
    have skip : firstEntry k (x :: pre) = firstEntry k pre → firstEntry k [x] = none →
        ∃ a c, x :: pre = a ++ .live p :: c ∧ firstEntry k a = none ∧ ∃ e0, p = .entry e0 ∧ e0.key = k := by
      intro hs hx
      obtain ⟨a, c, hp, ha, he⟩ := ih (hs ▸ h)
      refine ⟨x :: a, c, by simp [hp], ?_, he⟩
      have := firstEntry_append k [x] a
      simp only [List.singleton_append] at this
      rw [this, hx]; exact ha
    cases x with
    | live l =>
      cases l with
      | entry e =>
        by_cases hk : e.key = k
        · simp only [firstEntry, hk, ↓reduceIte, Option.some.injEq] at h
          subst h
          exact ⟨[], pre, rfl, rfl, e, rfl, hk⟩
        · exact skip (by simp [firstEntry, hk]) (by simp [firstEntry, hk])
      | _ => exact skip rfl rfl
    | _ => exact skip rfl rfl

/-- where the first @string with a key stands -/
theorem firstString_pos {k : Str} {pre : List Block} {p : Live} (h : Bib.firstString k pre = some p) :
    ∃ a c, pre = a ++ .live p :: c ∧ Bib.firstString k a = none ∧ ∃ v l r m, p = .string k v l r m := by
  induction pre with
  | nil => simp [Bib.firstString] at h
  | cons x pre ih =>
    have skip : Bib.firstString k (x :: pre) = Bib.firstString k pre → Bib.firstString k [x] = none →
        ∃ a c, x :: pre = a ++ .live p :: c ∧ Bib.firstString k a = none ∧ ∃ v l r m, p = .string k v l r m := by
      intro hs hx
      obtain ⟨a, c, hp, ha, he⟩ := ih (hs ▸ h)
      refine ⟨x :: a, c, by simp [hp], ?_, he⟩
      have := firstString_append k [x] a
      simp only [List.singleton_append] at this
      rw [this, hx]; exact ha
    cases x with
    | live l =>
      cases l with
      | string k0 v li r m =>
        by_cases hk : k0 = k
        · simp only [Bib.firstString, hk, ↓reduceIte, Option.some.injEq] at h
          subst h; subst hk
          exact ⟨[], pre, rfl, rfl, v, li, r, m, rfl⟩
        · exact skip (by simp [Bib.firstString, hk]) (by simp [Bib.firstString, hk])
      | _ => exact skip rfl rfl
    | _ => exact skip rfl rfl

variable (P : PyChars)

/-- **live entries**: the first entry with its key, after the default stack -/
theorem parseDefault_entry (s : Str) (L : List Block) (h : parseDefault P s = .ok L) :
    ∃ bs, split P s = .ok bs ∧ ∀ pre e post, bs = pre ++ .live (.entry e) :: post →
      firstEntry e.key pre = none →
      AllStr e.fields ∧ e.md = [] ∧
      ∃ e' d, L[pre.length]? = some (.live (.entry e')) ∧
        e'.ty = e.ty ∧ e'.key = e.key ∧ e'.line = e.line ∧ e'.raw = e.raw ∧
        e'.fields = e.fields.map (fun f =>
          { f with value := .str (stripEnclosing P (resolvedSrc bs (strOf f.value))).1 }) ∧
        e'.md = (if resolvedKeys bs e = [] then []
                 else [(Interpolate.METADATA_KEY, Meta.strs (resolvedKeys bs e))]) ++
                [(REMOVED_ENCLOSING_KEY, Meta.dict d)] := by
  obtain ⟨bs, hs, hstr, hat⟩ := parseDefault_at P s L h
  refine ⟨bs, hs, ?_⟩
  intro pre e post hbs hf
  have hmem : Block.live (.entry e) ∈ bs := by rw [hbs]; simp
  have he : AllStr e.fields := hstr _ hmem
  have hmd : e.md = [] := split_fresh P s bs hs _ hmem
  obtain ⟨b', hb', hm⟩ := hat pre _ post hbs
  have hadd : addSpec pre (.live (.entry e)) = .live (.entry e) := by simp [addSpec, hf]
  rw [hadd, resolveBlock_live] at hm
  obtain ⟨l', hl, rfl⟩ := mapBlock_live_ok hm
  simp only [Interpolate.resolveLive, removeLive] at hl
  split at hl
  · rename_i e' hr
    injection hl with hl; subst hl
    obtain ⟨h1, h2, h3, h4, h5, d, h6⟩ := removeEntry_resolve_doc P bs hstr e e' he hr
    refine ⟨he, hmd, e', d, hb', h1, h2, h3, h4, h5, ?_⟩
    rw [h6, hmd]
    by_cases hk : resolvedKeys bs e = []
    · simp [hk, assocSet]
    · have hne : ¬ Interpolate.METADATA_KEY = REMOVED_ENCLOSING_KEY := by decide
      simp [hk, assocSet, hne]
  · cases hl

/-- **live @strings**: the first @string with its key keeps key, line and raw text; resolution
leaves it as it is, enclosing removal strips one layer of its value and records the enclosing -/
theorem parseDefault_string (s : Str) (L : List Block) (h : parseDefault P s = .ok L) :
    ∃ bs, split P s = .ok bs ∧ ∀ pre k v l r m post, bs = pre ++ .live (.string k v l r m) :: post →
      Bib.firstString k pre = none →
      ∃ src, v = .str src ∧ m = [] ∧
        (Interpolate.transform (Interpolate.addAll bs)).blocks[pre.length]? = some (.live (.string k v l r m)) ∧
        L[pre.length]? = some (.live (.string k (.str (stripEnclosing P src).1) l r
          [(REMOVED_ENCLOSING_KEY, Meta.str (stripEnclosing P src).2)])) := by
  obtain ⟨bs, hs, hstr, hat⟩ := parseDefault_at P s L h
  refine ⟨bs, hs, ?_⟩
  intro pre k v l r m post hbs hf
  have hmem : Block.live (.string k v l r m) ∈ bs := by rw [hbs]; simp
  obtain ⟨src, hsrc⟩ : ∃ src, v = .str src := hstr _ hmem
  have hmd : m = [] := split_fresh P s bs hs _ hmem
  obtain ⟨b', hb', hm⟩ := hat pre _ post hbs
  have hadd : addSpec pre (.live (.string k v l r m)) = .live (.string k v l r m) := by simp [addSpec, hf]
  subst hsrc; subst hmd
  refine ⟨src, rfl, rfl, ?_, ?_⟩
  · have : (Interpolate.transform (Interpolate.addAll bs)).blocks =
        (addAllSpec [] bs).map (Interpolate.resolveBlock (Interpolate.addAll bs).strings) := by
      rw [← addAll_blocks_spec]; rfl
    rw [this, hbs, List.getElem?_map, addAllSpec_getElem, hadd]; rfl
  · rw [hadd] at hm
    simp only [Interpolate.resolveBlock, mapBlock, removeLive, assocSet] at hm
    injection hm with hm
    rw [hb', ← hm]

/-- a block that `Library.add` wrapped as a duplicate of the live block `p`: the wrapper holds the
duplicate exactly as the splitter produced it (not resolved, not stripped) and, as
`previous_block`, the very block that stands live at the position of `p` (aliasing) -/
theorem parseDefault_dup_at (L bs : List Block)
    (hat : ∀ pre b post, bs = pre ++ b :: post →
      ∃ b', L[pre.length]? = some b' ∧
        mapBlock true (removeLive P)
          (Interpolate.resolveBlock (Interpolate.addAll bs).strings (addSpec pre b)) = .ok b')
    (a c post : List Block) (p d : Live) (b : Block) (k : Str)
    (hbs : bs = (a ++ .live p :: c) ++ b :: post)
    (hp : addSpec a (.live p) = .live p) (hb : addSpec (a ++ .live p :: c) b = .dupKey k p d) :
    ∃ p', L[a.length]? = some (.live p') ∧ L[(a ++ .live p :: c).length]? = some (.dupKey k p' d) := by
  obtain ⟨b1, hb1, hm1⟩ := hat a (.live p) (c ++ b :: post) (by rw [hbs]; simp)
  obtain ⟨b2, hb2, hm2⟩ := hat (a ++ .live p :: c) b post hbs
  rw [hp, resolveBlock_live] at hm1
  rw [hb, resolveBlock_dupKey] at hm2
  obtain ⟨p1, hp1, rfl⟩ := mapBlock_live_ok hm1
  obtain ⟨p2, hp2, rfl⟩ := mapBlock_dupKey_ok hm2
  rw [hp1] at hp2
  injection hp2 with hp2; subst hp2
  exact ⟨p1, hb1, hb2⟩

/-- **later entries with the same key** are not live and are not touched -/
theorem parseDefault_dupEntry (s : Str) (L : List Block) (h : parseDefault P s = .ok L) :
    ∃ bs, split P s = .ok bs ∧ ∀ pre e post p, bs = pre ++ .live (.entry e) :: post →
      firstEntry e.key pre = some p →
      ∃ p' j, j < pre.length ∧ bs[j]? = some (.live p) ∧ L[j]? = some (.live p') ∧
        L[pre.length]? = some (.dupKey e.key p' (.entry e)) := by
  obtain ⟨bs, hs, _, hat⟩ := parseDefault_at P s L h
  refine ⟨bs, hs, ?_⟩
  intro pre e post p hbs hf
  obtain ⟨a, c, hpre, ha, e0, hp0, hk0⟩ := firstEntry_pos hf
  subst hpre; subst hp0
  obtain ⟨p', h1, h2⟩ := parseDefault_dup_at P L bs hat a c post (.entry e0) (.entry e) _ e.key hbs
    (by simp [addSpec, hk0, ha]) (by simp [addSpec, hf])
  refine ⟨p', a.length, by simp, ?_, h1, h2⟩
  rw [hbs]; simp

/-- **later @strings with the same key** are not live and are not touched -/
theorem parseDefault_dupString (s : Str) (L : List Block) (h : parseDefault P s = .ok L) :
    ∃ bs, split P s = .ok bs ∧ ∀ pre k v l r m post p, bs = pre ++ .live (.string k v l r m) :: post →
      Bib.firstString k pre = some p →
      ∃ p' j, j < pre.length ∧ bs[j]? = some (.live p) ∧ L[j]? = some (.live p') ∧
        L[pre.length]? = some (.dupKey k p' (.string k v l r m)) := by
  obtain ⟨bs, hs, _, hat⟩ := parseDefault_at P s L h
  refine ⟨bs, hs, ?_⟩
  intro pre k v l r m post p hbs hf
  obtain ⟨a, c, hpre, ha, v0, l0, r0, m0, hp0⟩ := firstString_pos hf
  subst hpre; subst hp0
  obtain ⟨p', h1, h2⟩ := parseDefault_dup_at P L bs hat a c post (.string k v0 l0 r0 m0)
    (.string k v l r m) _ k hbs (by simp [addSpec, ha]) (by simp [addSpec, hf])
  refine ⟨p', a.length, by simp, ?_, h1, h2⟩
  rw [hbs]; simp

/-- blocks no stage of the default stack looks into -/
def isPassive : Block → Bool
  | .live (.preamble ..) => true
  | .live (.expl ..) => true
  | .live (.impl ..) => true
  | .failed .. => true
  | .dupField .. => true
  | _ => false

/-- **everything else** - preambles, comments, failed blocks and in particular entries with
duplicate field keys - is returned exactly as the splitter produced it: the inner entry of a
duplicate-field block is neither resolved nor stripped -/
theorem parseDefault_passive (s : Str) (L : List Block) (h : parseDefault P s = .ok L) :
    ∃ bs, split P s = .ok bs ∧ ∀ pre b post, bs = pre ++ b :: post → isPassive b = true →
      L[pre.length]? = some b := by
  obtain ⟨bs, hs, _, hat⟩ := parseDefault_at P s L h
  refine ⟨bs, hs, ?_⟩
  intro pre b post hbs hpas
  obtain ⟨b', hb', hm⟩ := hat pre b post hbs
  match b, hpas with
  | .live (.preamble ..), _ => injection hm with hm; rw [hb', ← hm]
  | .live (.expl ..), _ => injection hm with hm; rw [hb', ← hm]
  | .live (.impl ..), _ => injection hm with hm; rw [hb', ← hm]
  | .failed .., _ => injection hm with hm; rw [hb', ← hm]; rfl
  | .dupField .., _ => injection hm with hm; rw [hb', ← hm]; rfl

end Bib
