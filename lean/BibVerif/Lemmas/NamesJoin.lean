/-
  C14 helper lemmas for `join_split`: names joined with " and " are split where they were joined.
-/
import BibVerif.Lemmas.NamesWords
namespace Bib.CoAuth
open Bib.NameP (unmatchedClose finalDepth)

theorem endSt_append (a b : Str) : ∀ e d, endSt e d (a ++ b) = endSt (endSt e d a).1 (endSt e d a).2 b := by
  induction a with
  | nil => intro e d; rfl
  | cons c r ih => intro e d; simp only [List.cons_append, endSt]; exact ih _ _

theorem endSt_spec (u : Str) : ∀ e d, endSt e d u = (endsEscaped e u, finalDepth e d u) := by
  induction u with
  | nil => intro e d; rfl
  | cons c r ih =>
    intro e d
    simp only [endSt, endsEscaped, finalDepth, adv]
    by_cases he : e = true
    · subst he; simp [ih]
    · have he' : e = false := by simpa using he
      subst he'
      by_cases h1 : c = '\\'
      · simp [h1, ih]
      · by_cases h2 : c = '{'
        · simp [h2, ih]
        · by_cases h3 : c = '}'
          · simp [h3, ih]
          · simp [h1, h2, h3, ih]

theorem noClose_of_append {a b : Str} : ∀ {e d}, NoClose e d a → NoClose (endSt e d a).1 (endSt e d a).2 b →
    NoClose e d (a ++ b) := by
  induction a with
  | nil => intro e d _ h; exact h
  | cons c r ih =>
    intro e d ha hb
    unfold NoClose at ha hb ⊢
    simp only [List.cons_append, unmatchedClose, endSt, adv] at ha hb ⊢
    by_cases he : e = true
    · simp only [he, if_true] at ha hb ⊢
      exact ih ha hb
    · simp only [he, if_false, Bool.false_eq_true] at ha hb ⊢
      by_cases h1 : c = '\\'
      · simp only [h1, if_true] at ha hb ⊢
        exact ih ha hb
      · simp only [h1, if_false] at ha hb ⊢
        by_cases h2 : c = '{'
        · simp only [h2, if_true] at ha hb ⊢
          exact ih ha hb
        · simp only [h2, if_false] at ha hb ⊢
          by_cases h3 : c = '}'
          · simp only [h3, if_true, Bool.or_eq_false_iff] at ha hb ⊢
            exact ⟨ha.1, ih ha.2 hb⟩
          · simp only [h3, if_false] at ha hb ⊢
            exact ih ha hb

/-! ### the runs of a trimmed text -/

/-- a non-empty text that neither starts nor ends with whitespace is a word followed by
(whitespace, word) pairs -/
theorem cut_shape (t : Str) (c0 : Char) (r0 : Str) (ht : t = c0 :: r0) (hc0 : isWs c0 = false)
    (hlast : ∀ c, t.getLast? = some c → isWs c = false) :
    ∃ w0 R, cut false 0 t = (false, w0) :: R ∧ w0 ≠ [] ∧ AllMark false false 0 w0 ∧
      GW (endSt false 0 w0).1 (endSt false 0 w0).2 R ∧ t = w0 ++ runsText R := by
  obtain ⟨hok, htext⟩ := cut_ok t false 0
  have hcut : ∃ w0 R, cut false 0 t = (false, w0) :: R := by
    rw [ht, cut_cons]
    have hf : isTopWs false 0 c0 = false := by simp [isTopWs, hc0]
    rw [hf]
    cases cut (adv false 0 c0).1 (adv false 0 c0).2 r0 with
    | nil => exact ⟨_, _, rfl⟩
    | cons x more =>
      obtain ⟨m', run'⟩ := x
      simp only
      by_cases hm : false = m'
      · rw [if_pos hm]; exact ⟨_, _, rfl⟩
      · rw [if_neg hm]; exact ⟨_, _, rfl⟩
  obtain ⟨w0, R, hcut⟩ := hcut
  rw [hcut] at hok htext
  have htext' : t = w0 ++ runsText R := by
    rw [← htext]; simp [runsText]
  have hlastF : lastFlag ((false, w0) :: R) = false := by
    cases hl : lastFlag ((false, w0) :: R) with
    | false => rfl
    | true =>
      obtain ⟨c, hc, hw⟩ := lastFlag_ws _ _ _ hok hl
      have : runsText ((false, w0) :: R) = t := by rw [htext']; simp [runsText]
      rw [this] at hc
      have := hlast c hc
      rw [hw] at this; cases this
  have hgw := gw_of_runsOK R false 0 w0 hok hlastF
  simp only [RunsOK] at hok
  exact ⟨w0, R, hcut, hok.1, hok.2.1, hgw, htext'⟩

/-- the text of (whitespace, word) pairs -/
def flatPairs (ps : List (Str × Str)) : Str := (ps.map fun p => p.1 ++ p.2).flatten

theorem gw_pairs : ∀ (R : List (Bool × Str)) (e : Bool) (d : Nat), GW e d R →
    runsText R = flatPairs (pairUp R) ∧ ∀ p ∈ pairUp R, (false, p.2) ∈ R
  | [], _, _, _ => by simp [runsText, flatPairs, pairUp]
  | [_], _, _, h => by simp [GW] at h
  | (a, g) :: (b, w) :: rest, e, d, h => by
    obtain ⟨ha, hb, _, _, _, _, hrest⟩ := h
    subst ha; subst hb
    obtain ⟨i1, i2⟩ := gw_pairs rest _ _ hrest
    refine ⟨?_, ?_⟩
    · simp only [runsText, flatPairs, pairUp] at i1 ⊢
      simp [i1]
    · intro p hp
      simp only [pairUp, List.mem_cons] at hp
      rcases hp with hp | hp
      · subst hp; simp
      · have := i2 p hp
        simp [this]

theorem refState_noAnd (pairs : List (Str × Str)) : ∀ (cur : Str), (∀ p ∈ pairs, isAndWord p.2 = false) →
    refState cur none pairs = ([], cur ++ flatPairs pairs, none) := by
  induction pairs with
  | nil => intro cur _; simp [refState, flatPairs]
  | cons x rest ih =>
    intro cur h
    obtain ⟨g, w⟩ := x
    have hw : isAndWord w = false := h (g, w) (by simp)
    simp only [refState, hw, Bool.false_eq_true, if_false]
    rw [ih _ (fun p hp => h p (by simp [hp]))]
    simp [flatPairs]

/-- the hypotheses on one name (`C14.NameOK`) -/
def NameGood (n : Str) : Prop :=
  n ≠ [] ∧ Trimmed n ∧ Balanced n ∧ endsEscaped false n = false ∧ NoAndWord n

/-- shape facts about a good name -/
theorem nameGood_shape {n : Str} (h : NameGood n) :
    ∃ w0 R, w0 ≠ [] ∧ AllMark false false 0 w0 ∧ GW (endSt false 0 w0).1 (endSt false 0 w0).2 R ∧
      n = w0 ++ runsText R ∧ isAndWord w0 = false ∧ (∀ p ∈ pairUp R, isAndWord p.2 = false) ∧
      runsText R = flatPairs (pairUp R) ∧ endSt false 0 n = (false, 0) ∧ NoClose false 0 n := by
  obtain ⟨hne, htrim, hbal, hesc, hand⟩ := h
  obtain ⟨c0, r0, ht⟩ : ∃ c0 r0, n = c0 :: r0 := by
    cases n with
    | nil => exact absurd rfl hne
    | cons c r => exact ⟨c, r, rfl⟩
  unfold Trimmed at htrim
  have hc0 : isWs c0 = false := stripWs_head n c0 r0 (by rw [htrim]; exact ht)
  have hlast : ∀ c, n.getLast? = some c → isWs c = false := by
    intro c hc; exact stripWs_last n c (by rw [htrim]; exact hc)
  obtain ⟨w0, R, hcut, hw0, hw0m, hgw, htext⟩ := cut_shape n c0 r0 ht hc0 hlast
  obtain ⟨p1, p2⟩ := gw_pairs R _ _ hgw
  have hmemTop : ∀ w, (false, w) ∈ cut false 0 n → isAndWord w = false := by
    intro w hw
    apply hand
    unfold topWords
    exact List.mem_map.mpr ⟨(false, w), List.mem_filter.mpr ⟨hw, rfl⟩, rfl⟩
  refine ⟨w0, R, hw0, hw0m, hgw, htext, hmemTop w0 (by rw [hcut]; simp), ?_, p1, ?_, hbal.1⟩
  · intro p hp
    exact hmemTop p.2 (by rw [hcut]; simp [p2 p hp])
  · rw [endSt_spec, hesc, hbal.2]

/-- the first name of a list -/
theorem name_first {n : Str} (h : NameGood n) :
    Macro (run init n) n [] n none ∧ (run init n).esc = false ∧ (run init n).level = 0 := by
  obtain ⟨w0, R, hw0, hw0m, hgw, htext, _, hnoand, hflat, hend, hnc⟩ := nameGood_shape h
  obtain ⟨f1, f2, f3, _⟩ := run_startWs w0 (m := init) rfl hw0m
  have hes : endSt false 0 w0 = ((run init w0).esc, (run init w0).level) := endSt_run init w0
  rw [hes] at hgw
  have hN : NoClose (run init w0).esc (run init w0).level (runsText R) := by
    rw [htext] at hnc
    have := (noClose_append hnc).2
    rw [hes] at this; exact this
  have hM : Macro (run init w0) w0 [] w0 none := by
    refine ⟨[], w0, ⟨by simp [flat], by rw [run_pos]; simp [init], by rw [f3]; simp [flat, init],
      by rw [f2]; simp [spansFrom, init]⟩, rfl, rfl, by rw [f1]; rfl⟩
  have hres := macro_run R _ _ _ _ _ hM hgw hN
  rw [refState_noAnd _ _ hnoand, ← hflat, ← run_append, ← htext] at hres
  refine ⟨by simpa using hres, ?_, ?_⟩
  · have := run_adv n init
    rw [show init.esc = false from rfl, show init.level = 0 from rfl, hend] at this
    exact (Prod.mk.inj this).1
  · have := run_adv n init
    rw [show init.esc = false from rfl, show init.level = 0 from rfl, hend] at this
    exact (Prod.mk.inj this).2

theorem sep_marks : AllMark true false 0 [' '] ∧ AllMark false false 0 ['a', 'n', 'd'] ∧
    endSt false 0 [' '] = (false, 0) ∧ endSt false 0 ['a', 'n', 'd'] = (false, 0) := by
  refine ⟨?_, ?_, ?_, ?_⟩ <;> simp [AllMark, endSt, adv, isTopWs, isWs]

/-- a further name: ` and ` closes the current piece, the name becomes the open piece -/
theorem name_next {m : M} {cs : Str} {emitted : List Str} {cur n : Str}
    (hM : Macro m cs emitted cur none) (he : m.esc = false) (hl : m.level = 0) (h : NameGood n) :
    Macro (run m (" and ".toList ++ n)) (cs ++ (" and ".toList ++ n)) (emitted ++ [cur]) n none ∧
      (run m (" and ".toList ++ n)).esc = false ∧ (run m (" and ".toList ++ n)).level = 0 := by
  obtain ⟨w0, R, hw0, hw0m, hgw, htext, _, hnoand, hflat, hend, hnc⟩ := nameGood_shape h
  obtain ⟨s1, s2, s3, s4⟩ := sep_marks
  have htxt : " and ".toList ++ n =
      runsText ((true, [' ']) :: (false, ['a', 'n', 'd']) :: (true, [' ']) :: (false, w0) :: R) := by
    rw [htext]; simp [runsText]
  have hG : GW m.esc m.level ((true, [' ']) :: (false, ['a', 'n', 'd']) :: (true, [' ']) :: (false, w0) :: R) := by
    rw [he, hl]
    simp only [GW, s3, s4]
    exact ⟨trivial, trivial, by simp, s1, by simp, s2, trivial, trivial, by simp, s1, hw0, hw0m, hgw⟩
  have hN : NoClose m.esc m.level (" and ".toList ++ n) := by
    rw [he, hl]
    apply noClose_of_append
    · simp [NoClose, unmatchedClose]
    · have : endSt false 0 " and ".toList = (false, 0) := by simp [endSt, adv]
      rw [this]; exact hnc
  have hstate : (run m (" and ".toList ++ n)).esc = false ∧ (run m (" and ".toList ++ n)).level = 0 := by
    have := run_adv (" and ".toList ++ n) m
    rw [he, hl, endSt_append] at this
    have h5 : endSt false 0 " and ".toList = (false, 0) := by simp [endSt, adv]
    rw [h5, hend] at this
    exact ⟨(Prod.mk.inj this).1, (Prod.mk.inj this).2⟩
  refine ⟨?_, hstate⟩
  rw [htxt] at hN ⊢
  have hres := macro_run _ _ _ _ _ _ hM hG hN
  have hst : refState cur none (pairUp ((true, [' ']) :: (false, ['a', 'n', 'd']) :: (true, [' ']) :: (false, w0) :: R))
      = ([cur], n, none) := by
    simp only [pairUp, refState]
    have : isAndWord ['a', 'n', 'd'] = true := by decide
    simp only [this, if_true]
    rw [refState_noAnd _ _ hnoand, ← hflat, ← htext]
  rw [hst] at hres
  exact hres

/-- `" and ".join(n :: rest)` -/
theorem join_cons (n : Str) (rest : List Str) :
    join (n :: rest) = n ++ (rest.map fun x => " and ".toList ++ x).flatten := by
  induction rest generalizing n with
  | nil => simp [join, joinWith]
  | cons y r ih =>
    have := ih y
    simp only [join] at this ⊢
    simp only [joinWith, this]
    simp

theorem join_last (n : Str) (rest : List Str) : ∃ z, z ∈ n :: rest ∧ ∃ pre, join (n :: rest) = pre ++ z := by
  induction rest generalizing n with
  | nil => exact ⟨n, by simp, [], by simp [join, joinWith]⟩
  | cons y r ih =>
    obtain ⟨z, hz, pre, hp⟩ := ih y
    refine ⟨z, by simp at hz ⊢; rcases hz with hz | hz <;> simp [hz], n ++ " and ".toList ++ pre, ?_⟩
    simp only [join] at hp ⊢
    simp only [joinWith, hp]; simp

/-- all the further names -/
theorem names_rest (rest : List Str) : ∀ {m : M} {cs : Str} {emitted : List Str} {cur : Str},
    Macro m cs emitted cur none → m.esc = false → m.level = 0 → (∀ x ∈ rest, NameGood x) →
    ∃ m' cs', m' = run m (rest.map fun x => " and ".toList ++ x).flatten ∧
      cs' = cs ++ (rest.map fun x => " and ".toList ++ x).flatten ∧
      ∃ l tail, Base m' cs' l tail ∧ l.map Prod.fst ++ [tail] = emitted ++ cur :: rest := by
  induction rest with
  | nil =>
    intro m cs emitted cur hM _ _ _
    obtain ⟨l, tail, hb, hres⟩ := macro_final hM
    exact ⟨m, cs, by simp [run], by simp, l, tail, hb, by simpa [refFinish] using hres⟩
  | cons y r ih =>
    intro m cs emitted cur hM he hl hall
    obtain ⟨hM', he', hl'⟩ := name_next hM he hl (hall y (by simp))
    obtain ⟨m', cs', e1, e2, l, tail, hb, hres⟩ := ih hM' he' hl' (fun x hx => hall x (by simp [hx]))
    refine ⟨m', cs', ?_, ?_, l, tail, hb, by rw [hres]; simp⟩
    · rw [e1, ← run_append]; congr 1
    · rw [e2]; simp

theorem stripWs_id (s : Str) (c0 : Char) (r0 : Str) (hs : s = c0 :: r0) (hc0 : isWs c0 = false)
    (hlast : ∀ c, s.getLast? = some c → isWs c = false) : stripWs s = s := by
  unfold stripWs
  have h1 : s.dropWhile isWs = s := by rw [hs]; simp [hc0]
  rw [h1]
  obtain ⟨i, x, hx, _⟩ := NameP.snoc_of_ne_nil s (by rw [hs]; simp)
  have hxw : isWs x = false := hlast x (by rw [hx]; simp)
  rw [hx]
  simp [hxw]

/-- **names joined with " and " are split exactly where they were joined** -/
theorem split_join (ns : List Str) (h : ∀ n ∈ ns, NameGood n) : split (join ns) = ns := by
  cases ns with
  | nil => simp [join, joinWith, split, stripWs]
  | cons n rest =>
    have hn := h n (by simp)
    obtain ⟨hM, he, hl⟩ := name_first hn
    obtain ⟨m', cs', e1, e2, l, tail, hb, hres⟩ :=
      names_rest rest hM he hl (fun x hx => h x (by simp [hx]))
    rw [← run_append, ← join_cons] at e1
    rw [← join_cons] at e2
    subst e1; subst e2
    -- the joined text is trimmed
    obtain ⟨hne, htrim, _, _, _⟩ := hn
    obtain ⟨c0, r0, ht⟩ : ∃ c0 r0, n = c0 :: r0 := by
      cases n with
      | nil => exact absurd rfl hne
      | cons c r => exact ⟨c, r, rfl⟩
    have hc0 : isWs c0 = false := stripWs_head n c0 r0 (by rw [htrim]; exact ht)
    have hJ : join (n :: rest) = c0 :: (r0 ++ (rest.map fun x => " and ".toList ++ x).flatten) := by
      rw [join_cons, ht]; simp
    have hJlast : ∀ c, (join (n :: rest)).getLast? = some c → isWs c = false := by
      intro c hc
      -- the last character of the joined text is the last character of the last name
      have hlastname := join_last n rest
      obtain ⟨z, hz, pre, hp⟩ := hlastname
      obtain ⟨hzne, hztrim, _, _, _⟩ := h z hz
      rw [hp, List.getLast?_append] at hc
      obtain ⟨iz, xz, hxz, _⟩ := NameP.snoc_of_ne_nil z hzne
      have hzl : z.getLast? = some xz := by rw [hxz]; simp
      rw [hzl] at hc
      simp at hc
      subst hc
      exact stripWs_last z xz (by rw [hztrim]; exact hzl)
    have hstrip := stripWs_id _ c0 _ hJ hc0 hJlast
    unfold split
    simp only [hstrip]
    have hne' : (join (n :: rest)).isEmpty = false := by rw [hJ]; rfl
    rw [hne']
    simp only [Bool.false_eq_true, if_false]
    obtain ⟨b1, _, b3, b4⟩ := hb
    rw [spans_pieces b1 b3 b4, hres]
    simp

end Bib.CoAuth
