/-
  C03: the invariant of the splitter automaton that makes the raws tile the input and the
  start lines true.  Helper lemmas only; the property statements are in `Props/C03.lean`.
-/
import BibVerif.Split
namespace Bib

/-- number of newline characters, as an `Int` -/
def nlc (s : Str) : Int := (s.count '\n' : Nat)

theorem nlc_append (a b : Str) : nlc (a ++ b) = nlc a + nlc b := by
  simp [nlc, List.count_append]

theorem nlc_nil : nlc [] = 0 := by simp [nlc]

def isNlTok : Tok → Bool
  | .mark .nl _ => true
  | _ => false

/-- a token contains a newline character iff it is the newline mark (true of lexed input) -/
def NlTok (t : Tok) : Prop := nlc t.lit = if isNlTok t then 1 else 0

variable (P : PyChars)

/-- `pre` is tiled by the raws of `bs` with whitespace gaps, ending exactly at the end of the
last raw; every block's line is the number of newlines before its raw (minus the prepended one). -/
inductive Tiles : List Block → Str → Prop
  | nil : Tiles [] []
  | snoc (bs : List Block) (pre g : Str) (b : Block) :
      Tiles bs pre → allSpace P g → b.line = nlc (pre ++ g) - 1 →
      Tiles (bs ++ [b]) (pre ++ g ++ b.raw)

def pending (s : St) : Str :=
  match s.mode with
  | .top impl _ => rflat impl
  | _ => rflat s.raw

/-- the line recorded for the text not yet attributed to a finished block -/
def startLine (s : St) : Int :=
  match s.mode with
  | .top _ il => il
  | _ => s.blockLine

def Inv (s : St) (cs : List Tok) : Prop :=
  s.err = none →
  ∃ pre carry, allSpace P carry ∧ Tiles P s.out.reverse pre ∧
    flatten cs = pre ++ carry ++ pending s ∧
    s.line = nlc (flatten cs) - 1 ∧ startLine s = nlc (pre ++ carry) - 1

theorem rflat_cons (t : Tok) (ts : List Tok) : rflat (t :: ts) = rflat ts ++ t.lit := by
  simp [rflat, flatten]

theorem flatten_snoc (cs : List Tok) (t : Tok) : flatten (cs ++ [t]) = flatten cs ++ t.lit := by
  simp [flatten]

theorem rflat_nil : rflat [] = [] := by simp [rflat, flatten]

theorem pending_of_not_top {s : St} (h : ∀ impl il, s.mode = .top impl il → False) :
    pending s = rflat s.raw := by
  unfold pending
  split
  · rename_i impl il hm; exact (h impl il hm).elim
  · rfl

theorem startLine_of_not_top {s : St} (h : ∀ impl il, s.mode = .top impl il → False) :
    startLine s = s.blockLine := by
  unfold startLine
  split
  · rename_i impl il hm; exact (h impl il hm).elim
  · rfl

theorem mkEntry_raw (ty key fs l r) : (mkEntry ty key fs l r).raw = r := by
  simp only [mkEntry]; split <;> rfl

theorem mkEntry_line (ty key fs l r) : (mkEntry ty key fs l r).line = l := by
  simp only [mkEntry]; split <;> rfl

/-- the token joins the pending text; nothing is emitted; the start line is kept -/
theorem inv_grow {s s' : St} {cs : List Tok} {t : Tok} (h : Inv P s cs) (he : s.err = none)
    (ho : s'.out = s.out) (hp : pending s' = pending s ++ t.lit)
    (hl : s'.line = s.line + nlc t.lit) (hs : startLine s' = startLine s) :
    Inv P s' (cs ++ [t]) := by
  intro _
  obtain ⟨pre, carry, hc, ht, hf, hln, hst⟩ := h he
  refine ⟨pre, carry, hc, ?_, ?_, ?_, ?_⟩
  · rw [ho]; exact ht
  · rw [flatten_snoc, hf, hp]; simp
  · rw [hl, hln, flatten_snoc, nlc_append]; omega
  · rw [hs, hst]

/-- a block is emitted whose raw is the pending text plus the current token -/
theorem inv_emit {s s' : St} {cs : List Tok} {t : Tok} {b : Block} (h : Inv P s cs)
    (he : s.err = none)
    (ho : s'.out = b :: s.out) (hb : b.raw = pending s ++ t.lit) (hbl : b.line = startLine s)
    (hp : pending s' = []) (hl : s'.line = s.line + nlc t.lit) (hs : startLine s' = s'.line) :
    Inv P s' (cs ++ [t]) := by
  intro _
  obtain ⟨pre, carry, hc, ht, hf, hln, hst⟩ := h he
  refine ⟨pre ++ carry ++ b.raw, [], allSpace_nil P, ?_, ?_, ?_, ?_⟩
  · rw [ho]; simp only [List.reverse_cons]
    exact Tiles.snoc _ _ _ _ ht hc (by rw [hbl, hst])
  · rw [flatten_snoc, hf, hp, hb]; simp
  · rw [hl, hln, flatten_snoc, nlc_append]; omega
  · rw [hs, hl, hln, hb, hf]; simp only [nlc_append, List.append_nil]; omega

/-- emitting a block whose raw is exactly the pending text, without consuming a token -/
theorem inv_emit0 {s s' : St} {cs : List Tok} {b : Block} (h : Inv P s cs) (he : s.err = none)
    (ho : s'.out = b :: s.out) (hb : b.raw = pending s) (hbl : b.line = startLine s)
    (hp : pending s' = []) (hl : s'.line = s.line) (hs : startLine s' = s'.line) :
    Inv P s' cs := by
  intro _
  obtain ⟨pre, carry, hc, ht, hf, hln, hst⟩ := h he
  refine ⟨pre ++ carry ++ b.raw, [], allSpace_nil P, ?_, ?_, ?_, ?_⟩
  · rw [ho]; simp only [List.reverse_cons]
    exact Tiles.snoc _ _ _ _ ht hc (by rw [hbl, hst])
  · rw [hf, hp, hb]; simp
  · rw [hl, hln]
  · rw [hs, hl, hln, hb, hf]; simp only [nlc_append, List.append_nil]

theorem nlc_filter (s : Str) : ((s.filter (· = '\n')).length : Int) = nlc s := by
  unfold nlc
  induction s with
  | nil => simp
  | cons c r ih =>
    by_cases hc : c = '\n'
    · subst hc; simp only [List.filter_cons_of_pos, decide_true, List.length_cons, List.count_cons_self]
      push_cast; rw [ih]
    · have : ('\n' == c) = false := by simpa using fun h => hc h.symm
      simp only [hc, decide_false, Bool.false_eq_true, not_false_eq_true, List.filter_cons_of_neg]
      rw [ih, List.count_cons]; simp [hc]

/-- closing the implicit comment `impl`: the tiling is extended by at most one block and the
rest of the region is whitespace -/
theorem endImplicit_tiles {out : List Block} {pre carry : Str} {impl : List Tok} {il : Int}
    (hc : allSpace P carry) (ht : Tiles P out pre) (hst : il = nlc (pre ++ carry) - 1) :
    ∃ pre' carry', allSpace P carry' ∧ Tiles P (out ++ endImplicit P impl il) pre' ∧
      pre ++ carry ++ rflat impl = pre' ++ carry' := by
  obtain ⟨trail, htr, hreg⟩ := region_decomp P (rflat impl)
  simp only [endImplicit]
  by_cases he : (rstrip P (List.dropWhile P.isSpace (rflat impl))).isEmpty = true
  · have hnil : rstrip P (List.dropWhile P.isSpace (rflat impl)) = [] := by simpa using he
    refine ⟨pre, carry ++ rflat impl, ?_, ?_, by simp⟩
    · apply allSpace_append P hc
      rw [hreg, hnil]
      exact allSpace_append P (allSpace_append P (allSpace_takeWhile P _) (allSpace_nil P)) htr
    · simpa [he] using ht
  · refine ⟨pre ++ (carry ++ (rflat impl).takeWhile P.isSpace) ++
        rstrip P (List.dropWhile P.isSpace (rflat impl)), trail, htr, ?_, ?_⟩
    · simp only [he]
      simp only [Bool.false_eq_true, ↓reduceIte]
      have := Tiles.snoc (P := P) _ _ _
        (Block.live (.impl (rstrip P (List.dropWhile P.isSpace (rflat impl)))
          (il + ((List.takeWhile P.isSpace (rflat impl)).filter (· = '\n')).length)
          (rstrip P (List.dropWhile P.isSpace (rflat impl))) [])) ht
        (allSpace_append P hc (allSpace_takeWhile P (rflat impl)))
        (by simp only [Block.line, Live.line]
            rw [nlc_filter, hst]; simp only [nlc_append]; omega)
      simpa [Block.raw, Live.raw] using this
    · conv => lhs; rw [hreg]
      simp

theorem stepTop_inv {s : St} {cs : List Tok} {impl : List Tok} {il : Int} (t : Tok)
    (hnl : NlTok t) (h : Inv P s cs) (he : s.err = none) (hm : s.mode = .top impl il) :
    Inv P (stepTop P s impl il t) (cs ++ [t]) := by
  have hpend : pending s = rflat impl := by simp [pending, hm]
  have hsl : startLine s = il := by simp [startLine, hm]
  unfold stepTop
  split
  · -- at mark
    rename_i lit
    intro _
    obtain ⟨pre, carry, hc, ht, hf, hln, hst⟩ := h he
    rw [hpend] at hf
    rw [hsl] at hst
    obtain ⟨pre', carry', hc', ht', heq⟩ := endImplicit_tiles P (impl := impl) hc ht hst
    have hnl0 : nlc (Tok.mark Kind.at lit).lit = 0 := by simpa [NlTok, isNlTok] using hnl
    refine ⟨pre', carry', hc', ?_, ?_, ?_, ?_⟩
    · simpa using ht'
    · rw [flatten_snoc, hf, heq]; simp [pending, rflat, flatten]
    · simp only [flatten_snoc, nlc_append, hnl0]; rw [hln]; omega
    · simp only [startLine]
      rw [hln, hf, heq]
  · rename_i lit
    have h1 : nlc (Tok.mark Kind.nl lit).lit = 1 := by simpa [NlTok, isNlTok] using hnl
    exact inv_grow P h he (by simp) (by rw [hpend]; simp [pending, rflat_cons])
      (by simp [h1]) (by rw [hsl]; simp [startLine])
  · rename_i hnat hnnl
    refine inv_grow P h he (by simp) (by rw [hpend]; simp [pending, rflat_cons]) ?_
      (by rw [hsl]; simp [startLine])
    have : isNlTok t = false := by
      cases t with
      | text cs => rfl
      | mark k l => cases k <;> first | rfl | exact absurd rfl (hnnl l)
    have h0 : nlc t.lit = 0 := by simpa [NlTok, this] using hnl
    simp [h0]

theorem abort_inv {s : St} {cs : List Tok} (why : Fail) (h : Inv P s cs) (he : s.err = none)
    (hm : ∀ impl il, s.mode = .top impl il → False) :
    Inv P (abort s why) cs ∧ (abort s why).mode = .top [] s.line ∧ (abort s why).err = none := by
  refine ⟨?_, by simp [abort, toTop], by simp [abort, toTop, he]⟩
  exact inv_emit0 P h he (b := .failed why s.blockLine (rflat s.raw)) (by simp [abort, toTop])
    (by simp [Block.raw, pending_of_not_top hm]) (by simp [Block.line, startLine_of_not_top hm])
    (by simp [abort, toTop, pending, rflat_nil]) (by simp [abort, toTop])
    (by simp [abort, toTop, startLine])

theorem redo_inv {s : St} {cs : List Tok} (t : Tok) (hnl : NlTok t) (why : Fail) (h : Inv P s cs)
    (he : s.err = none) (hm : ∀ impl il, s.mode = .top impl il → False) :
    Inv P (match (abort s why).mode with
           | .top impl il => stepTop P (abort s why) impl il t
           | _ => abort s why) (cs ++ [t]) := by
  obtain ⟨hi, hmode, herr⟩ := abort_inv P why h he hm
  rw [hmode]
  exact stepTop_inv P t hnl hi herr hmode

theorem toTop_inv {s : St} {cs : List Tok} (t : Tok) (b : Block) (h : Inv P s cs)
    (he : s.err = none) (hnl : nlc t.lit = 0)
    (hm : ∀ impl il, s.mode = .top impl il → False) (hb : b.raw = rflat (t :: s.raw))
    (hbl : b.line = s.blockLine) :
    Inv P (toTop { s with raw := t :: s.raw } b) (cs ++ [t]) := by
  apply inv_emit P h he (b := b)
  · simp [toTop]
  · rw [hb, pending_of_not_top hm, rflat_cons]
  · rw [hbl, startLine_of_not_top hm]
  · simp [toTop, pending, rflat_nil]
  · simp [toTop, hnl]
  · simp [toTop, startLine]

theorem absorb_inv {s : St} {cs : List Tok} {m : Mode} (t : Tok) (k : Int) (h : Inv P s cs)
    (he : s.err = none) (hm : s.mode = m) (hnt : ∀ impl il, m = .top impl il → False)
    (hk : nlc t.lit = k) :
    Inv P (absorb { s with line := s.line + k } m t) (cs ++ [t]) := by
  have hnt' : ∀ impl il, s.mode = .top impl il → False := fun a b hh => hnt a b (hm ▸ hh)
  have hp := pending_of_not_top hnt'
  have hs := startLine_of_not_top hnt'
  unfold absorb
  split <;> first
    | exact (hnt _ _ rfl).elim
    | exact inv_grow P h he (by simp) (by rw [hp]; simp [pending, rflat_cons])
        (by simp [hk]) (by rw [hs]; simp [startLine])
    | (refine inv_grow P h he (by simp) ?_ (by simp [hk]) ?_
       · rw [hp]; rename_i hne; simp only [pending]; split
         · rename_i hmm; exact (hnt _ _ (by simpa using hmm ▸ hm.symm)).elim
         · simp [rflat_cons]
       · rw [hs]; simp only [startLine]; split
         · rename_i hmm; exact (hnt _ _ (by simpa using hmm ▸ hm.symm)).elim
         · rfl)

theorem nlc_mark_ne_nl {k : Kind} {l : Str} (hnl : NlTok (.mark k l)) (hk : k ≠ .nl) :
    nlc (Tok.mark k l).lit = 0 := by
  have : isNlTok (.mark k l) = false := by cases k <;> first | rfl | exact absurd rfl hk
  simpa [NlTok, this] using hnl

theorem step_inv (s : St) (cs : List Tok) (t : Tok) (hnl : NlTok t) (h : Inv P s cs) :
    Inv P (step P s t) (cs ++ [t]) := by
  unfold step
  split
  · -- an exception is pending: the state is frozen and the invariant is vacuous
    rename_i herr
    intro hnone
    rw [hnone] at herr; cases herr
  · rename_i herr
    have he : s.err = none := by simpa using herr
    split
    · rename_i impl il hm
      exact stepTop_inv P t hnl h he hm
    · rename_i m hnt
      split
      · -- newline
        rename_i lit
        have h1 : nlc (Tok.mark Kind.nl lit).lit = 1 := by simpa [NlTok, isNlTok] using hnl
        exact absorb_inv P _ 1 h he rfl hnt h1
      · -- text
        rename_i tx
        have h0 : nlc (Tok.text tx).lit = 0 := by simpa [NlTok, isNlTok] using hnl
        have := absorb_inv P (Tok.text tx) 0 h he rfl hnt h0
        simpa using this
      · -- other marks
        rename_i k lit hnnl
        have hk : k ≠ .nl := fun hh => hnnl hh
        have h0 := nlc_mark_ne_nl hnl hk
        have hp := pending_of_not_top hnt
        have hsl := startLine_of_not_top hnt
        have hgrow : ∀ s' : St, s'.out = s.out → s'.raw = Tok.mark k lit :: s.raw →
            s'.line = s.line → s'.blockLine = s.blockLine →
            (∀ impl il, s'.mode = .top impl il → False) → Inv P s' (cs ++ [Tok.mark k lit]) := by
          intro s' ho hr hl hb hnt'
          exact inv_grow P h he ho (by rw [hp, pending_of_not_top hnt', hr, rflat_cons])
            (by rw [hl, h0]; simp) (by rw [hsl, startLine_of_not_top hnt', hb])
        simp only []
        repeat' first
          | exact redo_inv P _ hnl _ h he hnt
          | exact (hnt _ _ ‹_›).elim
          | (intro hh; simp at hh; done)
          | exact toTop_inv P _ _ h he h0 hnt (mkEntry_raw ..) (mkEntry_line ..)
          | (refine toTop_inv P _ _ h he h0 hnt ?_ ?_ <;> (simp [Block.raw, Block.line, Live.raw, Live.line]; done))
          | (refine toTop_inv P _ _ h he h0 hnt ?_ ?_ <;> (split <;> rfl))
          | (refine hgrow _ ?_ ?_ ?_ ?_ ?_ <;> (simp; done))
          | split

theorem foldl_inv (ts : List Tok) (hts : ∀ t ∈ ts, NlTok t) : ∀ (s : St) (cs : List Tok),
    Inv P s cs → Inv P (run P s ts) (cs ++ ts) := by
  induction ts with
  | nil => intro s cs h; simpa [run] using h
  | cons t ts ih =>
    intro s cs h
    have := ih (fun x hx => hts x (List.mem_cons_of_mem _ hx)) (step P s t) (cs ++ [t])
      (step_inv P s cs t (hts t (List.mem_cons_self)) h)
    simpa [run] using this

theorem init_inv : Inv P init [] := by
  intro _
  exact ⟨[], [], allSpace_nil P, by simpa [init] using Tiles.nil,
    by simp [init, pending, rflat, flatten], by simp [init, flatten, nlc], by simp [init, startLine, nlc]⟩

end Bib
