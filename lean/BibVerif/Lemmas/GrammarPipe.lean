/-
  C05 (grammar level), pipeline part: if the blocks the splitter returns carry *source* values whose
  tokens are grammar `Value`s (`RawOK`), the library the default parse stack makes of them - string
  references resolved, one enclosing layer stripped - passes the content side conditions `SideOK`.
-/
import BibVerif.Lemmas.GrammarShapes
namespace Bib.PrintParse
open Bib Bib.Writer Bib.Enclosing Bib.Pipeline Bib.Interpolate

variable {P : PyChars}

/-- a source value (stripped, enclosing still on): its tokens are a `Value`, and its content does not
end in a backslash -/
def SrcValOK (P : PyChars) (x : Str) : Prop :=
  IsValue (lexFrom P false x) ∧ strip P x = x ∧ Reparse.endBS false (stripEnclosing P x).1 = false

/-- what the blocks returned by the splitter have to satisfy -/
def RawOK (P : PyChars) : Block → Prop
  | .live (.entry e) =>
    (∀ c ∈ e.ty, P.isWord c = true) ∧ lower P e.ty = e.ty ∧
    startsWith "comment".toList e.ty = false ∧ startsWith "preamble".toList e.ty = false ∧
    startsWith "string".toList e.ty = false ∧ KeyOK P e.key ∧
    ∀ f ∈ e.fields, KeyOK P f.key ∧ ∃ x, f.value = .str x ∧ SrcValOK P x
  | .live (.string k v _ _ _) => KeyOK P k ∧ ∃ x, v = .str x ∧ SrcValOK P x
  | .live (.preamble v _ _ _) => TextOK P v
  | .live (.expl c _ _ _) => TextOK P c
  | .live (.impl c _ _ _) => noStart P c = true
  | _ => False

theorem rawOK_live {b : Block} (h : RawOK P b) : b.isFailed = false := by
  match b, h with
  | .live _, _ => rfl

/-! ### string resolution -/

/-- every string block of the index is one of the (raw) blocks -/
theorem index_member (bs : List Block) (k : Str) (b : Live) (h : Interpolate.lookup (addAll bs).strings k = some b) :
    ∃ v l r m, b = .string k v l r m ∧ Block.live b ∈ bs := by
  have h1 : Interpolate.lookup (addAll bs).strings k = firstString k bs := by
    simpa [addAll, Lib.empty, Interpolate.lookup] using strings_foldl bs Lib.empty k
  exact firstString_key (by rw [← h1]; exact h)

theorem resolveField_raw (bs : List Block) (hbs : ∀ b ∈ bs, RawOK P b) (f : Field)
    (hf : KeyOK P f.key ∧ ∃ x, f.value = .str x ∧ SrcValOK P x) :
    KeyOK P (resolveField (addAll bs).strings f).key ∧
      ∃ x, (resolveField (addAll bs).strings f).value = .str x ∧ SrcValOK P x := by
  unfold resolveField
  cases hres : resolution (addAll bs).strings f.value with
  | none => exact hf
  | some w =>
    obtain ⟨s, _, _, k, l, r, m, hl⟩ := (resolution_some_iff _ f.value w).mp hres
    obtain ⟨v', l', r', m', hb, hmem⟩ := index_member bs s _ hl
    injection hb with _ hv _ _ _
    subst hv
    have := hbs _ hmem
    exact ⟨hf.1, this.2⟩

theorem resolveBlock_raw (bs : List Block) (hbs : ∀ b ∈ bs, RawOK P b) (b : Block) (hb : RawOK P b) :
    RawOK P (resolveBlock (addAll bs).strings b) := by
  match b, hb with
  | .live (.entry e), hb =>
    obtain ⟨h1, h2, h3, h4, h5, h6, h7⟩ := hb
    refine ⟨h1, h2, h3, h4, h5, h6, ?_⟩
    intro f hf
    simp only [resolveEntry, resolveFields_fst, List.mem_map] at hf
    obtain ⟨g, hg, rfl⟩ := hf
    exact resolveField_raw bs hbs g (h7 g hg)
  | .live (.string _ _ _ _ _), hb => exact hb
  | .live (.preamble _ _ _ _), hb => exact hb
  | .live (.expl _ _ _ _), hb => exact hb
  | .live (.impl _ _ _ _), hb => exact hb

theorem resolveBlock_keys (strings : List (Str × Live)) (bs : List Block) :
    entryKeys (bs.map (resolveBlock strings)) = entryKeys bs ∧
    stringKeys (bs.map (resolveBlock strings)) = stringKeys bs := by
  induction bs with
  | nil => exact ⟨rfl, rfl⟩
  | cons b r ih =>
    rw [List.map_cons, entryKeys_cons, entryKeys_cons, stringKeys_cons, stringKeys_cons, ih.1, ih.2]
    match b with
    | .live (.entry e) => exact ⟨rfl, rfl⟩
    | .live (.string _ _ _ _ _) => exact ⟨rfl, rfl⟩
    | .live (.preamble _ _ _ _) => exact ⟨rfl, rfl⟩
    | .live (.expl _ _ _ _) => exact ⟨rfl, rfl⟩
    | .live (.impl _ _ _ _) => exact ⟨rfl, rfl⟩
    | .failed _ _ _ => exact ⟨rfl, rfl⟩
    | .dupField _ _ => exact ⟨rfl, rfl⟩
    | .dupKey _ p _ => cases p <;> exact ⟨rfl, rfl⟩
    | .mwError _ _ => exact ⟨rfl, rfl⟩

/-! ### enclosing removal -/

theorem allStr_of_raw {fs : List Field} (h : ∀ f ∈ fs, KeyOK P f.key ∧ ∃ x, f.value = .str x ∧ SrcValOK P x) :
    AllStr fs := by
  intro f hf
  obtain ⟨_, x, hx, _⟩ := h f hf
  exact ⟨x, hx⟩

theorem mapBlock_remove_raw (hP : PrintOK P) (b : Block) (hb : RawOK P b) :
    ∃ b', mapBlock true (removeLive P) b = .ok b' ∧ SideOK P b' ∧
      entryKeys [b'] = entryKeys [b] ∧ stringKeys [b'] = stringKeys [b] := by
  match b, hb with
  | .live (.entry e), hb =>
    obtain ⟨h1, h2, h3, h4, h5, h6, h7⟩ := hb
    obtain ⟨md', hmd⟩ := Interpolate.removeFields_allStr P e.fields (allStr_of_raw h7) []
    refine ⟨.live (.entry { e with
        fields := e.fields.map fun f => { f with value := .str (stripEnclosing P (strOf f.value)).1 },
        md := assocSet e.md REMOVED_ENCLOSING_KEY (.dict md') }), by simp [mapBlock, removeLive, removeEntry, hmd],
      ⟨h1, h2, h3, h4, h5, h6, ?_⟩, rfl, rfl⟩
    intro f hf
    simp only [List.mem_map] at hf
    obtain ⟨g, hg, rfl⟩ := hf
    obtain ⟨hk, x, hx, hv⟩ := h7 g hg
    refine ⟨hk, fun v hv' => ?_⟩
    simp only [hx, strOf, Val.str.injEq] at hv'
    subst hv'
    exact valueOK_of_tokens hP x hv.1 hv.2.1 hv.2.2
  | .live (.string k v l r m), hb =>
    obtain ⟨hk, x, rfl, hv⟩ := hb
    refine ⟨_, rfl, ⟨hk, fun s hs => ?_⟩, rfl, rfl⟩
    simp only [Val.str.injEq] at hs
    subst hs
    exact strValOK_of_tokens hP x (isValue_isBal hv.1) hv.2.1 hv.2.2
  | .live (.preamble _ _ _ _), hb => exact ⟨_, rfl, hb, rfl, rfl⟩
  | .live (.expl _ _ _ _), hb => exact ⟨_, rfl, hb, rfl, rfl⟩
  | .live (.impl _ _ _ _), hb => exact ⟨_, rfl, hb, rfl, rfl⟩

theorem sideOK_live {b : Block} (h : SideOK P b) : b.isFailed = false := by
  match b, h with
  | .live _, _ => rfl

theorem removeLib_raw (hP : PrintOK P) (bs : List Block) (h : ∀ b ∈ bs, RawOK P b) :
    ∃ bs', removeLib P true bs = .ok bs' ∧ (∀ b' ∈ bs', SideOK P b') ∧
      entryKeys bs' = entryKeys bs ∧ stringKeys bs' = stringKeys bs := by
  induction bs with
  | nil => exact ⟨[], rfl, (by intro b hb; cases hb), rfl, rfl⟩
  | cons b r ih =>
    obtain ⟨r', hr, hs, he, hk⟩ := ih (fun x hx => h x (List.mem_cons_of_mem _ hx))
    obtain ⟨b', hb', hsb, heb, hkb⟩ := mapBlock_remove_raw hP b (h b List.mem_cons_self)
    simp only [removeLib] at hr ⊢
    refine ⟨b' :: r', by simp [mapBlocks, hb', hr], ?_, ?_, ?_⟩
    · intro x hx
      rcases List.mem_cons.mp hx with rfl | hx
      · exact hsb
      · exact hs x hx
    · rw [show b' :: r' = [b'] ++ r' from rfl, show b :: r = [b] ++ r from rfl, entryKeys_append,
        entryKeys_append, he, heb]
    · rw [show b' :: r' = [b'] ++ r' from rfl, show b :: r = [b] ++ r from rfl, stringKeys_append,
        stringKeys_append, hk, hkb]

/-- **the default parse stack on raw blocks**: the parsed library passes the side conditions -/
theorem parse_raw (hP : PrintOK P) (s : Str) (bs : List Block) (hsplit : split P s = .ok bs)
    (hraw : ∀ b ∈ bs, RawOK P b) (he : (entryKeys bs).Nodup) (hs : (stringKeys bs).Nodup) :
    ∃ L, parseDefault P s = .ok L ∧ ∀ b ∈ L, SideOK P b := by
  have hid := addAll_id bs (fun b hb => rawOK_live (hraw b hb)) he hs
  have htr : (transform (addAll bs)).blocks = bs.map (resolveBlock (addAll bs).strings) := by
    simp only [transform, hid]
  have hraw1 : ∀ b ∈ bs.map (resolveBlock (addAll bs).strings), RawOK P b := by
    intro b hb
    obtain ⟨b0, hb0, rfl⟩ := List.mem_map.mp hb
    exact resolveBlock_raw bs hraw b0 (hraw b0 hb0)
  obtain ⟨bs', hrm, hside, hek, hsk⟩ := removeLib_raw hP _ hraw1
  have hkeys := resolveBlock_keys (addAll bs).strings bs
  have hid' := addAll_id bs' (fun b hb => sideOK_live (hside b hb))
    (by rw [hek, hkeys.1]; exact he) (by rw [hsk, hkeys.2]; exact hs)
  refine ⟨bs', ?_, hside⟩
  simp [parseDefault, defaultParse, hsplit, htr, hrm, hid', Except.map]

end Bib.PrintParse
