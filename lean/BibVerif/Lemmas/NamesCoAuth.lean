/-
  C12 helper lemmas: the invariant of the six-step machine of `split_multiple_persons_names`
  that yields conservation.  The ghost state is a decomposition of the consumed text
  `cs = p₀ ++ s₁ ++ p₁ ++ … ++ sₖ ++ tail` (finished pieces with the separator after each of
  them, then the text since the start of the open span); when the machine is in one of the
  steps FIND_A/N/D/END_WHITESPACE/NEXT_WORD, `tail = piece ++ sp` where `piece` ends at
  `possible_end` and `sp` is a (by the step: which) proper prefix of a separator.
-/
import BibVerif.Names.CoAuthors
namespace Bib.CoAuth

def allWs (s : Str) : Prop := ∀ c ∈ s, isWs c = true
def isA (c : Char) : Bool := c = 'a' || c = 'A'
def isN (c : Char) : Bool := c = 'n' || c = 'N'
def isD (c : Char) : Bool := c = 'd' || c = 'D'

/-- a separator: `ws⁺ [aA][nN][dD] ws⁺` -/
def IsSep (x : Str) : Prop :=
  ∃ w₁ a n d w₂, x = w₁ ++ a :: n :: d :: w₂ ∧ w₁ ≠ [] ∧ w₂ ≠ [] ∧ allWs w₁ ∧ allWs w₂ ∧
    isA a = true ∧ isN n = true ∧ isD d = true

/-- what has been read of a separator when the machine is in the given step -/
def SepPrefix : Step → Str → Prop
  | .startWs, _ => True
  | .findA, x => x ≠ [] ∧ allWs x
  | .findN, x => ∃ w a, x = w ++ [a] ∧ w ≠ [] ∧ allWs w ∧ isA a = true
  | .findD, x => ∃ w a n, x = w ++ [a, n] ∧ w ≠ [] ∧ allWs w ∧ isA a = true ∧ isN n = true
  | .endWs, x => ∃ w a n d, x = w ++ [a, n, d] ∧ w ≠ [] ∧ allWs w ∧ isA a = true ∧ isN n = true ∧
      isD d = true
  | .nextWord, x => IsSep x

/-- pieces, each with the separator that follows it, concatenated -/
def flat (l : List (Str × Str)) : Str := (l.map fun ps => ps.1 ++ ps.2).flatten

/-- the spans of the pieces of `l` when the text starts at offset `off` -/
def spansFrom : Nat → List (Str × Str) → List (Nat × Nat)
  | _, [] => []
  | off, (p, s) :: r => (off, off + p.length) :: spansFrom (off + p.length + s.length) r

theorem flat_nil : flat [] = [] := rfl
theorem flat_cons (p s : Str) (r) : flat ((p, s) :: r) = p ++ s ++ flat r := by simp [flat]
theorem flat_append (l l') : flat (l ++ l') = flat l ++ flat l' := by simp [flat]

theorem spansFrom_append (off : Nat) (l l' : List (Str × Str)) :
    spansFrom off (l ++ l') = spansFrom off l ++ spansFrom (off + (flat l).length) l' := by
  induction l generalizing off with
  | nil => simp [spansFrom, flat]
  | cons x r ih =>
    obtain ⟨p, s⟩ := x
    simp only [List.cons_append, spansFrom, ih, flat_cons, List.length_append]
    simp [Nat.add_assoc]

theorem slices (pre : Str) (l : List (Str × Str)) (rest : Str) :
    (spansFrom pre.length l).map (slice (pre ++ flat l ++ rest)) = l.map Prod.fst := by
  induction l generalizing pre with
  | nil => simp [spansFrom]
  | cons x r ih =>
    obtain ⟨p, s⟩ := x
    simp only [spansFrom, List.map_cons, flat_cons]
    congr 1
    · simp [slice, List.drop_append, List.take_append]
    · have := ih (pre ++ p ++ s)
      simp only [List.length_append, List.append_assoc] at this ⊢
      simpa [Nat.add_assoc] using this

theorem allWs_nil : allWs [] := by simp [allWs]
theorem allWs_snoc {w : Str} {c : Char} (hw : allWs w) (hc : isWs c = true) : allWs (w ++ [c]) := by
  intro x hx
  rcases List.mem_append.mp hx with h | h
  · exact hw x h
  · simp at h; subst h; exact hc
theorem allWs_single {c : Char} (hc : isWs c = true) : allWs [c] := by
  intro x hx; simp at hx; subst hx; exact hc

/-- the part of the invariant that depends on the step -/
def StepInv (m : M) (tail : Str) : Prop :=
  (m.esc = true → m.step = .startWs) ∧
  (m.step ≠ .startWs → ∃ piece sp, tail = piece ++ sp ∧ m.possibleEnd = m.curStart + piece.length ∧
      SepPrefix m.step sp)

/-- invariant of the fold after the characters `cs` -/
def Inv (m : M) (cs : Str) : Prop :=
  ∃ l tail, cs = flat l ++ tail ∧ m.pos = cs.length ∧ m.curStart = (flat l).length ∧
    m.done.reverse = spansFrom 0 l ∧ (∀ ps ∈ l, IsSep ps.2) ∧ StepInv m tail

theorem inv_init : Inv init [] :=
  ⟨[], [], by simp [flat], rfl, by simp [flat, init], by simp [spansFrom, init], by simp,
    by simp [StepInv, init]⟩

/-- the step falls back to START_WHITESPACE (or stays there); spans untouched -/
theorem inv_reset {m m' : M} {cs : Str} (c : Char) (h : Inv m cs)
    (hp : m'.pos = m.pos + 1) (hs : m'.step = .startWs) (hc : m'.curStart = m.curStart)
    (hd : m'.done = m.done) : Inv m' (cs ++ [c]) := by
  obtain ⟨l, tail, h1, h2, h3, h4, h5, _⟩ := h
  refine ⟨l, tail ++ [c], by rw [h1]; simp, by simp [hp, h2], by rw [hc, h3], by rw [hd, h4], h5, ?_⟩
  exact ⟨fun _ => hs, fun hne => absurd hs hne⟩

/-- the step advances inside a separator prefix (or starts one) -/
theorem inv_ext {m m' : M} {cs : Str} (c : Char) (h : Inv m cs)
    (hp : m'.pos = m.pos + 1) (he : m'.esc = false) (hc : m'.curStart = m.curStart)
    (hd : m'.done = m.done)
    (hx : ∀ tail, StepInv m tail → m.pos = m.curStart + tail.length →
      ∃ piece sp, tail ++ [c] = piece ++ sp ∧
      m'.possibleEnd = m.curStart + piece.length ∧ SepPrefix m'.step sp) :
    Inv m' (cs ++ [c]) := by
  obtain ⟨l, tail, h1, h2, h3, h4, h5, h6⟩ := h
  refine ⟨l, tail ++ [c], by rw [h1]; simp, by simp [hp, h2], by rw [hc, h3], by rw [hd, h4], h5, ?_⟩
  refine ⟨fun h => by simp [he] at h, fun _ => ?_⟩
  obtain ⟨piece, sp, e1, e2, e3⟩ := hx tail h6 (by rw [h2, h3, h1]; simp)
  exact ⟨piece, sp, e1, by rw [hc]; exact e2, e3⟩

/-- in NEXT_WORD the current character opens a new span -/
theorem inv_newSpan {m m' : M} {cs : Str} (c : Char) (h : Inv m cs) (hn : m.step = .nextWord)
    (hp : m'.pos = m.pos + 1) (hs : m'.step = .startWs) (hc : m'.curStart = m.pos)
    (hd : m'.done = (m.curStart, m.possibleEnd) :: m.done) : Inv m' (cs ++ [c]) := by
  obtain ⟨l, tail, h1, h2, h3, h4, h5, h6⟩ := h
  obtain ⟨piece, sp, e1, e2, e3⟩ := h6.2 (by simp [hn])
  rw [hn] at e3
  refine ⟨l ++ [(piece, sp)], [c], ?_, by simp [hp, h2], ?_, ?_, ?_, ?_⟩
  · rw [h1, e1, flat_append]; simp [flat]
  · rw [hc, h2, h1, e1, flat_append]; simp [flat]
  · rw [hd, List.reverse_cons, h4, spansFrom_append]
    simp [spansFrom, h3, e2]
  · intro ps hps
    rcases List.mem_append.mp hps with h | h
    · exact h5 ps h
    · simp at h; subst h; exact e3
  · exact ⟨fun _ => hs, fun hne => absurd hs hne⟩


theorem isSep_snoc {x : Str} {c : Char} (h : IsSep x) (hc : isWs c = true) : IsSep (x ++ [c]) := by
  obtain ⟨w₁, a, n, d, w₂, e, h1, h2, h3, h4, h5⟩ := h
  exact ⟨w₁, a, n, d, w₂ ++ [c], by rw [e]; simp, h1, by simp, h3, allWs_snoc h4 hc, h5⟩

/-- the six-way chain preserves the invariant -/
theorem inv_plain {m : M} {cs : Str} (c : Char) (h : Inv m cs) (he : m.esc = false) :
    Inv (plainStep { m with pos := m.pos + 1, esc := false } m.pos c) (cs ++ [c]) := by
  unfold plainStep
  cases hst : m.step <;> simp only [hst]
  · -- START_WHITESPACE
    by_cases hw : isWs c = true
    · rw [if_pos hw]
      refine inv_ext c h rfl rfl rfl rfl ?_
      intro tail _ hpos
      exact ⟨tail, [c], rfl, hpos, by simp, allWs_single hw⟩
    · rw [if_neg hw]
      exact inv_reset c h rfl rfl rfl rfl
  · -- FIND_A
    by_cases ha : (c = 'a' || c = 'A') = true
    · rw [if_pos ha]
      refine inv_ext c h rfl rfl rfl rfl ?_
      intro tail hsi _
      obtain ⟨piece, sp, e1, e2, e3⟩ := hsi.2 (by simp [hst])
      rw [hst] at e3
      exact ⟨piece, sp ++ [c], by rw [e1]; simp, e2, sp, c, rfl, e3.1, e3.2, ha⟩
    · rw [if_neg ha]
      by_cases hw : isWs c = true
      · rw [if_pos hw]
        refine inv_ext c h rfl rfl rfl rfl ?_
        intro tail hsi _
        obtain ⟨piece, sp, e1, e2, e3⟩ := hsi.2 (by simp [hst])
        rw [hst] at e3
        refine ⟨piece, sp ++ [c], by rw [e1]; simp, e2, ?_⟩
        simp only [hst]
        exact ⟨by simp, allWs_snoc e3.2 hw⟩
      · rw [if_neg hw]
        exact inv_reset c h rfl rfl rfl rfl
  · -- FIND_N
    by_cases hn : (c = 'n' || c = 'N') = true
    · rw [if_pos hn]
      refine inv_ext c h rfl rfl rfl rfl ?_
      intro tail hsi _
      obtain ⟨piece, sp, e1, e2, e3⟩ := hsi.2 (by simp [hst])
      rw [hst] at e3
      obtain ⟨w, a, e, h1, h2, h3⟩ := e3
      exact ⟨piece, sp ++ [c], by rw [e1]; simp, e2, w, a, c, by rw [e]; simp, h1, h2, h3, hn⟩
    · rw [if_neg hn]
      by_cases hw : isWs c = true
      · rw [if_pos hw]
        refine inv_ext c h rfl rfl rfl rfl ?_
        intro tail _ hpos
        exact ⟨tail, [c], rfl, hpos, by simp, allWs_single hw⟩
      · rw [if_neg hw]
        exact inv_reset c h rfl rfl rfl rfl
  · -- FIND_D
    by_cases hd : (c = 'd' || c = 'D') = true
    · rw [if_pos hd]
      refine inv_ext c h rfl rfl rfl rfl ?_
      intro tail hsi _
      obtain ⟨piece, sp, e1, e2, e3⟩ := hsi.2 (by simp [hst])
      rw [hst] at e3
      obtain ⟨w, a, n, e, h1, h2, h3, h4⟩ := e3
      exact ⟨piece, sp ++ [c], by rw [e1]; simp, e2, w, a, n, c, by rw [e]; simp, h1, h2, h3, h4, hd⟩
    · rw [if_neg hd]
      by_cases hw : isWs c = true
      · rw [if_pos hw]
        refine inv_ext c h rfl rfl rfl rfl ?_
        intro tail _ hpos
        exact ⟨tail, [c], rfl, hpos, by simp, allWs_single hw⟩
      · rw [if_neg hw]
        exact inv_reset c h rfl rfl rfl rfl
  · -- END_WHITESPACE
    by_cases hw : isWs c = true
    · rw [if_pos hw]
      refine inv_ext c h rfl rfl rfl rfl ?_
      intro tail hsi _
      obtain ⟨piece, sp, e1, e2, e3⟩ := hsi.2 (by simp [hst])
      rw [hst] at e3
      obtain ⟨w, a, n, d, e, h1, h2, h3, h4, h5⟩ := e3
      exact ⟨piece, sp ++ [c], by rw [e1]; simp, e2, w, a, n, d, [c], by rw [e]; simp, h1, by simp, h2,
        allWs_single hw, h3, h4, h5⟩
    · rw [if_neg hw]
      exact inv_reset c h rfl rfl rfl rfl
  · -- NEXT_WORD
    by_cases hw : isWs c = true
    · rw [if_pos hw]
      refine inv_ext c h rfl rfl rfl rfl ?_
      intro tail hsi _
      obtain ⟨piece, sp, e1, e2, e3⟩ := hsi.2 (by simp [hst])
      rw [hst] at e3
      refine ⟨piece, sp ++ [c], by rw [e1]; simp, e2, ?_⟩
      simp only [hst]
      exact isSep_snoc e3 hw
    · rw [if_neg hw]
      exact inv_newSpan c h hst rfl rfl rfl rfl

theorem inv_step {m : M} {cs : Str} (c : Char) (h : Inv m cs) : Inv (stepc m c) (cs ++ [c]) := by
  unfold stepc
  simp only
  by_cases he : m.esc = true
  · simp only [he, if_true]
    have hs : m.step = .startWs := by obtain ⟨_, _, _, _, _, _, _, h6⟩ := h; exact h6.1 he
    exact inv_reset c h rfl hs rfl rfl
  · have he' : m.esc = false := by simpa using he
    simp only [he', Bool.false_eq_true, if_false]
    by_cases h1 : c = '\\'
    · simp only [h1, if_true]
      by_cases hn : m.step = .nextWord
      · simp only [hn, if_true]
        exact inv_newSpan _ h hn rfl rfl rfl rfl
      · simp only [hn, if_false]
        exact inv_reset _ h rfl rfl rfl rfl
    · simp only [h1, if_false]
      by_cases h2 : c = '{'
      · simp only [h2, if_true]
        by_cases hn : m.step = .nextWord
        · simp only [hn, if_true]
          exact inv_newSpan _ h hn rfl rfl rfl rfl
        · simp only [hn, if_false]
          exact inv_reset _ h rfl rfl rfl rfl
      · simp only [h2, if_false]
        by_cases h3 : c = '}'
        · simp only [h3, if_true]
          exact inv_reset _ h rfl rfl rfl rfl
        · simp only [h3, if_false]
          by_cases h4 : m.level > 0
          · simp only [h4, if_true]
            exact inv_reset _ h rfl rfl rfl rfl
          · simp only [h4, if_false]
            exact inv_plain c h he'

theorem inv_run (t : Str) : ∀ (m : M) (cs : Str), Inv m cs → Inv (run m t) (cs ++ t) := by
  induction t with
  | nil => intro m cs h; simpa [run] using h
  | cons c r ih =>
    intro m cs h
    have := ih (stepc m c) (cs ++ [c]) (inv_step c h)
    simpa [run] using this

/-- the pieces cut out by the final spans are the pieces of the ghost decomposition -/
theorem spans_pieces {t : Str} {l : List (Str × Str)} {tail : Str} (h1 : t = flat l ++ tail)
    (h3 : (run init t).curStart = (flat l).length) (h4 : (run init t).done.reverse = spansFrom 0 l) :
    (spans t).map (slice t) = l.map Prod.fst ++ [tail] := by
  unfold spans
  simp only [List.reverse_cons, List.map_append, List.map_cons, List.map_nil]
  rw [h4]
  congr 1
  · have := slices [] l tail
    simp only [List.length_nil, List.nil_append] at this
    rw [← h1] at this
    exact this
  · rw [h3]
    subst h1
    simp [slice]

/-! ### `strip(" \r\n\t")` -/

theorem stripWs_decomp (s : Str) :
    ∃ lead trail, allWs lead ∧ allWs trail ∧ s = lead ++ stripWs s ++ trail := by
  refine ⟨s.takeWhile isWs, ((s.dropWhile isWs).reverse.takeWhile isWs).reverse, ?_, ?_, ?_⟩
  · intro c hc; exact mem_takeWhile_imp hc
  · intro c hc; exact mem_takeWhile_imp (List.mem_reverse.mp hc)
  · unfold stripWs
    rw [List.append_assoc, ← List.reverse_append, List.takeWhile_append_dropWhile, List.reverse_reverse,
      List.takeWhile_append_dropWhile]

theorem stripWs_head (s : Str) (c : Char) (r : Str) (h : stripWs s = c :: r) : isWs c = false := by
  have hd : s.dropWhile isWs = stripWs s ++ ((s.dropWhile isWs).reverse.takeWhile isWs).reverse := by
    unfold stripWs
    rw [← List.reverse_append, List.takeWhile_append_dropWhile, List.reverse_reverse]
  rw [h] at hd
  have := List.head?_dropWhile_not isWs s
  rw [hd] at this
  simpa using this

theorem stripWs_last (s : Str) (c : Char) (h : (stripWs s).getLast? = some c) : isWs c = false := by
  unfold stripWs at h
  rw [List.getLast?_reverse] at h
  have := List.head?_dropWhile_not isWs (s.dropWhile isWs).reverse
  rw [h] at this
  exact this

end Bib.CoAuth
