/-
  C05 (parsed ⇒ writable), splitter invariants: every block the splitter returns has stripped keys
  and - for plain entries - pairwise distinct field keys; implicit comments are non-empty, stripped and
  never adjacent.
-/
import BibVerif.Split
import BibVerif.Lemmas.PrintParseDefs
namespace Bib.PrintParse
open Bib

variable (P : PyChars)

/-! ### `strip` is idempotent -/

theorem dropWhile_head_false {α} (p : α → Bool) (l : List α) (c : α) (r : List α)
    (h : l.dropWhile p = c :: r) : p c = false := by
  induction l with
  | nil => simp at h
  | cons a t ih =>
    by_cases ha : p a = true
    · simp only [List.dropWhile_cons, ha, ↓reduceIte] at h; exact ih h
    · simp only [List.dropWhile_cons, ha, Bool.false_eq_true, ↓reduceIte] at h
      injection h with h1 _; subst h1; simpa using ha

theorem dropWhile_of_head_false {α} (p : α → Bool) (c : α) (r : List α) (h : p c = false) :
    (c :: r).dropWhile p = c :: r := by simp [h]

theorem lstrip_idem (s : Str) : lstrip P (lstrip P s) = lstrip P s := by
  unfold lstrip
  cases h : s.dropWhile P.isSpace with
  | nil => rfl
  | cons c r => exact dropWhile_of_head_false _ c r (dropWhile_head_false _ s c r h)

theorem rstrip_idem (s : Str) : rstrip P (rstrip P s) = rstrip P s := by
  unfold rstrip
  rw [List.reverse_reverse]
  have := lstrip_idem P s.reverse
  simp only [lstrip] at this
  rw [this]

/-- `rstrip` of a text that starts with a non-space character still starts with it -/
theorem lstrip_rstrip (y : Str) (hy : lstrip P y = y) : lstrip P (rstrip P y) = rstrip P y := by
  cases y with
  | nil => simp [rstrip, lstrip]
  | cons c r =>
    have hc : P.isSpace c = false := by
      cases hcs : P.isSpace c with
      | false => rfl
      | true =>
        have hlen : (lstrip P (c :: r)).length ≤ r.length := by
          simp only [lstrip, List.dropWhile_cons, hcs, ↓reduceIte]
          exact (List.dropWhile_sublist _).length_le
        rw [hy] at hlen; simp at hlen; omega
    -- rstrip (c :: r) is a prefix of c :: r; it is empty or starts with c
    have hpre : ∃ t, rstrip P (c :: r) ++ t = c :: r := by
      unfold rstrip
      refine ⟨((c :: r).reverse.takeWhile P.isSpace).reverse, ?_⟩
      rw [← List.reverse_append, List.takeWhile_append_dropWhile, List.reverse_reverse]
    obtain ⟨t, ht⟩ := hpre
    cases hr : rstrip P (c :: r) with
    | nil => simp [lstrip]
    | cons d r' =>
      rw [hr] at ht
      simp only [List.cons_append, List.cons.injEq] at ht
      rw [ht.1]; simp [lstrip, hc]

theorem strip_idem (s : Str) : strip P (strip P s) = strip P s := by
  unfold strip
  rw [lstrip_rstrip P (lstrip P s) (lstrip_idem P s), rstrip_idem]

/-! ### duplicate detection -/

theorem dupKeysGo_mono (fs : List Field) : ∀ (seen dups : List Str), dups ≠ [] → dupKeysGo seen dups fs ≠ [] := by
  induction fs with
  | nil => intro seen dups h; exact h
  | cons f r ih =>
    intro seen dups h
    simp only [dupKeysGo]
    split
    · apply ih
      split
      · exact h
      · simp
    · exact ih _ _ h

theorem nodup_of_dupKeysGo_nil (fs : List Field) : ∀ (seen : List Str), dupKeysGo seen [] fs = [] →
    (fs.map (·.key)).Nodup ∧ ∀ f ∈ fs, f.key ∉ seen := by
  induction fs with
  | nil => intro seen _; exact ⟨List.nodup_nil, fun f hf => by cases hf⟩
  | cons f r ih =>
    intro seen h
    simp only [dupKeysGo] at h
    by_cases hc : seen.contains f.key = true
    · simp only [hc, ↓reduceIte, List.contains_nil, Bool.false_eq_true, List.nil_append] at h
      exact absurd h (dupKeysGo_mono r seen [f.key] (by simp))
    · simp only [hc, Bool.false_eq_true, ↓reduceIte] at h
      obtain ⟨hnd, hfresh⟩ := ih (f.key :: seen) h
      refine ⟨?_, ?_⟩
      · simp only [List.map_cons, List.nodup_cons]
        refine ⟨?_, hnd⟩
        intro hm
        obtain ⟨g, hg, hgk⟩ := List.mem_map.mp hm
        exact hfresh g hg (by rw [hgk]; exact List.mem_cons_self)
      · intro g hg
        rcases List.mem_cons.mp hg with rfl | hg
        · simpa using hc
        · exact fun hm => hfresh g hg (List.mem_cons_of_mem _ hm)

theorem nodup_of_dupKeys_nil (fs : List Field) (h : (dupKeys fs).isEmpty = true) : (fs.map (·.key)).Nodup :=
  (nodup_of_dupKeysGo_nil fs [] (by simpa [dupKeys] using h)).1

/-! ### the key invariant -/

def StripK (k : Str) : Prop := strip P k = k

def FsOK (fs : List Field) : Prop := ∀ f ∈ fs, StripK P f.key

/-- what holds of every block the splitter emits -/
def BInv : Block → Prop
  | .live (.entry e) => StripK P e.ty ∧ StripK P e.key ∧ FsOK P e.fields ∧ (e.fields.map (·.key)).Nodup
  | .live (.string k _ _ _ _) => StripK P k
  | .live (.expl c _ _ _) => StripK P c
  | .live (.impl c _ _ _) => c ≠ [] ∧ StripK P c
  | _ => True

def MInv : Mode → Prop
  | .afterAt _ ty => StripK P ty
  | .entKey ty _ => StripK P ty
  | .fldKey ty key fs _ => StripK P ty ∧ StripK P key ∧ FsOK P fs
  | .fldVal ty key fs fk _ _ _ _ _ => StripK P ty ∧ StripK P key ∧ FsOK P fs ∧ StripK P fk
  | .strVal key _ _ => StripK P key
  | _ => True

def KInv (s : St) : Prop := (∀ b ∈ s.out, BInv P b) ∧ MInv P s.mode

theorem stripK_strip (s : Str) : StripK P (strip P s) := strip_idem P s
theorem stripK_nil : StripK P [] := by simp [StripK, strip, lstrip, rstrip]

theorem fsOK_nil : FsOK P [] := by intro f hf; cases hf

theorem fsOK_snoc {fs : List Field} (h : FsOK P fs) (k : Str) (v : Val) (l : Int) (hk : StripK P k) :
    FsOK P (fs ++ [⟨k, v, l⟩]) := by
  intro f hf
  rcases List.mem_append.mp hf with hf | hf
  · exact h f hf
  · simp only [List.mem_singleton] at hf; subst hf; exact hk

theorem binv_mkEntry (ty key : Str) (fs : List Field) (l : Int) (r : Str) (hty : StripK P ty)
    (hk : StripK P key) (hfs : FsOK P fs) : BInv P (mkEntry ty key fs l r) := by
  unfold mkEntry
  simp only
  split
  · rename_i h; exact ⟨hty, hk, hfs, nodup_of_dupKeys_nil fs h⟩
  · trivial

theorem binv_cons {b : Block} {out : List Block} (hb : BInv P b) (h : ∀ x ∈ out, BInv P x) :
    ∀ x ∈ b :: out, BInv P x := by
  intro x hx
  rcases List.mem_cons.mp hx with rfl | hx
  · exact hb
  · exact h x hx

theorem binv_endImplicit (impl : List Tok) (il : Int) (out : List Block) (h : ∀ x ∈ out, BInv P x) :
    ∀ x ∈ (endImplicit P impl il).reverse ++ out, BInv P x := by
  intro b hb
  rcases List.mem_append.mp hb with hb | hb
  · simp only [endImplicit] at hb
    split at hb
    · simp at hb
    · rename_i hne
      simp only [List.reverse_cons, List.reverse_nil, List.nil_append, List.mem_singleton] at hb
      subst hb
      refine ⟨by simpa using hne, ?_⟩
      exact strip_idem P (rflat impl)
  · exact h b hb

theorem classify_stripK (lit : Str) : StripK P (classify P lit).2 := by
  unfold classify
  simp only
  split
  · exact stripK_nil P
  · split
    · exact stripK_nil P
    · split
      · exact stripK_nil P
      · exact stripK_strip P _

theorem stepTop_kinv (s : St) (impl : List Tok) (il : Int) (t : Tok) (h : ∀ b ∈ s.out, BInv P b) :
    KInv P (stepTop P s impl il t) := by
  unfold stepTop
  split
  · exact ⟨binv_endImplicit P impl il s.out h, classify_stripK P _⟩
  · exact ⟨h, trivial⟩
  · exact ⟨h, trivial⟩

theorem absorb_kinv (s' : St) (m : Mode) (t : Tok) (hout : ∀ b ∈ s'.out, BInv P b) (hm : MInv P m)
    (hs : MInv P s'.mode) : KInv P (absorb s' m t) := by
  cases m <;> first | exact ⟨hout, hm⟩ | exact ⟨hout, hs⟩

theorem step_kinv (s : St) (t : Tok) (h : KInv P s) : KInv P (step P s t) := by
  obtain ⟨hout, hmode⟩ := h
  unfold step
  split
  · exact ⟨hout, hmode⟩
  · have hredo : ∀ why : Fail,
        KInv P (match (abort s why).mode with
          | .top impl il => stepTop P (abort s why) impl il t
          | _ => abort s why) := by
      intro why
      have hmode' : (abort s why).mode = .top [] s.line := by simp [abort, toTop]
      rw [hmode']
      exact stepTop_kinv P _ _ _ t (by
        simp only [abort, toTop]
        exact binv_cons P (by trivial) hout)
    cases hmd : s.mode with
    | top impl il => exact stepTop_kinv P s _ _ t hout
    | afterAt bk ty =>
      rw [hmd] at hmode
      split
      · rename_i heq; cases heq
      split
      · exact absorb_kinv P _ _ _ hout hmode (by first | exact hmode | (show MInv P s.mode; rw [hmd]; exact hmode))
      · exact absorb_kinv P _ _ _ hout hmode (by first | exact hmode | (show MInv P s.mode; rw [hmd]; exact hmode))
      · simp only []
        repeat' first
          | exact ⟨hout, trivial⟩
          | exact ⟨hout, hmode⟩
          | split
    | bracket bk d b =>
      rw [hmd] at hmode
      split
      · rename_i heq; cases heq
      split
      · exact absorb_kinv P _ _ _ hout hmode (by first | exact hmode | (show MInv P s.mode; rw [hmd]; exact hmode))
      · exact absorb_kinv P _ _ _ hout hmode (by first | exact hmode | (show MInv P s.mode; rw [hmd]; exact hmode))
      · simp only []
        repeat' first
          | exact hredo _
          | exact ⟨hout, trivial⟩
          | (refine ⟨binv_cons P ?_ hout, trivial⟩; split <;> first | exact stripK_strip P _ | trivial)
          | split
    | strKey key =>
      rw [hmd] at hmode
      split
      · rename_i heq; cases heq
      split
      · exact absorb_kinv P _ _ _ hout hmode (by first | exact hmode | (show MInv P s.mode; rw [hmd]; exact hmode))
      · exact absorb_kinv P _ _ _ hout hmode (by first | exact hmode | (show MInv P s.mode; rw [hmd]; exact hmode))
      · simp only []
        repeat' first
          | exact hredo _
          | exact ⟨hout, stripK_strip P _⟩
          | exact ⟨hout, trivial⟩
          | split
    | strVal key d v =>
      rw [hmd] at hmode
      split
      · rename_i heq; cases heq
      split
      · exact absorb_kinv P _ _ _ hout hmode (by first | exact hmode | (show MInv P s.mode; rw [hmd]; exact hmode))
      · exact absorb_kinv P _ _ _ hout hmode (by first | exact hmode | (show MInv P s.mode; rw [hmd]; exact hmode))
      · simp only []
        repeat' first
          | exact hredo _
          | exact ⟨hout, hmode⟩
          | exact ⟨binv_cons P hmode hout, trivial⟩
          | split
    | entKey ty key =>
      rw [hmd] at hmode
      split
      · rename_i heq; cases heq
      split
      · exact absorb_kinv P _ _ _ hout hmode (by first | exact hmode | (show MInv P s.mode; rw [hmd]; exact hmode))
      · exact absorb_kinv P _ _ _ hout hmode (by first | exact hmode | (show MInv P s.mode; rw [hmd]; exact hmode))
      · simp only []
        repeat' first
          | exact hredo _
          | exact ⟨hout, hmode, stripK_strip P _, fsOK_nil P⟩
          | exact ⟨binv_cons P (binv_mkEntry P _ _ _ _ _ hmode (stripK_strip P _) (fsOK_nil P)) hout, trivial⟩
          | split
    | fldKey ty key fs fk =>
      rw [hmd] at hmode
      split
      · rename_i heq; cases heq
      split
      · exact absorb_kinv P _ _ _ hout hmode (by first | exact hmode | (show MInv P s.mode; rw [hmd]; exact hmode))
      · exact absorb_kinv P _ _ _ hout hmode (by first | exact hmode | (show MInv P s.mode; rw [hmd]; exact hmode))
      · simp only []
        repeat' first
          | exact hredo _
          | exact ⟨hout, hmode.1, hmode.2.1, hmode.2.2, stripK_strip P _⟩
          | exact ⟨binv_cons P (binv_mkEntry P _ _ _ _ _ hmode.1 hmode.2.1 hmode.2.2) hout, trivial⟩
          | split
    | fldVal ty key fs fk el q c qc v =>
      rw [hmd] at hmode
      split
      · rename_i heq; cases heq
      split
      · exact absorb_kinv P _ _ _ hout hmode (by first | exact hmode | (show MInv P s.mode; rw [hmd]; exact hmode))
      · exact absorb_kinv P _ _ _ hout hmode (by first | exact hmode | (show MInv P s.mode; rw [hmd]; exact hmode))
      · simp only []
        repeat' first
          | exact hredo _
          | exact ⟨hout, hmode⟩
          | exact ⟨hout, hmode.1, hmode.2.1, fsOK_snoc P hmode.2.2.1 _ _ _ hmode.2.2.2⟩
          | exact ⟨binv_cons P (binv_mkEntry P _ _ _ _ _ hmode.1 hmode.2.1
              (fsOK_snoc P hmode.2.2.1 _ _ _ hmode.2.2.2)) hout, trivial⟩
          | split

theorem run_kinv (ts : List Tok) : ∀ s, KInv P s → KInv P (run P s ts) := by
  induction ts with
  | nil => intro s h; exact h
  | cons t ts ih => intro s h; exact ih _ (step_kinv P s t h)

/-- every block the splitter returns satisfies `BInv` -/
theorem split_binv (s : Str) (bs : List Block) (h : split P s = .ok bs) : ∀ b ∈ bs, BInv P b := by
  unfold split splitToks at h
  have hinv := run_kinv P (lex P s) init ⟨(by intro b hb; cases hb), trivial⟩
  generalize run P init (lex P s) = st at h hinv
  unfold finish at h
  split at h
  · cases h
  · split at h
    · injection h with h; subst h
      intro b hb
      exact binv_endImplicit P _ _ st.out hinv.1 b (List.mem_reverse.mp hb)
    · injection h with h; subst h
      intro b hb
      have hb' := List.mem_reverse.mp hb
      rcases List.mem_cons.mp hb' with rfl | hb'
      · trivial
      · exact hinv.1 b hb'

/-! ### implicit comments are never adjacent -/

def AInv (s : St) : Prop :=
  NoAdjImpl s.out ∧ ∀ impl il, s.mode = .top impl il → ∀ b r, s.out = b :: r → isImpl b = false

theorem noAdj_cons_nonimpl {b : Block} {out : List Block} (hb : isImpl b = false) (h : NoAdjImpl out) :
    NoAdjImpl (b :: out) := by
  cases out with
  | nil => trivial
  | cons c r => exact ⟨fun hh => by rw [hb] at hh; exact absurd hh.1 (by simp), h⟩

theorem noAdj_cons_any (x : Block) {out : List Block} (h : NoAdjImpl out)
    (hh : ∀ b r, out = b :: r → isImpl b = false) : NoAdjImpl (x :: out) := by
  cases out with
  | nil => trivial
  | cons c r => exact ⟨fun h2 => by rw [hh c r rfl] at h2; exact absurd h2.2 (by simp), h⟩

theorem isImpl_mkEntry (ty key : Str) (fs : List Field) (l : Int) (r : Str) : isImpl (mkEntry ty key fs l r) = false := by
  unfold mkEntry; simp only; split <;> rfl

theorem ainv_toTop (s' : St) (blk : Block) (hout : NoAdjImpl s'.out) (hb : isImpl blk = false) :
    AInv (toTop s' blk) := by
  refine ⟨noAdj_cons_nonimpl hb hout, ?_⟩
  intro impl il _ b r hbr
  simp only [toTop, List.cons.injEq] at hbr
  rw [← hbr.1]; exact hb

theorem stepTop_ainv (s : St) (impl : List Tok) (il : Int) (t : Tok) (hm : s.mode = .top impl il)
    (h : AInv s) : AInv (stepTop P s impl il t) := by
  unfold stepTop
  split
  · refine ⟨?_, by intro _ _ hh; cases hh⟩
    simp only [endImplicit]
    split
    · simpa using h.1
    · simp only [List.reverse_cons, List.reverse_nil, List.nil_append, List.singleton_append]
      exact noAdj_cons_any _ h.1 (h.2 impl il hm)
  · exact ⟨h.1, fun _ _ _ => h.2 impl il hm⟩
  · exact ⟨h.1, fun _ _ _ => h.2 impl il hm⟩

theorem absorb_ainv (s' : St) (m : Mode) (t : Tok) (hout : NoAdjImpl s'.out)
    (hm : ∀ impl il, m ≠ .top impl il) (hs : ∀ impl il, s'.mode ≠ .top impl il) : AInv (absorb s' m t) := by
  cases m <;> refine ⟨hout, ?_⟩ <;> intro impl il h <;>
    first | cases h | exact absurd h (hs _ _) | exact absurd rfl (hm _ _)

theorem step_ainv (s : St) (t : Tok) (h : AInv s) : AInv (step P s t) := by
  obtain ⟨hout, hhead⟩ := h
  unfold step
  split
  · exact ⟨hout, hhead⟩
  · have hredo : ∀ why : Fail,
        AInv (match (abort s why).mode with
          | .top impl il => stepTop P (abort s why) impl il t
          | _ => abort s why) := by
      intro why
      have hmode' : (abort s why).mode = .top [] s.line := by simp [abort, toTop]
      rw [hmode']
      exact stepTop_ainv P _ _ _ t hmode' (ainv_toTop s _ hout rfl)
    cases hmd : s.mode with
    | top impl il => exact stepTop_ainv P s _ _ t hmd ⟨hout, hhead⟩
    | afterAt bk ty =>
      have hnt : ∀ impl il, s.mode ≠ .top impl il := by intro _ _ h; rw [hmd] at h; cases h
      split
      · rename_i heq; cases heq
      split
      · exact absorb_ainv _ _ _ hout (by intro _ _ h; cases h) (by intro _ _ h; cases h)
      · exact absorb_ainv _ _ _ hout (by intro _ _ h; cases h) hnt
      · simp only []
        repeat' first
          | (refine ⟨hout, ?_⟩; intro _ _ hh; cases hh; done)
          | (refine ⟨hout, ?_⟩; intro _ _ hh; exact absurd hh (hnt _ _))
          | split
    | bracket bk d b =>
      have hnt : ∀ impl il, s.mode ≠ .top impl il := by intro _ _ h; rw [hmd] at h; cases h
      split
      · rename_i heq; cases heq
      split
      · exact absorb_ainv _ _ _ hout (by intro _ _ h; cases h) (by intro _ _ h; cases h)
      · exact absorb_ainv _ _ _ hout (by intro _ _ h; cases h) hnt
      · simp only []
        repeat' first
          | exact hredo _
          | (refine ⟨hout, ?_⟩; intro _ _ hh; cases hh; done)
          | (refine ainv_toTop _ _ hout ?_; split <;> rfl)
          | split
    | strKey key =>
      have hnt : ∀ impl il, s.mode ≠ .top impl il := by intro _ _ h; rw [hmd] at h; cases h
      split
      · rename_i heq; cases heq
      split
      · exact absorb_ainv _ _ _ hout (by intro _ _ h; cases h) (by intro _ _ h; cases h)
      · exact absorb_ainv _ _ _ hout (by intro _ _ h; cases h) hnt
      · simp only []
        repeat' first
          | exact hredo _
          | (refine ⟨hout, ?_⟩; intro _ _ hh; cases hh; done)
          | split
    | strVal key d v =>
      have hnt : ∀ impl il, s.mode ≠ .top impl il := by intro _ _ h; rw [hmd] at h; cases h
      split
      · rename_i heq; cases heq
      split
      · exact absorb_ainv _ _ _ hout (by intro _ _ h; cases h) (by intro _ _ h; cases h)
      · exact absorb_ainv _ _ _ hout (by intro _ _ h; cases h) hnt
      · simp only []
        repeat' first
          | exact hredo _
          | (refine ⟨hout, ?_⟩; intro _ _ hh; cases hh; done)
          | exact ainv_toTop _ _ hout rfl
          | split
    | entKey ty key =>
      have hnt : ∀ impl il, s.mode ≠ .top impl il := by intro _ _ h; rw [hmd] at h; cases h
      split
      · rename_i heq; cases heq
      split
      · exact absorb_ainv _ _ _ hout (by intro _ _ h; cases h) (by intro _ _ h; cases h)
      · exact absorb_ainv _ _ _ hout (by intro _ _ h; cases h) hnt
      · simp only []
        repeat' first
          | exact hredo _
          | (refine ⟨hout, ?_⟩; intro _ _ hh; cases hh; done)
          | exact ainv_toTop _ _ hout (isImpl_mkEntry _ _ _ _ _)
          | split
    | fldKey ty key fs fk =>
      have hnt : ∀ impl il, s.mode ≠ .top impl il := by intro _ _ h; rw [hmd] at h; cases h
      split
      · rename_i heq; cases heq
      split
      · exact absorb_ainv _ _ _ hout (by intro _ _ h; cases h) (by intro _ _ h; cases h)
      · exact absorb_ainv _ _ _ hout (by intro _ _ h; cases h) hnt
      · simp only []
        repeat' first
          | exact hredo _
          | (refine ⟨hout, ?_⟩; intro _ _ hh; cases hh; done)
          | exact ainv_toTop _ _ hout (isImpl_mkEntry _ _ _ _ _)
          | split
    | fldVal ty key fs fk el q c qc v =>
      have hnt : ∀ impl il, s.mode ≠ .top impl il := by intro _ _ h; rw [hmd] at h; cases h
      split
      · rename_i heq; cases heq
      split
      · exact absorb_ainv _ _ _ hout (by intro _ _ h; cases h) (by intro _ _ h; cases h)
      · exact absorb_ainv _ _ _ hout (by intro _ _ h; cases h) hnt
      · simp only []
        repeat' first
          | exact hredo _
          | (refine ⟨hout, ?_⟩; intro _ _ hh; cases hh; done)
          | exact ainv_toTop _ _ hout (isImpl_mkEntry _ _ _ _ _)
          | split

theorem run_ainv (ts : List Tok) : ∀ s, AInv s → AInv (run P s ts) := by
  induction ts with
  | nil => intro s h; exact h
  | cons t ts ih => intro s h; exact ih _ (step_ainv P s t h)

/-- `NoAdjImpl` only looks at which blocks are implicit comments -/
def noAdjB : List Bool → Prop
  | [] => True
  | [_] => True
  | a :: b :: r => ¬ (a = true ∧ b = true) ∧ noAdjB (b :: r)

theorem noAdj_iff_B (l : List Block) : NoAdjImpl l ↔ noAdjB (l.map isImpl) := by
  induction l with
  | nil => exact Iff.rfl
  | cons a r ih =>
    cases r with
    | nil => exact Iff.rfl
    | cons b r2 =>
      simp only [NoAdjImpl, List.map_cons, noAdjB] at ih ⊢
      rw [ih]

theorem noAdjB_snoc (l : List Bool) (x : Bool) :
    noAdjB (l ++ [x]) ↔ noAdjB l ∧ ∀ y, l.getLast? = some y → ¬ (y = true ∧ x = true) := by
  induction l with
  | nil => simp [noAdjB]
  | cons a r ih =>
    cases r with
    | nil => simp [noAdjB]
    | cons b r2 =>
      have := ih
      simp only [List.cons_append, noAdjB, List.getLast?_cons_cons] at this ⊢
      rw [this]
      constructor
      · rintro ⟨h1, h2, h3⟩; exact ⟨⟨h1, h2⟩, h3⟩
      · rintro ⟨⟨h1, h2⟩, h3⟩; exact ⟨h1, h2, h3⟩

theorem noAdjB_reverse (l : List Bool) (h : noAdjB l) : noAdjB l.reverse := by
  induction l with
  | nil => trivial
  | cons a r ih =>
    rw [List.reverse_cons, noAdjB_snoc]
    cases r with
    | nil => simp [noAdjB]
    | cons b r2 =>
      refine ⟨ih h.2, ?_⟩
      intro y hy
      have : y = b := by
        rw [List.getLast?_reverse] at hy
        simpa using hy.symm
      subst this
      intro hh; exact h.1 ⟨hh.2, hh.1⟩

theorem noAdj_reverse (l : List Block) (h : NoAdjImpl l) : NoAdjImpl l.reverse := by
  rw [noAdj_iff_B, List.map_reverse]
  exact noAdjB_reverse _ ((noAdj_iff_B l).mp h)

/-- the splitter never returns two adjacent implicit comments -/
theorem split_noAdj (s : Str) (bs : List Block) (h : split P s = .ok bs) : NoAdjImpl bs := by
  unfold split splitToks at h
  have hinv := run_ainv P (lex P s) init ⟨trivial, by intro _ _ _ b r hbr; cases hbr⟩
  generalize run P init (lex P s) = st at h hinv
  unfold finish at h
  split at h
  · cases h
  · split at h
    · rename_i impl il hm
      injection h with h; subst h
      apply noAdj_reverse
      simp only [endImplicit]
      split
      · simpa using hinv.1
      · simp only [List.reverse_cons, List.reverse_nil, List.nil_append, List.singleton_append]
        exact noAdj_cons_any _ hinv.1 (hinv.2 impl il hm)
    · injection h with h; subst h
      apply noAdj_reverse
      exact noAdj_cons_nonimpl rfl hinv.1

end Bib.PrintParse
