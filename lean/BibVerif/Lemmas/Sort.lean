/-
  Generic facts about `List.mergeSort` (= Python's stable `sorted` / `list.sort`) used by C16 and C17:
  stability in the form "the elements of any tie class keep their source order", sorting by a
  natural-number rank, and splitting a rank-sorted list at a rank.
-/
namespace Bib.Sort

variable {α : Type}

theorem pairwise_of_forall {R : α → α → Prop} : ∀ {l : List α}, (∀ a ∈ l, ∀ b ∈ l, R a b) → l.Pairwise R
  | [], _ => .nil
  | a :: t, h => .cons (fun b hb => h a (by simp) b (by simp [hb]))
      (pairwise_of_forall (fun x hx y hy => h x (by simp [hx]) y (by simp [hy])))

/-- **Stability.**  If all elements satisfying `p` are mutually `le` (a tie class), then they appear
in the sorted list in exactly the order in which they appear in the input. -/
theorem stable_filter {le : α → α → Bool}
    (htrans : ∀ a b c, le a b = true → le b c = true → le a c = true)
    (htotal : ∀ a b, (le a b || le b a) = true)
    (p : α → Bool) (hp : ∀ a b, p a = true → p b = true → le a b = true) (l : List α) :
    (l.mergeSort le).filter p = l.filter p := by
  have hpw : (l.filter p).Pairwise (fun a b => le a b = true) :=
    pairwise_of_forall (fun a ha b hb => hp a b (List.mem_filter.mp ha).2 (List.mem_filter.mp hb).2)
  have hsub : (l.filter p).Sublist (l.mergeSort le) :=
    List.sublist_mergeSort htrans htotal hpw List.filter_sublist
  have hsub2 : (l.filter p).Sublist ((l.mergeSort le).filter p) := by
    have := hsub.filter p
    rwa [List.filter_filter, show (fun a => p a && p a) = p from funext fun a => Bool.and_self _] at this
  have hlen : ((l.mergeSort le).filter p).length = (l.filter p).length :=
    ((List.mergeSort_perm l le).filter p).length_eq
  exact (hsub2.eq_of_length hlen.symm).symm

/-- sorting by a natural-number rank -/
def leRank (r : α → Nat) (a b : α) : Bool := decide (r a ≤ r b)

theorem leRank_trans (r : α → Nat) : ∀ a b c, leRank r a b = true → leRank r b c = true → leRank r a c = true := by
  intro a b c h1 h2
  simp only [leRank, decide_eq_true_eq] at *
  omega

theorem leRank_total (r : α → Nat) : ∀ a b, (leRank r a b || leRank r b a) = true := by
  intro a b
  simp only [leRank, Bool.or_eq_true, decide_eq_true_eq]
  omega

theorem rank_perm (r : α → Nat) (l : List α) : (l.mergeSort (leRank r)).Perm l := List.mergeSort_perm l _

theorem rank_sorted (r : α → Nat) (l : List α) : (l.mergeSort (leRank r)).Pairwise (fun a b => r a ≤ r b) := by
  have := List.pairwise_mergeSort (leRank_trans r) (leRank_total r) l
  exact this.imp (by intro a b h; simpa [leRank] using h)

theorem rank_stable (r : α → Nat) (n : Nat) (l : List α) :
    (l.mergeSort (leRank r)).filter (fun a => r a == n) = l.filter (fun a => r a == n) :=
  stable_filter (leRank_trans r) (leRank_total r) _ (by
    intro a b ha hb
    simp only [beq_iff_eq] at ha hb
    simp [leRank, ha, hb]) l

theorem rank_idempotent (r : α → Nat) (l : List α) :
    (l.mergeSort (leRank r)).mergeSort (leRank r) = l.mergeSort (leRank r) :=
  List.mergeSort_of_pairwise (List.pairwise_mergeSort (leRank_trans r) (leRank_total r) l)

/-- a rank-sorted list is its part below `n` followed by its part from `n` on -/
theorem split_at_rank (r : α → Nat) (n : Nat) : ∀ (l : List α), l.Pairwise (fun a b => r a ≤ r b) →
    l = l.filter (fun a => decide (r a < n)) ++ l.filter (fun a => decide (n ≤ r a))
  | [], _ => rfl
  | a :: t, h => by
    have ht := split_at_rank r n t (List.Pairwise.of_cons h)
    have ha : ∀ b ∈ t, r a ≤ r b := fun b hb => List.rel_of_pairwise_cons h hb
    by_cases hlt : r a < n
    · have hnot : ¬ n ≤ r a := by omega
      simp only [List.filter_cons, hlt, hnot, decide_true, decide_false, if_true, if_false, Bool.false_eq_true]
      rw [List.cons_append, ← ht]
    · have hge : n ≤ r a := by omega
      have hall : ∀ b ∈ t, ¬ r b < n := by
        intro b hb
        have := ha b hb
        omega
      have h1 : t.filter (fun a => decide (r a < n)) = [] := by
        rw [List.filter_eq_nil_iff]
        intro b hb
        simpa using hall b hb
      have h2 : t.filter (fun a => decide (n ≤ r a)) = t := by
        rw [List.filter_eq_self]
        intro b hb
        have := hall b hb
        simp; omega
      simp only [List.filter_cons, hlt, hge, decide_true, decide_false, if_true, if_false, Bool.false_eq_true, h1, h2]
      rfl

end Bib.Sort
