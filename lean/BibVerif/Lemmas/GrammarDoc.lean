/-
  C05 (grammar level), document part: for a canonical derivation of the dialect grammar with the side
  conditions `Doc.OK5`, the blocks it denotes (= what the splitter returns, C02) satisfy `RawOK`; with
  `parse_raw` the parsed library passes `SideOK`.
-/
import BibVerif.Lemmas.GrammarPipe
import BibVerif.Lemmas.GrammarType
import BibVerif.Lemmas.Doc
namespace Bib.PrintParse
open Bib Bib.Writer Bib.Enclosing Bib.Pipeline Bib.Interpolate

variable {P : PyChars}

/-! ### side conditions on a derivation (beyond `Doc.WF`) -/

/-- the stripped text of a source piece does not end in a backslash -/
def noBS (P : PyChars) (ts : List Tok) : Prop := Reparse.endBS false (strip P (flatten ts)) = false

/-- the content of a source value (stripped, one enclosing layer removed) does not end in a backslash -/
def contentNoBS (P : PyChars) (ts : List Tok) : Prop :=
  Reparse.endBS false (stripEnclosing P (strip P (flatten ts))).1 = false


def BlockSrc.OK5 (P : PyChars) : BlockSrc → Prop
  | .comment _ body => noBS P body
  | .preamble _ _ => True
  | .string _ key val => noBS P key ∧ IsValue val ∧ contentNoBS P val
  | .entry lit key fields _ =>
    (∀ c ∈ (classify P lit).2, P.isWord c = true) ∧
    noBS P key ∧ ∀ f ∈ fields, noBS P f.key ∧ contentNoBS P f.val

def srcEntryKeys (P : PyChars) (items : List (BlockSrc × List Tok)) : List Str :=
  items.filterMap fun bj => match bj.1 with
    | .entry _ key _ _ => some (strip P (flatten key)) | _ => none

def srcStringKeys (P : PyChars) (items : List (BlockSrc × List Tok)) : List Str :=
  items.filterMap fun bj => match bj.1 with
    | .string _ key _ => some (strip P (flatten key)) | _ => none

/-- the grammar-level "well-formed document" of C05 -/
structure Doc.OK5 (P : PyChars) (d : Doc) : Prop where
  wf : d.WF P
  distinctFields : d.DistinctFields P
  blocks : ∀ bj ∈ d.items, BlockSrc.OK5 P bj.1
  entryKeys : (srcEntryKeys P d.items).Nodup
  stringKeys : (srcStringKeys P d.items).Nodup

/-! ### pieces of the token list -/

/-- `ts` occurs in `toks` right after a mark -/
def Piece (toks ts : List Tok) : Prop := ∃ pre k l post, toks = pre ++ .mark k l :: (ts ++ post)

theorem piece_mono {sub ts : List Tok} (A B : List Tok) (h : Piece sub ts) : Piece (A ++ sub ++ B) ts := by
  obtain ⟨pre, k, l, post, rfl⟩ := h
  exact ⟨A ++ pre, k, l, post ++ B, by simp⟩

theorem noAtTok_of_allPlain {ts : List Tok} (h : allPlain ts) : NoAtTok ts := by
  intro t ht
  have := List.all_eq_true.mp h t ht
  cases t with
  | text cs => rfl
  | mark k l => cases k <;> simp_all [isPlainTok, isAtTok]

theorem noAtTok_of_isBal {ts : List Tok} (h : IsBal ts) : NoAtTok ts := by
  induction h with
  | nil => intro t ht; cases ht
  | plain t ts ht _ ih =>
    intro x hx
    rcases List.mem_cons.mp hx with rfl | hx
    · cases x with
      | text cs => rfl
      | mark k l => cases k <;> simp_all [isBalPlain, isAtTok]
    · exact ih x hx
  | grp l r a b _ _ iha ihb =>
    intro x hx
    simp only [List.mem_cons, List.mem_append] at hx
    rcases hx with rfl | hx | rfl | hx
    · rfl
    · exact iha x hx
    · rfl
    · exact ihb x hx

theorem noAtTok_of_isJunk {ts : List Tok} (h : IsJunk ts) : NoAtTok ts := by
  intro t ht
  have := List.all_eq_true.mp h t ht
  simpa using this

theorem afterFields_ends (fs : List FieldSrc) (tr : Option (List Tok)) : ∃ Z, afterFields fs tr = Z ++ [RB] := by
  induction fs with
  | nil =>
    cases tr with
    | none => exact ⟨[], rfl⟩
    | some w => exact ⟨CM :: w, by simp [afterFields]⟩
  | cons f fs ih =>
    obtain ⟨Z, hZ⟩ := ih
    exact ⟨CM :: (f.key ++ EQ :: (f.val ++ Z)), by simp [afterFields, hZ]⟩

theorem afterFields_split (fpre : List FieldSrc) (f : FieldSrc) (fpost : List FieldSrc) (tr : Option (List Tok)) :
    ∃ Z, afterFields (fpre ++ f :: fpost) tr = Z ++ CM :: (f.key ++ EQ :: (f.val ++ afterFields fpost tr)) := by
  induction fpre with
  | nil => exact ⟨[], rfl⟩
  | cons g r ih =>
    obtain ⟨Z, hZ⟩ := ih
    exact ⟨CM :: (g.key ++ EQ :: (g.val ++ Z)), by simp [afterFields, hZ]⟩

theorem blockToks_ends (x : BlockSrc) : ∃ Z, x.toks = Z ++ [RB] := by
  cases x with
  | comment lit body => exact ⟨AT lit :: LB :: body, by simp [BlockSrc.toks]⟩
  | preamble lit body => exact ⟨AT lit :: LB :: body, by simp [BlockSrc.toks]⟩
  | string lit key val => exact ⟨AT lit :: LB :: (key ++ EQ :: val), by simp [BlockSrc.toks]⟩
  | entry lit key fields tr =>
    obtain ⟨Z, hZ⟩ := afterFields_ends fields tr
    exact ⟨AT lit :: LB :: (key ++ Z), by simp [BlockSrc.toks, hZ]⟩

theorem item_in_doc (d : Doc) (x : BlockSrc) (j : List Tok) (h : (x, j) ∈ d.items) :
    ∃ A B, d.toks = A ++ (x.toks ++ j) ++ B := by
  obtain ⟨pre, post, hpp⟩ := List.append_of_mem h
  refine ⟨d.head ++ itemsToks pre, itemsToks post, ?_⟩
  simp [Doc.toks, itemsToks, hpp]

/-- the relexing facts a canonical document provides for all its pieces -/
def RelexAll (P : PyChars) (toks : List Tok) : Prop :=
  ∀ ts, Piece toks ts → NoAtTok ts → lexFrom P false (flatten ts) = ts

theorem relexAll_of_canon (hP : PrintOK P) (toks : List Tok) (b : Bool) (hc : Canon P b toks) : RelexAll P toks := by
  intro ts hp hna
  obtain ⟨pre, k, l, post, rfl⟩ := hp
  exact relex_piece hP.word b pre k l ts post hna hc

theorem relexAll_mono {sub : List Tok} (A B : List Tok) (h : RelexAll P (A ++ sub ++ B)) : RelexAll P sub :=
  fun ts hp hna => h ts (piece_mono A B hp) hna

/-! ### junk -/

theorem noStart_of_isJunk (b : Bool) (s : Str) (h : IsJunk (lexFrom P b s)) : noStart P s = true := by
  fun_induction lexFrom P b s with
  | case1 => rfl
  | case2 b c rest k hk ih =>
    have hd : delimKind c = some k := by
      split at hk
      · cases hk
      · exact hk
    have hc : c ≠ '@' := by intro e; subst e; simp [delimKind] at hd
    simp only [IsJunk, List.all_cons, Bool.and_eq_true] at h
    simp [noStart, hc, ih h.2]
  | case3 b rest lit r2 hm hk ih => simp [IsJunk, isAtTok] at h
  | case4 b rest hm hk ih =>
    have hj : IsJunk (lexFrom P false rest) := by
      have := h
      cases hl : lexFrom P false rest with
      | nil => simp [IsJunk]
      | cons t r =>
        rw [hl] at this
        cases t <;> simpa [pushText, IsJunk, isAtTok] using this
    simp [noStart, hm, ih hj]
  | case5 b c rest hk hc ih =>
    have hj : IsJunk (lexFrom P (decide (c = '\\')) rest) := by
      have := h
      cases hl : lexFrom P (decide (c = '\\')) rest with
      | nil => simp [IsJunk]
      | cons t r =>
        rw [hl] at this
        cases t <;> simpa [pushText, IsJunk, isAtTok] using this
    simp [noStart, hc, ih hj]

theorem noStart_tail (a s : Str) (h : noStart P (a ++ s) = true) : noStart P s = true := by
  induction a with
  | nil => exact h
  | cons c r ih =>
    simp only [List.cons_append, noStart, Bool.and_eq_true] at h
    exact ih h.2

theorem noStart_init (m t : Str) (h : noStart P (m ++ t) = true) : noStart P m = true := by
  induction m with
  | nil => rfl
  | cons c r ih =>
    simp only [List.cons_append, noStart, Bool.and_eq_true] at h ⊢
    refine ⟨?_, ih h.2⟩
    by_cases hc : c = '@'
    · subst hc
      have h1 : (atMatch P (r ++ t)).isNone = true := by simpa using h.1
      have : atMatch P (r ++ t) = none := by simpa using h1
      simp [atMatch_none_of_append r t this]
    · simp [hc]

theorem noStart_strip (s : Str) (h : noStart P s = true) : noStart P (strip P s) = true := by
  obtain ⟨lead, trail, _, _, hdec⟩ := strip_decomp P s
  rw [hdec, List.append_assoc] at h
  exact noStart_init _ trail (noStart_tail lead _ h)

theorem rawOK_junk (j : List Tok) (hrel : lexFrom P false (flatten j) = j) (hj : IsJunk j) (line : Int) :
    ∀ b ∈ expJunk P line j, RawOK P b := by
  intro b hb
  simp only [expJunk] at hb
  split at hb
  · cases hb
  · simp only [List.mem_singleton] at hb
    subst hb
    exact noStart_strip _ (noStart_of_isJunk false _ (by rw [hrel]; exact hj))

/-! ### blocks -/

theorem mem_expFields (line : Int) (fs : List FieldSrc) (f : Field) (h : f ∈ expFields P line fs) :
    ∃ g ∈ fs, f.key = strip P (flatten g.key) ∧ f.value = .str (strip P (flatten g.val)) := by
  induction fs generalizing line with
  | nil => cases h
  | cons g r ih =>
    simp only [expFields, List.mem_cons] at h
    rcases h with rfl | h
    · exact ⟨g, List.mem_cons_self, rfl, rfl⟩
    · obtain ⟨g', hg', h1, h2⟩ := ih _ h
      exact ⟨g', List.mem_cons_of_mem _ hg', h1, h2⟩

theorem keyOK_src (hP : PrintOK P) (ts : List Tok) (hrel : lexFrom P false (flatten ts) = ts)
    (hpl : allPlain ts) (hk : noBS P ts) : KeyOK P (strip P (flatten ts)) :=
  keyOK_of_tokens _ (strip_tokens trimClosed_allPlain hP ts hrel hpl) hk

theorem srcValOK_src (hP : PrintOK P) (ts : List Tok) (hrel : lexFrom P false (flatten ts) = ts)
    (hv : IsValue ts) (hc : contentNoBS P ts) : SrcValOK P (strip P (flatten ts)) :=
  ⟨strip_tokens trimClosed_isValue hP ts hrel hv, strip_idem P _, hc⟩

theorem rawOK_expected (hP : PrintOK P) (hL : LowerOK P) (x : BlockSrc) (hwf : x.WF P) (hdf : x.DistinctFields P)
    (hok : BlockSrc.OK5 P x) (hrel : RelexAll P x.toks) (hcan : ∃ b rest, Canon P b (x.toks ++ rest))
    (line : Int) : RawOK P (x.expected P line) := by
  obtain ⟨cb, crest, hcan⟩ := hcan
  cases x with
  | comment lit body =>
    have hr := hrel body ⟨[AT lit], .lbrace, ['{'], [RB], by simp [BlockSrc.toks, LB]⟩ (noAtTok_of_isBal hwf.2)
    exact ⟨strip_tokens trimClosed_isBal hP body hr hwf.2, hok⟩
  | preamble lit body =>
    have hr := hrel body ⟨[AT lit], .lbrace, ['{'], [RB], by simp [BlockSrc.toks, LB]⟩ (noAtTok_of_isBal hwf.2)
    have h1 : Canon P false (body ++ .mark .rbrace ['}'] :: crest) := by
      have := canon_after_mark [AT lit] cb .lbrace ['{'] ((body ++ [RB]) ++ crest)
        (by simpa [BlockSrc.toks, LB] using hcan)
      simpa [RB] using this
    exact ⟨by rw [hr]; exact hwf.2,
      canon_flag_end body false .rbrace '}' crest (noAtTok_of_isBal hwf.2) (by decide) (by decide) h1⟩
  | string lit key val =>
    obtain ⟨_, hkp, hvb⟩ := hwf
    obtain ⟨hk, hvv, hvc⟩ := hok
    have hrk := hrel key ⟨[AT lit], .lbrace, ['{'], EQ :: (val ++ [RB]), by simp [BlockSrc.toks, LB]⟩
      (noAtTok_of_allPlain hkp)
    have hrv := hrel val ⟨AT lit :: LB :: key, .eq, ['='], [RB], by simp [BlockSrc.toks, EQ]⟩
      (noAtTok_of_isBal hvb)
    exact ⟨keyOK_src hP key hrk hkp hk, _, rfl, srcValOK_src hP val hrv hvv hvc⟩
  | entry lit key fields tr =>
    obtain ⟨hent, hkp, hfs, _⟩ := hwf
    obtain ⟨o1, o6, o7⟩ := hok
    obtain ⟨w, bl, hlit, hw, hbl⟩ := canon_at_inv (rest := LB :: (key ++ afterFields fields tr) ++ crest)
      (by simpa [BlockSrc.toks] using hcan)
    obtain ⟨o2, o3, o4, o5⟩ : lower P (classify P lit).2 = (classify P lit).2 ∧
        startsWith "comment".toList (classify P lit).2 = false ∧
        startsWith "preamble".toList (classify P lit).2 = false ∧
        startsWith "string".toList (classify P lit).2 = false := by
      rw [hlit] at hent ⊢
      exact type_facts hP hL w bl hw hbl hent
    have hrk := hrel key ⟨[AT lit], .lbrace, ['{'], afterFields fields tr, by simp [BlockSrc.toks, LB]⟩
      (noAtTok_of_allPlain hkp)
    simp only [BlockSrc.expected]
    rw [mkEntry_of_nodup _ _ _ _ _ (by rw [expFields_keys]; exact hdf)]
    refine ⟨o1, o2, o3, o4, o5, keyOK_src hP key hrk hkp o6, ?_⟩
    intro f hf
    obtain ⟨g, hg, hfk, hfv⟩ := mem_expFields _ _ f hf
    obtain ⟨fpre, fpost, hsplit⟩ := List.append_of_mem hg
    obtain ⟨Z, hZ⟩ := afterFields_split fpre g fpost tr
    have htoks : (BlockSrc.entry lit key fields tr).toks =
        AT lit :: LB :: (key ++ (Z ++ CM :: (g.key ++ EQ :: (g.val ++ afterFields fpost tr)))) := by
      simp [BlockSrc.toks, hsplit, hZ]
    have hgk := hrel g.key ⟨AT lit :: LB :: (key ++ Z), .comma, [','], EQ :: (g.val ++ afterFields fpost tr),
      by rw [htoks]; simp [CM]⟩ (noAtTok_of_allPlain (hfs g hg).1)
    have hgv := hrel g.val ⟨AT lit :: LB :: (key ++ (Z ++ CM :: g.key)), .eq, ['='], afterFields fpost tr,
      by rw [htoks]; simp [EQ]⟩ (noAtTok_of_isBal (isValue_isBal (hfs g hg).2))
    rw [hfk]
    exact ⟨keyOK_src hP g.key hgk (hfs g hg).1 (o7 g hg).1, _, hfv,
      srcValOK_src hP g.val hgv (hfs g hg).2 (o7 g hg).2⟩

/-! ### the whole document -/

theorem entryKeys_expJunk (line : Int) (j : List Tok) :
    entryKeys (expJunk P line j) = [] ∧ stringKeys (expJunk P line j) = [] := by
  simp only [expJunk]
  split <;> exact ⟨rfl, rfl⟩

theorem keys_expected_block (x : BlockSrc) (hdf : x.DistinctFields P) (line : Int) :
    entryKeys [x.expected P line] = (match x with | .entry _ key _ _ => [strip P (flatten key)] | _ => []) ∧
    stringKeys [x.expected P line] = (match x with | .string _ key _ => [strip P (flatten key)] | _ => []) := by
  cases x with
  | comment lit body => exact ⟨rfl, rfl⟩
  | preamble lit body => exact ⟨rfl, rfl⟩
  | string lit key val => exact ⟨rfl, rfl⟩
  | entry lit key fields tr =>
    simp only [BlockSrc.expected]
    rw [mkEntry_of_nodup _ _ _ _ _ (by rw [expFields_keys]; exact hdf)]
    exact ⟨rfl, rfl⟩

theorem keys_expItems (items : List (BlockSrc × List Tok)) (hdf : ∀ bj ∈ items, bj.1.DistinctFields P) :
    ∀ line, entryKeys (expItems P line items) = srcEntryKeys P items ∧
      stringKeys (expItems P line items) = srcStringKeys P items := by
  induction items with
  | nil => intro line; exact ⟨rfl, rfl⟩
  | cons bj rest ih =>
    intro line
    obtain ⟨x, j⟩ := bj
    obtain ⟨h1, h2⟩ := keys_expected_block x (hdf (x, j) List.mem_cons_self) line
    obtain ⟨i1, i2⟩ := ih (fun y hy => hdf y (List.mem_cons_of_mem _ hy)) (line + nlCount x.toks + nlCount j)
    obtain ⟨j1, j2⟩ := entryKeys_expJunk (P := P) (line + nlCount x.toks) j
    simp only [expItems]
    rw [show x.expected P line :: (expJunk P (line + nlCount x.toks) j ++ expItems P (line + nlCount x.toks + nlCount j) rest)
      = [x.expected P line] ++ (expJunk P (line + nlCount x.toks) j ++ expItems P (line + nlCount x.toks + nlCount j) rest) from rfl,
      entryKeys_append, entryKeys_append, stringKeys_append, stringKeys_append, h1, h2, i1, i2, j1, j2]
    constructor
    · simp only [srcEntryKeys, List.filterMap_cons]
      cases x <;> simp
    · simp only [srcStringKeys, List.filterMap_cons]
      cases x <;> simp

theorem rawOK_expItems (hP : PrintOK P) (hL : LowerOK P) (items : List (BlockSrc × List Tok))
    (hw : ∀ bj ∈ items, bj.1.WF P ∧ IsJunk bj.2) (hdf : ∀ bj ∈ items, bj.1.DistinctFields P)
    (hok : ∀ bj ∈ items, BlockSrc.OK5 P bj.1)
    (hrel : ∀ bj ∈ items, RelexAll P bj.1.toks ∧ lexFrom P false (flatten bj.2) = bj.2)
    (hcan : ∀ bj ∈ items, ∃ b rest, Canon P b (bj.1.toks ++ rest)) :
    ∀ line, ∀ b ∈ expItems P line items, RawOK P b := by
  induction items with
  | nil => intro line b hb; cases hb
  | cons bj rest ih =>
    intro line b hb
    obtain ⟨x, j⟩ := bj
    simp only [expItems, List.mem_cons, List.mem_append] at hb
    have hm : (x, j) ∈ (x, j) :: rest := List.mem_cons_self
    rcases hb with rfl | hb | hb
    · exact rawOK_expected hP hL x (hw _ hm).1 (hdf _ hm) (hok _ hm) (hrel _ hm).1 (hcan _ hm) line
    · exact rawOK_junk j (hrel _ hm).2 (hw _ hm).2 _ b hb
    · exact ih (fun y hy => hw y (List.mem_cons_of_mem _ hy)) (fun y hy => hdf y (List.mem_cons_of_mem _ hy))
        (fun y hy => hok y (List.mem_cons_of_mem _ hy)) (fun y hy => hrel y (List.mem_cons_of_mem _ hy))
        (fun y hy => hcan y (List.mem_cons_of_mem _ hy)) _ b hb

/-- **the parse of a grammar document passes the side conditions** -/
theorem parse_grammar (hP : PrintOK P) (hL : LowerOK P) (d : Doc) (hd : Doc.OK5 P d) (hc : Canon P false d.toks) (s : Str)
    (hs : '\n' :: s = flatten d.toks) :
    ∃ L, parseDefault P s = .ok L ∧ ∀ b ∈ L, SideOK P b := by
  have hsplit : split P s = .ok (d.expected P (-1)) := by
    unfold split lex
    rw [hs, relex P hP.word hc]
    exact splitToks_doc P d hd.wf
  have hall := relexAll_of_canon hP d.toks false hc
  -- relexing facts for every item
  have hrel : ∀ bj ∈ d.items, RelexAll P bj.1.toks ∧ lexFrom P false (flatten bj.2) = bj.2 := by
    intro bj hbj
    obtain ⟨x, j⟩ := bj
    obtain ⟨A, B, hAB⟩ := item_in_doc d x j hbj
    constructor
    · have : d.toks = A ++ x.toks ++ (j ++ B) := by rw [hAB]; simp
      exact relexAll_mono A (j ++ B) (this ▸ hall)
    · obtain ⟨Z, hZ⟩ := blockToks_ends x
      exact hall j ⟨A ++ Z, .rbrace, ['}'], B, by rw [hAB, hZ]; simp [RB]⟩ (noAtTok_of_isJunk (hd.wf.2 _ hbj).2)
  have hcan : ∀ bj ∈ d.items, ∃ b rest, Canon P b (bj.1.toks ++ rest) := by
    intro bj hbj
    obtain ⟨x, j⟩ := bj
    obtain ⟨A, B, hAB⟩ := item_in_doc d x j hbj
    have h1 : Canon P false (A ++ (x.toks ++ (j ++ B))) := by
      have : d.toks = A ++ (x.toks ++ (j ++ B)) := by rw [hAB]; simp
      exact this ▸ hc
    obtain ⟨b', hb'⟩ := canon_suffix A false _ h1
    exact ⟨b', j ++ B, hb'⟩
  have hhead : lexFrom P false (flatten d.head) = d.head :=
    relex P hP.word (canon_prefix d.head false _ (noAtTok_of_isJunk hd.wf.1) hc)
  have hraw : ∀ b ∈ d.expected P (-1), RawOK P b := by
    intro b hb
    simp only [Doc.expected, List.mem_append] at hb
    rcases hb with hb | hb
    · exact rawOK_junk d.head hhead hd.wf.1 _ b hb
    · exact rawOK_expItems hP hL d.items hd.wf.2 hd.distinctFields hd.blocks hrel hcan _ b hb
  have hkeys := keys_expItems d.items hd.distinctFields (-1 + nlCount d.head)
  have hj := entryKeys_expJunk (P := P) (-1) d.head
  refine parse_raw hP s _ hsplit hraw ?_ ?_
  · simp only [Doc.expected]; rw [entryKeys_append, hj.1, hkeys.1]; exact hd.entryKeys
  · simp only [Doc.expected]; rw [stringKeys_append, hj.2, hkeys.2]; exact hd.stringKeys

end Bib.PrintParse
