/-
  Scanner lemmas for C02/C04/C05/C09/C10: what the splitter automaton does on the token
  sequences of the dialect grammar (DESIGN.md §5).  Helper lemmas only.
-/
import BibVerif.Split
import BibVerif.Lemmas.Tile
namespace Bib

variable (P : PyChars)

/-- number of newline marks in a token list -/
def nlCount (ts : List Tok) : Int := (ts.countP isNlTok : Nat)

theorem nlCount_nil : nlCount [] = 0 := by simp [nlCount]
theorem nlCount_cons (t : Tok) (ts : List Tok) :
    nlCount (t :: ts) = (if isNlTok t then 1 else 0) + nlCount ts := by
  unfold nlCount; rw [List.countP_cons]; split <;> simp <;> omega
theorem nlCount_append (a b : List Tok) : nlCount (a ++ b) = nlCount a + nlCount b := by
  simp [nlCount, List.countP_append]

/-- tokens the handlers never see: text and newlines -/
def isPlainTok : Tok → Bool
  | .text _ => true
  | .mark .nl _ => true
  | _ => false

/-- the scanning modes accumulate the tokens of the part being read -/
def Mode.push : Mode → List Tok → Mode
  | .bracket k d b, ts => .bracket k d (ts.reverse ++ b)
  | .strKey key, ts => .strKey (ts.reverse ++ key)
  | .strVal key d v, ts => .strVal key d (ts.reverse ++ v)
  | .entKey ty key, ts => .entKey ty (ts.reverse ++ key)
  | .fldKey ty key fs fk, ts => .fldKey ty key fs (ts.reverse ++ fk)
  | .fldVal ty key fs fk el q c qc v, ts => .fldVal ty key fs fk el q c qc (ts.reverse ++ v)
  | m, _ => m

def Mode.scanning : Mode → Bool
  | .top _ _ => false
  | .afterAt _ _ => false
  | _ => true

/-- the state after absorbing `ts` into the part being read -/
def St.absorbed (s : St) (ts : List Tok) : St :=
  { s with line := s.line + nlCount ts, raw := ts.reverse ++ s.raw, mode := s.mode.push ts }

theorem absorbed_nil (s : St) (h : s.mode.scanning = true) : s.absorbed [] = s := by
  cases s with
  | mk out line bl raw mode err =>
    cases mode <;> simp_all [St.absorbed, Mode.push, nlCount_nil, Mode.scanning]

theorem absorbed_append (s : St) (a b : List Tok) :
    s.absorbed (a ++ b) = (s.absorbed a).absorbed b := by
  cases s with
  | mk out line bl raw mode err =>
    cases mode <;> simp [St.absorbed, Mode.push, nlCount_append, Int.add_assoc]

theorem absorbed_scanning (s : St) (ts : List Tok) (h : s.mode.scanning = true) :
    (s.absorbed ts).mode.scanning = true := by
  cases s with
  | mk out line bl raw mode err =>
    cases mode <;> simp_all [St.absorbed, Mode.push, Mode.scanning]

theorem absorbed_err (s : St) (ts : List Tok) : (s.absorbed ts).err = s.err := rfl
theorem absorbed_out (s : St) (ts : List Tok) : (s.absorbed ts).out = s.out := rfl
theorem absorbed_blockLine (s : St) (ts : List Tok) : (s.absorbed ts).blockLine = s.blockLine := rfl

/-- one plain token in a scanning mode -/
theorem step_plain (s : St) (t : Tok) (he : s.err = none) (hm : s.mode.scanning = true)
    (ht : isPlainTok t = true) : step P s t = s.absorbed [t] := by
  cases s with
  | mk out line bl raw mode err =>
    simp only at he; subst he
    cases t with
    | text cs =>
      cases mode <;> simp_all [step, absorb, St.absorbed, Mode.push, Mode.scanning, nlCount, isNlTok]
    | mark k l =>
      cases k <;> simp [isPlainTok] at ht
      cases mode <;> simp_all [step, absorb, St.absorbed, Mode.push, Mode.scanning, nlCount, isNlTok]

/-- plain tokens are absorbed by every scanning mode -/
theorem run_plain (ts : List Tok) : ∀ (s : St), s.err = none → s.mode.scanning = true →
    ts.all isPlainTok = true → run P s ts = s.absorbed ts := by
  induction ts with
  | nil => intro s _ hm _; rw [run_nil, absorbed_nil s hm]
  | cons t ts ih =>
    intro s he hm hall
    simp only [List.all_cons, Bool.and_eq_true] at hall
    rw [run_cons, step_plain P s t he hm hall.1,
      ih _ (absorbed_err s [t] ▸ he) (absorbed_scanning s [t] hm) hall.2]
    rw [show t :: ts = [t] ++ ts from rfl, absorbed_append]

/-! ### balanced token sequences -/

/-- tokens that are ordinary inside braces: text, newline, `"`, `,`, `=` -/
def isBalPlain : Tok → Bool
  | .text _ => true
  | .mark .nl _ => true
  | .mark .quote _ => true
  | .mark .comma _ => true
  | .mark .eq _ => true
  | _ => false

/-- `Bal ::= (T | NL | Q | CM | EQ | LB Bal RB)*` -/
inductive IsBal : List Tok → Prop
  | nil : IsBal []
  | plain (t ts) : isBalPlain t = true → IsBal ts → IsBal (t :: ts)
  | grp (l r a b) : IsBal a → IsBal b → IsBal (.mark .lbrace l :: (a ++ .mark .rbrace r :: b))

theorem IsBal.append {a b : List Tok} (ha : IsBal a) (hb : IsBal b) : IsBal (a ++ b) := by
  induction ha with
  | nil => simpa using hb
  | plain t ts ht _ ih => exact IsBal.plain t _ ht ih
  | grp l r x y hx _ _ ihy =>
    have := IsBal.grp l r x (y ++ b) hx ihy
    simpa using this

/-- the four places where the splitter counts braces -/
inductive Fam
  | bracket    -- `_move_to_closed_bracket` of @comment / @preamble
  | strVal     -- `_move_to_closed_bracket` of @string
  | valBrace   -- field value, inside `{ }` (not quote-escaped)
  | valQuote   -- field value, inside `{ }` inside `" "`
deriving DecidableEq, Repr

/-- the mode belongs to the family and is at brace depth `d` -/
def Fam.at : Fam → Nat → Mode → Prop
  | .bracket, d, .bracket _ d' _ => d' = d
  | .strVal, d, .strVal _ d' _ => d' = d
  | .valBrace, d, .fldVal _ _ _ _ _ q c qc _ => q = false ∧ c = d ∧ qc = 0
  | .valQuote, d, .fldVal _ _ _ _ _ q c qc _ => q = true ∧ c = 0 ∧ qc = d
  | _, _, _ => False

/-- depth from which the balanced-scan lemmas hold (depth 0 of a field value is handled by
`IsValue` / `IsQBody`) -/
def Fam.lo : Fam → Nat
  | .bracket => 0 | .strVal => 0 | .valBrace => 1 | .valQuote => 1

def Mode.setDepth : Fam → Mode → Nat → Mode
  | .bracket, .bracket k _ b, d => .bracket k d b
  | .strVal, .strVal key _ v, d => .strVal key d v
  | .valBrace, .fldVal ty key fs fk el q _ qc v, d => .fldVal ty key fs fk el q d qc v
  | .valQuote, .fldVal ty key fs fk el q c _ v, d => .fldVal ty key fs fk el q c d v
  | _, m, _ => m

def St.setDepth (f : Fam) (s : St) (d : Nat) : St := { s with mode := s.mode.setDepth f d }

theorem Fam.at_scanning {f : Fam} {d : Nat} {m : Mode} (h : f.at d m) : m.scanning = true := by
  cases f <;> cases m <;> simp_all [Fam.at, Mode.scanning]

theorem Fam.at_push {f : Fam} {d : Nat} {m : Mode} (h : f.at d m) (ts : List Tok) : f.at d (m.push ts) := by
  cases f <;> cases m <;> simp_all [Fam.at, Mode.push]

theorem Fam.at_setDepth {f : Fam} {d : Nat} {m : Mode} (h : f.at d m) (d' : Nat) :
    f.at d' (m.setDepth f d') := by
  cases f <;> cases m <;> simp_all [Fam.at, Mode.setDepth]

theorem Fam.setDepth_self {f : Fam} {d : Nat} {m : Mode} (h : f.at d m) : m.setDepth f d = m := by
  cases f <;> cases m <;> simp_all [Fam.at, Mode.setDepth]

theorem Mode.setDepth_setDepth (f : Fam) (m : Mode) (a b : Nat) :
    (m.setDepth f a).setDepth f b = m.setDepth f b := by
  cases f <;> cases m <;> simp [Mode.setDepth]

theorem Mode.setDepth_push (f : Fam) (m : Mode) (d : Nat) (ts : List Tok) :
    (m.setDepth f d).push ts = (m.push ts).setDepth f d := by
  cases f <;> cases m <;> simp [Mode.setDepth, Mode.push]

theorem St.setDepth_absorbed (f : Fam) (s : St) (d : Nat) (ts : List Tok) :
    (s.setDepth f d).absorbed ts = (s.absorbed ts).setDepth f d := by
  simp [St.setDepth, St.absorbed, Mode.setDepth_push]

theorem step_balPlain (f : Fam) (s : St) (d : Nat) (t : Tok) (he : s.err = none) (hm : f.at d s.mode)
    (hd : f.lo ≤ d) (ht : isBalPlain t = true) : step P s t = s.absorbed [t] := by
  cases s with
  | mk out line bl raw mode err =>
    simp only at he; subst he
    cases t with
    | text cs => exact step_plain P _ _ rfl (Fam.at_scanning hm) rfl
    | mark k l =>
      cases k <;> simp [isBalPlain] at ht
      · -- quote
        cases f <;> cases mode <;> simp_all [Fam.at, Fam.lo, step, St.absorbed, Mode.push, nlCount, isNlTok]
        all_goals (try omega)
      · cases f <;> cases mode <;> simp_all [Fam.at, Fam.lo, step, St.absorbed, Mode.push, nlCount, isNlTok]
        all_goals (try omega)
      · cases f <;> cases mode <;> simp_all [Fam.at, Fam.lo, step, St.absorbed, Mode.push, nlCount, isNlTok]
      · exact step_plain P _ _ rfl (Fam.at_scanning hm) rfl

theorem step_open (f : Fam) (s : St) (d : Nat) (l : Str) (he : s.err = none) (hm : f.at d s.mode) :
    step P s (.mark .lbrace l) = (s.absorbed [.mark .lbrace l]).setDepth f (d+1) := by
  cases s with
  | mk out line bl raw mode err =>
    simp only at he; subst he
    cases f <;> cases mode <;>
      simp_all [Fam.at, Fam.lo, step, St.absorbed, St.setDepth, Mode.setDepth, Mode.push, nlCount, isNlTok]

theorem step_close (f : Fam) (s : St) (d : Nat) (l : Str) (he : s.err = none) (hm : f.at (d+1) s.mode) :
    step P s (.mark .rbrace l) = (s.absorbed [.mark .rbrace l]).setDepth f d := by
  cases s with
  | mk out line bl raw mode err =>
    simp only at he; subst he
    cases f <;> cases mode <;>
      simp_all [Fam.at, Fam.lo, step, St.absorbed, St.setDepth, Mode.setDepth, Mode.push, nlCount, isNlTok]

/-- **Balanced scan.** In each of the four brace-counting places, a balanced token sequence —
arbitrarily long and arbitrarily nested — is absorbed: the depth and the output are unchanged,
the line counter advances by its newlines. -/
theorem run_bal (f : Fam) {ts : List Tok} (h : IsBal ts) :
    ∀ (s : St) (d : Nat), s.err = none → f.at d s.mode → f.lo ≤ d → run P s ts = s.absorbed ts := by
  induction h with
  | nil => intro s d _ hm _; rw [run_nil, absorbed_nil s (Fam.at_scanning hm)]
  | plain t ts ht _ ih =>
    intro s d he hm hd
    rw [run_cons, step_balPlain P f s d t he hm hd ht,
      ih _ d (absorbed_err s [t] ▸ he) (Fam.at_push hm [t]) hd]
    rw [show t :: ts = [t] ++ ts from rfl, absorbed_append]
  | grp l r a b _ _ iha ihb =>
    intro s d he hm hd
    rw [run_cons, run_append, run_cons, step_open P f s d l he hm]
    have hm1 : f.at (d+1) ((s.absorbed [.mark .lbrace l]).setDepth f (d+1)).mode :=
      Fam.at_setDepth (Fam.at_push hm _) (d+1)
    rw [iha _ (d+1) (show ((s.absorbed [.mark .lbrace l]).setDepth f (d+1)).err = none from he) hm1 (by omega)]
    have hm2 : f.at (d+1) ((((s.absorbed [.mark .lbrace l]).setDepth f (d+1)).absorbed a)).mode :=
      Fam.at_push hm1 a
    rw [step_close P f _ d r (show ((((s.absorbed [.mark .lbrace l]).setDepth f (d+1)).absorbed a)).err = none from he) hm2]
    have hfin : ((((s.absorbed [.mark .lbrace l]).setDepth f (d+1)).absorbed a).absorbed [.mark .rbrace r]).setDepth f d
        = s.absorbed (.mark .lbrace l :: (a ++ [.mark .rbrace r])) := by
      rw [St.setDepth_absorbed, St.setDepth_absorbed]
      simp only [St.setDepth, Mode.setDepth_setDepth]
      rw [show (.mark .lbrace l :: (a ++ [.mark .rbrace r]) : List Tok) = [.mark .lbrace l] ++ a ++ [.mark .rbrace r] from by simp,
        absorbed_append, absorbed_append]
      have : f.at d (((s.absorbed [.mark .lbrace l]).absorbed a).absorbed [.mark .rbrace r]).mode :=
        Fam.at_push (Fam.at_push (Fam.at_push hm _) _) _
      cases hs : ((s.absorbed [.mark .lbrace l]).absorbed a).absorbed [.mark .rbrace r] with
      | mk o li bl rw md er =>
        rw [hs] at this
        simp only at this ⊢
        rw [Fam.setDepth_self this]
    rw [hfin]
    have hm3 : f.at d (s.absorbed (.mark .lbrace l :: (a ++ [.mark .rbrace r]))).mode := Fam.at_push hm _
    rw [ihb _ d (show (s.absorbed (.mark .lbrace l :: (a ++ [.mark .rbrace r]))).err = none from he) hm3 hd, ← absorbed_append]
    simp

/-! ### quoted bodies and field values -/

/-- tokens that are ordinary inside quotes at brace depth 0: text, newline, `,`, `=` -/
def isQPlain : Tok → Bool
  | .text _ => true
  | .mark .nl _ => true
  | .mark .comma _ => true
  | .mark .eq _ => true
  | _ => false

/-- `QBody ::= (T | NL | CM | EQ | LB Bal RB)*` -/
inductive IsQBody : List Tok → Prop
  | nil : IsQBody []
  | plain (t ts) : isQPlain t = true → IsQBody ts → IsQBody (t :: ts)
  | grp (l r a b) : IsBal a → IsQBody b → IsQBody (.mark .lbrace l :: (a ++ .mark .rbrace r :: b))

/-- `Value ::= (T | NL | LB Bal RB | Q QBody Q)*` -/
inductive IsValue : List Tok → Prop
  | nil : IsValue []
  | plain (t ts) : isPlainTok t = true → IsValue ts → IsValue (t :: ts)
  | braced (l r a b) : IsBal a → IsValue b → IsValue (.mark .lbrace l :: (a ++ .mark .rbrace r :: b))
  | quoted (l r a b) : IsQBody a → IsValue b → IsValue (.mark .quote l :: (a ++ .mark .quote r :: b))

def Mode.setQuote : Mode → Bool → Mode
  | .fldVal ty key fs fk el _ c qc v, q => .fldVal ty key fs fk el q c qc v
  | m, _ => m

def St.setQuote (s : St) (q : Bool) : St := { s with mode := s.mode.setQuote q }

theorem step_qPlain (s : St) (t : Tok) (he : s.err = none) (hm : Fam.valQuote.at 0 s.mode)
    (ht : isQPlain t = true) : step P s t = s.absorbed [t] := by
  cases s with
  | mk out line bl raw mode err =>
    simp only at he; subst he
    cases t with
    | text cs => exact step_plain P _ _ rfl (Fam.at_scanning hm) rfl
    | mark k l =>
      cases k <;> simp [isQPlain] at ht
      · cases mode <;> simp_all [Fam.at, step, St.absorbed, Mode.push, nlCount, isNlTok]
      · cases mode <;> simp_all [Fam.at, step, St.absorbed, Mode.push, nlCount, isNlTok]
      · exact step_plain P _ _ rfl (Fam.at_scanning hm) rfl

/-- an opening quote at depth 0 of an unquoted value -/
theorem step_quote_open (s : St) (l : Str) (he : s.err = none) (hm : Fam.valBrace.at 0 s.mode) :
    step P s (.mark .quote l) = (s.absorbed [.mark .quote l]).setQuote true ∧
    Fam.valQuote.at 0 ((s.absorbed [.mark .quote l]).setQuote true).mode := by
  cases s with
  | mk out line bl raw mode err =>
    simp only at he; subst he
    cases mode <;> simp_all [Fam.at, step, St.absorbed, St.setQuote, Mode.setQuote, Mode.push, nlCount, isNlTok]

/-- the closing quote -/
theorem step_quote_close (s : St) (l : Str) (he : s.err = none) (hm : Fam.valQuote.at 0 s.mode) :
    step P s (.mark .quote l) = (s.absorbed [.mark .quote l]).setQuote false ∧
    Fam.valBrace.at 0 ((s.absorbed [.mark .quote l]).setQuote false).mode := by
  cases s with
  | mk out line bl raw mode err =>
    simp only at he; subst he
    cases mode <;> simp_all [Fam.at, step, St.absorbed, St.setQuote, Mode.setQuote, Mode.push, nlCount, isNlTok]

theorem St.setQuote_absorbed (s : St) (q : Bool) (ts : List Tok) :
    (s.setQuote q).absorbed ts = (s.absorbed ts).setQuote q := by
  cases s with
  | mk out line bl raw mode err => cases mode <;> simp [St.setQuote, St.absorbed, Mode.setQuote, Mode.push]

theorem St.setQuote_setQuote (s : St) (a b : Bool) : (s.setQuote a).setQuote b = s.setQuote b := by
  cases s with
  | mk out line bl raw mode err => cases mode <;> simp [St.setQuote, Mode.setQuote]

theorem St.setQuote_false_of_valBrace (s : St) (d : Nat) (h : Fam.valBrace.at d s.mode) :
    s.setQuote false = s := by
  cases s with
  | mk out line bl raw mode err => cases mode <;> simp_all [Fam.at, St.setQuote, Mode.setQuote]

/-- a brace group `{ Bal }` met at depth `d` of family `f` -/
theorem run_group (f : Fam) (s : St) (d : Nat) (l r : Str) (a : List Tok) (he : s.err = none)
    (hm : f.at d s.mode) (ha : IsBal a) :
    run P s (.mark .lbrace l :: (a ++ [.mark .rbrace r])) =
      s.absorbed (.mark .lbrace l :: (a ++ [.mark .rbrace r])) := by
  rw [run_cons, run_append, run_cons, run_nil, step_open P f s d l he hm]
  have hm1 : f.at (d+1) ((s.absorbed [.mark .lbrace l]).setDepth f (d+1)).mode :=
    Fam.at_setDepth (Fam.at_push hm _) (d+1)
  have hlo : f.lo ≤ d + 1 := by cases f <;> simp [Fam.lo]
  rw [run_bal P f ha _ (d+1) (show ((s.absorbed [.mark .lbrace l]).setDepth f (d+1)).err = none from he) hm1 hlo]
  have hm2 : f.at (d+1) ((((s.absorbed [.mark .lbrace l]).setDepth f (d+1)).absorbed a)).mode :=
    Fam.at_push hm1 a
  rw [step_close P f _ d r (show ((((s.absorbed [.mark .lbrace l]).setDepth f (d+1)).absorbed a)).err = none from he) hm2]
  rw [St.setDepth_absorbed, St.setDepth_absorbed]
  simp only [St.setDepth, Mode.setDepth_setDepth]
  rw [show (.mark .lbrace l :: (a ++ [.mark .rbrace r]) : List Tok) = [.mark .lbrace l] ++ a ++ [.mark .rbrace r] from by simp,
    absorbed_append, absorbed_append]
  have : f.at d (((s.absorbed [.mark .lbrace l]).absorbed a).absorbed [.mark .rbrace r]).mode :=
    Fam.at_push (Fam.at_push (Fam.at_push hm _) _) _
  cases hs : ((s.absorbed [.mark .lbrace l]).absorbed a).absorbed [.mark .rbrace r] with
  | mk o li bl rw md er =>
    rw [hs] at this
    simp only at this ⊢
    rw [Fam.setDepth_self this]

/-- inside quotes at brace depth 0 a quoted body is absorbed -/
theorem run_qbody {ts : List Tok} (h : IsQBody ts) :
    ∀ (s : St), s.err = none → Fam.valQuote.at 0 s.mode → run P s ts = s.absorbed ts := by
  induction h with
  | nil => intro s _ hm; rw [run_nil, absorbed_nil s (Fam.at_scanning hm)]
  | plain t ts ht _ ih =>
    intro s he hm
    rw [run_cons, step_qPlain P s t he hm ht,
      ih _ (absorbed_err s [t] ▸ he) (Fam.at_push hm [t])]
    rw [show t :: ts = [t] ++ ts from rfl, absorbed_append]
  | grp l r a b ha _ ih =>
    intro s he hm
    rw [show (.mark .lbrace l :: (a ++ .mark .rbrace r :: b) : List Tok)
        = (.mark .lbrace l :: (a ++ [.mark .rbrace r])) ++ b from by simp, run_append,
      run_group P .valQuote s 0 l r a he hm ha,
      ih _ (show (s.absorbed _).err = none from he) (Fam.at_push hm _), ← absorbed_append]

/-- **Value scan.** Started at `q = false, curls = 0`, a field value — any mix of bare words, brace
groups and quoted pieces, arbitrarily nested — is absorbed and the scanner is back at
`q = false, curls = 0`. -/
theorem run_value {ts : List Tok} (h : IsValue ts) :
    ∀ (s : St), s.err = none → Fam.valBrace.at 0 s.mode → run P s ts = s.absorbed ts := by
  induction h with
  | nil => intro s _ hm; rw [run_nil, absorbed_nil s (Fam.at_scanning hm)]
  | plain t ts ht _ ih =>
    intro s he hm
    rw [run_cons, step_plain P s t he (Fam.at_scanning hm) ht,
      ih _ (absorbed_err s [t] ▸ he) (Fam.at_push hm [t])]
    rw [show t :: ts = [t] ++ ts from rfl, absorbed_append]
  | braced l r a b ha _ ih =>
    intro s he hm
    rw [show (.mark .lbrace l :: (a ++ .mark .rbrace r :: b) : List Tok)
        = (.mark .lbrace l :: (a ++ [.mark .rbrace r])) ++ b from by simp, run_append,
      run_group P .valBrace s 0 l r a he hm ha,
      ih _ (show (s.absorbed _).err = none from he) (Fam.at_push hm _), ← absorbed_append]
  | quoted l r a b ha _ ih =>
    intro s he hm
    rw [show (.mark .quote l :: (a ++ .mark .quote r :: b) : List Tok)
        = [.mark .quote l] ++ a ++ [.mark .quote r] ++ b from by simp,
      run_append, run_append, run_append]
    obtain ⟨h1, hq1⟩ := step_quote_open P s l he hm
    rw [show run P s [.mark .quote l] = step P s (.mark .quote l) from rfl, h1]
    rw [run_qbody P ha _ (show ((s.absorbed [.mark .quote l]).setQuote true).err = none from he) hq1]
    have hq2 : Fam.valQuote.at 0 (((s.absorbed [.mark .quote l]).setQuote true).absorbed a).mode :=
      Fam.at_push hq1 a
    obtain ⟨h2, hb2⟩ := step_quote_close P _ r
      (show (((s.absorbed [.mark .quote l]).setQuote true).absorbed a).err = none from he) hq2
    rw [show run P (((s.absorbed [.mark .quote l]).setQuote true).absorbed a) [.mark .quote r]
        = step P _ (.mark .quote r) from rfl, h2]
    have hfin : ((((s.absorbed [.mark .quote l]).setQuote true).absorbed a).absorbed [.mark .quote r]).setQuote false
        = s.absorbed ([.mark .quote l] ++ a ++ [.mark .quote r]) := by
      rw [St.setQuote_absorbed, St.setQuote_absorbed, St.setQuote_setQuote,
        absorbed_append, absorbed_append]
      exact St.setQuote_false_of_valBrace _ 0 (Fam.at_push (Fam.at_push (Fam.at_push hm _) _) _)
    rw [hfin] at hb2 ⊢
    rw [ih _ (show (s.absorbed _).err = none from he) hb2, ← absorbed_append]

end Bib
