/-
  Lexer facts used by C01/C03: a newline character only ever occurs as the newline mark.
-/
import BibVerif.Lemmas.Tile
namespace Bib

theorem nlc_cons (c : Char) (s : Str) : nlc (c :: s) = (if c = '\n' then 1 else 0) + nlc s := by
  unfold nlc
  by_cases hc : c = '\n'
  · subst hc; simp; omega
  · have : ('\n' == c) = false := by simpa using fun h => hc h.symm
    rw [List.count_cons]; simp [hc]

theorem nlc_eq_zero_of_not_mem {s : Str} (h : '\n' ∉ s) : nlc s = 0 := by
  unfold nlc; simp [List.count_eq_zero_of_not_mem h]

theorem nlTok_pushText (c : Char) (hc : c ≠ '\n') (ts : List Tok) (h : ∀ t ∈ ts, NlTok t) :
    ∀ t ∈ pushText c ts, NlTok t := by
  cases ts with
  | nil =>
    intro t ht
    simp only [pushText, List.mem_singleton] at ht
    subst ht
    simp [NlTok, isNlTok, Tok.lit, nlc_cons, hc, nlc_nil]
  | cons a r =>
    cases a with
    | text cs =>
      intro t ht
      simp only [pushText, List.mem_cons] at ht
      rcases ht with rfl | ht
      · have := h (.text cs) (List.mem_cons_self)
        simp only [NlTok, isNlTok, Tok.lit] at this ⊢
        rw [nlc_cons]; simp [hc, this]
      · exact h t (List.mem_cons_of_mem _ ht)
    | mark k l =>
      intro t ht
      simp only [pushText, List.mem_cons] at ht
      rcases ht with rfl | ht
      · simp [NlTok, isNlTok, Tok.lit, nlc_cons, hc, nlc_nil]
      · exact h t (by simpa using ht)

theorem delimKind_nl_iff (c : Char) (k : Kind) (h : delimKind c = some k) : (k = .nl ↔ c = '\n') := by
  unfold delimKind at h
  repeat' split at h
  all_goals first
    | (cases h; done)
    | (injection h with h; subst h; simp_all; try decide)

/-- hypotheses on `\w` the lexer lemmas need (checked against CPython over all code points) -/
structure WordOK (P : PyChars) : Prop where
  nl : P.isWord '\n' = false

theorem nlTok_lexFrom (P : PyChars) (hP : WordOK P) (b : Bool) (s : Str) :
    ∀ t ∈ lexFrom P b s, NlTok t := by
  fun_induction lexFrom P b s with
  | case1 => simp
  | case2 b c rest k hk ih =>
    intro t ht
    rcases List.mem_cons.mp ht with rfl | ht
    · have hd : delimKind c = some k := by
        split at hk
        · cases hk
        · exact hk
      have hiff := delimKind_nl_iff c k hd
      by_cases hc : c = '\n'
      · have hk' := hiff.mpr hc; subst hk'; subst hc
        simp [NlTok, isNlTok, Tok.lit, nlc_cons, nlc_nil]
      · have hk' : k ≠ .nl := fun h => hc (hiff.mp h)
        have : isNlTok (.mark k [c]) = false := by cases k <;> first | rfl | exact absurd rfl hk'
        simp [NlTok, this, Tok.lit, nlc_cons, hc, nlc_nil]
    · exact ih t ht
  | case3 b rest lit r2 h hk ih =>
    intro t ht
    rcases List.mem_cons.mp ht with rfl | ht
    · -- the `@type` mark: `@`, word characters, blanks
      have hlit : lit = rest.takeWhile P.isWord ++ (rest.dropWhile P.isWord).takeWhile isBlank := by
        unfold atMatch at h; simp only at h; split at h
        · injection h with h; injection h with h1 h2; exact h1.symm
        · cases h
      have hno : '\n' ∉ lit := by
        rw [hlit]; intro hm
        rcases List.mem_append.mp hm with hm | hm
        · have := mem_takeWhile_imp hm; rw [hP.nl] at this; cases this
        · have := mem_takeWhile_imp hm; simp [isBlank] at this
      simp [NlTok, isNlTok, Tok.lit, nlc_cons, nlc_eq_zero_of_not_mem hno]
    · exact ih t ht
  | case4 b rest h hk ih => exact nlTok_pushText _ (by decide) _ ih
  | case5 b c rest hk hc ih =>
    refine nlTok_pushText _ ?_ _ ih
    intro hcn; subst hcn
    simp [delimKind] at hk

end Bib
