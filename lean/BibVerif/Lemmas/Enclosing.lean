/-
  Helper lemmas for C10 (value level): the shape of `_strip_enclosing`, `_enclose`, dict operations.
-/
import BibVerif.Enclosing
namespace Bib.Enclosing
open Bib

variable (P : PyChars)

/-- `value` has length ≥ 2, starts with `a` and ends with `b`  ⇔  `value = a :: inner ++ [b]` -/
theorem enclosed_iff (s : Str) (a b : Char) :
    (decide (s.length ≥ 2) && startsWith [a] s && endsWith [b] s) = true ↔ ∃ inner, s = a :: inner ++ [b] := by
  simp only [startsWith, endsWith, Bool.and_eq_true, decide_eq_true_eq, List.isPrefixOf_iff_prefix,
    List.isSuffixOf_iff_suffix]
  constructor
  · rintro ⟨⟨hl, ⟨t, ht⟩⟩, ⟨u, hu⟩⟩
    cases u with
    | nil => subst hu; simp at hl
    | cons c u' =>
      subst ht
      simp only [List.cons_append, List.nil_append, List.cons.injEq] at hu
      exact ⟨u', by rw [← hu.2]; simp⟩
  · rintro ⟨inner, rfl⟩
    refine ⟨⟨by simp, ⟨inner ++ [b], by simp⟩⟩, ⟨a :: inner, by simp⟩⟩

theorem inner_of_enclosed (a b : Char) (inner : Str) :
    ((a :: inner ++ [b]).drop 1).dropLast = inner := by
  simp

/-- the three outcomes of `_strip_enclosing`, with the shape of the stripped value -/
theorem stripEnclosing_cases (v : Str) :
    (∃ inner, strip P v = '{' :: inner ++ ['}'] ∧ stripEnclosing P v = (inner, ['{'])) ∨
    (∃ inner, strip P v = '"' :: inner ++ ['"'] ∧ stripEnclosing P v = (inner, ['"'])) ∨
    ((¬ ∃ inner, strip P v = '{' :: inner ++ ['}']) ∧ (¬ ∃ inner, strip P v = '"' :: inner ++ ['"']) ∧
      stripEnclosing P v = (strip P v, NO_ENCLOSING)) := by
  unfold stripEnclosing
  simp only
  by_cases h1 : (decide ((strip P v).length ≥ 2) && startsWith ['{'] (strip P v) && endsWith ['}'] (strip P v)) = true
  · obtain ⟨inner, hi⟩ := (enclosed_iff _ _ _).mp h1
    left
    refine ⟨inner, hi, ?_⟩
    rw [if_pos h1, hi, inner_of_enclosed]
  · rw [if_neg h1]
    have n1 : ¬ ∃ inner, strip P v = '{' :: inner ++ ['}'] := fun h => h1 ((enclosed_iff _ _ _).mpr h)
    by_cases h2 : (decide ((strip P v).length ≥ 2) && startsWith ['"'] (strip P v) && endsWith ['"'] (strip P v)) = true
    · obtain ⟨inner, hi⟩ := (enclosed_iff _ _ _).mp h2
      right; left
      refine ⟨inner, hi, ?_⟩
      rw [if_pos h2, hi, inner_of_enclosed]
    · rw [if_neg h2]
      right; right
      exact ⟨n1, fun h => h2 ((enclosed_iff _ _ _).mpr h), rfl⟩

theorem no_enclosing_ne_brace : NO_ENCLOSING ≠ ['{'] := by decide
theorem no_enclosing_ne_quote : NO_ENCLOSING ≠ ['"'] := by decide

/-! ### dict operations -/

theorem assocGet_set_same {β : Type} (d : List (Str × β)) (k : Str) (v : β) :
    assocGet (assocSet d k v) k = some v := by
  induction d with
  | nil => simp [assocSet, assocGet]
  | cons p r ih =>
    obtain ⟨k', v'⟩ := p
    by_cases h : k' = k <;> simp [assocSet, assocGet, h, ih]

theorem assocGet_set_other {β : Type} (d : List (Str × β)) (k k2 : Str) (v : β) (h : k ≠ k2) :
    assocGet (assocSet d k v) k2 = assocGet d k2 := by
  induction d with
  | nil => simp [assocSet, assocGet, h]
  | cons p r ih =>
    obtain ⟨k', v'⟩ := p
    by_cases h1 : k' = k
    · subst h1; simp [assocSet, assocGet, h]
    · by_cases h2 : k' = k2
      · subst h2; simp [assocSet, assocGet, h1]
      · simp [assocSet, assocGet, h1, h2, ih]

theorem assocErase_set_fresh {β : Type} (d : List (Str × β)) (k : Str) (v : β) (h : assocGet d k = none) :
    assocErase (assocSet d k v) k = d := by
  induction d with
  | nil => simp [assocSet, assocErase]
  | cons p r ih =>
    obtain ⟨k', v'⟩ := p
    by_cases h1 : k' = k
    · simp [assocGet, h1] at h
    · simp only [assocGet, h1, ↓reduceIte] at h
      simp [assocSet, assocErase, h1, ih h]

/-! ### whole entries: remove, then add with reuse -/

/-- the text of a value that is a `str` -/
def strOf : Val → Str
  | .str s => s
  | _ => []

def AllStr (fs : List Field) : Prop := ∀ f ∈ fs, ∃ s, f.value = .str s

/-- the fields after `RemoveEnclosingMiddleware.transform_entry` -/
def strippedFields (fs : List Field) : List Field :=
  fs.map fun f => { f with value := .str (stripEnclosing P (strOf f.value)).1 }

/-- the fields after remove + add with reuse: every value is its own `strip()` -/
def restoredFields (fs : List Field) : List Field :=
  fs.map fun f => { f with value := .str (strip P (strOf f.value)) }

/-- the `metadata` dict `transform_entry` builds: later fields overwrite earlier ones with the same key;
with pairwise distinct keys every field finds its own kind -/
theorem removeFields_md (fs : List Field) (h : AllStr fs) (md0 : List (Str × Str)) :
    ∃ md', removeFields P fs md0 = .ok (strippedFields P fs, md') ∧
      (∀ k, (∀ f ∈ fs, f.key ≠ k) → assocGet md' k = assocGet md0 k) ∧
      (fs.Pairwise (fun a b => a.key ≠ b.key) →
        ∀ f ∈ fs, assocGet md' f.key = some (stripEnclosing P (strOf f.value)).2) := by
  induction fs generalizing md0 with
  | nil => exact ⟨md0, rfl, fun _ _ => rfl, fun _ f hf => by simp at hf⟩
  | cons f r ih =>
    obtain ⟨s, hs⟩ := h f (by simp)
    obtain ⟨md', hmd, h1, h2⟩ := ih (fun g hg => h g (by simp [hg])) (assocSet md0 f.key (stripEnclosing P s).2)
    refine ⟨md', by simp [removeFields, hs, hmd, strippedFields, strOf], ?_, ?_⟩
    · intro k hk
      rw [h1 k (fun g hg => hk g (by simp [hg]))]
      exact assocGet_set_other _ _ _ _ (hk f (by simp))
    · intro hp g hg
      rw [List.pairwise_cons] at hp
      rcases List.mem_cons.mp hg with rfl | hg
      · rw [h1 g.key (fun x hx => (hp.1 x hx).symm), assocGet_set_same, hs]; rfl
      · exact h2 hp.2 g hg

/-- the add loop on the stripped fields, with the dict from the remove loop -/
theorem addFields_restore (cfg : AddCfg) (hr : cfg.reusePrevious = true) (md : List (Str × Str))
    (fs : List Field) (h : AllStr fs)
    (hmd : ∀ f ∈ fs, assocGet md f.key = some (stripEnclosing P (strOf f.value)).2) :
    addFields P cfg (some (.dict md)) (strippedFields P fs) = .ok (restoredFields P fs) := by
  induction fs with
  | nil => rfl
  | cons f r ih =>
    have hrest := ih (fun g hg => h g (by simp [hg])) (fun g hg => hmd g (by simp [hg]))
    have hk := hmd f (by simp)
    have henc : enclose P cfg (.str (stripEnclosing P (strOf f.value)).1)
        (some (.str (stripEnclosing P (strOf f.value)).2)) (isIntField f.key) = .ok (.str (strip P (strOf f.value))) := by
      rcases stripEnclosing_cases P (strOf f.value) with ⟨i, hs, hres⟩ | ⟨i, hs, hres⟩ | ⟨_, _, hres⟩
      · simp [enclose, pyStr, hr, hres, wrapWith, hs]
      · simp [enclose, pyStr, hr, hres, wrapWith, hs]
      · simp [enclose, pyStr, hr, hres, wrapWith, no_enclosing_ne_brace, no_enclosing_ne_quote]
    simp only [strippedFields, restoredFields, List.map_cons] at hrest ⊢
    simp only [addFields, prevEnclosing, hk, Option.map_some, henc, hrest]

end Bib.Enclosing
