/-
  C05 (grammar level): a concrete derivation satisfying every hypothesis of `content_preserved_grammar`
  for the model's ASCII table - an @string, and an entry with a concatenation `{A} # {B}`, a quoted value
  and a reference to the @string.
-/
import BibVerif.Lemmas.GrammarDoc
import BibVerif.Lemmas.PrintParseClean
namespace Bib.PrintParse
open Bib

instance (P : PyChars) (ts : List Tok) : Decidable (noBS P ts) := by unfold noBS; infer_instance
instance (P : PyChars) (ts : List Tok) : Decidable (contentNoBS P ts) := by unfold contentNoBS; infer_instance

def Tx (s : String) : Tok := .text s.toList
def Qt : Tok := .mark .quote ['"']

/-- `@string{s = {x}}` NL `@a{k, t = {A} # {B}, u = "q", w = s}` -/
def gStr : BlockSrc := .string "@string".toList [Tx "s "] [Tx " ", LB, Tx "x", RB]

def gEnt : BlockSrc :=
  .entry "@a".toList [Tx "k"]
    [⟨[Tx " t "], [Tx " ", LB, Tx "A", RB, Tx " # ", LB, Tx "B", RB]⟩,
     ⟨[Tx " u "], [Tx " ", Qt, Tx "q", Qt]⟩,
     ⟨[Tx " w "], [Tx " s"]⟩] none

def gDoc : Doc := { head := [NLt], items := [(gStr, [NLt]), (gEnt, [])] }

def gText : Str := "@string{s = {x}}\n@a{k, t = {A} # {B}, u = \"q\", w = s}".toList

theorem gDoc_text : '\n' :: gText = flatten gDoc.toks := by decide

theorem simpleT (s : String) (h : s.toList.all simpleChar = true) : SimpleText s.toList :=
  fun c hc => List.all_eq_true.mp h c hc

/-- the tokens of the example are what the lexer produces -/
theorem gDoc_canon : Canon asciiChars false gDoc.toks := by
  have tx : ∀ (b : Bool) (s : String) (ts : List Tok), s.toList ≠ [] → s.toList.all simpleChar = true →
      startsWithMark ts → Canon asciiChars (lastIsBS b s.toList) ts → Canon asciiChars b (Tx s :: ts) :=
    fun b s ts hne hs hm hc => Canon.text b s.toList ts hne (cleanText_simple asciiChars b _ _ (simpleT s hs)) hm hc
  have dl : ∀ (b : Bool) (c : Char) (k : Kind) (ts : List Tok), delimKind c = some k → (b = false ∨ c = '\n') →
      Canon asciiChars false ts → Canon asciiChars b (.mark k [c] :: ts) :=
    fun b c k ts hk hb hc => Canon.delim b c k ts hk hb hc
  show Canon asciiChars false
    [NLt, AT "@string".toList, LB, Tx "s ", EQ, Tx " ", LB, Tx "x", RB, RB, NLt,
     AT "@a".toList, LB, Tx "k", CM, Tx " t ", EQ, Tx " ", LB, Tx "A", RB, Tx " # ", LB, Tx "B", RB, CM,
     Tx " u ", EQ, Tx " ", Qt, Tx "q", Qt, CM, Tx " w ", EQ, Tx " s", RB]
  refine dl _ '\n' .nl _ (by decide) (by decide) ?_
  refine Canon.atm false "string".toList [] _ (by decide) (by decide) ?_
  refine dl _ '{' .lbrace _ (by decide) (by decide) ?_
  refine tx _ "s " _ (by decide) (by decide) trivial ?_
  refine dl _ '=' .eq _ (by decide) (by decide) ?_
  refine tx _ " " _ (by decide) (by decide) trivial ?_
  refine dl _ '{' .lbrace _ (by decide) (by decide) ?_
  refine tx _ "x" _ (by decide) (by decide) trivial ?_
  refine dl _ '}' .rbrace _ (by decide) (by decide) ?_
  refine dl _ '}' .rbrace _ (by decide) (by decide) ?_
  refine dl _ '\n' .nl _ (by decide) (by decide) ?_
  refine Canon.atm false "a".toList [] _ (by decide) (by decide) ?_
  refine dl _ '{' .lbrace _ (by decide) (by decide) ?_
  refine tx _ "k" _ (by decide) (by decide) trivial ?_
  refine dl _ ',' .comma _ (by decide) (by decide) ?_
  refine tx _ " t " _ (by decide) (by decide) trivial ?_
  refine dl _ '=' .eq _ (by decide) (by decide) ?_
  refine tx _ " " _ (by decide) (by decide) trivial ?_
  refine dl _ '{' .lbrace _ (by decide) (by decide) ?_
  refine tx _ "A" _ (by decide) (by decide) trivial ?_
  refine dl _ '}' .rbrace _ (by decide) (by decide) ?_
  refine tx _ " # " _ (by decide) (by decide) trivial ?_
  refine dl _ '{' .lbrace _ (by decide) (by decide) ?_
  refine tx _ "B" _ (by decide) (by decide) trivial ?_
  refine dl _ '}' .rbrace _ (by decide) (by decide) ?_
  refine dl _ ',' .comma _ (by decide) (by decide) ?_
  refine tx _ " u " _ (by decide) (by decide) trivial ?_
  refine dl _ '=' .eq _ (by decide) (by decide) ?_
  refine tx _ " " _ (by decide) (by decide) trivial ?_
  refine dl _ '"' .quote _ (by decide) (by decide) ?_
  refine tx _ "q" _ (by decide) (by decide) trivial ?_
  refine dl _ '"' .quote _ (by decide) (by decide) ?_
  refine dl _ ',' .comma _ (by decide) (by decide) ?_
  refine tx _ " w " _ (by decide) (by decide) trivial ?_
  refine dl _ '=' .eq _ (by decide) (by decide) ?_
  refine tx _ " s" _ (by decide) (by decide) trivial ?_
  refine dl _ '}' .rbrace _ (by decide) (by decide) ?_
  exact Canon.nil _

/-! ### `LowerOK` for the ASCII table -/

theorem toLower_toNat (c : Char) :
    c.toLower.toNat = if 65 ≤ c.toNat ∧ c.toNat ≤ 90 then c.toNat + 32 else c.toNat := by
  unfold Char.toLower
  split
  · rename_i h
    have h1 : 65 ≤ c.toNat ∧ c.toNat ≤ 90 :=
      ⟨UInt32.le_iff_toNat_le.mp h.1, UInt32.le_iff_toNat_le.mp h.2⟩
    rw [if_pos h1]
    show (c.val + ('a'.val - 'A'.val)).toNat = c.val.toNat + 32
    rw [UInt32.toNat_add]
    have : ('a'.val - 'A'.val).toNat = 32 := by decide
    rw [this]
    have : c.val.toNat ≤ 90 := h1.2
    omega
  · rename_i h
    have h1 : ¬ (65 ≤ c.toNat ∧ c.toNat ≤ 90) := fun ⟨a, b⟩ =>
      h ⟨UInt32.le_iff_toNat_le.mpr a, UInt32.le_iff_toNat_le.mpr b⟩
    rw [if_neg h1]

theorem toNat_inj' {c d : Char} (h : c.toNat = d.toNat) : c = d := by
  rw [← Char.ofNat_toNat c, ← Char.ofNat_toNat d, h]

theorem word_ranges (c : Char) (h : asciiChars.isWord c = true) :
    (65 ≤ c.toNat ∧ c.toNat ≤ 90) ∨ (97 ≤ c.toNat ∧ c.toNat ≤ 122) ∨ (48 ≤ c.toNat ∧ c.toNat ≤ 57) ∨ c.toNat = 95 := by
  simp only [asciiChars, Char.isAlphanum, Char.isAlpha, Char.isUpper, Char.isLower, Char.isDigit,
    Bool.or_eq_true, Bool.and_eq_true, decide_eq_true_eq, ge_iff_le] at h
  rcases h with ((h | h) | h) | h
  · exact Or.inl ⟨UInt32.le_iff_toNat_le.mp h.1, UInt32.le_iff_toNat_le.mp h.2⟩
  · exact Or.inr (Or.inl ⟨UInt32.le_iff_toNat_le.mp h.1, UInt32.le_iff_toNat_le.mp h.2⟩)
  · exact Or.inr (Or.inr (Or.inl ⟨UInt32.le_iff_toNat_le.mp h.1, UInt32.le_iff_toNat_le.mp h.2⟩))
  · subst h; exact Or.inr (Or.inr (Or.inr (by decide)))

theorem lowerOK_ascii : LowerOK asciiChars where
  idem := by
    intro c d hd
    simp only [asciiChars, List.mem_singleton] at hd
    subst hd
    show [c.toLower.toLower] = [c.toLower]
    congr 1
    apply toNat_inj'
    rw [toLower_toNat c.toLower, toLower_toNat c]
    split
    · rw [if_neg (by omega)]
    · rfl
  wordNoSpace := by
    intro c hc d hd
    simp only [asciiChars, List.mem_singleton] at hd
    subst hd
    have hr := word_ranges c hc
    have hl := toLower_toNat c
    cases hs : asciiChars.isSpace c.toLower with
    | false => rfl
    | true =>
      exfalso
      simp only [asciiChars, Bool.or_eq_true, decide_eq_true_eq, Bool.and_eq_true] at hs
      have : c.toLower.toNat = 32 ∨ c.toLower.toNat = 9 ∨ c.toLower.toNat = 10 ∨ c.toLower.toNat = 13 ∨
          c.toLower.toNat = 11 ∨ c.toLower.toNat = 12 ∨ (28 ≤ c.toLower.toNat ∧ c.toLower.toNat ≤ 31) := by
        rcases hs with (((((h | h) | h) | h) | h) | h) | h
        · rw [h]; exact Or.inl (by decide)
        · rw [h]; exact Or.inr (Or.inl (by decide))
        · rw [h]; exact Or.inr (Or.inr (Or.inl (by decide)))
        · rw [h]; exact Or.inr (Or.inr (Or.inr (Or.inl (by decide))))
        · exact Or.inr (Or.inr (Or.inr (Or.inr (Or.inl h))))
        · exact Or.inr (Or.inr (Or.inr (Or.inr (Or.inr (Or.inl h)))))
        · exact Or.inr (Or.inr (Or.inr (Or.inr (Or.inr (Or.inr h)))))
      split at hl <;> omega
  blank := by
    intro c hc
    simp only [isBlank, Bool.or_eq_true, decide_eq_true_eq] at hc
    rcases hc with rfl | rfl <;> decide

theorem gDoc_ok5 : Doc.OK5 asciiChars gDoc := by
  have vx : IsValue [Tx " ", LB, Tx "x", RB] :=
    IsValue.plain _ _ rfl (IsValue.braced _ _ [Tx "x"] [] (IsBal.plain _ _ rfl IsBal.nil) IsValue.nil)
  have vt : IsValue [Tx " ", LB, Tx "A", RB, Tx " # ", LB, Tx "B", RB] :=
    IsValue.plain _ _ rfl (IsValue.braced _ _ [Tx "A"] [Tx " # ", LB, Tx "B", RB] (IsBal.plain _ _ rfl IsBal.nil)
      (IsValue.plain _ _ rfl (IsValue.braced _ _ [Tx "B"] [] (IsBal.plain _ _ rfl IsBal.nil) IsValue.nil)))
  have vu : IsValue [Tx " ", Qt, Tx "q", Qt] :=
    IsValue.plain _ _ rfl (IsValue.quoted _ _ [Tx "q"] [] (IsQBody.plain _ _ rfl IsQBody.nil) IsValue.nil)
  have vw : IsValue [Tx " s"] := IsValue.plain _ _ rfl IsValue.nil
  refine ⟨⟨by decide, ?_⟩, ?_, ?_, by decide, by decide⟩
  · intro bj hbj
    simp only [gDoc, List.mem_cons, List.not_mem_nil, or_false] at hbj
    rcases hbj with rfl | rfl
    · exact ⟨⟨by decide +kernel, by decide, isValue_isBal vx⟩, by decide⟩
    · refine ⟨⟨by decide +kernel, by decide, ?_, ?_⟩, by decide⟩
      · intro f hf
        simp only [List.mem_cons, List.not_mem_nil, or_false] at hf
        rcases hf with rfl | rfl | rfl
        · exact ⟨by decide, vt⟩
        · exact ⟨by decide, vu⟩
        · exact ⟨by decide, vw⟩
      · intro w hw; cases hw
  · intro bj hbj
    simp only [gDoc, List.mem_cons, List.not_mem_nil, or_false] at hbj
    rcases hbj with rfl | rfl
    · trivial
    · simp only [gEnt, BlockSrc.DistinctFields]; decide +kernel
  · intro bj hbj
    simp only [gDoc, List.mem_cons, List.not_mem_nil, or_false] at hbj
    rcases hbj with rfl | rfl
    · exact ⟨by decide +kernel, vx, by decide +kernel⟩
    · refine ⟨by decide +kernel, by decide +kernel, ?_⟩
      intro f hf
      simp only [List.mem_cons, List.not_mem_nil, or_false] at hf
      rcases hf with rfl | rfl | rfl
      · exact ⟨by decide +kernel, by decide +kernel⟩
      · exact ⟨by decide +kernel, by decide +kernel⟩
      · exact ⟨by decide +kernel, by decide +kernel⟩

end Bib.PrintParse
