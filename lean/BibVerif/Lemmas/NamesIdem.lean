/-
  C12 helper lemmas for `idempotent`: the machine run on the pieces re-joined with " and ".

  The control part of the machine (step, brace level, pending escape) evolves independently of the
  positions (`stepc_ctl`).  Hence the control state inside a piece is a function of the text of
  the piece alone (`Sim`), and what the machine did at the end of a piece in the original text
  (`EndOK`: whitespace there sets `possible_end`) it does again when the piece is followed by
  " and ".
-/
import BibVerif.Lemmas.NamesWords
import BibVerif.Lemmas.NamesJoin
namespace Bib.CoAuth

/-- what a step does to the spans -/
inductive Act | none | setEnd | newSpan
deriving DecidableEq, Repr

/-- the control part of `plainStep` -/
def ctlPlain (st : Step) (c : Char) : Step × Act :=
  match st with
  | .startWs => if isWs c then (.findA, .setEnd) else (.startWs, .none)
  | .findA => if c = 'a' || c = 'A' then (.findN, .none) else if isWs c then (.findA, .none) else (.startWs, .none)
  | .findN => if c = 'n' || c = 'N' then (.findD, .none) else if isWs c then (.findA, .setEnd) else (.startWs, .none)
  | .findD => if c = 'd' || c = 'D' then (.endWs, .none) else if isWs c then (.findA, .setEnd) else (.startWs, .none)
  | .endWs => if isWs c then (.nextWord, .none) else (.startWs, .none)
  | .nextWord => if isWs c then (.nextWord, .none) else (.startWs, .newSpan)

/-- the control part of `stepc`: new step, level, escape flag, and the action on the spans -/
def ctl (st : Step) (lv : Nat) (e : Bool) (c : Char) : Step × Nat × Bool × Act :=
  if e then (st, lv, false, .none)
  else if c = '\\' then (.startWs, lv, true, if st = .nextWord then .newSpan else .none)
  else if c = '{' then (.startWs, lv + 1, false, if st = .nextWord then .newSpan else .none)
  else if c = '}' then (.startWs, lv - 1, false, .none)
  else if lv > 0 then (.startWs, lv, false, .none)
  else ((ctlPlain st c).1, lv, false, (ctlPlain st c).2)

def applyAct (m : M) (r : Step × Nat × Bool × Act) : M :=
  { step := r.1, level := r.2.1, esc := r.2.2.1, pos := m.pos + 1,
    possibleEnd := if r.2.2.2 = .setEnd then m.pos else m.possibleEnd,
    curStart := if r.2.2.2 = .newSpan then m.pos else m.curStart,
    done := if r.2.2.2 = .newSpan then (m.curStart, m.possibleEnd) :: m.done else m.done }

theorem stepc_ctl (m : M) (c : Char) : stepc m c = applyAct m (ctl m.step m.level m.esc c) := by
  unfold stepc ctl applyAct
  by_cases he : m.esc = true
  · simp [he]
  · have he' : m.esc = false := by simpa using he
    by_cases h1 : c = '\\'
    · by_cases hn : m.step = .nextWord <;> simp [he', h1, hn, M.newSpan]
    · by_cases h2 : c = '{'
      · by_cases hn : m.step = .nextWord <;> simp [he', h2, hn, M.newSpan]
      · by_cases h3 : c = '}'
        · simp [he', h3]
        · by_cases h4 : m.level > 0
          · simp [he', h1, h2, h3, h4]
          · simp only [he', h1, h2, h3, h4, if_false, Bool.false_eq_true]
            unfold plainStep ctlPlain
            cases hs : m.step <;> simp only <;> (repeat' split) <;> simp_all [M.newSpan]

/-! ### facts about `ctl` -/

theorem ctl_setEnd {st : Step} {lv : Nat} {e : Bool} {c : Char} (h : (ctl st lv e c).2.2.2 = .setEnd) :
    e = false ∧ lv = 0 ∧ setsEnd st = true ∧ isWs c = true := by
  unfold ctl at h
  by_cases he : e = true
  · simp [he] at h
  · have he' : e = false := by simpa using he
    by_cases h1 : c = '\\'
    · by_cases hn : st = .nextWord <;> simp [he', h1, hn] at h
    · by_cases h2 : c = '{'
      · by_cases hn : st = .nextWord <;> simp [he', h2, hn] at h
      · by_cases h3 : c = '}'
        · simp [he', h3] at h
        · by_cases h4 : lv > 0
          · simp [he', h1, h2, h3, h4] at h
          · simp only [he', h1, h2, h3, h4, if_false, Bool.false_eq_true] at h
            refine ⟨he', by omega, ?_, ?_⟩ <;>
            · unfold ctlPlain at h
              cases st <;> simp only at h <;> (repeat' split at h) <;> simp_all [setsEnd]

theorem ctl_newSpan {st : Step} {lv : Nat} {e : Bool} {c : Char} (h : (ctl st lv e c).2.2.2 = .newSpan) :
    e = false ∧ st = .nextWord ∧ isWs c = false ∧ c ≠ '}' ∧
      ctl st lv e c = ((ctl .startWs lv false c).1, (ctl .startWs lv false c).2.1, (ctl .startWs lv false c).2.2.1, .newSpan) ∧
      (ctl .startWs lv false c).2.2.2 = .none ∧ (lv = 0 → (ctl .startWs lv false c).1 = .startWs) := by
  unfold ctl at h ⊢
  by_cases he : e = true
  · simp [he] at h
  · have he' : e = false := by simpa using he
    by_cases h1 : c = '\\'
    · by_cases hn : st = .nextWord
      · subst h1; simp [he', hn, isWs]
      · simp [he', h1, hn] at h
    · by_cases h2 : c = '{'
      · by_cases hn : st = .nextWord
        · subst h2; simp [he', hn, isWs]
        · simp [he', h2, hn] at h
      · by_cases h3 : c = '}'
        · simp [he', h3] at h
        · by_cases h4 : lv > 0
          · simp [he', h1, h2, h3, h4] at h
          · simp only [he', h1, h2, h3, h4, if_false, Bool.false_eq_true] at h ⊢
            unfold ctlPlain at h ⊢
            cases st <;> simp only at h <;> (repeat' split at h) <;> simp_all

/-- leaving START_WHITESPACE without recording `possible_end` is impossible -/
theorem ctl_none_from {st : Step} {lv : Nat} {e : Bool} {c : Char} (h : (ctl st lv e c).2.2.2 = .none)
    (hs : (ctl st lv e c).1 ≠ .startWs) : st ≠ .startWs := by
  intro hst
  subst hst
  unfold ctl at h hs
  by_cases he : e = true
  · simp [he] at hs
  · have he' : e = false := by simpa using he
    by_cases h1 : c = '\\'
    · simp [he', h1] at hs
    · by_cases h2 : c = '{'
      · simp [he', h2] at hs
      · by_cases h3 : c = '}'
        · simp [he', h3] at hs
        · by_cases h4 : lv > 0
          · simp [he', h1, h2, h3, h4] at hs
          · simp only [he', h1, h2, h3, h4, if_false, Bool.false_eq_true, ctlPlain] at h hs
            by_cases hw : isWs c = true <;> simp [hw] at h hs

/-- outside START_WHITESPACE the machine is at depth 0 with no pending escape -/
def CI (m : M) : Prop := m.step ≠ .startWs → m.level = 0 ∧ m.esc = false

theorem ci_stepc {m : M} (c : Char) (h : CI m) : CI (stepc m c) := by
  rw [stepc_ctl]
  unfold CI applyAct ctl at *
  simp only
  by_cases he : m.esc = true
  · simp only [he, if_true]
    intro hs
    have := h hs
    rw [he] at this; simp at this
  · have he' : m.esc = false := by simpa using he
    by_cases h1 : c = '\\'
    · simp [he', h1]
    · by_cases h2 : c = '{'
      · simp [he', h2]
      · by_cases h3 : c = '}'
        · simp [he', h3]
        · by_cases h4 : m.level > 0
          · simp [he', h1, h2, h3, h4]
          · simp only [he', h1, h2, h3, h4, if_false, Bool.false_eq_true]
            intro _
            exact ⟨by omega, trivial⟩

theorem ci_run (u : Str) : ∀ {m : M}, CI m → CI (run m u) := by
  induction u with
  | nil => intro m h; exact h
  | cons c r ih => intro m h; rw [run_cons]; exact ih (ci_stepc c h)

theorem ci_init : CI init := by intro h; exact absurd rfl h

theorem pe_le_stepc {m : M} (c : Char) (h : m.possibleEnd ≤ m.pos) :
    (stepc m c).possibleEnd ≤ (stepc m c).pos := by
  rw [stepc_ctl]
  unfold applyAct
  simp only
  split <;> omega

theorem pe_le_run (u : Str) : ∀ {m : M}, m.possibleEnd ≤ m.pos → (run m u).possibleEnd ≤ (run m u).pos := by
  induction u with
  | nil => intro m h; exact h
  | cons c r ih => intro m h; rw [run_cons]; exact ih (pe_le_stepc c h)

theorem done_mono_stepc (m : M) (c : Char) : m.done ≠ [] → (stepc m c).done ≠ [] := by
  intro h
  rw [stepc_ctl]
  unfold applyAct
  simp only
  split
  · simp
  · exact h

theorem done_mono_run (u : Str) : ∀ {m : M}, m.done ≠ [] → (run m u).done ≠ [] := by
  induction u with
  | nil => intro m h; exact h
  | cons c r ih => intro m h; rw [run_cons]; exact ih (done_mono_stepc m c h)

/-! ### the control state inside a piece is a function of the piece -/

/-- `m` has read `tail` since it opened its current span, and behaves there like the machine
started on `tail` alone -/
def Sim (m : M) (tail : Str) : Prop :=
  m.step = (run init tail).step ∧ m.level = (run init tail).level ∧ m.esc = (run init tail).esc ∧
    (run init tail).done = [] ∧ (run init tail).curStart = 0 ∧ m.pos = m.curStart + tail.length ∧
    (m.step ≠ .startWs → m.possibleEnd = m.curStart + (run init tail).possibleEnd)

theorem run_snoc (m : M) (u : Str) (c : Char) : run m (u ++ [c]) = stepc (run m u) c := by
  simp [run, List.foldl_append]

/-- a step that does not open a span -/
theorem sim_step {m : M} {tail : Str} {c : Char} (h : Sim m tail)
    (ha : (ctl m.step m.level m.esc c).2.2.2 ≠ .newSpan) :
    Sim (stepc m c) (tail ++ [c]) ∧ (stepc m c).done = m.done ∧ (stepc m c).curStart = m.curStart := by
  obtain ⟨h1, h2, h3, h4, h5, h6, h7⟩ := h
  have hp0 : (run init tail).pos = tail.length := by rw [run_pos]; simp [init]
  have hm := stepc_ctl m c
  have h0 : run init (tail ++ [c]) = applyAct (run init tail) (ctl m.step m.level m.esc c) := by
    rw [run_snoc, stepc_ctl, h1, h2, h3]
  have hfrom := @ctl_none_from m.step m.level m.esc c
  generalize ctl m.step m.level m.esc c = r at ha hm h0 hfrom
  obtain ⟨st', lv', e', act⟩ := r
  simp only at ha hfrom
  unfold Sim
  rw [hm, h0]
  simp only [applyAct, ha, if_false, h4, h5]
  refine ⟨⟨trivial, trivial, trivial, trivial, trivial, by simp; omega, ?_⟩, trivial, trivial⟩
  intro hst
  by_cases hs : act = .setEnd
  · simp only [hs, if_true]; omega
  · simp only [hs, if_false]
    have hnone : act = .none := by cases act <;> simp_all
    exact h7 (hfrom hnone hst)

/-- a step that opens a span: the new tail is the character just read -/
theorem sim_new {m : M} {c : Char} (hci : CI m)
    (ha : (ctl m.step m.level m.esc c).2.2.2 = .newSpan) :
    Sim (stepc m c) [c] ∧ (stepc m c).done = (m.curStart, m.possibleEnd) :: m.done ∧
      (stepc m c).curStart = m.pos ∧ isWs c = false ∧ c ≠ '}' ∧ m.step = .nextWord ∧
      (stepc m c).step = .startWs := by
  obtain ⟨n1, n2, n3, n4, n5, n6, n7⟩ := ctl_newSpan ha
  have hlv : m.level = 0 := (hci (by rw [n2]; simp)).1
  have hm := stepc_ctl m c
  have h0 : run init [c] = applyAct init (ctl .startWs 0 false c) := by
    show stepc init c = _
    rw [stepc_ctl]; rfl
  rw [hlv] at n5 n6 n7
  have n7' := n7 rfl
  rw [hlv] at hm
  rw [n5] at hm
  generalize ctl .startWs 0 false c = r at hm h0 n6 n7'
  obtain ⟨st', lv', e', act⟩ := r
  simp only at n6 n7'
  subst n6; subst n7'
  unfold Sim
  rw [hm, h0]
  simp [applyAct, init]
  exact ⟨n3, n4, n2⟩

/-- several steps, none of which opens a span -/
theorem sim_run (v : Str) : ∀ {m : M} {tail : Str}, Sim m tail → (run init (tail ++ v)).done = [] →
    Sim (run m v) (tail ++ v) ∧ (run m v).done = m.done ∧ (run m v).curStart = m.curStart := by
  induction v with
  | nil => intro m tail h _; simpa [run] using h
  | cons c r ih =>
    intro m tail h hd
    have ha : (ctl m.step m.level m.esc c).2.2.2 ≠ .newSpan := by
      intro hn
      obtain ⟨h1, h2, h3, h4, _⟩ := h
      have h0 : (run init (tail ++ [c])).done ≠ [] := by
        rw [run_snoc, stepc_ctl, ← h1, ← h2, ← h3]
        simp [applyAct, hn]
      have := done_mono_run r h0
      rw [← run_append] at this
      apply this
      simpa using hd
    obtain ⟨s1, s2, s3⟩ := sim_step h ha
    have hd' : (run init ((tail ++ [c]) ++ r)).done = [] := by simpa using hd
    obtain ⟨i1, i2, i3⟩ := ih s1 hd'
    rw [run_cons]
    refine ⟨by simpa using i1, by rw [i2, s2], by rw [i3, s3]⟩

/-- at the end of the piece whitespace records `possible_end` -/
def EndOK (p : Str) : Prop :=
  (run init p).esc = false ∧ (run init p).level = 0 ∧ setsEnd (run init p).step = true ∧
    (run init p).done = [] ∧ (run init p).curStart = 0

/-- the piece starts with a character that opens a span in NEXT_WORD -/
def GoodStart (p : Str) : Prop := ∃ c r, p = c :: r ∧ isWs c = false ∧ c ≠ '}'

theorem sim_ci {m : M} {tail : Str} (h : Sim m tail) : CI m := by
  obtain ⟨h1, h2, h3, _⟩ := h
  have := ci_run tail ci_init
  unfold CI at *
  rw [h1, h2, h3]; exact this

/-- invariant of the original run used for idempotence: every finished piece is `EndOK`, every
piece after the first a `GoodStart`, and the current tail simulates a fresh run -/
def I2 (m : M) (cs : Str) : Prop :=
  ∃ l tail, Base m cs l tail ∧ Sim m tail ∧ (∀ ps ∈ l, EndOK ps.1 ∧ ps.1 ≠ []) ∧
    (∀ ps ∈ l.drop 1, GoodStart ps.1) ∧
    (l ≠ [] → GoodStart tail) ∧ (∀ c r, tail = c :: r → isWs c = false) ∧ (cs ≠ [] → tail ≠ []) ∧
    (m.step ≠ .startWs → EndOK (tail.take (m.possibleEnd - m.curStart)) ∧ m.curStart < m.possibleEnd)

theorem i2_init : I2 init [] := by
  refine ⟨[], [], ⟨by simp [flat], rfl, by simp [flat, init], by simp [spansFrom, init]⟩, ?_, by simp, by simp,
    by simp, by simp, by simp, ?_⟩
  · simp [Sim, run, init]
  · intro h; exact absurd rfl h

theorem i2_step {m : M} {cs : Str} (c : Char) (h : I2 m cs) (hfirst : cs = [] → isWs c = false) :
    I2 (stepc m c) (cs ++ [c]) := by
  obtain ⟨l, tail, hb, hsim, hEnd, hGood, hGT, hHead, hTne, hPE⟩ := h
  have hci := sim_ci hsim
  have hpos : m.pos = m.curStart + tail.length := hsim.2.2.2.2.2.1
  have hp0 : (run init tail).pos = tail.length := by rw [run_pos]; simp [init]
  have hpe0 : (run init tail).possibleEnd ≤ tail.length := by
    rw [← hp0]; exact pe_le_run tail (by simp [init])
  by_cases ha : (ctl m.step m.level m.esc c).2.2.2 = .newSpan
  · -- a new span opens at `c`
    obtain ⟨s1, s2, s3, s4, s5, s6, s7⟩ := sim_new hci ha
    obtain ⟨hE, hlt⟩ := hPE (by rw [s6]; simp)
    have hk : m.possibleEnd - m.curStart ≤ tail.length := by
      have := hsim.2.2.2.2.2.2 (by rw [s6]; simp)
      omega
    have htail : tail = tail.take (m.possibleEnd - m.curStart) ++ tail.drop (m.possibleEnd - m.curStart) :=
      (List.take_append_drop _ _).symm
    have hb' : Base m cs l (tail.take (m.possibleEnd - m.curStart) ++ tail.drop (m.possibleEnd - m.curStart)) := by
      rw [← htail]; exact hb
    have hlen : (tail.take (m.possibleEnd - m.curStart)).length = m.possibleEnd - m.curStart := by
      rw [List.length_take]; omega
    have hb2 := base_newSpan [c] hb' (by rw [hlen]; omega) s2 s3 (by rw [stepc_pos]; simp)
    refine ⟨l ++ [(tail.take (m.possibleEnd - m.curStart), tail.drop (m.possibleEnd - m.curStart))], [c], hb2, s1, ?_, ?_,
      fun _ => ⟨c, [], rfl, s4, s5⟩, ?_, by simp, fun hne => absurd s7 hne⟩
    · intro ps hps
      rcases List.mem_append.mp hps with hps | hps
      · exact hEnd ps hps
      · simp at hps; subst hps
        refine ⟨hE, ?_⟩
        intro h0
        have := congrArg List.length h0
        rw [hlen] at this
        simp at this
        omega
    · intro ps hps
      by_cases hl : l = []
      · subst hl; simp at hps
      · have : (l ++ [(tail.take (m.possibleEnd - m.curStart), tail.drop (m.possibleEnd - m.curStart))]).drop 1 =
            l.drop 1 ++ [(tail.take (m.possibleEnd - m.curStart), tail.drop (m.possibleEnd - m.curStart))] := by
          cases l with
          | nil => exact absurd rfl hl
          | cons x r => simp
        rw [this] at hps
        rcases List.mem_append.mp hps with hps | hps
        · exact hGood ps hps
        · simp at hps; subst hps
          obtain ⟨c0, r0, ht, hw, hc⟩ := hGT hl
          refine ⟨c0, r0.take (m.possibleEnd - m.curStart - 1), ?_, hw, hc⟩
          rw [ht]
          have : m.possibleEnd - m.curStart = (m.possibleEnd - m.curStart - 1) + 1 := by omega
          rw [this, List.take_succ_cons]
          simp
    · intro c' r' hc'
      simp at hc'
      rw [← hc'.1]; exact s4
  · -- no span opens
    obtain ⟨s1, s2, s3⟩ := sim_step hsim ha
    have hb2 := base_quiet [c] hb s2 s3 (by rw [stepc_pos]; simp)
    refine ⟨l, tail ++ [c], hb2, s1, hEnd, hGood, ?_, ?_, by simp, ?_⟩
    · intro hl
      obtain ⟨c0, r0, ht, hw, hc⟩ := hGT hl
      exact ⟨c0, r0 ++ [c], by rw [ht]; simp, hw, hc⟩
    · intro c' r' hc'
      cases htl : tail with
      | nil =>
        rw [htl] at hc'
        simp at hc'
        have hcs : cs = [] := by
          by_cases hcs : cs = []
          · exact hcs
          · exact absurd htl (hTne hcs)
        rw [← hc'.1]; exact hfirst hcs
      | cons c0 r0 =>
        rw [htl] at hc'
        simp at hc'
        rw [← hc'.1]; exact hHead c0 r0 htl
    · intro hst
      have hm := stepc_ctl m c
      have hset := @ctl_setEnd m.step m.level m.esc c
      have hfrom := @ctl_none_from m.step m.level m.esc c
      generalize ctl m.step m.level m.esc c = r at ha hm hset hfrom
      obtain ⟨st', lv', e', act⟩ := r
      simp only at ha hset hfrom
      have hstep : (stepc m c).step = st' := by rw [hm]; rfl
      have hpe : (stepc m c).possibleEnd = if act = .setEnd then m.pos else m.possibleEnd := by rw [hm]; rfl
      rw [hpe, s3]
      by_cases hs : act = .setEnd
      · obtain ⟨e1, e2, e3, e4⟩ := hset hs
        have htne : tail ≠ [] := by
          intro h0
          have hcs : cs = [] := by
            by_cases hcs : cs = []
            · exact hcs
            · exact absurd h0 (hTne hcs)
          have := hfirst hcs
          rw [e4] at this; cases this
        have hlen : 0 < tail.length := by
          cases tail with
          | nil => exact absurd rfl htne
          | cons _ _ => simp
        simp only [hs, if_true]
        have : m.pos - m.curStart = tail.length := by omega
        rw [this]
        refine ⟨?_, by omega⟩
        have : (tail ++ [c]).take tail.length = tail := by simp
        rw [this]
        obtain ⟨h1, h2, h3, h4, h5, _, _⟩ := hsim
        exact ⟨by rw [← h3]; exact e1, by rw [← h2]; exact e2, by rw [← h1]; exact e3, h4, h5⟩
      · simp only [hs, if_false]
        have hnone : act = .none := by cases act <;> simp_all
        have hne : m.step ≠ .startWs := hfrom hnone (by rw [← hstep]; exact hst)
        obtain ⟨hE, hlt⟩ := hPE hne
        have hk : m.possibleEnd - m.curStart ≤ tail.length := by
          have := hsim.2.2.2.2.2.2 hne
          omega
        refine ⟨?_, hlt⟩
        rw [List.take_append_of_le_length hk]
        exact hE

theorem i2_run (t : Str) : ∀ {m : M} {cs : Str}, I2 m cs → (cs = [] → ∀ c r, t = c :: r → isWs c = false) →
    I2 (run m t) (cs ++ t) := by
  induction t with
  | nil => intro m cs h _; simpa [run] using h
  | cons c r ih =>
    intro m cs h hf
    have h1 := i2_step c h (fun hcs => hf hcs c r rfl)
    have := ih h1 (fun hcs => by simp at hcs)
    rw [run_cons]
    simpa using this

/-! ### the run over the re-joined pieces -/

theorem ctl_next_new {c : Char} (hw : isWs c = false) (hc : c ≠ '}') :
    (ctl .nextWord 0 false c).2.2.2 = .newSpan := by
  unfold ctl
  by_cases h1 : c = '\\'
  · simp [h1]
  · by_cases h2 : c = '{'
    · simp [h2]
    · simp [h1, h2, hc, ctlPlain, hw]

/-- " and " after a piece that is `EndOK` -/
theorem sep_and {m : M} {p : Str} (hs : Sim m p) (he : EndOK p) :
    (run m " and ".toList).step = .nextWord ∧ (run m " and ".toList).esc = false ∧
      (run m " and ".toList).level = 0 ∧ (run m " and ".toList).possibleEnd = m.pos ∧
      (run m " and ".toList).done = m.done ∧ (run m " and ".toList).curStart = m.curStart := by
  obtain ⟨h1, h2, h3, _⟩ := hs
  obtain ⟨e1, e2, e3, _, _⟩ := he
  rw [← h3] at e1; rw [← h2] at e2; rw [← h1] at e3
  have hsp : " and ".toList = [' '] ++ (['a', 'n', 'd'] ++ [' ']) := rfl
  rw [hsp, run_append, run_append]
  obtain ⟨s1, s2, s3, s4⟩ := sep_marks
  -- the first blank
  obtain ⟨g1, g2, g3, g4, g5, g6⟩ := run_gap [' '] (m := m) (by rw [e1, e2]; exact s1) (by simp)
  have st1 : (run m [' ']).step = .findA := by rw [g1]; exact setsEnd_gapStep e3
  have pe1 : (run m [' ']).possibleEnd = m.pos := by rw [g4, e3]; rfl
  -- the word `and`
  obtain ⟨w1, w2, w3⟩ := run_word_findA (w := ['a', 'n', 'd']) st1 g5 g6 (by rw [g5, g6]; exact s2) (by simp)
  have hand : isAndWord ['a', 'n', 'd'] = true := by decide
  rcases w3 with ⟨_, i2, i3⟩ | ⟨i1, _⟩
  · have hadv := run_adv ['a', 'n', 'd'] (run m [' '])
    rw [g5, g6, s4] at hadv
    have e5 : (run (run m [' ']) ['a', 'n', 'd']).esc = false := (Prod.mk.inj hadv).1
    have e6 : (run (run m [' ']) ['a', 'n', 'd']).level = 0 := (Prod.mk.inj hadv).2
    -- the second blank
    obtain ⟨k1, k2, k3, k4, k5, k6⟩ := run_gap [' '] (m := run (run m [' ']) ['a', 'n', 'd'])
      (by rw [e5, e6]; exact s1) (by simp)
    refine ⟨by rw [k1, i2]; rfl, k5, k6, ?_, by rw [k2, w1, g2], by rw [k3, w2, g3]⟩
    rw [k4, i2]
    simp only [setsEnd, Bool.false_eq_true, if_false]
    rw [i3, pe1]
  · rw [hand] at i1; cases i1

/-- the next piece after " and " -/
theorem next_piece {m : M} {cs : Str} {lj : List (Str × Str)} {cur sp q : Str}
    (hb : Base m cs lj (cur ++ sp)) (hst : m.step = .nextWord) (he : m.esc = false) (hl : m.level = 0)
    (hpe : m.possibleEnd = m.curStart + cur.length)
    (hq : GoodStart q) (hd : (run init q).done = []) :
    Base (run m q) (cs ++ q) (lj ++ [(cur, sp)]) q ∧ Sim (run m q) q := by
  obtain ⟨c, r, hqc, hw, hc⟩ := hq
  subst hqc
  have hci : CI m := fun _ => ⟨hl, he⟩
  have ha : (ctl m.step m.level m.esc c).2.2.2 = .newSpan := by rw [hst, hl, he]; exact ctl_next_new hw hc
  obtain ⟨s1, s2, s3, _, _, _, _⟩ := sim_new hci ha
  obtain ⟨i1, i2, i3⟩ := sim_run r s1 (by simpa using hd)
  rw [run_cons]
  refine ⟨?_, by simpa using i1⟩
  have := base_newSpan (c :: r) (m' := run (stepc m c) r) hb hpe (by rw [i2, s2]) (by rw [i3, s3])
    (by rw [run_pos, stepc_pos]; simp; omega)
  exact this

/-- all further pieces -/
theorem jrun (qs : List Str) : ∀ {m : M} {cs : Str} {lj : List (Str × Str)} {cur : Str},
    Base m cs lj cur → Sim m cur → (qs ≠ [] → EndOK cur) →
    (∀ q ∈ qs, GoodStart q ∧ (run init q).done = []) → (∀ q ∈ qs.dropLast, EndOK q) →
    ∃ l tail, Base (run m (qs.map fun x => " and ".toList ++ x).flatten)
        (cs ++ (qs.map fun x => " and ".toList ++ x).flatten) l tail ∧
      l.map Prod.fst ++ [tail] = lj.map Prod.fst ++ cur :: qs := by
  induction qs with
  | nil =>
    intro m cs lj cur hb _ _ _ _
    exact ⟨lj, cur, by simpa [run] using hb, by simp⟩
  | cons q r ih =>
    intro m cs lj cur hb hs hE hG hEr
    have hEcur := hE (by simp)
    obtain ⟨a1, a2, a3, a4, a5, a6⟩ := sep_and hs hEcur
    have hpos : m.pos = m.curStart + cur.length := hs.2.2.2.2.2.1
    have hb1 : Base (run m " and ".toList) (cs ++ " and ".toList) lj (cur ++ " and ".toList) :=
      base_quiet " and ".toList hb a5 a6 (run_pos _ _)
    obtain ⟨hGq, hdq⟩ := hG q (by simp)
    obtain ⟨b1, b2⟩ := next_piece hb1 a1 a2 a3 (by rw [a4, a6, hpos]) hGq hdq
    have hEq : r ≠ [] → EndOK q := by
      intro hr
      apply hEr
      cases r with
      | nil => exact absurd rfl hr
      | cons y r' => simp
    have hEr' : ∀ x ∈ r.dropLast, EndOK x := by
      intro x hx
      apply hEr
      cases r with
      | nil => simp at hx
      | cons y r' => simp [List.dropLast] at hx ⊢; exact Or.inr hx
    obtain ⟨l, tail, c1, c2⟩ := ih b1 b2 hEq (fun x hx => hG x (by simp [hx])) hEr'
    refine ⟨l, tail, ?_, by rw [c2]; simp⟩
    have e1 : run m ((List.map (fun x => " and ".toList ++ x) (q :: r)).flatten) =
        run (run (run m " and ".toList) q) (List.map (fun x => " and ".toList ++ x) r).flatten := by
      simp only [List.map_cons, List.flatten_cons, List.append_assoc]
      rw [run_append, run_append]
    have e2 : cs ++ (List.map (fun x => " and ".toList ++ x) (q :: r)).flatten =
        cs ++ " and ".toList ++ q ++ (List.map (fun x => " and ".toList ++ x) r).flatten := by
      simp
    rw [e1, e2]; exact c1

theorem sim_self (p : Str) (hd : (run init p).done = []) (hc : (run init p).curStart = 0) :
    Sim (run init p) p := by
  refine ⟨rfl, rfl, rfl, hd, hc, by rw [run_pos, hc]; simp [init], fun _ => by rw [hc]; simp⟩

theorem base_self (p : Str) (hd : (run init p).done = []) (hc : (run init p).curStart = 0) :
    Base (run init p) p [] p :=
  ⟨by simp [flat], by rw [run_pos]; simp [init], by rw [hc]; simp [flat], by rw [hd]; simp [spansFrom]⟩

/-- **splitting the re-joined pieces gives the pieces** -/
theorem split_join_split (s : Str) : split (join (split s)) = split s := by
  cases ht : stripWs s with
  | nil =>
    have h1 : split s = [] := by simp only [split, ht, List.isEmpty_nil, if_true]
    rw [h1]
    decide
  | cons c0 r0 =>
    have hc0 : isWs c0 = false := stripWs_head s c0 r0 ht
    have hI := i2_run (stripWs s) i2_init (fun _ c r hcr => by
      rw [ht] at hcr; injection hcr with h1 _; rw [← h1]; exact hc0)
    simp only [List.nil_append] at hI
    obtain ⟨l, tail, hb, hsim, hEnd, hGood, hGT, hHead, hTne, _⟩ := hI
    obtain ⟨b1, _, b3, b4⟩ := hb
    have hpieces : split s = l.map Prod.fst ++ [tail] := by
      unfold split
      simp only [ht, List.isEmpty_cons, Bool.false_eq_true, if_false]
      rw [← ht]
      exact spans_pieces b1 b3 b4
    have htne : tail ≠ [] := hTne (by rw [ht]; simp)
    have htd : (run init tail).done = [] := hsim.2.2.2.1
    have htc : (run init tail).curStart = 0 := hsim.2.2.2.2.1
    -- first piece and the others
    obtain ⟨p0, qs, hP, hp0d, hp0c, hp0E, hqG, hqE, hp0ne, hp0pre⟩ :
        ∃ p0 qs, l.map Prod.fst ++ [tail] = p0 :: qs ∧ (run init p0).done = [] ∧ (run init p0).curStart = 0 ∧
          (qs ≠ [] → EndOK p0) ∧ (∀ q ∈ qs, GoodStart q ∧ (run init q).done = []) ∧
          (∀ q ∈ qs.dropLast, EndOK q) ∧ p0 ≠ [] ∧ (∃ rest, stripWs s = p0 ++ rest) := by
      cases l with
      | nil =>
        exact ⟨tail, [], by simp, htd, htc, fun h => absurd rfl h, by simp, by simp, htne, [], by rw [b1]; simp [flat]⟩
      | cons x l' =>
        obtain ⟨p0, s0⟩ := x
        have hE0 := hEnd (p0, s0) (by simp)
        refine ⟨p0, l'.map Prod.fst ++ [tail], by simp, hE0.1.2.2.2.1, hE0.1.2.2.2.2, fun _ => hE0.1, ?_, ?_, hE0.2,
          s0 ++ flat l' ++ tail, by rw [b1, flat_cons]; simp⟩
        · intro q hq
          rcases List.mem_append.mp hq with hq | hq
          · obtain ⟨ps, hps, rfl⟩ := List.mem_map.mp hq
            exact ⟨hGood ps (by simpa using hps), (hEnd ps (by simp [hps])).1.2.2.2.1⟩
          · simp at hq; subst hq
            exact ⟨hGT (by simp), htd⟩
        · intro q hq
          rw [List.dropLast_concat] at hq
          obtain ⟨ps, hps, rfl⟩ := List.mem_map.mp hq
          exact (hEnd ps (by simp [hps])).1
    rw [hpieces, hP, join_cons]
    obtain ⟨lf, tf, hbf, hres⟩ := jrun qs (base_self p0 hp0d hp0c) (sim_self p0 hp0d hp0c) hp0E hqG hqE
    rw [← run_append] at hbf
    simp only [List.map_nil, List.nil_append] at hres
    -- the joined text is trimmed
    obtain ⟨rest, hrest⟩ := hp0pre
    obtain ⟨d0, e0, hp0eq⟩ : ∃ d0 e0, p0 = d0 :: e0 := by
      cases p0 with
      | nil => exact absurd rfl hp0ne
      | cons d e => exact ⟨d, e, rfl⟩
    have hd0 : d0 = c0 := by
      rw [ht, hp0eq] at hrest
      simp at hrest
      exact hrest.1.symm
    obtain ⟨J, hJ⟩ : ∃ J, J = p0 ++ (qs.map fun x => " and ".toList ++ x).flatten := ⟨_, rfl⟩
    rw [← hJ] at hbf ⊢
    have hJhead : J = c0 :: (e0 ++ (qs.map fun x => " and ".toList ++ x).flatten) := by
      rw [hJ, hp0eq, hd0]; simp
    have hJlast : ∀ c, J.getLast? = some c → isWs c = false := by
      intro c hc
      -- the last piece is `tail`, the end of the stripped input
      have hz : ∃ pre, J = pre ++ tail := by
        have hlast : (p0 :: qs).getLast? = some tail := by rw [← hP]; simp
        rw [hJ, ← join_cons]
        obtain ⟨z, hz, pre, hp⟩ := join_last p0 qs
        -- `join_last` returns some element; we need the last one: redo by induction
        clear hp hz z pre
        have : ∀ (n : Str) (r : List Str), (n :: r).getLast? = some tail → ∃ pre, join (n :: r) = pre ++ tail := by
          intro n r
          induction r generalizing n with
          | nil => intro h; simp at h; exact ⟨[], by simp [join, joinWith, h]⟩
          | cons y r ih =>
            intro h
            have h' : (y :: r).getLast? = some tail := by simpa [List.getLast?_cons_cons] using h
            obtain ⟨pre, hp⟩ := ih y h'
            refine ⟨n ++ " and ".toList ++ pre, ?_⟩
            simp only [join] at hp ⊢
            simp only [joinWith, hp]; simp
        exact this p0 qs hlast
      obtain ⟨pre, hpre⟩ := hz
      obtain ⟨it, xt, hxt, _⟩ := NameP.snoc_of_ne_nil tail htne
      have h1 : J.getLast? = some xt := by rw [hpre, hxt]; simp
      rw [h1] at hc
      injection hc with hc
      subst hc
      apply stripWs_last s xt
      rw [b1, hxt]; simp
    have hstrip := stripWs_id J c0 _ hJhead hc0 hJlast
    unfold split
    simp only [hstrip]
    have hne' : J.isEmpty = false := by rw [hJhead]; rfl
    rw [hne']
    simp only [Bool.false_eq_true, if_false]
    obtain ⟨f1, _, f3, f4⟩ := hbf
    rw [spans_pieces f1 f3 f4, hres]

/-- every returned piece is non-empty and starts with a non-whitespace character -/
theorem split_pieces_start (s : Str) : ∀ p ∈ split s, ∃ c r, p = c :: r ∧ isWs c = false := by
  cases ht : stripWs s with
  | nil => intro p hp; simp [split, ht] at hp
  | cons c0 r0 =>
    have hc0 : isWs c0 = false := stripWs_head s c0 r0 ht
    have hI := i2_run (stripWs s) i2_init (fun _ c r hcr => by
      rw [ht] at hcr; injection hcr with h1 _; rw [← h1]; exact hc0)
    simp only [List.nil_append] at hI
    obtain ⟨l, tail, hb, hsim, hEnd, hGood, hGT, hHead, hTne, _⟩ := hI
    obtain ⟨b1, _, b3, b4⟩ := hb
    have hpieces : split s = l.map Prod.fst ++ [tail] := by
      unfold split
      simp only [ht, List.isEmpty_cons, Bool.false_eq_true, if_false]
      rw [← ht]
      exact spans_pieces b1 b3 b4
    have htne : tail ≠ [] := hTne (by rw [ht]; simp)
    intro p hp
    rw [hpieces] at hp
    rcases List.mem_append.mp hp with hp | hp
    · obtain ⟨ps, hps, rfl⟩ := List.mem_map.mp hp
      cases l with
      | nil => simp at hps
      | cons x l' =>
        rcases List.mem_cons.mp hps with hx | hx
        · -- the first piece starts where the stripped input starts
          subst hx
          have hne := (hEnd ps (by simp)).2
          obtain ⟨d, e, hde⟩ : ∃ d e, ps.1 = d :: e := by
            cases h : ps.1 with
            | nil => exact absurd h hne
            | cons d e => exact ⟨d, e, rfl⟩
          refine ⟨d, e, hde, ?_⟩
          obtain ⟨p1, p2⟩ := ps
          rw [ht, flat_cons] at b1
          simp only at hde
          rw [hde] at b1
          simp at b1
          rw [← b1.1]; exact hc0
        · obtain ⟨c, r, h1, h2, _⟩ := hGood ps (by simpa using hx)
          exact ⟨c, r, h1, h2⟩
    · simp at hp; subst hp
      cases htl : p with
      | nil => exact absurd htl htne
      | cons c r => exact ⟨c, r, rfl, hHead c r htl⟩

end Bib.CoAuth
