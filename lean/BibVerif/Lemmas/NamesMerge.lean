/-
  C14 helper lemmas: merging and re-partitioning.
-/
import BibVerif.Lemmas.NamesAssign
import BibVerif.Lemmas.NamesMw
import BibVerif.Lemmas.NamesSpec
namespace Bib.NameP

/-- the comma sections that `merge_last_name_first` writes: `von Last`, then `Jr` and `First`
when they are not empty -/
def mergeSecs (w : WParts) : List (List Word) :=
  [w.von ++ w.last] ++ (if w.jr = [] then [] else [w.jr]) ++ (if w.first = [] then [] else [w.first])

theorem dropWhile_append_all {α} (p : α → Bool) (xs ys : List α) (h : ∀ x ∈ xs, p x = true) :
    (xs ++ ys).dropWhile p = ys.dropWhile p := by
  induction xs with
  | nil => rfl
  | cons a r ih =>
    have ha : p a = true := h a (by simp)
    simp only [List.cons_append, List.dropWhile_cons, ha, if_true]
    exact ih (fun x hx => h x (by simp [hx]))

theorem rstripBy_append_all {α} (p : α → Bool) (a b : List α) (h : ∀ x ∈ b, p x = true) :
    rstripBy p (a ++ b) = rstripBy p a := by
  unfold rstripBy
  rw [List.reverse_append, dropWhile_append_all p b.reverse a.reverse (fun x hx => h x (List.mem_reverse.mp hx))]

theorem rstripBy_self {α} (p : α → Bool) (a : List α) (h : ∀ w, a.getLast? = some w → p w = false) :
    rstripBy p a = a := by
  by_cases ha : a = []
  · subst ha; rfl
  · obtain ⟨i, z, hz, _⟩ := snoc_of_ne_nil a ha
    have hp : p z = false := h z (by rw [hz]; simp)
    unfold rstripBy
    rw [hz]
    simp [hp]

/-- the comma-form rule determines von and Last -/
theorem rule23_unique {p0 V L : List Word} (h : Rule23 p0 V L) (hne : p0 ≠ []) :
    V = rstripBy notLower p0.dropLast ∧ L = p0.drop V.length := by
  have hL := h.last_ne hne
  obtain ⟨L0, x, hLx, hdl⟩ := snoc_of_ne_nil L hL
  have hp0 : p0 = (V ++ L0) ++ [x] := by rw [h.split, hLx]; simp
  have hd : p0.dropLast = V ++ L0 := by rw [hp0, List.dropLast_concat]
  constructor
  · rw [hd, rstripBy_append_all, rstripBy_self]
    · intro w hw
      have := h.von_last w hw
      simp [notLower, this]
    · intro w hw
      have := h.last_init w (by rw [hdl]; exact hw)
      simp [notLower, this]
  · rw [h.split, List.drop_left]

theorem rule23_eq {p0 V L V' L' : List Word} (h : Rule23 p0 V L) (h' : Rule23 p0 V' L') (hne : p0 ≠ []) :
    V = V' ∧ L = L' := by
  obtain ⟨a1, a2⟩ := rule23_unique h hne
  obtain ⟨b1, b2⟩ := rule23_unique h' hne
  have : V = V' := by rw [a1, b1]
  exact ⟨this, by rw [a2, b2, this]⟩

theorem takeWhile_append_stop' {α} (p : α → Bool) (a b : List α) (ha : ∀ x ∈ a, p x = true)
    (hb : ∀ x, b.head? = some x → p x = false) : (a ++ b).takeWhile p = a ∧ (a ++ b).dropWhile p = b := by
  induction a with
  | nil =>
    cases b with
    | nil => simp
    | cons x r => have := hb x rfl; simp [this]
  | cons x r ih =>
    have hx : p x = true := ha x (by simp)
    obtain ⟨i1, i2⟩ := ih (fun y hy => ha y (by simp [hy]))
    simp [hx, i1, i2]

/-- the comma-free rule determines First, von and Last -/
theorem rule1_unique {p0 F V L F' V' L' : List Word} (h : Rule1 p0 F V L) (h' : Rule1 p0 F' V' L') :
    F = F' ∧ V = V' ∧ L = L' := by
  have hne : p0 ≠ [] := by
    intro h0
    have := h.split
    rw [h0] at this
    have hl := h.last_ne
    simp at this
    exact hl this.2.2
  -- a decomposition with a von part is determined through the comma-form rule
  have key : ∀ {A B C : List Word}, Rule1 p0 A B C → B ≠ [] →
      A = (rstripBy notLower p0.dropLast).takeWhile notLower ∧
      B = (rstripBy notLower p0.dropLast).dropWhile notLower ∧ C = p0.drop (A ++ B).length := by
    intro A B C hr hB
    have h23 : Rule23 p0 (A ++ B) C := by
      refine ⟨by rw [hr.split], ?_, fun _ => hr.last_ne, hr.last_init⟩
      intro w hw
      apply hr.von_last
      rw [List.getLast?_append] at hw
      cases hB' : B.getLast? with
      | none => simp [List.getLast?_eq_none_iff] at hB'; exact absurd hB' hB
      | some x => rw [hB'] at hw; simpa using hw
    obtain ⟨e1, e2⟩ := rule23_unique h23 hne
    have hst := takeWhile_append_stop' notLower A B
      (fun x hx => by simp [notLower, hr.first_nonlower x hx])
      (fun x hx => by simp [notLower, hr.von_head x hx])
    rw [← e1]
    exact ⟨hst.1.symm, hst.2.symm, e2⟩
  -- without a von part, no word before the final one is lower-case
  have nov : ∀ {A C : List Word}, Rule1 p0 A [] C → ∀ w ∈ p0.dropLast, isLowerW w = false := by
    intro A C hr w hw
    have hlen := hr.no_von rfl
    obtain ⟨x, hx⟩ : ∃ x, C = [x] := by
      match C, hlen with
      | [x], _ => exact ⟨x, rfl⟩
    have hsp := hr.split
    rw [hx] at hsp
    simp only [List.append_nil] at hsp
    rw [hsp, List.dropLast_concat] at hw
    exact hr.first_nonlower w hw
  have vonMem : ∀ {A B C : List Word}, Rule1 p0 A B C → ∀ x, B.head? = some x → x ∈ p0.dropLast := by
    intro A B C hr x hx
    obtain ⟨C0, z, hz, _⟩ := snoc_of_ne_nil C hr.last_ne
    have hsp := hr.split
    rw [hz] at hsp
    have : p0.dropLast = A ++ B ++ C0 := by
      rw [hsp, ← List.append_assoc, List.dropLast_concat]
    rw [this]
    have hxB : x ∈ B := List.mem_of_mem_head? hx
    simp [hxB]
  by_cases hV : V = [] <;> by_cases hV' : V' = []
  · subst hV; subst hV'
    have l1 := h.no_von rfl
    have l2 := h'.no_von rfl
    obtain ⟨x, hx⟩ : ∃ x, L = [x] := by
      match L, l1 with
      | [x], _ => exact ⟨x, rfl⟩
    obtain ⟨x', hx'⟩ : ∃ x, L' = [x] := by
      match L', l2 with
      | [x], _ => exact ⟨x, rfl⟩
    have s1 := h.split; have s2 := h'.split
    rw [hx] at s1; rw [hx'] at s2
    simp only [List.append_nil] at s1 s2
    have := s1.symm.trans s2
    have hlen : F.length = F'.length := by
      have := congrArg List.length this
      simp at this; omega
    obtain ⟨e1, e2⟩ := List.append_inj this hlen
    exact ⟨e1, rfl, by rw [hx, hx', e2]⟩
  · exfalso
    subst hV
    obtain ⟨x, hx⟩ : ∃ x, V'.head? = some x := by
      cases V' with
      | nil => exact absurd rfl hV'
      | cons a r => exact ⟨a, rfl⟩
    have := nov h x (vonMem h' x hx)
    rw [h'.von_head x hx] at this; cases this
  · exfalso
    subst hV'
    obtain ⟨x, hx⟩ : ∃ x, V.head? = some x := by
      cases V with
      | nil => exact absurd rfl hV
      | cons a r => exact ⟨a, rfl⟩
    have := nov h' x (vonMem h x hx)
    rw [h.von_head x hx] at this; cases this
  · obtain ⟨a1, a2, a3⟩ := key h hV
    obtain ⟨b1, b2, b3⟩ := key h' hV'
    have eF : F = F' := by rw [a1, b1]
    have eV : V = V' := by rw [a2, b2]
    exact ⟨eF, eV, by rw [a3, b3, eF, eV]⟩

/-- **re-sectioning the parts as `merge_last_name_first` writes them and partitioning again gives
the same parts** -/
theorem assignW_mergeSecs (secs : List (List Word))
    (hlen : secs.length ≤ 3) (hne : ∀ sec ∈ secs, ∀ w ∈ sec, w.1 ≠ [])
    (hlast : ∀ l, secs.getLast? = some l → l ≠ [])
    (hl : (assignW secs).last ≠ []) :
    assignW (mergeSecs (assignW secs)) = assignW secs := by
  match secs, hlen, hne, hlast, hl with
  | [], _, _, _, hl => simp [assignW] at hl
  | [p0], _, hne, hlast, _ =>
    have hp0 : p0 ≠ [] := hlast p0 rfl
    match p0, hp0, hne with
    | [w], _, _ => simp [assignW_one, mergeSecs]
    | [a, b], _, hne =>
      have ha : a.1 ≠ [] := hne [a, b] (by simp) a (by simp)
      simp [assignW_two, mergeSecs, assignW, assign23, sectionIfContent, ha]
    | a :: b :: c :: r, _, hne =>
      obtain ⟨F, V, L, hr, he⟩ := assignW_form1 (a :: b :: c :: r) (by simp)
      rw [he]
      by_cases hF : F = []
      · subst hF
        have : mergeSecs { first := [], von := V, last := L, jr := [] } = [a :: b :: c :: r] := by
          simp [mergeSecs, hr.split]
        rw [this, he]
      · have hFne : ∀ w ∈ F, w.1 ≠ [] := by
          intro w hw
          have hmem : w ∈ a :: b :: c :: r := by rw [hr.split]; simp [hw]
          exact hne (a :: b :: c :: r) (by simp) w hmem
        have : mergeSecs { first := F, von := V, last := L, jr := [] } = [V ++ L, F] := by
          simp [mergeSecs, hF]
        rw [this]
        obtain ⟨V', L', hr', he'⟩ := assign23W_rule (V ++ L) [] F false hFne (by simp)
        have hVL : V ++ L ≠ [] := by
          intro h0
          have := hr.last_ne
          simp at h0; exact this h0.2
        have h23 : Rule23 (V ++ L) V L :=
          ⟨rfl, hr.von_last, fun _ => hr.last_ne, hr.last_init⟩
        obtain ⟨e1, e2⟩ := rule23_eq hr' h23 hVL
        show assign23 (V ++ L) [] F false = _
        rw [he', e1, e2]; rfl
  | [p0, f], _, hne, hlast, hl =>
    have hf : f ≠ [] := hlast f rfl
    obtain ⟨V, L, hr, he⟩ := assign23W_rule p0 [] f false (hne f (by simp)) (by simp)
    have h0 : assignW [p0, f] = assign23 p0 [] f false := rfl
    rw [h0, he]
    have : mergeSecs { first := f, jr := if false = true then [] else [], von := V, last := L } = [p0, f] := by
      simp [mergeSecs, hf, hr.split]
    rw [this, h0, he]
  | [p0, j, f], _, hne, hlast, hl =>
    have hf : f ≠ [] := hlast f rfl
    obtain ⟨V, L, hr, he⟩ := assign23W_rule p0 j f true (hne f (by simp)) (hne j (by simp))
    have h0 : assignW [p0, j, f] = assign23 p0 j f true := rfl
    rw [h0, he]
    by_cases hj : j = []
    · subst hj
      have : mergeSecs { first := f, jr := if true = true then [] else [], von := V, last := L } = [p0, f] := by
        simp [mergeSecs, hf, hr.split]
      rw [this]
      obtain ⟨V', L', hr', he'⟩ := assign23W_rule p0 [] f false (hne f (by simp)) (by simp)
      have h1 : assignW [p0, f] = assign23 p0 [] f false := rfl
      rw [h1, he']
      by_cases hp : p0 = []
      · subst hp
        have a := hr.split; have b := hr'.split
        simp at a b
        simp [a.1, a.2, b.1, b.2]
      · obtain ⟨e1, e2⟩ := rule23_eq hr' hr hp
        simp [e1, e2]
    · have : mergeSecs { first := f, jr := if true = true then j else [], von := V, last := L } = [p0, j, f] := by
        simp [mergeSecs, hf, hj, hr.split]
      rw [this, h0, he]
  | _ :: _ :: _ :: _ :: _, hlen, _, _, _ => simp at hlen

end Bib.NameP

namespace Bib.Names
open Bib.NameP

variable (P : PyChars)

theorem parseAll_sources (names : List Str) (ps : List NameParts) (h : parseAll P names = .ok ps) :
    ∀ p ∈ ps, ∃ n, parse P n = .ok p := by
  induction names generalizing ps with
  | nil => simp only [parseAll] at h; injection h with h; subst h; simp
  | cons a r ih =>
    unfold parseAll at h
    cases ha : parse P a with
    | error e => rw [ha] at h; cases h
    | ok p0 =>
      rw [ha] at h; simp only at h
      cases hr : parseAll P r with
      | error e => rw [hr] at h; cases h
      | ok ps' =>
        rw [hr] at h; simp only at h; injection h with h; subst h
        intro p hp
        rcases List.mem_cons.mp hp with hp | hp
        · subst hp; exact ⟨a, ha⟩
        · exact ih ps' hr p hp

theorem parseAll_map_merge (ps : List NameParts)
    (h : ∀ p ∈ ps, parse P (mergeLastFirst p) = .ok p) :
    parseAll P (ps.map mergeLastFirst) = .ok ps := by
  induction ps with
  | nil => rfl
  | cons p r ih =>
    simp only [List.map_cons, parseAll, h p (by simp)]
    rw [ih (fun q hq => h q (by simp [hq]))]

end Bib.Names
