/-
  C05 (print → parse), lexer level: the text of every written block lexes - whatever follows it -
  to the tokens of its derivation `srcOf`, and text without `@` lexes to junk.
-/
import BibVerif.Lemmas.PrintParseDefs
namespace Bib.PrintParse
open Bib Bib.Writer Bib.Enclosing Bib.Pipeline

variable {P : PyChars}

/-! ### text without `@` contains no block start -/

theorem isJunk_pushText (c : Char) (ts : List Tok) (h : IsJunk ts) : IsJunk (pushText c ts) := by
  cases ts with
  | nil => simp [pushText, IsJunk, isAtTok]
  | cons t r => cases t <;> simpa [pushText, IsJunk, isAtTok] using h

theorem delimKind_ne_at {c : Char} {k : Kind} (h : delimKind c = some k) : k ≠ .at := by
  intro hk; subst hk
  simp only [delimKind] at h
  repeat' split at h
  all_goals cases h

theorem isJunk_lex (b : Bool) (s : Str) (h : '@' ∉ s) : IsJunk (lexFrom P b s) := by
  fun_induction lexFrom P b s with
  | case1 => simp [IsJunk]
  | case2 b c rest k hk ih =>
    have hd : delimKind c = some k := by
      split at hk
      · cases hk
      · exact hk
    have hne := delimKind_ne_at hd
    have := ih (fun hm => h (List.mem_cons_of_mem _ hm))
    cases k <;> first | exact absurd rfl hne | simpa [IsJunk, isAtTok] using this
  | case3 b rest lit r2 hm hk ih => exact absurd List.mem_cons_self h
  | case4 b rest hm hk ih => exact absurd List.mem_cons_self h
  | case5 b c rest hk hc ih =>
    exact isJunk_pushText c _ (ih (fun hm => h (List.mem_cons_of_mem _ hm)))

/-- more generally: text in which no `@` starts a block -/
theorem isJunk_lex_noStart (b : Bool) (s : Str) (h : noStart P s = true) : IsJunk (lexFrom P b s) := by
  fun_induction lexFrom P b s with
  | case1 => simp [IsJunk]
  | case2 b c rest k hk ih =>
    have hd : delimKind c = some k := by
      split at hk
      · cases hk
      · exact hk
    have hne := delimKind_ne_at hd
    simp only [noStart, Bool.and_eq_true] at h
    have := ih h.2
    cases k <;> first | exact absurd rfl hne | simpa [IsJunk, isAtTok] using this
  | case3 b rest lit r2 hm hk ih =>
    simp [noStart, hm] at h
  | case4 b rest hm hk ih =>
    simp only [noStart, Bool.and_eq_true] at h
    exact isJunk_pushText _ _ (ih h.2)
  | case5 b c rest hk hc ih =>
    simp only [noStart, Bool.and_eq_true] at h
    exact isJunk_pushText c _ (ih h.2)

theorem noStart_of_not_mem (s : Str) (h : '@' ∉ s) : noStart P s = true := by
  induction s with
  | nil => rfl
  | cons c r ih =>
    have hc : c ≠ '@' := fun e => h (e ▸ List.mem_cons_self)
    simp [noStart, hc, ih (fun hm => h (List.mem_cons_of_mem _ hm))]

/-- a prefix without `@` does not matter -/
theorem noStart_prefix (a s : Str) (ha : '@' ∉ a) : noStart P (a ++ s) = noStart P s := by
  induction a with
  | nil => rfl
  | cons c r ih =>
    have hc : c ≠ '@' := fun e => ha (e ▸ List.mem_cons_self)
    simp [noStart, hc, ih (fun hm => ha (List.mem_cons_of_mem _ hm))]

/-- the `@type` alternative tried inside `v` does not see past a following newline -/
theorem atMatch_append_nl (hw : P.isWord '\n' = false) (v r : Str) :
    atMatch P (v ++ '\n' :: r) = match atMatch P v with
      | some (lit, r2) => some (lit, r2 ++ '\n' :: r)
      | none => none := by
  rw [atMatch_eq, atMatch_eq]
  simp only [(takeWhile_append_stop P.isWord v '\n' r hw).1, dropWhile_append_stop P.isWord v '\n' r hw,
    (takeWhile_append_stop isBlank (v.dropWhile P.isWord) '\n' r (by decide)).1,
    dropWhile_append_stop isBlank (v.dropWhile P.isWord) '\n' r (by decide)]
  cases hr : (v.dropWhile P.isWord).dropWhile isBlank with
  | nil => simp
  | cons c t =>
    by_cases hc : c = '{'
    · subst hc; simp
    · simp [hc]

/-- a text in which no `@` starts a block stays so when a newline (and anything harmless) follows -/
theorem noStart_append_nl (hw : P.isWord '\n' = false) (a X : Str) (ha : noStart P a = true)
    (hX : noStart P X = true) : noStart P (a ++ '\n' :: X) = true := by
  induction a with
  | nil => simpa [noStart] using hX
  | cons c r ih =>
    simp only [noStart, Bool.and_eq_true] at ha
    simp only [List.cons_append, noStart, Bool.and_eq_true]
    refine ⟨?_, ih ha.2⟩
    by_cases hc : c = '@'
    · subst hc
      have h1 : (atMatch P r).isNone = true := by simpa using ha.1
      rw [atMatch_append_nl hw]
      cases hm : atMatch P r with
      | none => simp
      | some x => rw [hm] at h1; cases h1
    · simp [hc]

/-! ### simple pieces -/

theorem simpleText_of_blank {s : Str} (h : ∀ c ∈ s, isBlank c = true) : SimpleText s := by
  intro c hc
  have := h c hc
  simp only [isBlank, Bool.or_eq_true, decide_eq_true_eq] at this
  rcases this with rfl | rfl <;> decide

theorem lineHead_blanks (F : BibtexFormat) (col : Nat) (key : Str) :
    (∀ x ∈ padding col key ++ [' '], isBlank x = true) ∧
      lineHead F col key = F.indent ++ key ++ (padding col key ++ [' ']) := by
  refine ⟨?_, by simp [lineHead]⟩
  intro x hx
  rcases List.mem_append.mp hx with h | h
  · have := List.eq_of_mem_replicate h; subst this; decide
  · simp at h; subst h; decide

/-- the text before the `=` of a field line consists of plain tokens (text, and newlines if the key has any) -/
theorem lineHead_plain (hP : PrintOK P) (F : BibtexFormat) (hF : FormatOK F) (col : Nat) (key : Str)
    (hk : KeyOK P key) : allPlain (lexFrom P false (lineHead F col key)) := by
  obtain ⟨hbl, hre⟩ := lineHead_blanks F col key
  rw [hre]
  exact (lex_keyctx2 hP.word F.indent key _ '=' .eq [] hF.indent hk hbl (by decide) hP.eqWord (by decide)
    (by decide)).2

/-- ... and the `=` after it is a mark -/
theorem lex_lineHead (hP : PrintOK P) (F : BibtexFormat) (hF : FormatOK F) (col : Nat) (key : Str)
    (hk : KeyOK P key) (X : Str) :
    lexFrom P false (lineHead F col key ++ '=' :: X) =
      lexFrom P false (lineHead F col key) ++ EQ :: lexFrom P false X := by
  have hbl : ∀ x ∈ padding col key ++ [' '], isBlank x = true := by
    intro x hx
    rcases List.mem_append.mp hx with h | h
    · have := List.eq_of_mem_replicate h; subst this; decide
    · simp at h; subst h; decide
  have hre : lineHead F col key = F.indent ++ key ++ (padding col key ++ [' ']) := by simp [lineHead]
  rw [hre]
  exact (lex_keyctx2 hP.word F.indent key _ '=' .eq X hF.indent hk hbl (by decide) hP.eqWord (by decide)
    (by decide)).1

theorem lineHead_ne_nil (F : BibtexFormat) (col : Nat) (key : Str) : lineHead F col key ≠ [] := by
  simp [lineHead]

/-- `key = {v}}` of an @string: the tokens of the enclosed value are whatever `EncBal` says -/
theorem lex_assign_str (b : Bool) (t : Str) (T : List Tok)
    (hlex : ∀ X, lexFrom P b (t ++ '=' :: X) = T ++ EQ :: lexFrom P false X) (v : Str) (hv : EncBal P v)
    (rest : Str) :
    lexFrom P b (t ++ '=' :: ' ' :: '{' :: (v ++ '}' :: '}' :: rest)) =
      T ++ EQ :: (valToks P v ++ lexFrom P false ('}' :: rest)) := by
  have hsp : SimpleText [' '] := by intro x hx; simp at hx; subst hx; decide
  rw [hlex]
  have hm : startsWithMark (lexFrom P false ('{' :: (v ++ '}' :: '}' :: rest))) := by
    rw [lex_delim P '{' .lbrace _ (by decide)]; trivial
  rw [show (' ' :: '{' :: (v ++ '}' :: '}' :: rest)) = [' '] ++ '{' :: (v ++ '}' :: '}' :: rest) from rfl,
    lex_simple P false [' '] _ hsp (by simp) hm, (sevtOf_spec hv).2.2 rest]
  simp [valToks, SPt, EQ]

/-- `head = {v}` of a field line, followed by the comma or newline the writer emits: the tokens of the
enclosed value are whatever `EncVal` says (a `Value` of the grammar) -/
theorem lex_assign_field (b : Bool) (t : Str) (T : List Tok)
    (hlex : ∀ X, lexFrom P b (t ++ '=' :: X) = T ++ EQ :: lexFrom P false X) (v : Str) (hv : EncVal P v)
    (c : Char) (r : Str) (hc : c = ',' ∨ c = '\n') :
    lexFrom P b (t ++ '=' :: ' ' :: '{' :: (v ++ '}' :: c :: r)) =
      T ++ EQ :: (fvalToks P v ++ lexFrom P false (c :: r)) := by
  have hsp : SimpleText [' '] := by intro x hx; simp at hx; subst hx; decide
  rw [hlex]
  have hm : startsWithMark (lexFrom P false ('{' :: (v ++ '}' :: c :: r))) := by
    rw [lex_delim P '{' .lbrace _ (by decide)]; trivial
  rw [show (' ' :: '{' :: (v ++ '}' :: c :: r)) = [' '] ++ '{' :: (v ++ '}' :: c :: r) from rfl,
    lex_simple P false [' '] _ hsp (by simp) hm, (evtOf_spec hv).2.2 c r hc]
  simp [fvalToks, SPt, EQ]

/-! ### the field lines of an entry -/

/-- the tokens of the field lines, line by line -/
noncomputable def linesToks (P : PyChars) (F : BibtexFormat) (col : Nat) : List Field → List Tok
  | [] => []
  | f :: fs =>
    lexFrom P false (lineHead F col f.key) ++ EQ :: (fvalToks P (strOf f.value) ++
      ((if F.trailingComma || !fs.isEmpty then [CM] else []) ++ NLt :: linesToks P F col fs))

theorem lex_lines (hP : PrintOK P) (F : BibtexFormat) (hF : FormatOK F) (col : Nat) (fs : List Field)
    (hfs : ∀ f ∈ fs, FieldOK P f) (rest : Str) :
    lexFrom P false (linesText F col fs ++ rest) = linesToks P F col fs ++ lexFrom P false rest := by
  induction fs with
  | nil => rfl
  | cons f fs ih =>
    obtain ⟨v, hv, hclean⟩ := (hfs f List.mem_cons_self).value
    have ih' := ih (fun g hg => hfs g (List.mem_cons_of_mem _ hg))
    simp only [linesText, linesToks, hv, strOf]
    have hre : lineHead F col f.key ++ '=' :: ' ' :: '{' :: (v ++ '}' ::
          ((if (F.trailingComma || !fs.isEmpty) = true then [','] else []) ++ '\n' :: linesText F col fs)) ++ rest
        = lineHead F col f.key ++ '=' :: ' ' :: '{' :: (v ++ '}' ::
          ((if (F.trailingComma || !fs.isEmpty) = true then [','] else []) ++ '\n' :: (linesText F col fs ++ rest))) := by
      simp
    by_cases hc : (F.trailingComma || !fs.isEmpty) = true
    · simp only [hc, ↓reduceIte, List.cons_append, List.nil_append] at hre ⊢
      rw [hre, lex_assign_field false _ _ (lex_lineHead hP F hF col f.key (hfs f List.mem_cons_self).keyOK)
        v hclean ',' _ (Or.inl rfl),
        lex_delim P ',' .comma _ (by decide), lex_delim P '\n' .nl _ (by decide), ih']
      simp [CM, NLt]
    · simp only [hc, Bool.false_eq_true, ↓reduceIte, List.nil_append] at hre ⊢
      rw [hre, lex_assign_field false _ _ (lex_lineHead hP F hF col f.key (hfs f List.mem_cons_self).keyOK)
        v hclean '\n' _ (Or.inr rfl),
        lex_delim P '\n' .nl _ (by decide), ih']
      simp [NLt]

/-- regrouping: `, NL line₁ … lineₙ }` is `afterFields` of the field sources -/
theorem linesToks_afterFields (F : BibtexFormat) (col : Nat) (fs : List Field) :
    CM :: NLt :: (linesToks P F col fs ++ [RB]) = afterFields (fieldSrcs P F col fs) (trailingOf F fs) := by
  cases fs with
  | nil => simp [linesToks, fieldSrcs, trailingOf, afterFields]
  | cons f fs =>
    -- for a non-empty remainder the trailing part only depends on `trailing_comma`
    have key : ∀ (g : Field) (gs : List Field),
        CM :: NLt :: (linesToks P F col (g :: gs) ++ [RB]) =
          afterFields (fieldSrcs P F col (g :: gs)) (if F.trailingComma then some [NLt] else none) := by
      intro g gs
      induction gs generalizing g with
      | nil =>
        cases htc : F.trailingComma <;>
          simp [linesToks, fieldSrcs, afterFields, htc, fvalToks]
      | cons g2 gs ih =>
        have := ih g2
        simp only [linesToks, fieldSrcs, afterFields, List.isEmpty_cons, Bool.not_false, Bool.or_true,
          ↓reduceIte, Bool.false_and, Bool.false_eq_true, List.append_nil] at this ⊢
        rw [← this]
        simp
    have htr : trailingOf F (f :: fs) = if F.trailingComma then some [NLt] else none := by
      simp [trailingOf]
    rw [htr]; exact key f fs

/-! ### whole blocks -/

theorem kw_word (hP : PrintOK P) (w : Str) (hw : ∀ c ∈ w, c ∈ kwLetters) : ∀ x ∈ w, P.isWord x = true :=
  fun x hx => (hP.kw x (hw x hx)).1

theorem lex_entry_core (hP : PrintOK P) (F : BibtexFormat) (hF : FormatOK F) (col : Nat) (e : Entry)
    (he : EntryOK P e) (b : Bool) (rest : Str) :
    lexFrom P b (coreOf F col (.live (.entry e)) ++ rest) =
      (srcOf P F col (.live (.entry e))).toks ++ lexFrom P false rest := by
  have hre : coreOf F col (.live (.entry e)) ++ rest =
      '@' :: (e.ty ++ '{' :: (e.key ++ ',' :: '\n' :: (linesText F col e.fields ++ '}' :: rest))) := by
    simp [coreOf]
  rw [hre, lex_at_type P hP.word b e.ty _ he.tyWord]
  have hlines : lexFrom P false (',' :: '\n' :: (linesText F col e.fields ++ '}' :: rest)) =
      afterFields (fieldSrcs P F col e.fields) (trailingOf F e.fields) ++ lexFrom P false rest := by
    rw [lex_delim P ',' .comma _ (by decide), lex_delim P '\n' .nl _ (by decide),
      lex_lines hP F hF col e.fields he.fields, lex_delim P '}' .rbrace rest (by decide),
      ← linesToks_afterFields]
    simp [CM, NLt, RB]
  have hkey := (lex_keyctx2 hP.word [] e.key [] ',' .comma ('\n' :: (linesText F col e.fields ++ '}' :: rest))
    (by intro c hc; cases hc) he.keyOK (by intro c hc; cases hc) (by decide) hP.cmWord
    (by decide) (by decide)).1
  simp only [List.nil_append, List.append_nil] at hkey
  rw [hkey, ← lex_delim P ',' .comma ('\n' :: (linesText F col e.fields ++ '}' :: rest)) (by decide), hlines]
  simp [srcOf, BlockSrc.toks, AT, LB]

theorem lex_string_core (hP : PrintOK P) (F : BibtexFormat) (col : Nat) (k : Str) (v : Str) (l : Int) (r : Str)
    (m : MetaD) (hk : KeyOK P k) (hv : EncBal P v) (b : Bool) (rest : Str) :
    lexFrom P b (coreOf F col (.live (.string k (.str v) l r m)) ++ rest) =
      (srcOf P F col (.live (.string k (.str v) l r m))).toks ++ lexFrom P false rest := by
  have hre : coreOf F col (.live (.string k (.str v) l r m)) ++ rest =
      '@' :: ("string".toList ++ '{' :: ((k ++ [' ']) ++ '=' :: ' ' :: '{' :: (v ++ '}' :: '}' :: rest))) := by
    simp [coreOf, strOf]
  have hks : ∀ X, lexFrom P false ((k ++ [' ']) ++ '=' :: X) =
      lexFrom P false (k ++ [' ']) ++ EQ :: lexFrom P false X := by
    intro X
    have := (lex_keyctx2 hP.word [] k [' '] '=' .eq X (by intro c hc; cases hc) hk
      (by intro c hc; simp at hc; subst hc; decide) (by decide) hP.eqWord (by decide) (by decide)).1
    simpa [EQ] using this
  rw [hre, lex_at_type P hP.word b _ _ (kw_word hP _ (by decide)),
    lex_assign_str false _ _ hks v hv, lex_delim P '}' .rbrace rest (by decide)]
  simp [srcOf, BlockSrc.toks, strOf, AT, LB, RB, EQ]

theorem lex_bracket_core (hP : PrintOK P) (kwd : Str) (hkw : ∀ c ∈ kwd, c ∈ kwLetters) (v : Str)
    (hv : CleanVal P v) (b : Bool) (rest : Str) :
    lexFrom P b ('@' :: (kwd ++ '{' :: (v ++ ['}'])) ++ rest) =
      AT ('@' :: kwd) :: LB :: (vtOf P v ++ [RB]) ++ lexFrom P false rest := by
  have hre : '@' :: (kwd ++ '{' :: (v ++ ['}'])) ++ rest = '@' :: (kwd ++ '{' :: (v ++ '}' :: rest)) := by simp
  rw [hre, lex_at_type P hP.word b _ _ (kw_word hP _ hkw), (vtOf_spec hv).2.2 rest,
    lex_delim P '}' .rbrace rest (by decide)]
  simp [AT, LB, RB]

/-- **every written block lexes to its derivation**, whatever precedes (`b`) and follows (`rest`) it -/
theorem lex_core (hP : PrintOK P) (F : BibtexFormat) (hF : FormatOK F) (col : Nat) (blk : Block)
    (hb : BlockOK P blk) (hni : isImpl blk = false) (b : Bool) (rest : Str) :
    lexFrom P b (coreOf F col blk ++ rest) = (srcOf P F col blk).toks ++ lexFrom P false rest := by
  match blk, hb, hni with
  | .live (.entry e), hb, _ => exact lex_entry_core hP F hF col e hb b rest
  | .live (.string k v l r m), hb, _ =>
    obtain ⟨hk, _, s, rfl, hv⟩ := hb
    exact lex_string_core hP F col k s l r m hk hv b rest
  | .live (.preamble v l r m), hb, _ =>
    have := lex_bracket_core hP "preamble".toList (by decide) v hb b rest
    simpa [coreOf, srcOf, BlockSrc.toks] using this
  | .live (.expl c l r m), hb, _ =>
    have := lex_bracket_core hP "comment".toList (by decide) c hb.1 b rest
    simpa [coreOf, srcOf, BlockSrc.toks] using this
  | .live (.impl c l r m), _, hni => simp [isImpl] at hni

/-- the text of a non-comment block starts with `@type{` -/
theorem core_starts_at (hP : PrintOK P) (F : BibtexFormat) (col : Nat) (blk : Block) (hb : BlockOK P blk)
    (hni : isImpl blk = false) (rest : Str) :
    ∃ r lit r2, coreOf F col blk ++ rest = '@' :: r ∧ atMatch P r = some (lit, r2) := by
  have mk : ∀ (w tail : Str), (∀ x ∈ w, P.isWord x = true) →
      ∃ r lit r2, '@' :: (w ++ '{' :: tail) ++ rest = '@' :: r ∧ atMatch P r = some (lit, r2) := by
    intro w tail hw
    refine ⟨w ++ '{' :: (tail ++ rest), w, '{' :: (tail ++ rest), by simp, ?_⟩
    have := atMatch_word_blank P hP.word w [] (tail ++ rest) hw (by simp)
    simpa using this
  match blk, hb, hni with
  | .live (.entry e), hb, _ => exact mk e.ty _ hb.tyWord
  | .live (.string k v l r m), _, _ => exact mk "string".toList _ (kw_word hP _ (by decide))
  | .live (.preamble v l r m), _, _ => exact mk "preamble".toList _ (kw_word hP _ (by decide))
  | .live (.expl c l r m), _, _ => exact mk "comment".toList _ (kw_word hP _ (by decide))
  | .live (.impl c l r m), _, hni => simp [isImpl] at hni

end Bib.PrintParse
