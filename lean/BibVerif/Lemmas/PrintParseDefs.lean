/-
  C05 (print → parse): hypotheses (`PrintOK`, `FormatOK`, `Writable`), the text the default write
  stack produces for a writable library (`coreOf`, `render`), and the grammar derivation it is a
  spelling of (`srcOf`).  Definitions only; lemmas are in PrintParseLex / PrintParseDoc / PrintParsePipe.
-/
import BibVerif.Pipeline
import BibVerif.Grammar
import BibVerif.Lemmas.LexPieces
import BibVerif.Lemmas.PrintParseKey
import BibVerif.Lemmas.KeyOK
import BibVerif.Lemmas.StrBlocks
namespace Bib.PrintParse
open Bib Bib.Writer Bib.Enclosing Bib.Pipeline

/-! ### hypotheses -/

/-- the letters of the three keywords `string`, `preamble`, `comment` -/
def kwLetters : Str := "stringpeamblco".toList

/-- Facts about CPython's character classes the proof uses.  Every field is a statement about single
characters (checked against the running CPython over all code points by the harness). -/
structure PrintOK (P : PyChars) : Prop where
  /-- `\w` matches neither `{` nor a blank -/
  word : WordOK2 P
  /-- `\w` does not match `@` -/
  atWord : P.isWord '@' = false
  /-- `\w` does not match `}` (used only by `parsed_writable`) -/
  rbWord : P.isWord '}' = false
  /-- `\w` does not match a newline (a `@` in a free-text comment cannot look past the end of its line) -/
  nlWord : P.isWord '\n' = false
  /-- `\w` matches neither `,` nor `=` (a `@` inside a key cannot look past the delimiter after the key) -/
  cmWord : P.isWord ',' = false
  eqWord : P.isWord '=' = false
  /-- `\w` does not match `"` (used only at the grammar level) -/
  qWord : P.isWord '"' = false
  /-- a white-space character is a newline, or an ordinary text character (no delimiter, `@` or
  backslash) that `\w` does not match (used only at the grammar level: `strip` versus tokens) -/
  space : ∀ c, P.isSpace c = true → c = '\n' ∨ (simpleChar c = true ∧ P.isWord c = false)
  spSpace : P.isSpace ' ' = true
  tabSpace : P.isSpace '\t' = true
  nlSpace : P.isSpace '\n' = true
  lbSpace : P.isSpace '{' = false
  rbSpace : P.isSpace '}' = false
  /-- `'@'.lower() == '@'` -/
  atLower : P.lowerC '@' = ['@']
  /-- the letters of `string`, `preamble`, `comment` are `\w` and lower-case -/
  kw : ∀ c ∈ kwLetters, P.isWord c = true ∧ P.lowerC c = [c]

/-- `indent` consists of blanks / tabs, `block_separator` of blanks, tabs and newlines; any
`value_column`, any `trailing_comma`, any `parsing_failed_comment` -/
structure FormatOK (F : BibtexFormat) : Prop where
  indent : ∀ c ∈ F.indent, isBlank c = true
  sep : ∀ c ∈ F.blockSeparator, c = ' ' ∨ c = '\t' ∨ c = '\n'

/-- a value that can be written between braces: its text lexes - whatever follows the closing brace -
to a brace-balanced token list (in particular it does not end in a backslash and contains no
block-start sequence) -/
def CleanVal (P : PyChars) (v : Str) : Prop :=
  ∃ vt, IsBal vt ∧ flatten vt = v ∧
    ∀ rest, lexFrom P false (v ++ '}' :: rest) = vt ++ lexFrom P false ('}' :: rest)

/-- an entry field value that can be written between braces: the enclosed text `{v}` lexes - when
followed by what the writer emits after a value, a comma or a newline - to a `Value` of the dialect
grammar (bare words, brace groups, quoted pieces; no top-level `,` `=`, no block start).  The content
`v` itself need not be balanced: `A} # {B` (source `{A} # {B}`) and `a}{b` are fine. -/
def EncVal (P : PyChars) (v : Str) : Prop :=
  ∃ vt, IsValue vt ∧ flatten vt = '{' :: (v ++ ['}']) ∧
    ∀ c r, (c = ',' ∨ c = '\n') →
      lexFrom P false ('{' :: (v ++ '}' :: c :: r)) = vt ++ lexFrom P false (c :: r)

/-- an @string value that can be written between braces: the enclosed text `{v}`, followed by the
closing brace of the block, lexes to brace-balanced tokens (the @string scanner
`_move_to_closed_bracket` only counts braces).  Again `v` itself may be unbalanced (`a} # {b`). -/
def EncBal (P : PyChars) (v : Str) : Prop :=
  ∃ vt, IsBal vt ∧ flatten vt = '{' :: (v ++ ['}']) ∧
    ∀ rest, lexFrom P false ('{' :: (v ++ '}' :: '}' :: rest)) = vt ++ lexFrom P false ('}' :: rest)

/-- no `@` of the text starts a block: the regex alternative `@\w*[ \t]*(?={)` fails at every `@`
(what `re.search(r"@\w*[ \t]*\{", text) is None` says) -/
def noStart (P : PyChars) : Str → Bool
  | [] => true
  | c :: r => (c != '@' || (atMatch P r).isNone) && noStart P r

structure FieldOK (P : PyChars) (f : Field) : Prop where
  keyOK : KeyOK P f.key
  keyStrip : strip P f.key = f.key
  value : ∃ v, f.value = .str v ∧ EncVal P v

structure EntryOK (P : PyChars) (e : Entry) : Prop where
  tyWord : ∀ c ∈ e.ty, P.isWord c = true
  tyLower : lower P e.ty = e.ty
  tyStrip : strip P e.ty = e.ty
  tyNotComment : startsWith "comment".toList e.ty = false
  tyNotPreamble : startsWith "preamble".toList e.ty = false
  tyNotString : startsWith "string".toList e.ty = false
  keyOK : KeyOK P e.key
  keyStrip : strip P e.key = e.key
  fields : ∀ f ∈ e.fields, FieldOK P f
  fieldKeys : (e.fields.map (·.key)).Nodup
  /-- `parser_metadata['removed_enclosing']` is absent or the dict `RemoveEnclosing` wrote
  (`AddEnclosing` calls `.get` on it) -/
  md : MdOK (.entry e)

def BlockOK (P : PyChars) : Block → Prop
  | .live (.entry e) => EntryOK P e
  | .live (.string k v _ _ _) => KeyOK P k ∧ strip P k = k ∧ ∃ s, v = .str s ∧ EncBal P s
  | .live (.preamble v _ _ _) => CleanVal P v
  | .live (.expl c _ _ _) => CleanVal P c ∧ strip P c = c
  | .live (.impl c _ _ _) => c ≠ [] ∧ strip P c = c ∧ noStart P c = true
  | _ => False

def isImpl : Block → Bool
  | .live (.impl _ _ _ _) => true
  | _ => false

/-- no two free-text comments are adjacent (they would be read back as one) -/
def NoAdjImpl : List Block → Prop
  | [] => True
  | [_] => True
  | a :: b :: r => ¬ (isImpl a = true ∧ isImpl b = true) ∧ NoAdjImpl (b :: r)

def entryKeys (bs : List Block) : List Str :=
  bs.filterMap fun b => match b with | .live (.entry e) => some e.key | _ => none

def stringKeys (bs : List Block) : List Str :=
  bs.filterMap fun b => match b with | .live (.string k _ _ _ _) => some k | _ => none

/-- a library the default write stack can print so that it reads back with the same content -/
structure Writable (P : PyChars) (L : List Block) : Prop where
  blocks : ∀ b ∈ L, BlockOK P b
  entryKeys : (entryKeys L).Nodup
  stringKeys : (stringKeys L).Nodup
  noAdj : NoAdjImpl L

/-! ### what `AddEnclosingMiddleware('{', reuse=False)` turns a writable library into -/

def encFields (fs : List Field) : List Field :=
  fs.map fun f => { f with value := .str ('{' :: strOf f.value ++ ['}']) }

def encBlock : Block → Block
  | .live (.entry e) =>
    .live (.entry { e with fields := encFields e.fields, md := assocErase e.md REMOVED_ENCLOSING_KEY })
  | .live (.string k v l r m) => .live (.string k (.str ('{' :: strOf v ++ ['}'])) l r m)
  | b => b

/-! ### the written text -/

/-- `indent ++ key ++ padding ++ " "`: the text before the `=` of a field line -/
def lineHead (F : BibtexFormat) (col : Nat) (key : Str) : Str :=
  F.indent ++ key ++ padding col key ++ [' ']

/-- the field lines of an entry: `head = {value}[,]\n` each -/
def linesText (F : BibtexFormat) (col : Nat) : List Field → Str
  | [] => []
  | f :: fs =>
    lineHead F col f.key ++ '=' :: ' ' :: '{' :: (strOf f.value ++ '}' ::
      ((if F.trailingComma || !fs.isEmpty then [','] else []) ++ '\n' :: linesText F col fs))

/-- the text of a block up to and including its closing brace (the writer appends `"\n"`) -/
def coreOf (F : BibtexFormat) (col : Nat) : Block → Str
  | .live (.entry e) =>
    '@' :: (e.ty ++ '{' :: (e.key ++ ',' :: '\n' :: (linesText F col e.fields ++ ['}'])))
  | .live (.string k v _ _ _) =>
    '@' :: ("string".toList ++ '{' :: ((k ++ [' ']) ++ '=' :: ' ' :: '{' :: (strOf v ++ ['}', '}'])))
  | .live (.preamble v _ _ _) => '@' :: ("preamble".toList ++ '{' :: (v ++ ['}']))
  | .live (.expl c _ _ _) => '@' :: ("comment".toList ++ '{' :: (c ++ ['}']))
  | .live (.impl c _ _ _) => c
  | _ => []

/-- the text `writer.write` emits for one block -/
def textOf (F : BibtexFormat) (col : Nat) (b : Block) : Str := coreOf F col b ++ ['\n']

/-- `block_separator.join(texts)` -/
def render (F : BibtexFormat) (col : Nat) : List Block → Str
  | [] => []
  | [b] => textOf F col b
  | b :: b2 :: r => textOf F col b ++ F.blockSeparator ++ render F col (b2 :: r)

/-! ### the derivation the text spells -/

/-- the tokens of a clean value (chosen from `CleanVal`) -/
noncomputable def vtOf (P : PyChars) (v : Str) : List Tok := by
  classical
  exact if h : CleanVal P v then Classical.choose h else []

theorem vtOf_spec {P : PyChars} {v : Str} (h : CleanVal P v) :
    IsBal (vtOf P v) ∧ flatten (vtOf P v) = v ∧
      ∀ rest, lexFrom P false (v ++ '}' :: rest) = vtOf P v ++ lexFrom P false ('}' :: rest) := by
  unfold vtOf
  simp only [h, ↓reduceDIte]
  exact Classical.choose_spec h

def NLt : Tok := .mark .nl ['\n']
def SPt : Tok := .text [' ']

/-- the tokens of an enclosed @string value `{v}` (chosen from `EncBal`) -/
noncomputable def sevtOf (P : PyChars) (v : Str) : List Tok := by
  classical
  exact if h : EncBal P v then Classical.choose h else []

theorem sevtOf_spec {P : PyChars} {v : Str} (h : EncBal P v) :
    IsBal (sevtOf P v) ∧ flatten (sevtOf P v) = '{' :: (v ++ ['}']) ∧
      ∀ rest, lexFrom P false ('{' :: (v ++ '}' :: '}' :: rest)) = sevtOf P v ++ lexFrom P false ('}' :: rest) := by
  unfold sevtOf
  simp only [h, ↓reduceDIte]
  exact Classical.choose_spec h

theorem encBal_of_clean {P : PyChars} {v : Str} (h : CleanVal P v) : EncBal P v := by
  obtain ⟨vt, hb, hf, hl⟩ := h
  refine ⟨LB :: (vt ++ [RB]), ?_, ?_, ?_⟩
  · have := IsBal.grp ['{'] ['}'] vt [] hb IsBal.nil
    simpa [LB, RB] using this
  · simp [flatten, LB, RB, Tok.lit] at hf ⊢
    exact hf
  · intro rest
    rw [lex_delim P '{' .lbrace _ (by decide), hl ('}' :: rest), lex_delim P '}' .rbrace _ (by decide)]
    simp [LB, RB]

/-- the value tokens `" {v}"` of an @string -/
noncomputable def valToks (P : PyChars) (v : Str) : List Tok := SPt :: sevtOf P v

/-- the tokens of an enclosed field value `{v}` (chosen from `EncVal`) -/
noncomputable def evtOf (P : PyChars) (v : Str) : List Tok := by
  classical
  exact if h : EncVal P v then Classical.choose h else []

theorem evtOf_spec {P : PyChars} {v : Str} (h : EncVal P v) :
    IsValue (evtOf P v) ∧ flatten (evtOf P v) = '{' :: (v ++ ['}']) ∧
      ∀ c r, (c = ',' ∨ c = '\n') →
        lexFrom P false ('{' :: (v ++ '}' :: c :: r)) = evtOf P v ++ lexFrom P false (c :: r) := by
  unfold evtOf
  simp only [h, ↓reduceDIte]
  exact Classical.choose_spec h

/-- a clean (balanced) value is in particular a good enclosed value -/
theorem encVal_of_clean {P : PyChars} {v : Str} (h : CleanVal P v) : EncVal P v := by
  obtain ⟨vt, hb, hf, hl⟩ := h
  refine ⟨LB :: (vt ++ [RB]), ?_, ?_, ?_⟩
  · have := IsValue.braced ['{'] ['}'] vt [] hb IsValue.nil
    simpa [LB, RB] using this
  · simp [flatten, LB, RB, Tok.lit] at hf ⊢
    exact hf
  · intro c r _
    rw [lex_delim P '{' .lbrace _ (by decide), hl (c :: r), lex_delim P '}' .rbrace _ (by decide)]
    simp [LB, RB]

/-- the value tokens `" {v}"` of a field -/
noncomputable def fvalToks (P : PyChars) (v : Str) : List Tok := SPt :: evtOf P v

noncomputable def fieldSrcs (P : PyChars) (F : BibtexFormat) (col : Nat) : List Field → List FieldSrc
  | [] => []
  | f :: fs =>
    ⟨NLt :: lexFrom P false (lineHead F col f.key),
      fvalToks P (strOf f.value) ++ (if fs.isEmpty && !F.trailingComma then [NLt] else [])⟩ ::
      fieldSrcs P F col fs

def trailingOf (F : BibtexFormat) (fs : List Field) : Option (List Tok) :=
  if fs.isEmpty || F.trailingComma then some [NLt] else none

noncomputable def srcOf (P : PyChars) (F : BibtexFormat) (col : Nat) : Block → BlockSrc
  | .live (.entry e) =>
    .entry ('@' :: e.ty) (lexFrom P false e.key) (fieldSrcs P F col e.fields)
      (trailingOf F e.fields)
  | .live (.string k v _ _ _) => .string "@string".toList (lexFrom P false (k ++ [' '])) (valToks P (strOf v))
  | .live (.preamble v _ _ _) => .preamble "@preamble".toList (vtOf P v)
  | .live (.expl c _ _ _) => .comment "@comment".toList (vtOf P c)
  | _ => .comment [] []

/-- the content the re-parsed block must have before `RemoveEnclosing`: values in braces -/
def encContent (b : Block) : Content := contentOf (encBlock b)

end Bib.PrintParse
