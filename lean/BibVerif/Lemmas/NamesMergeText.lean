/-
  C14 helper lemmas: the text `merge_last_name_first` writes, and the final assembly of
  `merge_parse`.
-/
import BibVerif.Lemmas.NamesRescan
import BibVerif.Lemmas.NamesMerge
namespace Bib.NameP
open Bib.Names

theorem joinWith_ne_nil (sep : Str) (ws : List Str) (h1 : ws ≠ []) (h2 : ∀ w ∈ ws, w ≠ []) :
    joinWith sep ws ≠ [] := by
  match ws, h1 with
  | [x], _ => simpa [joinWith] using h2 x (by simp)
  | x :: y :: r, _ =>
    have hx : x ≠ [] := h2 x (by simp)
    intro h
    simp [joinWith] at h
    exact hx h.1

theorem joinWith_append (sep : Str) (a b : List Str) (ha : a ≠ []) (hb : b ≠ []) :
    joinWith sep (a ++ b) = joinWith sep a ++ sep ++ joinWith sep b := by
  induction a with
  | nil => exact absurd rfl ha
  | cons x r ih =>
    cases r with
    | nil =>
      cases b with
      | nil => exact absurd rfl hb
      | cons y r' => simp [joinWith]
    | cons x2 r2 =>
      have := ih (by simp)
      simp only [List.cons_append, joinWith] at this ⊢
      rw [this]; simp

theorem takeWhile_append_stop {α} (p : α → Bool) (a : List α) (c : α) (X : List α) (hc : p c = false) :
    (a ++ c :: X).takeWhile p = a.takeWhile p := by
  induction a with
  | nil => simp [hc]
  | cons x r ih =>
    simp only [List.cons_append, List.takeWhile_cons]
    split
    · rw [ih]
    · rfl

theorem trailBS_append_sep (pre w : Str) (c : Char) (hc : c ≠ '\\') :
    trailBS (pre ++ [c] ++ w) = trailBS w := by
  unfold trailBS
  simp only [List.reverse_append, List.reverse_cons, List.reverse_nil, List.nil_append, List.append_assoc,
    List.cons_append]
  rw [takeWhile_append_stop]
  simp [hc]

theorem trailBS_joinSp (ini : List Str) (x : Str) : trailBS (joinSp (ini ++ [x])) = trailBS x := by
  by_cases h : ini = []
  · subst h; simp [joinSp, joinWith]
  · unfold joinSp
    rw [joinWith_append [' '] ini [x] h (by simp)]
    simp only [joinWith]
    exact trailBS_append_sep _ _ ' ' (by decide)

theorem escapeLastSlash_id (s : Str) (h : trailBS s % 2 = 0) : escapeLastSlash s = s := by
  unfold escapeLastSlash
  simp only
  have : (s.reverse.takeWhile (· = '\\')).length = trailBS s := rfl
  rw [this, if_pos h]

theorem escape_joinSp (ws : List Str) (hne : ws ≠ []) (hb : ∀ w ∈ ws, ¬ OddBS w) :
    escapeLastSlash (joinSp ws) = joinSp ws := by
  obtain ⟨ini, x, hx, _⟩ := snoc_of_ne_nil ws hne
  apply escapeLastSlash_id
  rw [hx, trailBS_joinSp]
  have := hb x (by rw [hx]; simp)
  unfold OddBS at this
  have h2 : (x.reverse.takeWhile (· = '\\')).length = trailBS x := rfl
  rw [h2] at this
  omega

theorem words_ne_nil {l : List Word} (h : l ≠ []) : words l ≠ [] := by
  cases l with
  | nil => exact absurd rfl h
  | cons a r => simp [words]

theorem part_of_ne {ws : List Str} (h : ws ≠ []) : part ws = some (joinSp ws) := by
  unfold part
  cases ws with
  | nil => exact absurd rfl h
  | cons a r => rfl

theorem part_nil : part [] = none := rfl

theorem truthy_nil : truthy [] = [] := rfl

theorem truthy_cons_none (xs : List (Option Str)) : truthy (none :: xs) = truthy xs := rfl

theorem truthy_cons_some (s : Str) (hs : s ≠ []) (xs : List (Option Str)) :
    truthy (some s :: xs) = s :: truthy xs := by
  unfold truthy
  cases s with
  | nil => exact absurd rfl hs
  | cons a r => simp

/-- **the text that `merge_last_name_first` writes** (no word ending in an odd number of
backslashes, so `escape_last_slash` changes nothing) -/
theorem mergeLastFirst_eq (w : WParts) (hl : w.last ≠ [])
    (hne : ∀ x ∈ w.first ++ w.von ++ w.last ++ w.jr, x.1 ≠ [])
    (hb : NoOddBS w.toNameParts) :
    mergeLastFirst w.toNameParts = secText (mergeSecs w) := by
  have hwne : ∀ (l : List Word), (∀ x ∈ l, x ∈ w.first ++ w.von ++ w.last ++ w.jr) → ∀ s ∈ words l, s ≠ [] := by
    intro l hsub s hs
    obtain ⟨x, hx, rfl⟩ := List.mem_map.mp hs
    exact hne x (hsub x hx)
  have hodd : ∀ (l : List Word), (∀ x ∈ l, x ∈ w.first ++ w.von ++ w.last ++ w.jr) → ∀ s ∈ words l, ¬ OddBS s := by
    intro l hsub s hs
    obtain ⟨x, hx, rfl⟩ := List.mem_map.mp hs
    apply hb
    have := hsub x hx
    simp only [WParts.toNameParts, words, List.mem_append, List.mem_map] at this ⊢
    rcases this with ((h | h) | h) | h
    · exact Or.inl (Or.inl (Or.inl ⟨x, h, rfl⟩))
    · exact Or.inl (Or.inl (Or.inr ⟨x, h, rfl⟩))
    · exact Or.inl (Or.inr ⟨x, h, rfl⟩)
    · exact Or.inr ⟨x, h, rfl⟩
  have sF : ∀ x ∈ w.first, x ∈ w.first ++ w.von ++ w.last ++ w.jr := fun x h => by simp [h]
  have sV : ∀ x ∈ w.von, x ∈ w.first ++ w.von ++ w.last ++ w.jr := fun x h => by simp [h]
  have sL : ∀ x ∈ w.last, x ∈ w.first ++ w.von ++ w.last ++ w.jr := fun x h => by simp [h]
  have sJ : ∀ x ∈ w.jr, x ∈ w.first ++ w.von ++ w.last ++ w.jr := fun x h => by simp [h]
  have sVL : ∀ x ∈ w.von ++ w.last, x ∈ w.first ++ w.von ++ w.last ++ w.jr := by
    intro x h; rcases List.mem_append.mp h with h | h
    · exact sV x h
    · exact sL x h
  have hLne := words_ne_nil hl
  have hjl : joinSp (words w.last) ≠ [] := joinWith_ne_nil _ _ hLne (hwne _ sL)
  -- von Last
  have hvl : joinSp (truthy [part (words w.von), part (words w.last)]) = joinSp (words (w.von ++ w.last)) := by
    rw [part_of_ne hLne]
    by_cases hv : w.von = []
    · rw [hv]
      have : words ([] : List Word) = [] := rfl
      rw [this, part_nil, truthy_cons_none, truthy_cons_some _ hjl, truthy_nil]
      simp [joinSp, joinWith]
    · have hVne := words_ne_nil hv
      have hjv : joinSp (words w.von) ≠ [] := joinWith_ne_nil _ _ hVne (hwne _ sV)
      rw [part_of_ne hVne, truthy_cons_some _ hjv, truthy_cons_some _ hjl, truthy_nil]
      have : words (w.von ++ w.last) = words w.von ++ words w.last := by simp [words]
      rw [this]
      unfold joinSp
      rw [joinWith_append _ _ _ hVne hLne]
      simp [joinWith]
  have hVLne : words (w.von ++ w.last) ≠ [] := words_ne_nil (by simp [hl])
  have hjvl : joinSp (words (w.von ++ w.last)) ≠ [] := joinWith_ne_nil _ _ hVLne (hwne _ sVL)
  have hevl := escape_joinSp _ hVLne (hodd _ sVL)
  have hnil : words ([] : List Word) = [] := rfl
  unfold mergeLastFirst secText mergeSecs
  simp only [WParts.toNameParts]
  rw [hvl, truthy_cons_some _ hjvl]
  by_cases hj : w.jr = [] <;> by_cases hf : w.first = []
  · rw [hj, hf, hnil, part_nil, truthy_cons_none, truthy_cons_none, truthy_nil]
    simp [hevl]
  · have hFne := words_ne_nil hf
    have hjf : joinSp (words w.first) ≠ [] := joinWith_ne_nil _ _ hFne (hwne _ sF)
    have hef := escape_joinSp _ hFne (hodd _ sF)
    rw [hj, hnil, part_nil, truthy_cons_none, part_of_ne hFne, truthy_cons_some _ hjf, truthy_nil]
    simp [hevl, hef, hf]
  · have hJne := words_ne_nil hj
    have hjj : joinSp (words w.jr) ≠ [] := joinWith_ne_nil _ _ hJne (hwne _ sJ)
    have hej := escape_joinSp _ hJne (hodd _ sJ)
    rw [hf, hnil, part_nil, part_of_ne hJne, truthy_cons_some _ hjj, truthy_cons_none, truthy_nil]
    simp [hevl, hej, hj]
  · have hFne := words_ne_nil hf
    have hjf : joinSp (words w.first) ≠ [] := joinWith_ne_nil _ _ hFne (hwne _ sF)
    have hef := escape_joinSp _ hFne (hodd _ sF)
    have hJne := words_ne_nil hj
    have hjj : joinSp (words w.jr) ≠ [] := joinWith_ne_nil _ _ hJne (hwne _ sJ)
    have hej := escape_joinSp _ hJne (hodd _ sJ)
    rw [part_of_ne hFne, part_of_ne hJne, truthy_cons_some _ hjj, truthy_cons_some _ hjf, truthy_nil]
    simp [hevl, hef, hej, hj, hf]

/-- every word of the parts is a word of some section -/
theorem assignW_mem (secs : List (List Word))
    (hlen : secs.length ≤ 3) (hne : ∀ sec ∈ secs, ∀ w ∈ sec, w.1 ≠ [])
    (hlast : ∀ l, secs.getLast? = some l → l ≠ []) :
    ∀ w ∈ (assignW secs).first ++ (assignW secs).von ++ (assignW secs).last ++ (assignW secs).jr,
      ∃ sec ∈ secs, w ∈ sec := by
  match secs, hlen, hne, hlast with
  | [], _, _, _ => simp [assignW]
  | [p0], _, hne, hlast =>
    have hp0 : p0 ≠ [] := hlast p0 rfl
    match p0, hp0 with
    | [x], _ => intro w hw; simp [assignW_one] at hw; exact ⟨[x], by simp, by simp [hw]⟩
    | [a, b], _ =>
      intro w hw
      simp [assignW_two] at hw
      exact ⟨[a, b], by simp, by rcases hw with hw | hw <;> simp [hw]⟩
    | a :: b :: c :: r, _ =>
      obtain ⟨F, V, L, hr, he⟩ := assignW_form1 (a :: b :: c :: r) (by simp)
      intro w hw
      rw [he] at hw
      simp only [List.append_nil] at hw
      refine ⟨a :: b :: c :: r, by simp, ?_⟩
      rw [hr.split]; exact hw
  | [p0, f], _, hne, _ =>
    obtain ⟨V, L, hr, he⟩ := assign23W_rule p0 [] f false (hne f (by simp)) (by simp)
    have h0 : assignW [p0, f] = assign23 p0 [] f false := rfl
    intro w hw
    rw [h0, he] at hw
    simp only [Bool.false_eq_true, if_false, List.append_nil, List.mem_append] at hw
    rcases hw with (hw | hw) | hw
    · exact ⟨f, by simp, hw⟩
    · exact ⟨p0, by simp, by rw [hr.split]; simp [hw]⟩
    · exact ⟨p0, by simp, by rw [hr.split]; simp [hw]⟩
  | [p0, j, f], _, hne, _ =>
    obtain ⟨V, L, hr, he⟩ := assign23W_rule p0 j f true (hne f (by simp)) (hne j (by simp))
    have h0 : assignW [p0, j, f] = assign23 p0 j f true := rfl
    intro w hw
    rw [h0, he] at hw
    simp only [if_true, List.mem_append] at hw
    rcases hw with ((hw | hw) | hw) | hw
    · exact ⟨f, by simp, hw⟩
    · exact ⟨p0, by simp, by rw [hr.split]; simp [hw]⟩
    · exact ⟨p0, by simp, by rw [hr.split]; simp [hw]⟩
    · exact ⟨j, by simp, hw⟩
  | _ :: _ :: _ :: _ :: _, hlen, _, _ => simp at hlen

variable (P : PyChars)

/-- **merging the parts of a parsed name and parsing again gives the same parts** -/
theorem merge_parse_thm (n : Str) (p : NameParts) (h : parse P n = .ok p) (hl : p.last ≠ [])
    (hb : NoOddBS p) : parse P (mergeLastFirst p) = .ok p := by
  unfold parse at h
  cases hs : scan P n with
  | error e => rw [hs] at h; cases h
  | ok secs =>
    rw [hs] at h
    simp only at h
    injection h with h
    obtain ⟨hlen, hne, hlast⟩ := scan_shape' P n secs hs
    have hgood := scan_good P hs
    have hmem := assignW_mem secs hlen hne hlast
    have hp : p = (assignW secs).toNameParts := h.symm
    generalize hW : assignW secs = W at hmem hp
    subst hp
    have hWl : W.last ≠ [] := by
      intro h0
      apply hl
      simp [WParts.toNameParts, words, h0]
    have hwne : ∀ x ∈ W.first ++ W.von ++ W.last ++ W.jr, x.1 ≠ [] := by
      intro x hx
      obtain ⟨sec, hsec, hxs⟩ := hmem x hx
      exact hne sec hsec x hxs
    have hrep : ∀ x ∈ W.first ++ W.von ++ W.last ++ W.jr, Replay P x.1 x.2 := by
      intro x hx
      obtain ⟨sec, hsec, hxs⟩ := hmem x hx
      rcases hgood sec hsec x hxs with hr | ho
      · exact hr
      · exfalso
        apply hb x.1 _ ho
        simp only [WParts.toNameParts, words, List.mem_append, List.mem_map] at hx ⊢
        rcases hx with ((hx | hx) | hx) | hx
        · exact Or.inl (Or.inl (Or.inl ⟨x, hx, rfl⟩))
        · exact Or.inl (Or.inl (Or.inr ⟨x, hx, rfl⟩))
        · exact Or.inl (Or.inr ⟨x, hx, rfl⟩)
        · exact Or.inr ⟨x, hx, rfl⟩
    have htext := mergeLastFirst_eq W hWl hwne hb
    -- the sections written
    have hS : ∀ s ∈ mergeSecs W, s ≠ [] ∧ ∀ w ∈ s, Replay P w.1 w.2 ∧ w.1 ≠ [] := by
      intro s hs'
      unfold mergeSecs at hs'
      simp only [List.mem_append, List.mem_singleton] at hs'
      rcases hs' with (hs' | hs') | hs'
      · subst hs'
        refine ⟨by simp [hWl], ?_⟩
        intro w hw
        have : w ∈ W.first ++ W.von ++ W.last ++ W.jr := by
          rcases List.mem_append.mp hw with hw | hw <;> simp [hw]
        exact ⟨hrep w this, hwne w this⟩
      · by_cases hj : W.jr = []
        · simp [hj] at hs'
        · simp only [hj, if_false, List.mem_singleton] at hs'
          subst hs'
          refine ⟨hj, ?_⟩
          intro w hw
          have : w ∈ W.first ++ W.von ++ W.last ++ W.jr := by simp [hw]
          exact ⟨hrep w this, hwne w this⟩
      · by_cases hf : W.first = []
        · simp [hf] at hs'
        · simp only [hf, if_false, List.mem_singleton] at hs'
          subst hs'
          refine ⟨hf, ?_⟩
          intro w hw
          have : w ∈ W.first ++ W.von ++ W.last ++ W.jr := by simp [hw]
          exact ⟨hrep w this, hwne w this⟩
    have hSne : mergeSecs W ≠ [] := by simp [mergeSecs]
    have hSlen : (mergeSecs W).length ≤ 3 := by
      unfold mergeSecs
      by_cases hj : W.jr = [] <;> by_cases hf : W.first = [] <;> simp [hj, hf]
    have hscan := rescan P (mergeSecs W) hSne hSlen hS
    rw [htext]
    unfold parse
    rw [hscan]
    simp only
    have := assignW_mergeSecs secs hlen hne hlast (by rw [hW]; exact hWl)
    rw [hW] at this
    unfold assign
    rw [this]

end Bib.NameP
