/-
  Helper definitions and lemmas for C06 (writer): the declarative shape of a field line / an entry,
  `joinPieces` algebra, the separator loop, the `auto` column.
-/
import BibVerif.Writer
namespace Bib.Writer

/-- decidable equality on results, so that concrete examples can be closed by `decide` -/
instance exceptDecEqW {ε α : Type} [DecidableEq ε] [DecidableEq α] : DecidableEq (Except ε α)
  | .ok a, .ok b => if h : a = b then isTrue (by rw [h]) else isFalse (fun h' => h (by injection h'))
  | .error a, .error b => if h : a = b then isTrue (by rw [h]) else isFalse (fun h' => h (by injection h'))
  | .ok _, .error _ => isFalse (fun h => by cases h)
  | .error _, .ok _ => isFalse (fun h => by cases h)

/-! ### declarative shapes (what the property statement describes) -/

/-- the text of a value that is a `str` -/
def valText : Val → Str
  | .str s => s
  | _ => []

def IsStr (v : Val) : Prop := ∃ s, v = .str s

/-- the padding between key and `" = "` for a resolved column -/
def padding (col : Nat) (key : Str) : Str := List.replicate (col - (key.length + 3)) ' '

/-- does field number `i` of `n` get a comma? -/
def hasComma (F : BibtexFormat) (n i : Nat) : Bool := F.trailingComma || decide (i + 1 < n)

/-- indent ++ key ++ padding ++ " = " ++ value ++ comma? ++ newline -/
def fieldLine (F : BibtexFormat) (col n i : Nat) (f : Field) : Str :=
  F.indent ++ f.key ++ padding col f.key ++ VAL_SEP ++ valText f.value ++
    (if hasComma F n i then [','] else []) ++ ['\n']

/-- the lines of the fields `fs`, the first of which is field number `i` of `n` -/
def fieldLines (F : BibtexFormat) (col n : Nat) : Nat → List Field → Str
  | _, [] => []
  | i, f :: r => fieldLine F col n i f ++ fieldLines F col n (i + 1) r

/-- header, one line per field, footer -/
def entryText (F : BibtexFormat) (col : Nat) (e : Entry) : Str :=
  ['@'] ++ e.ty ++ ['{'] ++ e.key ++ [',', '\n'] ++ fieldLines F col e.fields.length 0 e.fields ++ ['}', '\n']

/-- the text of one block: its pieces, joined -/
def blockText (P : PyChars) (F : BibtexFormat) (b : Item) : Except PyErr Str :=
  match treatBlock P F b with
  | .error e => .error e
  | .ok p => joinPieces p

/-- items whose rendered content consists of strings -/
def Writable : Item → Prop
  | .block (.live (.entry e)) => ∀ f ∈ e.fields, IsStr f.value
  | .block (.live (.string _ v _ _ _)) => IsStr v
  | .block _ => True
  | .other => False

def NoBrace (s : Str) : Prop := ∀ c ∈ s, c ≠ '{' ∧ c ≠ '}'

/-! ### joinPieces -/

theorem joinPieces_s_cons (x : Str) (r : List Piece) (t : Str) (h : joinPieces r = .ok t) :
    joinPieces (.s x :: r) = .ok (x ++ t) := by
  simp [joinPieces, h]

theorem joinPieces_append {a b : List Piece} {x y : Str} (ha : joinPieces a = .ok x)
    (hb : joinPieces b = .ok y) : joinPieces (a ++ b) = .ok (x ++ y) := by
  induction a generalizing x with
  | nil => simp [joinPieces] at ha; subst ha; simpa using hb
  | cons p r ih =>
    cases p with
    | nonstr => simp [joinPieces] at ha
    | s z =>
      simp only [joinPieces] at ha
      cases hr : joinPieces r with
      | error e => simp [hr] at ha
      | ok t =>
        simp [hr] at ha; subst ha
        simp [joinPieces, ih hr]

theorem joinPieces_append_inv {a b : List Piece} {out : Str} (h : joinPieces (a ++ b) = .ok out) :
    ∃ x y, joinPieces a = .ok x ∧ joinPieces b = .ok y ∧ out = x ++ y := by
  induction a generalizing out with
  | nil => exact ⟨[], out, rfl, by simpa using h, rfl⟩
  | cons p r ih =>
    cases p with
    | nonstr => simp [joinPieces] at h
    | s z =>
      simp only [List.cons_append, joinPieces] at h
      cases hr : joinPieces (r ++ b) with
      | error e => simp [hr] at h
      | ok t =>
        simp [hr] at h; subst h
        obtain ⟨x, y, hx, hy, rfl⟩ := ih hr
        exact ⟨z ++ x, y, by simp [joinPieces, hx], hy, by simp⟩

theorem joinPieces_singleton (x : Str) : joinPieces [.s x] = .ok x := by simp [joinPieces]

/-! ### one field line -/

theorem valIndent_num (F : BibtexFormat) (col : Nat) (key : Str) (h : F.valueColumn = .num col) :
    valIndentString F key = .ok (padding col key) := by
  unfold valIndentString padding
  rw [h]
  have hlen : VAL_SEP.length = 3 := by decide
  simp only [hlen]
  split
  · rename_i hle
    have : col - (key.length + 3) = 0 := by omega
    rw [this]; rfl
  · rename_i hle
    congr 2
    omega

theorem pieceOfVal_str {v : Val} (h : IsStr v) : pieceOfVal v = .s (valText v) := by
  obtain ⟨s, rfl⟩ := h; rfl

theorem comma_cond (F : BibtexFormat) (n i : Nat) :
    (F.trailingComma || decide ((i : Int) < (n : Int) - 1)) = hasComma F n i := by
  unfold hasComma
  congr 1
  by_cases h : i + 1 < n
  · have : (i : Int) < (n : Int) - 1 := by omega
    simp [h, this]
  · have : ¬ (i : Int) < (n : Int) - 1 := by omega
    simp [h, this]

theorem fieldPieces_join (F : BibtexFormat) (col n i : Nat) (f : Field)
    (hc : F.valueColumn = .num col) (hv : IsStr f.value) :
    ∃ p, fieldPieces F n i f = .ok p ∧ joinPieces p = .ok (fieldLine F col n i f) := by
  unfold fieldPieces
  rw [valIndent_num F col f.key hc, comma_cond, pieceOfVal_str hv]
  refine ⟨_, rfl, ?_⟩
  unfold fieldLine
  by_cases h : hasComma F n i <;> simp [joinPieces, h]

theorem fieldsLoop_join (F : BibtexFormat) (col n : Nat) (hc : F.valueColumn = .num col)
    (fs : List Field) (hv : ∀ f ∈ fs, IsStr f.value) (i : Nat) :
    ∃ p, fieldsLoop F n i fs = .ok p ∧ joinPieces p = .ok (fieldLines F col n i fs) := by
  induction fs generalizing i with
  | nil => exact ⟨[], rfl, rfl⟩
  | cons f r ih =>
    obtain ⟨p, hp, hj⟩ := fieldPieces_join F col n i f hc (hv f (by simp))
    obtain ⟨q, hq, hk⟩ := ih (fun g hg => hv g (by simp [hg])) (i + 1)
    refine ⟨p ++ q, by simp [fieldsLoop, hp, hq], ?_⟩
    simpa [fieldLines] using joinPieces_append hj hk

theorem fieldLines_append (F : BibtexFormat) (col n i : Nat) (a b : List Field) :
    fieldLines F col n i (a ++ b) = fieldLines F col n i a ++ fieldLines F col n (i + a.length) b := by
  induction a generalizing i with
  | nil => simp [fieldLines]
  | cons f r ih =>
    simp only [List.cons_append, fieldLines, ih, List.length_cons, List.append_assoc]
    congr 3
    omega

theorem treatEntry_join (F : BibtexFormat) (col : Nat) (hc : F.valueColumn = .num col) (e : Entry)
    (hv : ∀ f ∈ e.fields, IsStr f.value) :
    ∃ p, treatEntry F e = .ok p ∧ joinPieces p = .ok (entryText F col e) := by
  obtain ⟨q, hq, hk⟩ := fieldsLoop_join F col e.fields.length hc e.fields hv 0
  refine ⟨[.s ['@'], .s e.ty, .s ['{'], .s e.key, .s [',', '\n']] ++ q ++ [.s ['}', '\n']],
    by simp [treatEntry, hq], ?_⟩
  have h2 : joinPieces [Piece.s ['}', '\n']] = .ok ['}', '\n'] := joinPieces_singleton _
  have := joinPieces_append hk h2
  simp [joinPieces, this, entryText]

/-! ### the block loop -/

/-- pointwise relation between two lists of equal length -/
inductive Forall2 {α β} (R : α → β → Prop) : List α → List β → Prop
  | nil : Forall2 R [] []
  | cons {a b l₁ l₂} : R a b → Forall2 R l₁ l₂ → Forall2 R (a :: l₁) (b :: l₂)

theorem resolveFormat_sep (F : BibtexFormat) (L : List Item) :
    (resolveFormat F L).blockSeparator = F.blockSeparator := by
  unfold resolveFormat; split <;> rfl

theorem resolveFormat_indent (F : BibtexFormat) (L : List Item) :
    (resolveFormat F L).indent = F.indent := by
  unfold resolveFormat; split <;> rfl

theorem resolveFormat_comma (F : BibtexFormat) (L : List Item) :
    (resolveFormat F L).trailingComma = F.trailingComma := by
  unfold resolveFormat; split <;> rfl

theorem resolveFormat_comment (F : BibtexFormat) (L : List Item) :
    (resolveFormat F L).parsingFailedComment = F.parsingFailedComment := by
  unfold resolveFormat; split <;> rfl

theorem blockText_ok {P : PyChars} {F : BibtexFormat} {b : Item} {t : Str} (h : blockText P F b = .ok t) :
    ∃ p, treatBlock P F b = .ok p ∧ joinPieces p = .ok t := by
  unfold blockText at h
  split at h
  · cases h
  · rename_i p hp; exact ⟨p, hp, h⟩

theorem sep_cond (i n k : Nat) (h : i + (k + 1) = n) :
    ((i : Int) < (n : Int) - 1) ↔ 0 < k := by omega

theorem writeLoop_join (P : PyChars) (F : BibtexFormat) (n : Nat) (rest : List Item) (texts : List Str)
    (h : Forall2 (fun b t => blockText P F b = .ok t) rest texts) (i : Nat)
    (hn : i + rest.length = n) :
    ∃ pieces, writeLoop P F n i rest = .ok pieces ∧
      joinPieces pieces = .ok (joinWith F.blockSeparator texts) := by
  induction h generalizing i with
  | nil => exact ⟨[], rfl, rfl⟩
  | @cons b t rest' texts' hb hrest ih =>
    obtain ⟨p, hp, hj⟩ := blockText_ok hb
    simp only [List.length_cons] at hn
    obtain ⟨r, hr, hk⟩ := ih (i + 1) (by omega)
    refine ⟨p ++ (if (i : Int) < (n : Int) - 1 then [Piece.s F.blockSeparator] else []) ++ r,
      by simp only [writeLoop, hp, hr], ?_⟩
    cases hrest with
    | nil =>
      have hcond : ¬ (i : Int) < (n : Int) - 1 := by simp at hn; omega
      simp only [writeLoop] at hr
      injection hr with hr; subst hr
      simp [hcond, joinWith, hj]
    | @cons b2 t2 rest2 texts2 hb2 hrest2 =>
      have hcond : (i : Int) < (n : Int) - 1 := by simp at hn; omega
      simp only [hcond, ↓reduceIte, joinWith]
      have h1 : joinPieces [Piece.s F.blockSeparator] = .ok F.blockSeparator := joinPieces_singleton _
      have := joinPieces_append (joinPieces_append hj h1) hk
      simpa using this

theorem writeLoop_inv (P : PyChars) (F : BibtexFormat) (n : Nat) (rest : List Item) (i : Nat)
    (hn : i + rest.length = n) (pieces : List Piece) (out : Str)
    (h : writeLoop P F n i rest = .ok pieces) (hj : joinPieces pieces = .ok out) :
    ∃ texts, Forall2 (fun b t => blockText P F b = .ok t) rest texts ∧
      out = joinWith F.blockSeparator texts := by
  induction rest generalizing i pieces out with
  | nil =>
    simp [writeLoop] at h; subst h
    simp [joinPieces] at hj; subst hj
    exact ⟨[], .nil, rfl⟩
  | cons b rest' ih =>
    simp only [writeLoop] at h
    cases hp : treatBlock P F b with
    | error e => simp [hp] at h
    | ok p =>
      cases hr : writeLoop P F n (i + 1) rest' with
      | error e => simp [hp, hr] at h
      | ok r =>
        simp [hp, hr] at h; subst h
        simp only [List.length_cons] at hn
        obtain ⟨x1, y0, hx1, hy0, rfl⟩ := joinPieces_append_inv hj
        obtain ⟨x2, y, hx2, hy, rfl⟩ := joinPieces_append_inv hy0
        obtain ⟨texts, hf, rfl⟩ := ih (i + 1) (by omega) r y hr hy
        have hb : blockText P F b = .ok x1 := by simp [blockText, hp, hx1]
        refine ⟨x1 :: texts, .cons hb hf, ?_⟩
        cases hf with
        | nil =>
          have hcond : ¬ (i : Int) < (n : Int) - 1 := by simp at hn; omega
          simp [hcond, joinPieces] at hx2; subst hx2
          simp [joinWith]
        | @cons b2 t2 rest2 texts2 hb2 hrest2 =>
          have hcond : (i : Int) < (n : Int) - 1 := by simp at hn; omega
          simp [hcond, joinPieces] at hx2; subst hx2
          simp [joinWith]

/-! ### the `auto` column -/

theorem mem_liveEntries {e : Entry} {L : List Item} :
    e ∈ liveEntries L ↔ Item.block (.live (.entry e)) ∈ L := by
  fun_induction liveEntries L <;> simp_all
  intro h
  exact absurd h.symm (‹∀ (e : Entry), ¬ _ = Item.block (Block.live (Live.entry e))› e)

theorem mem_dictKeys_go (fs : List Field) (acc : List Str) (k : Str) :
    k ∈ fs.foldl (fun acc f => if acc.contains f.key then acc else acc ++ [f.key]) acc ↔
      k ∈ acc ∨ ∃ f ∈ fs, f.key = k := by
  induction fs generalizing acc with
  | nil => simp
  | cons f r ih =>
    simp only [List.foldl_cons, ih]
    by_cases hc : f.key ∈ acc
    · simp only [List.contains_eq_mem, hc, decide_true, ↓reduceIte, List.mem_cons, exists_eq_or_imp]
      constructor
      · rintro (h | h)
        · exact .inl h
        · exact .inr (.inr h)
      · rintro (h | h | h)
        · exact .inl h
        · subst h; exact .inl hc
        · exact .inr h
    · simp only [List.contains_eq_mem, hc, decide_false, Bool.false_eq_true, ↓reduceIte, List.mem_append,
        List.mem_cons, List.not_mem_nil, or_false, exists_eq_or_imp]
      constructor
      · rintro ((h | h) | h)
        · exact .inl h
        · exact .inr (.inl h.symm)
        · exact .inr (.inr h)
      · rintro (h | h | h)
        · exact .inl (.inl h)
        · exact .inl (.inr h.symm)
        · exact .inr h

theorem mem_dictKeys {fs : List Field} {k : Str} : k ∈ dictKeys fs ↔ ∃ f ∈ fs, f.key = k := by
  unfold dictKeys; rw [mem_dictKeys_go]; simp

/-- the inner loop: the result bounds the start value and every key, and is one of them -/
theorem foldMaxKeys (ks : List Str) (m : Nat) :
    let r := ks.foldl (fun m k => max m k.length) m
    m ≤ r ∧ (∀ k ∈ ks, k.length ≤ r) ∧ (r = m ∨ ∃ k ∈ ks, k.length = r) := by
  induction ks generalizing m with
  | nil => simp
  | cons k t ih =>
    obtain ⟨h1, h2, h3⟩ := ih (max m k.length)
    simp only [List.foldl_cons]
    refine ⟨by omega, ?_, ?_⟩
    · intro x hx
      rcases List.mem_cons.mp hx with rfl | hx
      · omega
      · exact h2 x hx
    · rcases h3 with h | ⟨x, hx, hl⟩
      · by_cases hm : m ≤ k.length
        · exact .inr ⟨k, by simp, by omega⟩
        · exact .inl (by omega)
      · exact .inr ⟨x, by simp [hx], hl⟩

/-- the outer loop -/
theorem foldMaxEntries (es : List Entry) (m : Nat) :
    let r := es.foldl (fun m e => (dictKeys e.fields).foldl (fun m k => max m k.length) m) m
    m ≤ r ∧ (∀ e ∈ es, ∀ f ∈ e.fields, f.key.length ≤ r) ∧
      (r = m ∨ ∃ e ∈ es, ∃ f ∈ e.fields, f.key.length = r) := by
  induction es generalizing m with
  | nil => simp
  | cons e t ih =>
    obtain ⟨g1, g2, g3⟩ := foldMaxKeys (dictKeys e.fields) m
    obtain ⟨h1, h2, h3⟩ := ih ((dictKeys e.fields).foldl (fun m k => max m k.length) m)
    simp only [List.foldl_cons]
    refine ⟨by omega, ?_, ?_⟩
    · intro x hx f hf
      rcases List.mem_cons.mp hx with rfl | hx
      · have := g2 f.key (mem_dictKeys.mpr ⟨f, hf, rfl⟩); omega
      · exact h2 x hx f hf
    · rcases h3 with h | ⟨x, hx, f, hf, hl⟩
      · rcases g3 with g | ⟨k, hk, hl⟩
        · exact .inl (by omega)
        · obtain ⟨f, hf, rfl⟩ := mem_dictKeys.mp hk
          exact .inr ⟨e, by simp, f, hf, by omega⟩
      · exact .inr ⟨x, by simp [hx], f, hf, hl⟩

theorem le_maxKeyLen {L : List Item} {e : Entry} {f : Field} (he : e ∈ liveEntries L) (hf : f ∈ e.fields) :
    f.key.length ≤ maxKeyLen L :=
  (foldMaxEntries (liveEntries L) 0).2.1 e he f hf

theorem maxKeyLen_attained {L : List Item} (h : ∃ e ∈ liveEntries L, e.fields ≠ []) :
    ∃ e ∈ liveEntries L, ∃ f ∈ e.fields, f.key.length = maxKeyLen L := by
  rcases (foldMaxEntries (liveEntries L) 0).2.2 with h0 | h1
  · obtain ⟨e, he, hne⟩ := h
    obtain ⟨f, r, hfr⟩ := List.exists_cons_of_ne_nil hne
    have hf : f ∈ e.fields := by simp [hfr]
    have := le_maxKeyLen he hf
    exact ⟨e, he, f, hf, by unfold maxKeyLen at this ⊢; omega⟩
  · exact h1

theorem resolveFormat_auto (F : BibtexFormat) (L : List Item) (h : F.valueColumn = .auto) :
    (resolveFormat F L).valueColumn = .num (maxKeyLen L + 3) := by
  unfold resolveFormat; rw [h]; rfl

theorem resolveFormat_num (F : BibtexFormat) (L : List Item) (c : Nat) (h : F.valueColumn = .num c) :
    resolveFormat F L = F := by
  unfold resolveFormat; rw [h]

theorem resolveFormat_isNum (F : BibtexFormat) (L : List Item) :
    ∃ c, (resolveFormat F L).valueColumn = .num c := by
  cases h : F.valueColumn with
  | auto => exact ⟨_, resolveFormat_auto F L h⟩
  | num c => exact ⟨c, by rw [resolveFormat_num F L c h, h]⟩

/-! ### `str.format` on plain templates -/

theorem formatN_cons_other (n : Nat) (c : Char) (r : Str) (h1 : c ≠ '{') (h2 : c ≠ '}') :
    formatN n (c :: r) = prependOk [c] (formatN n r) := by
  rw [formatN.eq_def]; simp [h1, h2]

theorem formatN_field (n : Nat) (rest : Str) :
    formatN n ('{' :: 'n' :: '}' :: rest) = prependOk (natToStr n) (formatN n rest) := by
  rw [formatN.eq_def]; simp

theorem formatN_lbrace2 (n : Nat) (rest : Str) :
    formatN n ('{' :: '{' :: rest) = prependOk ['{'] (formatN n rest) := by
  rw [formatN.eq_def]; simp

theorem formatN_rbrace2 (n : Nat) (rest : Str) :
    formatN n ('}' :: '}' :: rest) = prependOk ['}'] (formatN n rest) := by
  rw [formatN.eq_def]; simp

theorem formatN_plain_append (n : Nat) (a rest : Str) (h : NoBrace a) :
    formatN n (a ++ rest) = prependOk a (formatN n rest) := by
  induction a with
  | nil => cases h' : formatN n rest <;> simp [prependOk, h']
  | cons c r ih =>
    have hc := h c (by simp)
    have hr : NoBrace r := fun x hx => h x (by simp [hx])
    rw [List.cons_append, formatN_cons_other n c _ hc.1 hc.2, ih hr]
    cases formatN n rest <;> simp [prependOk]

theorem formatN_plain (n : Nat) (a : Str) (h : NoBrace a) : formatN n a = .ok a := by
  have := formatN_plain_append n a [] h
  simpa [formatN, prependOk] using this

end Bib.Writer
