/-
  C14, second sentence (through `parse_string(append_middleware)` / `write_string(prepend_middleware)`):

  * `applyMws` (one middleware over the whole library, `Library(blocks)` after each - what the entry
    points do) and `applyOpsLib` (block by block) succeed together, with the same result, on a library
    with unique live keys (`applyMws_ok_iff`): the name middlewares never change a key, so
    `Library(blocks)` is the identity (`libraryOf_of_keysUnique`, C16's lemma);
  * the outcome of the name middlewares on a block depends only on its content (`applyOps_congr`,
    `applyOpsLib_congr`);
  * the round trip of one entry (C14 `stack_roundtrip`, taken here as the hypothesis `EntryTrip`
    because it is proved in the Props file) lifts to libraries (`lib_roundtrip_of`) and, with C05's
    `print_parse_render`, through the default write and parse stacks (`pipeline_of`, `entrypoint_of`).
-/
import BibVerif.Names.Pipeline
import BibVerif.Lemmas.MwCommon
import BibVerif.Lemmas.MwLibrary
import BibVerif.Lemmas.NamesStack
import BibVerif.Lemmas.NamesSpec
import BibVerif.Lemmas.PrintParseMain
import BibVerif.Lemmas.ParsedWritable
namespace Bib

/-! ### `Pointwise` and `List.mapM` -/

theorem mapM_ok_iff {ε α β} (f : α → Except ε β) (l : List α) (out : List β) :
    l.mapM f = .ok out ↔ Pointwise (fun a b => f a = .ok b) l out := by
  refine ⟨mapM_ok_pointwise f l out, fun h => ?_⟩
  induction h with
  | nil => simp [List.mapM_nil]; rfl
  | cons hab _ ih => rw [List.mapM_cons, hab, ih]; rfl

theorem Pointwise.mono {α β} {R S : α → β → Prop} {l₁ : List α} {l₂ : List β}
    (h : Pointwise R l₁ l₂) (hRS : ∀ a ∈ l₁, ∀ b ∈ l₂, R a b → S a b) : Pointwise S l₁ l₂ := by
  induction h with
  | nil => exact .nil
  | cons hr _ ih =>
    exact .cons (hRS _ (by simp) _ (by simp) hr)
      (ih (fun a ha b hb => hRS a (by simp [ha]) b (by simp [hb])))

theorem Pointwise.comp {α β γ} {R : α → β → Prop} {S : β → γ → Prop} {l₁ : List α} {l₂ : List β}
    (h : Pointwise R l₁ l₂) : ∀ {l₃ : List γ}, Pointwise S l₂ l₃ →
      Pointwise (fun a c => ∃ b, R a b ∧ S b c) l₁ l₃ := by
  induction h with
  | nil => intro l₃ h2; cases h2; exact .nil
  | cons hr _ ih => intro l₃ h2; cases h2 with | cons hs h2 => exact .cons ⟨_, hr, hs⟩ (ih h2)

theorem Pointwise.split {α β γ} {R : α → β → Prop} {S : β → γ → Prop} {l₁ : List α} {l₃ : List γ}
    (h : Pointwise (fun a c => ∃ b, R a b ∧ S b c) l₁ l₃) :
    ∃ l₂, Pointwise R l₁ l₂ ∧ Pointwise S l₂ l₃ := by
  induction h with
  | nil => exact ⟨[], .nil, .nil⟩
  | cons hr _ ih =>
    obtain ⟨b, h1, h2⟩ := hr
    obtain ⟨l₂, i1, i2⟩ := ih
    exact ⟨b :: l₂, .cons h1 i1, .cons h2 i2⟩

theorem Pointwise.eq_of {α} {l₁ l₂ : List α} (h : Pointwise (fun a b => a = b) l₁ l₂) : l₁ = l₂ := by
  induction h with
  | nil => rfl
  | cons hr _ ih => rw [hr, ih]

theorem Pointwise.refl_of {α} {R : α → α → Prop} (l : List α) (h : ∀ a ∈ l, R a a) : Pointwise R l l := by
  induction l with
  | nil => exact .nil
  | cons a r ih => exact .cons (h a (by simp)) (ih (fun x hx => h x (by simp [hx])))

theorem Pointwise.of_map_eq {α β γ} (f : α → γ) (g : β → γ) : ∀ (l₁ : List α) (l₂ : List β),
    l₁.map f = l₂.map g → Pointwise (fun a b => f a = g b) l₁ l₂
  | [], [], _ => .nil
  | [], _ :: _, h => by simp at h
  | _ :: _, [], h => by simp at h
  | a :: r, b :: r', h => by
    simp only [List.map_cons, List.cons.injEq] at h
    exact .cons h.1 (Pointwise.of_map_eq f g r r' h.2)

theorem Pointwise.map_eq {α β γ} {f : α → γ} {g : β → γ} {l₁ : List α} {l₂ : List β}
    (h : Pointwise (fun a b => f a = g b) l₁ l₂) : l₁.map f = l₂.map g := by
  induction h with
  | nil => rfl
  | cons hr _ ih => simp [hr, ih]

theorem Pointwise.mem_right {α β} {R : α → β → Prop} {l₁ : List α} {l₂ : List β} (h : Pointwise R l₁ l₂) :
    ∀ b ∈ l₂, ∃ a ∈ l₁, R a b := by
  induction h with
  | nil => intro b hb; simp at hb
  | cons hr _ ih =>
    intro b hb
    rcases List.mem_cons.mp hb with rfl | hb
    · exact ⟨_, by simp, hr⟩
    · obtain ⟨a, ha, hab⟩ := ih b hb
      exact ⟨a, by simp [ha], hab⟩

theorem Pointwise.mem_left {α β} {R : α → β → Prop} {l₁ : List α} {l₂ : List β} (h : Pointwise R l₁ l₂) :
    ∀ a ∈ l₁, ∃ b ∈ l₂, R a b := by
  induction h with
  | nil => intro a ha; simp at ha
  | cons hr _ ih =>
    intro a ha
    rcases List.mem_cons.mp ha with rfl | ha
    · exact ⟨_, by simp, hr⟩
    · obtain ⟨b, hb, hab⟩ := ih a ha
      exact ⟨b, by simp [hb], hab⟩

/-- a `mapM` is a function -/
theorem Pointwise.fun_unique {α β ε} {f : α → Except ε β} {l : List α} {m₁ m₂ : List β}
    (h₁ : Pointwise (fun a b => f a = .ok b) l m₁) (h₂ : Pointwise (fun a b => f a = .ok b) l m₂) : m₁ = m₂ := by
  have e₁ := (mapM_ok_iff f l m₁).mpr h₁
  have e₂ := (mapM_ok_iff f l m₂).mpr h₂
  rw [e₁] at e₂
  injection e₂

end Bib

namespace Bib.Names
open Bib Bib.Pipeline Bib.PrintParse Bib.CoAuth

variable (P : PyChars)

/-! ### one middleware on one block -/

def IsEntryB (b : Block) : Prop := ∃ e, b = .live (.entry e)

theorem transformBlock_of_not_entry (op : Op) (b : Block) (h : ¬ IsEntryB b) :
    transformBlock P op b = .ok b := by
  unfold transformBlock
  split
  · rename_i e; exact absurd ⟨e, rfl⟩ h
  · rfl

/-- the three outcomes of `transform_entry` -/
theorem transformEntry_cases (op : Op) (e : Entry) :
    (∃ fs, transformEntry P op e = .ok (.live (.entry { e with fields := fs }))) ∨
    (∃ fs, transformEntry P op e = .ok (.mwError .invalidName (.entry { e with fields := fs }))) ∨
    (∃ err, transformEntry P op e = .error err) := by
  unfold transformEntry
  rcases mapFields (transformValue P op) e.fields with ⟨fs, _ | ⟨x | err⟩⟩
  · exact .inl ⟨fs, rfl⟩
  · exact .inr (.inl ⟨fs, rfl⟩)
  · exact .inr (.inr ⟨err, rfl⟩)

/-- a name middleware never changes a key: an entry stays an entry with its key or becomes an error
block, every other block is handed on -/
theorem transformBlock_keys (op : Op) (b c : Block) (h : transformBlock P op b = .ok c) :
    (entryKey? c = entryKey? b ∨ entryKey? c = none) ∧ stringKey? c = stringKey? b := by
  by_cases hb : IsEntryB b
  · obtain ⟨e, rfl⟩ := hb
    simp only [transformBlock] at h
    rcases transformEntry_cases P op e with ⟨fs, h'⟩ | ⟨fs, h'⟩ | ⟨err, h'⟩ <;> rw [h'] at h
    · cases h; exact ⟨.inl rfl, rfl⟩
    · cases h; exact ⟨.inr rfl, rfl⟩
    · cases h
  · rw [transformBlock_of_not_entry P op b hb] at h
    cases h; exact ⟨.inl rfl, rfl⟩

theorem applyOps_cons_ok (op : Op) (r : List Op) (b c : Block) :
    applyOps P (op :: r) b = .ok c ↔ ∃ m, transformBlock P op b = .ok m ∧ applyOps P r m = .ok c := by
  simp only [applyOps]
  cases h : transformBlock P op b with
  | error e => simp
  | ok m => simp

theorem applyOps_of_not_entry (ops : List Op) (b : Block) (h : ¬ IsEntryB b) : applyOps P ops b = .ok b := by
  induction ops with
  | nil => rfl
  | cons op r ih => simp only [applyOps, transformBlock_of_not_entry P op b h]; exact ih

theorem applyOps_keys (ops : List Op) : ∀ (b c : Block), applyOps P ops b = .ok c →
    (entryKey? c = entryKey? b ∨ entryKey? c = none) ∧ stringKey? c = stringKey? b := by
  induction ops with
  | nil => intro b c h; simp only [applyOps] at h; cases h; exact ⟨.inl rfl, rfl⟩
  | cons op r ih =>
    intro b c h
    obtain ⟨m, h1, h2⟩ := (applyOps_cons_ok P op r b c).mp h
    obtain ⟨k1, k2⟩ := transformBlock_keys P op b m h1
    obtain ⟨j1, j2⟩ := ih m c h2
    refine ⟨?_, j2.trans k2⟩
    rcases j1 with j1 | j1
    · rcases k1 with k1 | k1
      · exact .inl (j1.trans k1)
      · exact .inr (j1.trans k1)
    · exact .inr j1

/-! ### `Library(blocks)` after a name middleware is the identity -/

theorem keysUnique_pointwise {R : Block → Block → Prop}
    (hR : ∀ b c, R b c → (entryKey? c = entryKey? b ∨ entryKey? c = none) ∧ stringKey? c = stringKey? b)
    {L M : List Block} (h : Pointwise R L M) (hu : KeysUnique L) : KeysUnique M := by
  have key : (entryKeys M).Sublist (entryKeys L) ∧ stringKeys M = stringKeys L := by
    clear hu
    induction h with
    | nil => exact ⟨List.Sublist.refl _, rfl⟩
    | @cons b c l₁ l₂ hr _ ih =>
      obtain ⟨h1, h2⟩ := hR _ _ hr
      obtain ⟨i1, i2⟩ := ih
      refine ⟨?_, ?_⟩
      · simp only [entryKeys, List.filterMap_cons]
        rcases h1 with h1 | h1
        · rw [h1]
          cases entryKey? b with
          | none => exact i1
          | some k => exact List.Sublist.cons_cons k i1
        · rw [h1]
          cases entryKey? b with
          | none => exact i1
          | some k => exact List.Sublist.cons k i1
      · simp only [stringKeys, List.filterMap_cons, h2]
        cases stringKey? b with
        | none => exact i2
        | some k => exact congrArg (k :: ·) i2
  exact ⟨key.1.nodup hu.1, key.2 ▸ hu.2⟩

/-- on a library (unique live keys) `BlockMiddleware.transform` of a name middleware is the plain
block-by-block map: `Library(blocks)` wraps nothing -/
theorem mwLib_eq (op : Op) (L : List Block) (hu : KeysUnique L) :
    mwLib P op L = L.mapM (transformBlock P op) := by
  unfold mwLib
  cases h : L.mapM (transformBlock P op) with
  | error e => rfl
  | ok out =>
    simp only
    rw [libraryOf_of_keysUnique out
      (keysUnique_pointwise (transformBlock_keys P op) ((mapM_ok_iff _ _ _).mp h) hu)]

theorem applyOpsLib_ok_iff (ops : List Op) (L M : List Block) :
    applyOpsLib P ops L = .ok M ↔ Pointwise (fun b c => applyOps P ops b = .ok c) L M :=
  mapM_ok_iff _ _ _

theorem applyOpsLib_keysUnique (ops : List Op) (L M : List Block) (h : applyOpsLib P ops L = .ok M)
    (hu : KeysUnique L) : KeysUnique M :=
  keysUnique_pointwise (applyOps_keys P ops) ((applyOpsLib_ok_iff P ops L M).mp h) hu

/-- **middleware by middleware = block by block**, on every library: both succeed or neither, with
the same blocks -/
theorem applyMws_ok_iff (ops : List Op) : ∀ (L M : List Block), KeysUnique L →
    (applyMws P ops L = .ok M ↔ applyOpsLib P ops L = .ok M) := by
  induction ops with
  | nil =>
    intro L M _
    rw [applyOpsLib_ok_iff]
    simp only [applyMws, applyOps]
    constructor
    · intro h; cases h
      exact Pointwise.refl_of L (fun _ _ => rfl)
    · intro h
      have : L = M := Pointwise.eq_of (h.mono (fun a _ b _ hab => by cases hab; rfl))
      rw [this]
  | cons op r ih =>
    intro L M hu
    rw [applyOpsLib_ok_iff]
    simp only [applyMws]
    rw [mwLib_eq P op L hu]
    cases hm : L.mapM (transformBlock P op) with
    | error e =>
      simp only
      constructor
      · intro h; cases h
      · intro h
        obtain ⟨mid, h1, _⟩ := Pointwise.split (h.mono (fun b _ c _ hbc => (applyOps_cons_ok P op r b c).mp hbc))
        rw [(mapM_ok_iff _ _ _).mpr h1] at hm
        cases hm
    | ok mid =>
      simp only
      have hmid := (mapM_ok_iff _ _ _).mp hm
      have humid : KeysUnique mid := keysUnique_pointwise (transformBlock_keys P op) hmid hu
      rw [ih mid M humid, applyOpsLib_ok_iff]
      constructor
      · intro h
        exact (hmid.comp h).mono (fun b _ c _ hbc => (applyOps_cons_ok P op r b c).mpr hbc)
      · intro h
        obtain ⟨mid', h1, h2⟩ := Pointwise.split (h.mono (fun b _ c _ hbc => (applyOps_cons_ok P op r b c).mp hbc))
        rw [Pointwise.fun_unique hmid h1]
        exact h2

/-! ### the outcome depends only on the content of the block -/

/-- Same content; for two error blocks the content of the wrapped blocks.  (`contentOf` of a failed block
is its raw text, and a `MiddlewareErrorBlock` made from an entry inherits the entry's raw text, which is
not part of the entry's content - hence the second case.) -/
def Rel (b b' : Block) : Prop :=
  contentOf b = contentOf b' ∨
    ∃ w i i', b = .mwError w i ∧ b' = .mwError w i' ∧ contentOf (.live i) = contentOf (.live i')

/-- both succeed with related blocks, or both raise the same exception -/
def ExRel : Except PyErr Block → Except PyErr Block → Prop
  | .ok c, .ok c' => Rel c c'
  | .error e, .error e' => e = e'
  | _, _ => False

theorem Rel.content {b b' : Block} (h : Rel b b') (hl : b.isFailed = false) : contentOf b' = contentOf b := by
  rcases h with h | ⟨w, i, i', rfl, _, _⟩
  · exact h.symm
  · cases hl

theorem contentOf_entry_inv (b : Block) (ty key : Str) (fs : List (Str × Val))
    (h : contentOf b = .entry ty key fs) :
    ∃ e, b = .live (.entry e) ∧ e.ty = ty ∧ e.key = key ∧ e.fields.map (fun f => (f.key, f.value)) = fs := by
  cases b with
  | live l =>
    cases l with
    | entry e =>
      simp only [contentOf, Content.entry.injEq] at h
      exact ⟨e, rfl, h.1, h.2.1, h.2.2⟩
    | _ => simp [contentOf] at h
  | _ => simp [contentOf] at h

theorem mapFields_congr (f : Val → Except FErr Val) : ∀ (fs fs' : List Field),
    fs.map (fun f => (f.key, f.value)) = fs'.map (fun f => (f.key, f.value)) →
    (mapFields f fs).2 = (mapFields f fs').2 ∧
      (mapFields f fs).1.map (fun f => (f.key, f.value)) = (mapFields f fs').1.map (fun f => (f.key, f.value))
  | [], [], _ => ⟨rfl, rfl⟩
  | [], _ :: _, h => by simp at h
  | _ :: _, [], h => by simp at h
  | fld :: r, fld' :: r', h => by
    simp only [List.map_cons, List.cons.injEq, Prod.mk.injEq] at h
    obtain ⟨⟨hk, hv⟩, hr⟩ := h
    obtain ⟨i1, i2⟩ := mapFields_congr f r r' hr
    simp only [mapFields, hk, hv]
    by_cases hc : nameFields.contains fld'.key = true
    · simp only [hc, if_true]
      cases f fld'.value with
      | error e => simp [hk, hv, hr]
      | ok v => simp [i1, i2]
    · simp only [hc]
      simp [hk, hv, i1, i2]

theorem transformBlock_congr (op : Op) (b b' : Block) (h : Rel b b') :
    ExRel (transformBlock P op b) (transformBlock P op b') := by
  by_cases hb : IsEntryB b
  · obtain ⟨e, rfl⟩ := hb
    rcases h with h | ⟨w, i, i', h, _, _⟩
    · obtain ⟨e', rfl, hty, hkey, hfs⟩ := contentOf_entry_inv b' _ _ _ h.symm
      obtain ⟨i1, i2⟩ := mapFields_congr (transformValue P op) e'.fields e.fields hfs
      simp only [transformBlock, transformEntry]
      rcases hm : mapFields (transformValue P op) e.fields with ⟨fs, o⟩
      rcases hm' : mapFields (transformValue P op) e'.fields with ⟨fs', o'⟩
      rw [hm, hm'] at i1 i2
      simp only at i1 i2
      subst i1
      rcases o' with _ | ⟨x | err⟩
      · exact .inl (by simp [contentOf, hty, hkey, i2])
      · exact .inr ⟨_, _, _, rfl, rfl, by simp [contentOf, hty, hkey, i2]⟩
      · exact rfl
    · cases h
  · have hb' : ¬ IsEntryB b' := by
      rintro ⟨e', rfl⟩
      rcases h with h | ⟨w, i, i', _, h, _⟩
      · obtain ⟨e, rfl, _⟩ := contentOf_entry_inv b _ _ _ h
        exact hb ⟨e, rfl⟩
      · cases h
    rw [transformBlock_of_not_entry P op b hb, transformBlock_of_not_entry P op b' hb']
    exact h

/-- **The result of the name middlewares on a block depends only on the content of the block**: on two
blocks with the same content (or two error blocks around the same content) any stack of them either
raises the same exception or yields blocks related in the same way. -/
theorem applyOps_congr (ops : List Op) : ∀ (b b' : Block), Rel b b' →
    ExRel (applyOps P ops b) (applyOps P ops b') := by
  induction ops with
  | nil => intro b b' h; exact h
  | cons op r ih =>
    intro b b' h
    have h1 := transformBlock_congr P op b b' h
    simp only [applyOps]
    cases hc : transformBlock P op b with
    | error e =>
      cases hc' : transformBlock P op b' with
      | error e' => rw [hc, hc'] at h1; exact h1
      | ok c' => rw [hc, hc'] at h1; exact h1.elim
    | ok c =>
      cases hc' : transformBlock P op b' with
      | error e' => rw [hc, hc'] at h1; exact h1.elim
      | ok c' => rw [hc, hc'] at h1; exact ih c c' h1

theorem applyOps_congr_ok (ops : List Op) (b b' c : Block) (h : Rel b b') (hc : applyOps P ops b = .ok c) :
    ∃ c', applyOps P ops b' = .ok c' ∧ Rel c c' := by
  have := applyOps_congr P ops b b' h
  rw [hc] at this
  cases hc' : applyOps P ops b' with
  | error e => rw [hc'] at this; exact this.elim
  | ok c' => rw [hc'] at this; exact ⟨c', rfl, this⟩

/-- the form for blocks that are not failed blocks: equal content in, equal content out -/
theorem applyOps_content_congr (ops : List Op) (b b' c : Block) (h : contentOf b = contentOf b')
    (hc : applyOps P ops b = .ok c) (hl : c.isFailed = false) :
    ∃ c', applyOps P ops b' = .ok c' ∧ contentOf c' = contentOf c := by
  obtain ⟨c', h1, h2⟩ := applyOps_congr_ok P ops b b' c (.inl h) hc
  exact ⟨c', h1, h2.content hl⟩

/-- lifted to libraries -/
theorem applyOpsLib_congr (ops : List Op) {L L' : List Block} (h : Pointwise Rel L L') :
    ∀ M, applyOpsLib P ops L = .ok M → ∃ M', applyOpsLib P ops L' = .ok M' ∧ Pointwise Rel M M' := by
  induction h with
  | nil =>
    intro M hM
    have := (applyOpsLib_ok_iff P ops [] M).mp hM
    cases this
    exact ⟨[], (applyOpsLib_ok_iff P ops [] []).mpr .nil, .nil⟩
  | cons hr _ ih =>
    intro M hM
    have := (applyOpsLib_ok_iff P ops _ M).mp hM
    cases this with
    | cons hc hrest =>
      obtain ⟨c', g1, g2⟩ := applyOps_congr_ok P ops _ _ _ hr hc
      obtain ⟨M', i1, i2⟩ := ih _ ((applyOpsLib_ok_iff P ops _ _).mpr hrest)
      exact ⟨c' :: M', (applyOpsLib_ok_iff P ops _ _).mpr (.cons g1 ((applyOpsLib_ok_iff P ops _ _).mp i1)),
        .cons g2 i2⟩

theorem applyOpsLib_content_congr (ops : List Op) (L L' M : List Block)
    (h : L'.map contentOf = L.map contentOf) (hM : applyOpsLib P ops L = .ok M)
    (hl : ∀ c ∈ M, c.isFailed = false) :
    ∃ M', applyOpsLib P ops L' = .ok M' ∧ M'.map contentOf = M.map contentOf := by
  have hrel : Pointwise Rel L L' :=
    (Pointwise.of_map_eq contentOf contentOf L L' h.symm).mono (fun _ _ _ _ hab => .inl hab)
  obtain ⟨M', h1, h2⟩ := applyOpsLib_congr P ops hrel M hM
  refine ⟨M', h1, ?_⟩
  exact (Pointwise.map_eq (f := contentOf) (g := contentOf)
    (h2.mono (fun c hc c' _ hcc => (hcc.content (hl c hc)).symm))).symm

/-! ### the round trip, block by block and through the pipeline -/

/-- the condition of C14 on the persons of one entry: non-empty last name, no word ending in an odd
number of backslashes, no bare word `and` in the merged form -/
def GoodEntry (e : Entry) : Prop :=
  ∀ fld ∈ e.fields, nameFields.contains fld.key = true → ∀ ps, fld.value = .parts ps →
    ∀ p ∈ ps, p.last ≠ [] ∧ NoOddBS p ∧ NoAndWord (mergeLastFirst p)

/-- ... on every entry of a library -/
def GoodLib (L : List Block) : Prop := ∀ e, Block.live (.entry e) ∈ L → GoodEntry e

/-- the same condition in a form `decide` can evaluate on a concrete library -/
def GoodVal : Val → Prop
  | .parts ps => ∀ p ∈ ps, p.last ≠ [] ∧ NoOddBS p ∧ NoAndWord (mergeLastFirst p)
  | _ => True

instance (v : Val) : Decidable (GoodVal v) := by
  cases v <;> (simp only [GoodVal]; infer_instance)

def GoodBlock : Block → Prop
  | .live (.entry e) => ∀ fld ∈ e.fields, nameFields.contains fld.key = true → GoodVal fld.value
  | _ => True

instance (b : Block) : Decidable (GoodBlock b) := by
  unfold GoodBlock; split <;> infer_instance

theorem goodLib_of_blocks (L : List Block) (h : ∀ b ∈ L, GoodBlock b) : GoodLib L := by
  intro e he fld hfld hk ps hps p hp
  have := h _ he fld hfld hk
  rw [hps] at this
  exact this p hp

/-- C14 `stack_roundtrip` (proved in Props/C14.lean) -/
def EntryTrip : Prop :=
  ∀ e e1 : Entry, applyOps P [.separate, .splitParts] (.live (.entry e)) = .ok (.live (.entry e1)) →
    GoodEntry e1 →
    ∃ e2, applyOps P [.mergeParts true, .mergeCo] (.live (.entry e1)) = .ok (.live (.entry e2)) ∧
      applyOps P [.separate, .splitParts] (.live (.entry e2)) = .ok (.live (.entry e1))

variable {P}

/-- one block: an entry by `stack_roundtrip`; every other block (also an error block) passes through
all four middlewares unchanged -/
theorem block_roundtrip_of (hE : EntryTrip P) (b c : Block)
    (h1 : applyOps P [.separate, .splitParts] b = .ok c) (hg : ∀ e, c = .live (.entry e) → GoodEntry e) :
    ∃ d, applyOps P [.mergeParts true, .mergeCo] c = .ok d ∧ applyOps P [.separate, .splitParts] d = .ok c ∧
      (c.isFailed = false → d.isFailed = false) := by
  by_cases hc : IsEntryB c
  · obtain ⟨e1, rfl⟩ := hc
    have hb : IsEntryB b := by
      apply Classical.byContradiction
      intro hb
      rw [applyOps_of_not_entry P _ b hb] at h1
      cases h1
      exact hb ⟨e1, rfl⟩
    obtain ⟨e, rfl⟩ := hb
    obtain ⟨e2, g1, g2⟩ := hE e e1 h1 (hg e1 rfl)
    exact ⟨_, g1, g2, fun _ => rfl⟩
  · exact ⟨c, applyOps_of_not_entry P _ c hc, applyOps_of_not_entry P _ c hc, id⟩

/-- **the four middlewares on a whole library**: merging succeeds, and separating + splitting the merged
library gives back the library -/
theorem lib_roundtrip_of (hE : EntryTrip P) (L0 L1 : List Block)
    (h1 : applyOpsLib P [.separate, .splitParts] L0 = .ok L1) (hg : GoodLib L1) :
    ∃ L2, applyOpsLib P [.mergeParts true, .mergeCo] L1 = .ok L2 ∧
      applyOpsLib P [.separate, .splitParts] L2 = .ok L1 := by
  have hp := (applyOpsLib_ok_iff P _ L0 L1).mp h1
  have : ∃ L2, Pointwise (fun c d => applyOps P [.mergeParts true, .mergeCo] c = .ok d) L1 L2 ∧
      Pointwise (fun d c => applyOps P [.separate, .splitParts] d = .ok c) L2 L1 := by
    clear h1
    induction hp with
    | nil => exact ⟨[], .nil, .nil⟩
    | @cons b c l₁ l₂ hbc _ ih =>
      obtain ⟨d, g1, g2, _⟩ := block_roundtrip_of hE b c hbc (fun e he => hg e (by simp [he]))
      obtain ⟨L2, i1, i2⟩ := ih (fun e he => hg e (by simp [he]))
      exact ⟨d :: L2, .cons g1 i1, .cons g2 i2⟩
  obtain ⟨L2, i1, i2⟩ := this
  exact ⟨L2, (applyOpsLib_ok_iff P _ _ _).mpr i1, (applyOpsLib_ok_iff P _ _ _).mpr i2⟩

/-- a writable library has no failed block -/
theorem writable_live {L : List Block} (hw : Writable P L) : ∀ b ∈ L, b.isFailed = false := by
  intro b hb
  have := hw.blocks b hb
  cases b with
  | live l => rfl
  | _ => exact this.elim

/-- a name middleware never repairs a failed block -/
theorem applyOps_failed (ops : List Op) (b c : Block) (h : applyOps P ops b = .ok c)
    (hc : c.isFailed = false) : b.isFailed = false := by
  cases b with
  | live l => rfl
  | _ =>
    rw [applyOps_of_not_entry P ops _ (by rintro ⟨e, he⟩; cases he)] at h
    cases h; exact hc

/-- **through the pipeline, block lists**: see C14 `pipeline_roundtrip` -/
theorem pipeline_of (hE : EntryTrip P) (F : Writer.BibtexFormat) (hP : PrintOK P) (hF : FormatOK F)
    (L0 L1 : List Block) (h1 : applyOpsLib P [.separate, .splitParts] L0 = .ok L1) (hg : GoodLib L1)
    (hw : ∀ L2, applyOpsLib P [.mergeParts true, .mergeCo] L1 = .ok L2 → Writable P L2) :
    ∃ L2 t L3 L4, applyOpsLib P [.mergeParts true, .mergeCo] L1 = .ok L2 ∧ writeDefault P F L2 = .ok t ∧
      parseDefault P t = .ok L3 ∧ applyOpsLib P [.separate, .splitParts] L3 = .ok L4 ∧
      L4.map contentOf = L1.map contentOf := by
  obtain ⟨L2, h2, h3⟩ := lib_roundtrip_of hE L0 L1 h1 hg
  have hw2 := hw L2 h2
  obtain ⟨L3, g1, g2, g3, _⟩ := print_parse_render hP F hF L2 hw2
  have hl1 : ∀ c ∈ L1, c.isFailed = false := by
    intro c hc
    obtain ⟨d, hd, hcd⟩ := ((applyOpsLib_ok_iff P _ L1 L2).mp h2).mem_left c hc
    exact applyOps_failed _ c d hcd (writable_live hw2 d hd)
  obtain ⟨L4, k1, k2⟩ := applyOpsLib_content_congr P _ L2 L3 L1 g3 h3 hl1
  exact ⟨L2, _, L3, L4, h2, g1, g2, k1, k2⟩

theorem keysUnique_of_parse (s : Str) (L : List Block) (h : parseDefault P s = .ok L) : KeysUnique L := by
  obtain ⟨_, h1, h2, _⟩ := parsed_inv s L h
  refine ⟨?_, ?_⟩
  · have : Bib.entryKeys L = PrintParse.entryKeys L := by
      unfold Bib.entryKeys PrintParse.entryKeys
      congr 1
    rw [this]; exact h1
  · have : Bib.stringKeys L = PrintParse.stringKeys L := by
      unfold Bib.stringKeys PrintParse.stringKeys
      congr 1
    rw [this]; exact h2

/-- **through the entry points** (`parseNames` = `parse_string(append_middleware=…)`, `writeNames` =
`write_string(prepend_middleware=…)`, the middlewares applied one after the other over the whole library
with `Library(blocks)` in between): see C14 `entrypoint_roundtrip` -/
theorem entrypoint_of (hE : EntryTrip P) (F : Writer.BibtexFormat) (hP : PrintOK P) (hF : FormatOK F)
    (s : Str) (L1 : List Block) (h1 : parseNames P s = .ok L1) (hg : GoodLib L1)
    (hw : ∀ L2, applyMws P [.mergeParts true, .mergeCo] L1 = .ok L2 → Writable P L2) :
    ∃ t L4, writeNames P F L1 = .ok t ∧ parseNames P t = .ok L4 ∧ L4.map contentOf = L1.map contentOf ∧
      ∃ L2, namesTrip P F s = .ok { lib1 := L1, merged := L2, text := t, lib2 := L4 } := by
  unfold parseNames at h1
  cases h0 : parseDefault P s with
  | error e => rw [h0] at h1; cases h1
  | ok L0 =>
    rw [h0] at h1
    simp only at h1
    have hu0 := keysUnique_of_parse s L0 h0
    have h1' := (applyMws_ok_iff P _ L0 L1 hu0).mp h1
    have hu1 := applyOpsLib_keysUnique P _ L0 L1 h1' hu0
    obtain ⟨L2, t, L3, L4, k1, k2, k3, k4, k5⟩ := pipeline_of hE F hP hF L0 L1 h1' hg
      (fun L2 h2 => hw L2 ((applyMws_ok_iff P _ L1 L2 hu1).mpr h2))
    have k1' := (applyMws_ok_iff P _ L1 L2 hu1).mpr k1
    have k4' := (applyMws_ok_iff P _ L3 L4 (keysUnique_of_parse t L3 k3)).mpr k4
    have hwN : writeNames P F L1 = .ok t := by unfold writeNames; rw [k1']; exact k2
    have hpN : parseNames P t = .ok L4 := by unfold parseNames; rw [k3]; exact k4'
    have hpS : parseNames P s = .ok L1 := by unfold parseNames; rw [h0]; exact h1
    refine ⟨t, L4, hwN, hpN, k5, L2, ?_⟩
    unfold namesTrip
    rw [hpS]; simp only
    rw [k1']; simp only
    rw [k2]; simp only
    rw [hpN]

end Bib.Names
