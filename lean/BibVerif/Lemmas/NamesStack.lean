/-
  C14 helper lemmas: lifting the round trip of one field value to entries and to stacks of the
  name middlewares.
-/
import BibVerif.Lemmas.NamesMw
namespace Bib.Names
open Bib.NameP

variable (P : PyChars)

/-- two middlewares in a row on one field value -/
def chain (a b : Op) (v : Val) : Except FErr Val := (transformValue P a v).bind (transformValue P b)

theorem bind_ok {fa fb : Val → Except FErr Val} {v v1 : Val} (h : fa v = .ok v1) :
    (fa v).bind fb = fb v1 := by rw [h]; rfl

theorem bind_err {fa fb : Val → Except FErr Val} {v : Val} {e : FErr} (h : fa v = .error e) :
    (fa v).bind fb = .error e := by rw [h]; rfl

/-- a second pass over the fields of a pass that did not fail succeeds iff one pass with the
composed function succeeds, with the same result -/
theorem mapFields_two' (fa fb g : Val → Except FErr Val) (hg : ∀ v, g v = (fa v).bind fb) (fs : List Field) :
    ∀ fs2, (mapFields fa fs).2 = none →
      (mapFields fb (mapFields fa fs).1 = (fs2, none) ↔ mapFields g fs = (fs2, none)) := by
  induction fs with
  | nil => intro fs2 _; rfl
  | cons fld r ih =>
    intro fs2 h
    simp only [mapFields] at h ⊢
    by_cases hk : nameFields.contains fld.key = true
    · simp only [hk, if_true] at h ⊢
      cases hv : fa fld.value with
      | error e => rw [hv] at h; simp at h
      | ok v =>
        rw [hv] at h
        simp only at h ⊢
        rw [hg, bind_ok hv]
        simp only [mapFields, hk, if_true]
        cases hb : fb v with
        | error e => simp
        | ok v' =>
          simp only
          cases fs2 with
          | nil => simp
          | cons x r2 =>
            have := ih r2 h
            constructor
            · intro hh
              injection hh with h1 h2
              injection h1 with h3 h4
              have := this.mp (by rw [← h4, ← h2])
              rw [this, h3]
            · intro hh
              injection hh with h1 h2
              injection h1 with h3 h4
              have := this.mpr (by rw [← h4, ← h2])
              rw [this, h3]
    · have hk' : nameFields.contains fld.key = false := by simpa using hk
      simp only [hk', Bool.false_eq_true, if_false] at h ⊢
      simp only [mapFields, hk', Bool.false_eq_true, if_false]
      cases fs2 with
      | nil => simp
      | cons x r2 =>
        have := ih r2 h
        constructor
        · intro hh
          injection hh with h1 h2
          injection h1 with h3 h4
          have := this.mp (by rw [← h4, ← h2])
          rw [this, h3]
        · intro hh
          injection hh with h1 h2
          injection h1 with h3 h4
          have := this.mpr (by rw [← h4, ← h2])
          rw [this, h3]

theorem mapFields_two (fa fb : Val → Except FErr Val) (fs : List Field) :
    ∀ fs2, (mapFields fa fs).2 = none →
      (mapFields fb (mapFields fa fs).1 = (fs2, none) ↔ mapFields (fun v => (fa v).bind fb) fs = (fs2, none)) :=
  mapFields_two' fa fb _ (fun _ => rfl) fs

theorem mapFields_first_ok' (fa fb g : Val → Except FErr Val) (hg : ∀ v, g v = (fa v).bind fb) (fs : List Field)
    (h : (mapFields g fs).2 = none) : (mapFields fa fs).2 = none := by
  induction fs with
  | nil => rfl
  | cons fld r ih =>
    simp only [mapFields] at h ⊢
    by_cases hk : nameFields.contains fld.key = true
    · simp only [hk, if_true] at h ⊢
      cases hv : fa fld.value with
      | error e => rw [hg, bind_err hv] at h; simp at h
      | ok v =>
        rw [hg, bind_ok hv] at h
        simp only
        cases hb : fb v with
        | error e => rw [hb] at h; simp at h
        | ok v' => rw [hb] at h; simp only at h; exact ih h
    · have hk' : nameFields.contains fld.key = false := by simpa using hk
      simp only [hk', Bool.false_eq_true, if_false] at h ⊢
      exact ih h

theorem mapFields_first_ok (fa fb : Val → Except FErr Val) (fs : List Field)
    (h : (mapFields (fun v => (fa v).bind fb) fs).2 = none) : (mapFields fa fs).2 = none :=
  mapFields_first_ok' fa fb _ (fun _ => rfl) fs h

/-- two name middlewares on an entry, when the result is an entry again -/
theorem applyOps_two_entry (a b : Op) (e e1 : Entry) :
    applyOps P [a, b] (.live (.entry e)) = .ok (.live (.entry e1)) ↔
      mapFields (chain P a b) e.fields = (e1.fields, none) ∧ e1 = { e with fields := e1.fields } := by
  unfold applyOps applyOps applyOps
  simp only [transformBlock, transformEntry]
  constructor
  · intro h
    rcases hm : mapFields (transformValue P a) e.fields with ⟨fs1, o1⟩
    rw [hm] at h
    cases o1 with
    | some err =>
      cases err with
      | invalid x => simp only at h; simp [transformBlock] at h
      | py x => simp only at h; cases h
    | none =>
      simp only [transformBlock, transformEntry] at h
      rcases hm2 : mapFields (transformValue P b) fs1 with ⟨fs2, o2⟩
      rw [hm2] at h
      cases o2 with
      | some err => cases err <;> simp at h
      | none =>
        simp only at h
        injection h with h; injection h with h; injection h with h
        subst h
        have h2 := mapFields_two (transformValue P a) (transformValue P b) e.fields fs2 (by rw [hm])
        rw [hm] at h2
        exact ⟨h2.mp hm2, rfl⟩
  · rintro ⟨hm, he⟩
    have h1 := mapFields_first_ok (transformValue P a) (transformValue P b) e.fields (by
      show (mapFields (chain P a b) e.fields).2 = none
      rw [hm])
    rcases hm1 : mapFields (transformValue P a) e.fields with ⟨fs1, o1⟩
    rw [hm1] at h1
    simp only at h1
    subst h1
    simp only [transformBlock, transformEntry]
    have h2 := mapFields_two (transformValue P a) (transformValue P b) e.fields e1.fields (by rw [hm1])
    rw [hm1] at h2
    have : mapFields (transformValue P b) fs1 = (e1.fields, none) := h2.mpr hm
    rw [this]
    simp only
    rw [he]

/-- **the round trip on the fields**: if separating and splitting succeeds on every name field and
the resulting persons satisfy `good`, then merging (a function `c2` that succeeds with `m v`) and
separating + splitting again gives the same fields -/
theorem fields_roundtrip (c1 c2 : Val → Except FErr Val) (fs : List Field) :
    ∀ fs1, mapFields c1 fs = (fs1, none) →
      (∀ fld ∈ fs1, nameFields.contains fld.key = true →
        ∃ v2, c2 fld.value = .ok v2 ∧ c1 v2 = .ok fld.value) →
      ∃ fs2, mapFields c2 fs1 = (fs2, none) ∧ mapFields c1 fs2 = (fs1, none) := by
  induction fs with
  | nil =>
    intro fs1 h _
    simp only [mapFields] at h
    injection h with h _
    subst h
    exact ⟨[], rfl, rfl⟩
  | cons fld r ih =>
    intro fs1 h hg
    simp only [mapFields] at h
    by_cases hk : nameFields.contains fld.key = true
    · simp only [hk, if_true] at h
      cases hv : c1 fld.value with
      | error e => rw [hv] at h; simp at h
      | ok v1 =>
        rw [hv] at h
        simp only at h
        rcases hr : mapFields c1 r with ⟨r1, o⟩
        rw [hr] at h
        simp only at h
        injection h with h1 h2
        subst h2; subst h1
        obtain ⟨v2, g1, g2⟩ := hg { fld with value := v1 } (by simp) hk
        obtain ⟨r2, i1, i2⟩ := ih r1 hr (fun x hx hxk => hg x (by simp [hx]) hxk)
        refine ⟨{ fld with value := v2 } :: r2, ?_, ?_⟩
        · simp only [mapFields, hk, if_true]
          simp only at g1
          rw [g1, i1]
        · simp only [mapFields, hk, if_true]
          simp only at g2
          rw [g2, i2]
    · simp only [hk] at h
      rcases hr : mapFields c1 r with ⟨r1, o⟩
      rw [hr] at h
      simp only at h
      injection h with h1 h2
      subst h2; subst h1
      obtain ⟨r2, i1, i2⟩ := ih r1 hr (fun x hx hxk => hg x (by simp [hx]) hxk)
      refine ⟨fld :: r2, ?_, ?_⟩
      · simp only [mapFields, hk]
        rw [i1]; rfl
      · simp only [mapFields, hk]
        rw [i2]; rfl

/-- what separating + splitting returns on a name field -/
theorem chain_sep_split_inv {v v1 : Val} (h : chain P .separate .splitParts v = .ok v1) :
    ∃ s ps, v = .str s ∧ v1 = .parts ps ∧ parseAll P (CoAuth.split s) = .ok ps := by
  unfold chain at h
  cases v with
  | str s =>
    simp only [transformValue, Except.bind] at h
    cases hp : parseAll P (CoAuth.split s) with
    | error e => rw [hp] at h; cases h
    | ok ps =>
      rw [hp] at h
      simp only at h
      injection h with h
      exact ⟨s, ps, rfl, h.symm, hp⟩
  | _ => simp [transformValue, Except.bind] at h

/-- every converted name field of a successful pass is an output of the function -/
theorem mapFields_outputs (f : Val → Except FErr Val) (fs : List Field) :
    ∀ fs1, mapFields f fs = (fs1, none) →
      ∀ fld1 ∈ fs1, nameFields.contains fld1.key = true → ∃ v, f v = .ok fld1.value := by
  induction fs with
  | nil =>
    intro fs1 h
    simp only [mapFields] at h
    injection h with h _
    subst h
    intro fld1 hf; simp at hf
  | cons fld r ih =>
    intro fs1 h
    simp only [mapFields] at h
    by_cases hk : nameFields.contains fld.key = true
    · simp only [hk, if_true] at h
      cases hv : f fld.value with
      | error e => rw [hv] at h; simp at h
      | ok v1 =>
        rw [hv] at h
        simp only at h
        rcases hr : mapFields f r with ⟨r1, o⟩
        rw [hr] at h
        simp only at h
        injection h with h1 h2
        subst h2; subst h1
        intro fld1 hf hfk
        rcases List.mem_cons.mp hf with hf | hf
        · subst hf; exact ⟨fld.value, hv⟩
        · exact ih r1 hr fld1 hf hfk
    · have hk' : nameFields.contains fld.key = false := by simpa using hk
      simp only [hk', Bool.false_eq_true, if_false] at h
      rcases hr : mapFields f r with ⟨r1, o⟩
      rw [hr] at h
      simp only at h
      injection h with h1 h2
      subst h2; subst h1
      intro fld1 hf hfk
      rcases List.mem_cons.mp hf with hf | hf
      · subst hf; rw [hk'] at hfk; cases hfk
      · exact ih r1 hr fld1 hf hfk

end Bib.Names
