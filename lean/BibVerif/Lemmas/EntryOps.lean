/-
  C19: specification vocabulary (the abstract insertion-ordered map, the refinement relation,
  "same content" for blocks) and helper lemmas.  The property statements are in `Props/C19.lean`.
-/
import BibVerif.EntryOps
namespace Bib
namespace PyDict
variable {α : Type}

theorem get_set_same (d : List (Str × α)) (k : Str) (v : α) : get (set d k v) k = some v := by
  induction d with
  | nil => simp [set, get]
  | cons p r ih =>
    obtain ⟨k', v'⟩ := p
    by_cases h : k' = k
    · simp [set, get, h]
    · simp [set, get, h, ih]

theorem get_set_other (d : List (Str × α)) (k k' : Str) (v : α) (h : k ≠ k') :
    get (set d k v) k' = get d k' := by
  induction d with
  | nil => simp [set, get, h]
  | cons p r ih =>
    obtain ⟨k0, v0⟩ := p
    by_cases h0 : k0 = k
    · subst h0; simp [set, get, h]
    · by_cases h1 : k0 = k'
      · subst h1; simp [set, get, h0]
      · simp [set, get, h0, h1, ih]

theorem get_eq_none_iff (d : List (Str × α)) (k : Str) : get d k = none ↔ k ∉ keys d := by
  induction d with
  | nil => simp [get, keys]
  | cons p r ih =>
    obtain ⟨k0, v0⟩ := p
    by_cases h0 : k0 = k
    · simp [get, keys, h0]
    · have : ¬ k = k0 := fun h => h0 h.symm
      simp [get, h0, keys, this] at ih ⊢
      exact ih

theorem set_of_absent (d : List (Str × α)) (k : Str) (v : α) (h : k ∉ keys d) :
    set d k v = d ++ [(k, v)] := by
  induction d with
  | nil => simp [set]
  | cons p r ih =>
    obtain ⟨k0, v0⟩ := p
    have h0 : ¬ k0 = k := by intro h0; apply h; simp [keys, h0]
    have hr : k ∉ keys r := by intro hr; apply h; simp [keys] at hr ⊢; exact Or.inr hr
    simp [set, h0, ih hr]

theorem mem_of_get (d : List (Str × α)) (k : Str) (v : α) (h : get d k = some v) : (k, v) ∈ d := by
  induction d with
  | nil => simp [get] at h
  | cons p r ih =>
    obtain ⟨k0, v0⟩ := p
    by_cases h0 : k0 = k
    · simp [get, h0] at h; simp [h0, h]
    · simp [get, h0] at h; exact List.mem_cons_of_mem _ (ih h)

theorem get_of_mem (d : List (Str × α)) (k : Str) (v : α) (hn : (keys d).Nodup) (h : (k, v) ∈ d) :
    get d k = some v := by
  induction d with
  | nil => simp at h
  | cons p r ih =>
    obtain ⟨k0, v0⟩ := p
    simp [keys] at hn
    rcases List.mem_cons.mp h with h | h
    · cases h; simp [get]
    · have : k0 ≠ k := by
        intro hk; subst hk; exact hn.1 v h
      simp [get, this]
      exact ih (by simpa [keys] using hn.2) h

end PyDict

namespace EntryOps
open PyDict

/-! ### specification: an insertion-ordered map from keys to fields -/

abbrev Map := List (Str × Field)

/-- the pair a field contributes to the map -/
def kv (f : Field) : Str × Field := (f.key, f)

namespace Spec
/-- `m[f.key] = f`: replacing keeps the position, a new key appends -/
def insert (m : Map) (f : Field) : Map :=
  if m.any (fun p => p.1 = f.key) then m.map (fun p => if p.1 = f.key then (f.key, f) else p)
  else m ++ [(f.key, f)]
/-- removal closes the gap -/
def erase (m : Map) (k : Str) : Map := m.filter (fun p => p.1 ≠ k)
def find (m : Map) (k : Str) : Option Field := (m.find? (fun p => p.1 = k)).map (·.2)
end Spec

/-- the same calls on the specification map -/
def applyM (op : Op) (m : Map) : Map × Res :=
  match op with
  | .setField f => (Spec.insert m f, .none)
  | .setItem k v => (Spec.insert m ⟨k, v, noLine⟩, .none)
  | .pop k d => match Spec.find m k with
    | some f => (Spec.erase m k, .field (some f))
    | none => (m, .field d)
  | .delItem k => (Spec.erase m k, .none)
  | .get k d => match Spec.find m k with
    | some f => (m, .field (some f))
    | none => (m, .field d)
  | .contains k => (m, .bool (Spec.find m k).isSome)
  | .getItem k => match Spec.find m k with
    | some f => (m, .val f.value)
    | none => (m, .raise .keyError)

def runM : List Op → Map → Map × List Res
  | [], m => (m, [])
  | op :: ops, m =>
    let r := applyM op m
    let rest := runM ops r.1
    (rest.1, r.2 :: rest.2)

def reserved (k : Str) : Prop := k = "ENTRYTYPE".toList ∨ k = "ID".toList

instance (k : Str) : Decidable (reserved k) := by unfold reserved; infer_instance

/-- the key a call mentions -/
def Op.key : Op → Str
  | .setField f => f.key
  | .setItem k _ => k
  | .pop k _ => k
  | .delItem k => k
  | .get k _ => k
  | .contains k => k
  | .getItem k => k

/-- refinement: the entry's field list *is* the map `m` (in order), its keys are distinct and
none is a reserved name -/
def R (e : Entry) (m : Map) : Prop :=
  m = e.fields.map kv ∧ (e.fields.map (·.key)).Nodup ∧ ∀ f ∈ e.fields, ¬ reserved f.key

/-! ### the dict view of a field list with distinct keys -/

theorem keys_map_kv (fs : List Field) : keys (fs.map kv) = fs.map (·.key) := by
  simp [keys, kv, Function.comp_def]

theorem fieldsDict_go (fs : List Field) (d : List (Str × Field))
    (hn : (fs.map (·.key)).Nodup) (hd : ∀ f ∈ fs, f.key ∉ keys d) :
    fs.foldl (fun d f => PyDict.set d f.key f) d = d ++ fs.map kv := by
  induction fs generalizing d with
  | nil => simp
  | cons f r ih =>
    simp only [List.foldl_cons, List.map_cons, List.nodup_cons] at hn ⊢
    rw [set_of_absent d f.key f (hd f (by simp))]
    rw [ih _ hn.2]
    · simp [kv]
    · intro g hg
      have h1 := hd g (by simp [hg])
      have h2 : g.key ≠ f.key := by
        intro h; apply hn.1; rw [← h]; exact List.mem_map_of_mem hg
      simp [keys] at h1 ⊢
      exact ⟨h1, h2⟩

/-- with distinct keys the rebuilt dict lists exactly the fields, in order -/
theorem fieldsDict_eq (fs : List Field) (hn : (fs.map (·.key)).Nodup) :
    fieldsDict fs = fs.map kv := by
  have := fieldsDict_go fs [] hn (by simp [keys])
  simpa [fieldsDict] using this

theorem get_map_kv (fs : List Field) (k : Str) :
    get (fs.map kv) k = fs.find? (fun f => f.key = k) := by
  induction fs with
  | nil => simp [PyDict.get]
  | cons f r ih =>
    by_cases h : f.key = k
    · simp [PyDict.get, kv, h]
    · simp [PyDict.get, kv, h]; simpa [kv] using ih

theorem find_map_kv (fs : List Field) (k : Str) :
    Spec.find (fs.map kv) k = fs.find? (fun f => f.key = k) := by
  induction fs with
  | nil => simp [Spec.find]
  | cons f r ih =>
    by_cases h : f.key = k
    · simp [Spec.find, kv, h]
    · simp [Spec.find, kv, h] at ih ⊢; exact ih

theorem find?_none_iff_key (fs : List Field) (k : Str) :
    fs.find? (fun f => f.key = k) = none ↔ k ∉ fs.map (·.key) := by
  simp [List.find?_eq_none]

theorem keyIndex_of_mem (fs : List Field) (k : Str) (h : k ∈ fs.map (·.key)) :
    ∃ i, keyIndex k fs = some i := by
  induction fs with
  | nil => simp at h
  | cons f r ih =>
    by_cases hk : f.key = k
    · exact ⟨0, by simp [keyIndex, hk]⟩
    · have : k ∈ r.map (·.key) := by
        simp at h ⊢
        rcases h with h | h
        · exact (hk h.symm).elim
        · exact h
      obtain ⟨i, hi⟩ := ih this
      exact ⟨i + 1, by simp [keyIndex, hk, hi]⟩

theorem map_replace_id (m : Map) (f : Field) (h : ∀ p ∈ m, p.1 ≠ f.key) :
    m.map (fun p => if p.1 = f.key then (f.key, f) else p) = m := by
  induction m with
  | nil => rfl
  | cons p r ih =>
    have hp := h p (by simp)
    simp [hp]
    exact ih (fun q hq => h q (List.mem_cons_of_mem _ hq))

/-- replacing at the index of the first field with that key = replacing the key's pair in place -/
theorem set_at_keyIndex (fs : List Field) (f : Field) (i : Nat)
    (hn : (fs.map (·.key)).Nodup) (hi : keyIndex f.key fs = some i) :
    (fs.set i f).map kv = (fs.map kv).map (fun p => if p.1 = f.key then (f.key, f) else p) ∧
    (fs.set i f).map (·.key) = fs.map (·.key) := by
  induction fs generalizing i with
  | nil => simp [keyIndex] at hi
  | cons g r ih =>
    simp only [List.map_cons, List.nodup_cons] at hn
    by_cases hk : g.key = f.key
    · simp [keyIndex, hk] at hi
      subst hi
      have hid := map_replace_id (r.map kv) f (by
        intro p hp
        simp [kv] at hp
        obtain ⟨q, hq, rfl⟩ := hp
        intro h; apply hn.1; rw [hk, ← h]; exact List.mem_map_of_mem hq)
      simp [kv, hk]
      simpa [kv] using hid.symm
    · simp [keyIndex, hk] at hi
      obtain ⟨j, hj, rfl⟩ := hi
      obtain ⟨h1, h2⟩ := ih j hn.2 hj
      refine ⟨?_, ?_⟩
      · simp only [List.set_cons_succ, List.map_cons, h1]
        simp [kv, hk]
      · simp only [List.set_cons_succ, List.map_cons, h2]

theorem filter_map_kv (fs : List Field) (k : Str) :
    (fs.filter (fun g => g.key ≠ k)).map kv = (fs.map kv).filter (fun p => p.1 ≠ k) := by
  induction fs with
  | nil => rfl
  | cons f r ih =>
    by_cases h : f.key = k
    · simp [kv, h] at ih ⊢; exact ih
    · simp [kv, h] at ih ⊢; exact ih

theorem any_map_kv (fs : List Field) (k : Str) :
    (fs.map kv).any (fun p => p.1 = k) = true ↔ k ∈ fs.map (·.key) := by
  simp only [kv, List.any_map, List.any_eq_true, Function.comp_def, List.mem_map]
  constructor
  · rintro ⟨x, hx, h⟩; exact ⟨x, hx, of_decide_eq_true h⟩
  · rintro ⟨x, hx, h⟩; exact ⟨x, hx, decide_eq_true h⟩

/-! ### `==` is structural -/

theorem listEq_iff {α} (eq : α → α → Bool) (h : ∀ a b, eq a b = true ↔ a = b) (x y : List α) :
    listEq eq x y = true ↔ x = y := by
  induction x generalizing y with
  | nil => cases y <;> simp [listEq]
  | cons a r ih => cases y with
    | nil => simp [listEq]
    | cons b s => simp [listEq, h, ih]

theorem strEq_iff (a b : Str) : strEq a b = true ↔ a = b :=
  listEq_iff _ (by simp) a b

theorem partsEq_iff (a b : NameParts) : partsEq a b = true ↔ a = b := by
  cases a; cases b
  simp [partsEq, listEq_iff _ strEq_iff, and_assoc]

theorem valEq_iff (a b : Val) : valEq a b = true ↔ a = b := by
  cases a <;> cases b <;>
    simp [valEq, strEq_iff, listEq_iff _ strEq_iff, listEq_iff _ partsEq_iff, partsEq_iff]

/-- mapping equality: the same keys, related values -/
def DictSame {α} (Rv : α → α → Prop) (a b : List (Str × α)) : Prop :=
  ∀ k, match get a k, get b k with
    | none, none => True
    | some v, some w => Rv v w
    | _, _ => False

/-- a Python dict never holds a key twice -/
def KeysNodup {α} (d : List (Str × α)) : Prop := (keys d).Nodup

theorem subset_of_nodup_length {κ} [DecidableEq κ] (a b : List κ) (hn : a.Nodup) (hs : a ⊆ b)
    (hl : b.length ≤ a.length) : b ⊆ a := by
  induction a generalizing b with
  | nil =>
    have : b = [] := List.eq_nil_of_length_eq_zero (by simpa using hl)
    simp [this]
  | cons x r ih =>
    simp only [List.nodup_cons] at hn
    have hx : x ∈ b := hs (by simp)
    have h1 : r ⊆ b.erase x := by
      intro y hy
      have hne : y ≠ x := by intro h; subst h; exact hn.1 hy
      exact (List.mem_erase_of_ne hne).mpr (hs (List.mem_cons_of_mem _ hy))
    have h2 : (b.erase x).length ≤ r.length := by
      rw [List.length_erase_of_mem hx]
      simp at hl; omega
    have h3 := ih (b.erase x) hn.2 h1 h2
    intro y hy
    by_cases hyx : y = x
    · simp [hyx]
    · exact List.mem_cons_of_mem _ (h3 ((List.mem_erase_of_ne hyx).mpr hy))

theorem length_le_of_nodup_subset {κ} [DecidableEq κ] (a b : List κ) (hn : a.Nodup) (hs : a ⊆ b) :
    a.length ≤ b.length := by
  induction a generalizing b with
  | nil => simp
  | cons x r ih =>
    simp only [List.nodup_cons] at hn
    have hx : x ∈ b := hs (by simp)
    have h1 : r ⊆ b.erase x := by
      intro y hy
      have hne : y ≠ x := by intro h; subst h; exact hn.1 hy
      exact (List.mem_erase_of_ne hne).mpr (hs (List.mem_cons_of_mem _ hy))
    have := ih (b.erase x) hn.2 h1
    rw [List.length_erase_of_mem hx] at this
    have : 0 < b.length := List.length_pos_of_mem hx
    simp; omega

theorem dictEq_iff {α} (veq : α → α → Bool) (Rv : α → α → Prop)
    (a b : List (Str × α))
    (hv : ∀ k v w, (k, v) ∈ a → (k, w) ∈ b → (veq v w = true ↔ Rv v w))
    (ha : KeysNodup a) (hb : KeysNodup b) :
    dictEq veq a b = true ↔ DictSame Rv a b := by
  unfold dictEq
  simp only [Bool.and_eq_true, beq_iff_eq, List.all_eq_true]
  constructor
  · rintro ⟨hl, hall⟩ k
    -- keys a ⊆ keys b
    have hsub : keys a ⊆ keys b := by
      intro k hk
      simp [keys] at hk
      obtain ⟨v, hkv⟩ := hk
      have := hall (k, v) hkv
      simp only at this
      split at this
      · rename_i w hw
        have := mem_of_get b k w hw
        simp [keys]; exact ⟨w, this⟩
      · cases this
    have hsup : keys b ⊆ keys a :=
      subset_of_nodup_length (keys a) (keys b) ha hsub (by simp [keys, hl])
    cases hga : get a k with
    | none =>
      have : k ∉ keys a := (get_eq_none_iff a k).mp hga
      have : k ∉ keys b := fun h => this (hsup h)
      rw [(get_eq_none_iff b k).mpr this]; trivial
    | some v =>
      have := hall (k, v) (mem_of_get a k v hga)
      simp only at this
      split at this
      · rename_i w hw; rw [hw]
        exact (hv k v w (mem_of_get a k v hga) (mem_of_get b k w hw)).mp this
      · cases this
  · intro h
    have hsub : keys a ⊆ keys b := by
      intro k hk
      have h1 := h k
      cases hga : get a k with
      | none => exact ((get_eq_none_iff a k).mp hga hk).elim
      | some v =>
        rw [hga] at h1
        cases hgb : get b k with
        | none => rw [hgb] at h1; cases h1
        | some w =>
          have := mem_of_get b k w hgb
          simp [keys]; exact ⟨w, this⟩
    have hsup : keys b ⊆ keys a := by
      intro k hk
      have h1 := h k
      cases hgb : get b k with
      | none => exact ((get_eq_none_iff b k).mp hgb hk).elim
      | some w =>
        rw [hgb] at h1
        cases hga : get a k with
        | none => rw [hga] at h1; cases h1
        | some v =>
          have := mem_of_get a k v hga
          simp [keys]; exact ⟨v, this⟩
    refine ⟨?_, ?_⟩
    · have l1 := length_le_of_nodup_subset _ _ ha hsub
      have l2 := length_le_of_nodup_subset _ _ hb hsup
      simp [keys] at l1 l2; omega
    · rintro ⟨k, v⟩ hkv
      have hga := get_of_mem a k v ha hkv
      have h1 := h k
      rw [hga] at h1
      simp only
      cases hgb : get b k with
      | none => rw [hgb] at h1; cases h1
      | some w => rw [hgb] at h1; exact (hv k v w hkv (mem_of_get b k w hgb)).mpr h1

/-- metadata values: nested dicts are compared as mappings -/
def Meta.Same : Meta → Meta → Prop
  | .dict a, .dict b => DictSame (· = ·) a b
  | .dict _, _ => False
  | _, .dict _ => False
  | x, y => x = y

/-- nested metadata dicts hold no key twice -/
def Meta.WF : Meta → Prop
  | .dict a => KeysNodup a
  | _ => True

def MdWF (m : MetaD) : Prop := KeysNodup m ∧ ∀ p ∈ m, Meta.WF p.2

def MdSame (a b : MetaD) : Prop := DictSame Meta.Same a b

theorem metaEq_iff (a b : Meta) (ha : Meta.WF a) (hb : Meta.WF b) :
    metaEq a b = true ↔ Meta.Same a b := by
  cases a <;> cases b <;>
    simp [metaEq, Meta.Same, strEq_iff, listEq_iff _ strEq_iff]
  exact dictEq_iff strEq (· = ·) _ _ (fun _ v w _ _ => strEq_iff v w) ha hb

theorem mdEq_iff (a b : MetaD) (ha : MdWF a) (hb : MdWF b) :
    mdEq a b = true ↔ MdSame a b :=
  dictEq_iff metaEq Meta.Same a b
    (fun k v w hv hw => metaEq_iff v w (ha.2 (k, v) hv) (hb.2 (k, w) hw)) ha.1 hb.1

theorem dictSame_refl {α} (Rv : α → α → Prop) (hr : ∀ v, Rv v v) (a : List (Str × α)) :
    DictSame Rv a a := by
  intro k
  cases h : PyDict.get a k with
  | none => trivial
  | some v => exact hr v

theorem metaSame_refl (a : Meta) : Meta.Same a a := by
  cases a <;> simp [Meta.Same]
  exact dictSame_refl _ (fun _ => rfl) _

theorem mdSame_refl (a : MetaD) : MdSame a a := dictSame_refl _ metaSame_refl a

theorem mdSame_nil_iff (b : MetaD) : MdSame [] b ↔ b = [] := by
  constructor
  · intro h
    cases b with
    | nil => rfl
    | cons p r =>
      have := h p.1
      simp [PyDict.get] at this
  · rintro rfl; exact mdSame_refl []

def Live.md : Live → MetaD
  | .entry e => e.md
  | .string _ _ _ _ m => m
  | .preamble _ _ _ m => m
  | .expl _ _ _ m => m
  | .impl _ _ _ m => m

/-- same class, same attribute values; the parser metadata equal as a mapping -/
def Live.Same : Live → Live → Prop
  | .entry x, .entry y =>
    x.ty = y.ty ∧ x.key = y.key ∧ x.fields = y.fields ∧ x.line = y.line ∧ x.raw = y.raw ∧
      MdSame x.md y.md
  | .string k v l r m, .string k' v' l' r' m' => k = k' ∧ v = v' ∧ l = l' ∧ r = r' ∧ MdSame m m'
  | .preamble v l r m, .preamble v' l' r' m' => v = v' ∧ l = l' ∧ r = r' ∧ MdSame m m'
  | .expl c l r m, .expl c' l' r' m' => c = c' ∧ l = l' ∧ r = r' ∧ MdSame m m'
  | .impl c l r m, .impl c' l' r' m' => c = c' ∧ l = l' ∧ r = r' ∧ MdSame m m'
  | _, _ => False

theorem has_fieldsDict_go (fs : List Field) (d : List (Str × Field)) (k : Str)
    (h : (PyDict.get (fs.foldl (fun d f => PyDict.set d f.key f) d) k).isSome) :
    (PyDict.get d k).isSome ∨ k ∈ fs.map (·.key) := by
  induction fs generalizing d with
  | nil => exact Or.inl h
  | cons f r ih =>
    rcases ih _ h with h | h
    · by_cases hk : f.key = k
      · right; simp [hk]
      · rw [get_set_other _ _ _ _ hk] at h; exact Or.inl h
    · right; simp at h ⊢; exact Or.inr h

/-- whatever the field list: a key of the dict view is the key of some field -/
theorem mem_keys_of_has (fs : List Field) (k : Str) (h : has (fieldsDict fs) k = true) :
    k ∈ fs.map (·.key) := by
  rcases has_fieldsDict_go fs [] k h with h | h
  · simp [PyDict.get] at h
  · exact h

end EntryOps
end Bib
