/-
  C05 (parsed ⇒ writable): the default parse stack keeps the splitter invariants of ParsedInv.lean,
  `Library.add` returns pairwise distinct live keys, so a parsed library whose blocks pass the content
  side conditions `SideOK` is `Writable`.
-/
import BibVerif.Lemmas.ParsedInv
import BibVerif.Lemmas.PrintParseMain
import BibVerif.Lemmas.PrintParseClean
namespace Bib.PrintParse
open Bib Bib.Writer Bib.Enclosing Bib.Pipeline Bib.Interpolate

variable {P : PyChars}

/-! ### the content side conditions (what the harness oracle `wf5` evaluates) -/

/-- lexical reading of "brace-balanced, no block start inside, not ending in a backslash" -/
def TextOK (P : PyChars) (v : Str) : Prop :=
  IsBal (lexFrom P false v) ∧ Reparse.endBS false v = false

/-- an entry field value: the enclosed text `{v}` lexes to a `Value` of the grammar (bare words, brace
groups, quoted pieces - no top-level comma / equals sign, no block start), and `v` does not end in a
backslash.  Weaker than `TextOK`: the content itself may be unbalanced (`A} # {B`). -/
def ValueOK (P : PyChars) (v : Str) : Prop :=
  IsValue (lexFrom P false ('{' :: (v ++ ['}']))) ∧ Reparse.endBS false v = false

/-- an @string value: the enclosed text `{v}` lexes to brace-balanced tokens, `v` does not end in a
backslash -/
def StrValOK (P : PyChars) (v : Str) : Prop :=
  IsBal (lexFrom P false ('{' :: (v ++ ['}']))) ∧ Reparse.endBS false v = false

def SideOK (P : PyChars) : Block → Prop
  | .live (.entry e) =>
    (∀ c ∈ e.ty, P.isWord c = true) ∧ lower P e.ty = e.ty ∧
    startsWith "comment".toList e.ty = false ∧ startsWith "preamble".toList e.ty = false ∧
    startsWith "string".toList e.ty = false ∧ KeyOK P e.key ∧
    ∀ f ∈ e.fields, KeyOK P f.key ∧ ∀ v, f.value = .str v → ValueOK P v
  | .live (.string k v _ _ _) => KeyOK P k ∧ ∀ s, v = .str s → StrValOK P s
  | .live (.preamble v _ _ _) => TextOK P v
  | .live (.expl c _ _ _) => TextOK P c
  | .live (.impl c _ _ _) => noStart P c = true
  | _ => False

/-! ### `Library.add`: live keys are pairwise distinct, classes and positions are kept -/

theorem entryKeys_append (a b : List Block) : entryKeys (a ++ b) = entryKeys a ++ entryKeys b := by
  simp [entryKeys, List.filterMap_append]

theorem stringKeys_append (a b : List Block) : stringKeys (a ++ b) = stringKeys a ++ stringKeys b := by
  simp [stringKeys, List.filterMap_append]

theorem lookup_none_iff (d : List (Str × Live)) (k : Str) :
    Interpolate.lookup d k = none ↔ k ∉ d.map (·.1) := by
  induction d with
  | nil => simp [Interpolate.lookup]
  | cons kb r ih =>
    obtain ⟨k', b⟩ := kb
    by_cases h : k' = k
    · simp [Interpolate.lookup, h]
    · simp only [Interpolate.lookup, h, ↓reduceIte, ih, List.map_cons, List.mem_cons, not_or]
      exact ⟨fun hh => ⟨fun e => h e.symm, hh⟩, fun hh => hh.2⟩

structure LInv (L : Lib) : Prop where
  ek : entryKeys L.blocks = L.entries.map (·.1)
  en : (L.entries.map (·.1)).Nodup
  sk : stringKeys L.blocks = L.strings.map (·.1)
  sn : (L.strings.map (·.1)).Nodup

theorem nodup_snoc {l : List Str} {k : Str} (h : l.Nodup) (hk : k ∉ l) : (l ++ [k]).Nodup := by
  rw [List.nodup_append]
  exact ⟨h, by simp, by intro a ha b hb; simp at hb; subst hb; exact fun e => hk (e ▸ ha)⟩

theorem addOne_linv (L : Lib) (b : Block) (h : LInv L) : LInv (addOne L b) := by
  match b with
  | .live (.entry e) =>
    simp only [addOne]
    cases hl : Interpolate.lookup L.entries e.key with
    | some prev =>
      exact ⟨by rw [entryKeys_append]; simpa [entryKeys] using h.ek, h.en,
        by rw [stringKeys_append]; simpa [stringKeys] using h.sk, h.sn⟩
    | none =>
      have hk := (lookup_none_iff _ _).mp hl
      exact ⟨by rw [entryKeys_append, h.ek]; simp [entryKeys], by simpa using nodup_snoc h.en hk,
        by rw [stringKeys_append]; simpa [stringKeys] using h.sk, h.sn⟩
  | .live (.string k v l r m) =>
    simp only [addOne]
    cases hl : Interpolate.lookup L.strings k with
    | some prev =>
      exact ⟨by rw [entryKeys_append]; simpa [entryKeys] using h.ek, h.en,
        by rw [stringKeys_append]; simpa [stringKeys] using h.sk, h.sn⟩
    | none =>
      have hk := (lookup_none_iff _ _).mp hl
      exact ⟨by rw [entryKeys_append]; simpa [entryKeys] using h.ek, h.en,
        by rw [stringKeys_append, h.sk]; simp [stringKeys], by simpa using nodup_snoc h.sn hk⟩
  | .live (.preamble _ _ _ _) =>
    exact ⟨by simp only [addOne]; rw [entryKeys_append]; simpa [entryKeys] using h.ek, h.en,
      by simp only [addOne]; rw [stringKeys_append]; simpa [stringKeys] using h.sk, h.sn⟩
  | .live (.expl _ _ _ _) =>
    exact ⟨by simp only [addOne]; rw [entryKeys_append]; simpa [entryKeys] using h.ek, h.en,
      by simp only [addOne]; rw [stringKeys_append]; simpa [stringKeys] using h.sk, h.sn⟩
  | .live (.impl _ _ _ _) =>
    exact ⟨by simp only [addOne]; rw [entryKeys_append]; simpa [entryKeys] using h.ek, h.en,
      by simp only [addOne]; rw [stringKeys_append]; simpa [stringKeys] using h.sk, h.sn⟩
  | .failed _ _ _ =>
    exact ⟨by simp only [addOne]; rw [entryKeys_append]; simpa [entryKeys] using h.ek, h.en,
      by simp only [addOne]; rw [stringKeys_append]; simpa [stringKeys] using h.sk, h.sn⟩
  | .dupField _ _ =>
    exact ⟨by simp only [addOne]; rw [entryKeys_append]; simpa [entryKeys] using h.ek, h.en,
      by simp only [addOne]; rw [stringKeys_append]; simpa [stringKeys] using h.sk, h.sn⟩
  | .dupKey _ _ _ =>
    exact ⟨by simp only [addOne]; rw [entryKeys_append]; simpa [entryKeys] using h.ek, h.en,
      by simp only [addOne]; rw [stringKeys_append]; simpa [stringKeys] using h.sk, h.sn⟩
  | .mwError _ _ =>
    exact ⟨by simp only [addOne]; rw [entryKeys_append]; simpa [entryKeys] using h.ek, h.en,
      by simp only [addOne]; rw [stringKeys_append]; simpa [stringKeys] using h.sk, h.sn⟩

theorem foldl_addOne_linv (bs : List Block) : ∀ L, LInv L → LInv (bs.foldl addOne L) := by
  induction bs with
  | nil => intro L h; exact h
  | cons b r ih => intro L h; exact ih _ (addOne_linv L b h)

/-- the live entries (and the live @strings) of a library built by `Library.add` have pairwise
distinct keys -/
theorem addAll_keys_nodup (bs : List Block) :
    (entryKeys (addAll bs).blocks).Nodup ∧ (stringKeys (addAll bs).blocks).Nodup := by
  have h := foldl_addOne_linv bs Lib.empty ⟨rfl, List.nodup_nil, rfl, List.nodup_nil⟩
  exact ⟨by rw [show (addAll bs).blocks = (bs.foldl addOne Lib.empty).blocks from rfl, h.ek]; exact h.en,
    by rw [show (addAll bs).blocks = (bs.foldl addOne Lib.empty).blocks from rfl, h.sk]; exact h.sn⟩

/-- one `Library.add`: the appended block is the given one or a duplicate-key wrapper around a
block that is not an implicit comment -/
theorem addOne_shape (L : Lib) (b : Block) :
    ∃ b', (addOne L b).blocks = L.blocks ++ [b'] ∧ isImpl b' = isImpl b ∧ (b' = b ∨ ∃ k p d, b' = .dupKey k p d) := by
  match b with
  | .live (.entry e) =>
    simp only [addOne]
    split
    · exact ⟨_, rfl, rfl, Or.inr ⟨_, _, _, rfl⟩⟩
    · exact ⟨_, rfl, rfl, Or.inl rfl⟩
  | .live (.string k v l r m) =>
    simp only [addOne]
    split
    · exact ⟨_, rfl, rfl, Or.inr ⟨_, _, _, rfl⟩⟩
    · exact ⟨_, rfl, rfl, Or.inl rfl⟩
  | .live (.preamble _ _ _ _) => exact ⟨_, rfl, rfl, Or.inl rfl⟩
  | .live (.expl _ _ _ _) => exact ⟨_, rfl, rfl, Or.inl rfl⟩
  | .live (.impl _ _ _ _) => exact ⟨_, rfl, rfl, Or.inl rfl⟩
  | .failed _ _ _ => exact ⟨_, rfl, rfl, Or.inl rfl⟩
  | .dupField _ _ => exact ⟨_, rfl, rfl, Or.inl rfl⟩
  | .dupKey _ _ _ => exact ⟨_, rfl, rfl, Or.inl rfl⟩
  | .mwError _ _ => exact ⟨_, rfl, rfl, Or.inl rfl⟩

/-- the property of block lists the parse stack maintains -/
def Q (P : PyChars) (bs : List Block) : Prop := (∀ b ∈ bs, BInv P b) ∧ NoAdjImpl bs

theorem foldl_addOne_Q (bs : List Block) : ∀ (L : Lib),
    (∀ x ∈ (bs.foldl addOne L).blocks, x ∈ L.blocks ∨ x ∈ bs ∨ ∃ k p d, x = Block.dupKey k p d) ∧
    ((bs.foldl addOne L).blocks).map isImpl = L.blocks.map isImpl ++ bs.map isImpl := by
  induction bs with
  | nil => intro L; exact ⟨fun x hx => Or.inl hx, by simp⟩
  | cons b r ih =>
    intro L
    obtain ⟨b', hb', himpl, hshape⟩ := addOne_shape L b
    obtain ⟨h1, h2⟩ := ih (addOne L b)
    rw [List.foldl_cons]
    refine ⟨?_, ?_⟩
    · intro x hx
      rcases h1 x hx with h | h | h
      · rw [hb'] at h
        rcases List.mem_append.mp h with h | h
        · exact Or.inl h
        · simp only [List.mem_singleton] at h; subst h
          rcases hshape with rfl | hd
          · exact Or.inr (Or.inl List.mem_cons_self)
          · exact Or.inr (Or.inr hd)
      · exact Or.inr (Or.inl (List.mem_cons_of_mem _ h))
      · exact Or.inr (Or.inr h)
    · rw [h2, hb']; simp [himpl]

theorem addAll_Q (bs : List Block) (h : Q P bs) : Q P (addAll bs).blocks := by
  obtain ⟨h1, h2⟩ := foldl_addOne_Q bs Lib.empty
  refine ⟨?_, ?_⟩
  · intro x hx
    rcases h1 x hx with hh | hh | ⟨k, p, d, rfl⟩
    · cases hh
    · exact h.1 x hh
    · trivial
  · rw [noAdj_iff_B, show (addAll bs).blocks = (bs.foldl addOne Lib.empty).blocks from rfl, h2]
    simpa [Lib.empty] using (noAdj_iff_B bs).mp h.2

/-! ### string resolution and enclosing removal keep keys and classes -/

theorem resolveFields_keys (strings : List (Str × Live)) (fs : List Field) :
    (resolveFields strings fs).1.map (·.key) = fs.map (·.key) := by
  rw [resolveFields_fst, List.map_map]
  apply List.map_congr_left
  intro f _
  simp only [Function.comp, resolveField]
  split <;> rfl

theorem fsOK_of_keys {fs fs' : List Field} (hk : fs'.map (·.key) = fs.map (·.key)) (h : FsOK P fs) : FsOK P fs' := by
  intro f hf
  have : f.key ∈ fs.map (·.key) := by rw [← hk]; exact List.mem_map_of_mem hf
  obtain ⟨g, hg, hgk⟩ := List.mem_map.mp this
  have := h g hg
  rw [hgk] at this; exact this

theorem resolveBlock_Q (strings : List (Str × Live)) (b : Block) (h : BInv P b) :
    BInv P (resolveBlock strings b) ∧ isImpl (resolveBlock strings b) = isImpl b := by
  match b, h with
  | .live (.entry e), h =>
    have hk := resolveFields_keys strings e.fields
    exact ⟨⟨h.1, h.2.1, fsOK_of_keys hk h.2.2.1, by simp only [resolveBlock, resolveEntry]; rw [hk]; exact h.2.2.2⟩, rfl⟩
  | .live (.string _ _ _ _ _), h => exact ⟨h, rfl⟩
  | .live (.preamble _ _ _ _), h => exact ⟨h, rfl⟩
  | .live (.expl _ _ _ _), h => exact ⟨h, rfl⟩
  | .live (.impl _ _ _ _), h => exact ⟨h, rfl⟩
  | .failed _ _ _, _ => exact ⟨trivial, rfl⟩
  | .dupField _ _, _ => exact ⟨trivial, rfl⟩
  | .dupKey _ p _, _ => cases p <;> exact ⟨trivial, rfl⟩
  | .mwError _ _, _ => exact ⟨trivial, rfl⟩

theorem transform_Q (L : Lib) (h : Q P L.blocks) : Q P (transform L).blocks := by
  refine ⟨?_, ?_⟩
  · intro x hx
    simp only [transform, List.mem_map] at hx
    obtain ⟨b, hb, rfl⟩ := hx
    exact (resolveBlock_Q _ b (h.1 b hb)).1
  · rw [noAdj_iff_B]
    have : (transform L).blocks.map isImpl = L.blocks.map isImpl := by
      simp only [transform, List.map_map]
      apply List.map_congr_left
      intro b hb
      exact (resolveBlock_Q (P := P) _ b (h.1 b hb)).2
    rw [this]; exact (noAdj_iff_B _).mp h.2

theorem removeFields_keys (fs : List Field) : ∀ (md : List (Str × Str)) (fs' : List Field) (md' : List (Str × Str)),
    removeFields P fs md = .ok (fs', md') → fs'.map (·.key) = fs.map (·.key) := by
  induction fs with
  | nil => intro md fs' md' h; simp [removeFields] at h; rw [h.1]
  | cons f r ih =>
    intro md fs' md' h
    simp only [removeFields] at h
    split at h
    · rename_i s hs
      split at h
      · rename_i fs2 md2 hr
        injection h with h; injection h with h1 h2; subst h1
        simp [ih _ _ _ hr]
      · cases h
    · cases h

theorem mapBlock_remove_Q (b b' : Block) (h : BInv P b) (hm : mapBlock true (removeLive P) b = .ok b') :
    BInv P b' ∧ isImpl b' = isImpl b := by
  match b, h with
  | .live (.entry e), h =>
    simp only [mapBlock, removeLive, removeEntry] at hm
    cases hr : removeFields P e.fields [] with
    | error err => simp [hr] at hm
    | ok res =>
      obtain ⟨fs', md'⟩ := res
      simp only [hr] at hm
      injection hm with hm; subst hm
      have hk := removeFields_keys e.fields [] fs' md' hr
      exact ⟨⟨h.1, h.2.1, fsOK_of_keys hk h.2.2.1, by simp only; rw [hk]; exact h.2.2.2⟩, rfl⟩
  | .live (.string k v l r m), h =>
    cases v <;> simp [mapBlock, removeLive] at hm
    subst hm; exact ⟨h, rfl⟩
  | .live (.preamble _ _ _ _), h => simp only [mapBlock, removeLive] at hm; injection hm with hm; subst hm; exact ⟨h, rfl⟩
  | .live (.expl _ _ _ _), h => simp only [mapBlock, removeLive] at hm; injection hm with hm; subst hm; exact ⟨h, rfl⟩
  | .live (.impl _ _ _ _), h => simp only [mapBlock, removeLive] at hm; injection hm with hm; subst hm; exact ⟨h, rfl⟩
  | .failed _ _ _, _ => simp only [mapBlock] at hm; injection hm with hm; subst hm; exact ⟨trivial, rfl⟩
  | .dupField _ _, _ => simp only [mapBlock] at hm; injection hm with hm; subst hm; exact ⟨trivial, rfl⟩
  | .dupKey _ p _, _ =>
    simp only [mapBlock, ↓reduceIte] at hm
    split at hm
    · injection hm with hm; subst hm; exact ⟨trivial, rfl⟩
    · cases hm
  | .mwError _ _, _ => simp only [mapBlock] at hm; injection hm with hm; subst hm; exact ⟨trivial, rfl⟩

theorem removeLib_Q (bs bs' : List Block) (h : Q P bs) (hm : removeLib P true bs = .ok bs') : Q P bs' := by
  have key : ∀ (bs bs' : List Block), (∀ b ∈ bs, BInv P b) → mapBlocks true (removeLive P) bs = .ok bs' →
      (∀ b ∈ bs', BInv P b) ∧ bs'.map isImpl = bs.map isImpl := by
    intro bs
    induction bs with
    | nil => intro bs' _ hm; simp [mapBlocks] at hm; subst hm; exact ⟨(by intro b hb; cases hb), rfl⟩
    | cons b r ih =>
      intro bs' hb hm
      simp only [mapBlocks] at hm
      cases h1 : mapBlock true (removeLive P) b with
      | error e => simp [h1] at hm
      | ok b1 =>
        cases h2 : mapBlocks true (removeLive P) r with
        | error e => simp [h1, h2] at hm
        | ok r1 =>
          simp only [h1, h2] at hm
          injection hm with hm; subst hm
          obtain ⟨i1, i2⟩ := ih r1 (fun x hx => hb x (List.mem_cons_of_mem _ hx)) h2
          obtain ⟨j1, j2⟩ := mapBlock_remove_Q b b1 (hb b List.mem_cons_self) h1
          refine ⟨?_, by simp [j2, i2]⟩
          intro x hx
          rcases List.mem_cons.mp hx with rfl | hx
          · exact j1
          · exact i1 x hx
  obtain ⟨k1, k2⟩ := key bs bs' h.1 hm
  exact ⟨k1, by rw [noAdj_iff_B, k2]; exact (noAdj_iff_B _).mp h.2⟩

/-! ### every parsed library -/

/-- what holds of the library `parse_string` returns, whatever the text -/
theorem parsed_inv (s : Str) (L : List Block) (h : parseDefault P s = .ok L) :
    Q P L ∧ (entryKeys L).Nodup ∧ (stringKeys L).Nodup ∧ StrBlocks L ∧ MdBlocks L := by
  obtain ⟨hstr, hmd⟩ := parseDefault_writable P s L h
  simp only [parseDefault, defaultParse] at h
  cases h0 : split P s with
  | error e => simp [h0, Except.map] at h
  | ok b0 =>
    simp only [h0] at h
    cases h1 : removeLib P true (transform (addAll b0)).blocks with
    | error e => simp [h1, Except.map] at h
    | ok b1 =>
      simp only [h1, Except.map] at h
      injection h with h; subst h
      have q0 : Q P b0 := ⟨split_binv P s b0 h0, split_noAdj P s b0 h0⟩
      have q1 := removeLib_Q _ b1 (transform_Q _ (addAll_Q b0 q0)) h1
      exact ⟨addAll_Q b1 q1, (addAll_keys_nodup b1).1, (addAll_keys_nodup b1).2, hstr, hmd⟩

/-- **parsed ⇒ writable**: a library returned by `parse_string` whose blocks pass the content side
conditions is writable -/
theorem parsed_writable_lemma (hw : P.isWord '}' = false) (s : Str) (L : List Block)
    (h : parseDefault P s = .ok L) (hside : ∀ b ∈ L, SideOK P b) : Writable P L := by
  obtain ⟨⟨hb, hadj⟩, hek, hsk, hstr, hmd⟩ := parsed_inv s L h
  refine ⟨?_, hek, hsk, hadj⟩
  intro b hbL
  have hB := hb b hbL
  have hS := hside b hbL
  have hStr := hstr b hbL
  match b, hB, hS, hStr with
  | .live (.entry e), hB, hS, hStr =>
    obtain ⟨s1, s2, s3, s4, s5, s6, s7⟩ := hS
    refine ⟨s1, s2, hB.1, s3, s4, s5, s6, hB.2.1, ?_, hB.2.2.2, hmd _ hbL⟩
    intro f hf
    obtain ⟨v, hv⟩ := hStr f hf
    exact ⟨(s7 f hf).1, hB.2.2.1 f hf, v, hv, encVal_of_lex hw v ((s7 f hf).2 v hv).1 ((s7 f hf).2 v hv).2⟩
  | .live (.string k v l r m), hB, hS, hStr =>
    obtain ⟨sv, rfl⟩ := hStr
    exact ⟨hS.1, hB, sv, rfl, encBal_of_lex hw sv (hS.2 sv rfl).1 (hS.2 sv rfl).2⟩
  | .live (.preamble v l r m), _, hS, _ => exact cleanVal_of_lex hw v hS.1 hS.2
  | .live (.expl c l r m), hB, hS, _ => exact ⟨cleanVal_of_lex hw c hS.1 hS.2, hB⟩
  | .live (.impl c l r m), hB, hS, _ => exact ⟨hB.1, hB.2, hS⟩

/-! ### the side conditions only depend on the content -/

def SideOKC (P : PyChars) : Content → Prop
  | .entry ty k fs =>
    (∀ c ∈ ty, P.isWord c = true) ∧ lower P ty = ty ∧
    startsWith "comment".toList ty = false ∧ startsWith "preamble".toList ty = false ∧
    startsWith "string".toList ty = false ∧ KeyOK P k ∧
    ∀ kv ∈ fs, KeyOK P kv.1 ∧ ∀ v, kv.2 = .str v → ValueOK P v
  | .string k v => KeyOK P k ∧ ∀ s, v = .str s → StrValOK P s
  | .preamble v => TextOK P v
  | .expl c => TextOK P c
  | .impl c => noStart P c = true
  | .failed _ => False

theorem sideOK_iff (b : Block) : SideOK P b ↔ SideOKC P (contentOf b) := by
  match b with
  | .live (.entry e) =>
    simp only [SideOK, contentOf, SideOKC]
    constructor
    · rintro ⟨h1, h2, h3, h4, h5, h6, h7⟩
      refine ⟨h1, h2, h3, h4, h5, h6, ?_⟩
      intro kv hkv
      obtain ⟨f, hf, rfl⟩ := List.mem_map.mp hkv
      exact h7 f hf
    · rintro ⟨h1, h2, h3, h4, h5, h6, h7⟩
      exact ⟨h1, h2, h3, h4, h5, h6, fun f hf => h7 (f.key, f.value) (List.mem_map.mpr ⟨f, hf, rfl⟩)⟩
  | .live (.string _ _ _ _ _) => exact Iff.rfl
  | .live (.preamble _ _ _ _) => exact Iff.rfl
  | .live (.expl _ _ _ _) => exact Iff.rfl
  | .live (.impl _ _ _ _) => exact Iff.rfl
  | .failed _ _ _ => exact Iff.rfl
  | .dupField _ _ => exact Iff.rfl
  | .dupKey _ _ _ => exact Iff.rfl
  | .mwError _ _ => exact Iff.rfl

theorem sideOK_congr (L L' : List Block) (hc : L'.map contentOf = L.map contentOf)
    (h : ∀ b ∈ L, SideOK P b) : ∀ b ∈ L', SideOK P b := by
  intro x hx
  have hmem : contentOf x ∈ L.map contentOf := by rw [← hc]; exact List.mem_map_of_mem hx
  obtain ⟨b, hb, hbx⟩ := List.mem_map.mp hmem
  rw [sideOK_iff, ← hbx, ← sideOK_iff]; exact h b hb

/-- a balanced value is in particular a good field value -/
theorem valueOK_of_textOK (hw : P.isWord '}' = false) (v : Str) (h : TextOK P v) : ValueOK P v := by
  refine ⟨?_, h.2⟩
  rw [lex_delim P '{' .lbrace _ (by decide), Reparse.lexFrom_append_rbrace P hw [] false v h.2]
  have := IsValue.braced ['{'] ['}'] (lexFrom P false v) [] h.1 IsValue.nil
  simpa [lexFrom] using this

theorem strValOK_of_textOK (hw : P.isWord '}' = false) (v : Str) (h : TextOK P v) : StrValOK P v := by
  refine ⟨?_, h.2⟩
  rw [lex_delim P '{' .lbrace _ (by decide), Reparse.lexFrom_append_rbrace P hw [] false v h.2]
  have := IsBal.grp ['{'] ['}'] (lexFrom P false v) [] h.1 IsBal.nil
  simpa [lexFrom] using this

/-- the tokens of the nested-brace value `x{y{z}}` -/
theorem lex_nested : lexFrom P false "x{y{z}}".toList =
    [.text ['x'], LB, .text ['y'], LB, .text ['z'], RB, RB] := by
  have hx : SimpleText ['x'] := by intro c hc; simp at hc; subst hc; decide
  have hy : SimpleText ['y'] := by intro c hc; simp at hc; subst hc; decide
  have hz : SimpleText ['z'] := by intro c hc; simp at hc; subst hc; decide
  show lexFrom P false (['x'] ++ '{' :: (['y'] ++ '{' :: (['z'] ++ '}' :: '}' :: []))) = _
  rw [lex_simple_delim P false ['x'] '{' .lbrace _ hx (by simp) (by decide),
    lex_simple_delim P false ['y'] '{' .lbrace _ hy (by simp) (by decide),
    lex_simple_delim P false ['z'] '}' .rbrace _ hz (by simp) (by decide),
    lex_delim P '}' .rbrace _ (by decide)]
  simp [lexFrom, LB, RB]

theorem textOK_nested : TextOK P "x{y{z}}".toList := by
  refine ⟨?_, by decide⟩
  rw [lex_nested]
  have h3 : IsBal [Tok.text ['z']] := IsBal.plain _ _ rfl IsBal.nil
  have h2 : IsBal [Tok.text ['y'], LB, .text ['z'], RB] :=
    IsBal.plain _ _ rfl (by simpa [LB, RB] using IsBal.grp ['{'] ['}'] [Tok.text ['z']] [] h3 IsBal.nil)
  exact IsBal.plain _ _ rfl
    (by simpa [LB, RB] using IsBal.grp ['{'] ['}'] [Tok.text ['y'], LB, .text ['z'], RB] [] h2 IsBal.nil)

theorem textOK_simple (v : Str) (hs : SimpleText v) : TextOK P v := by
  by_cases hne : v = []
  · subst hne; exact ⟨by simp [lexFrom]; exact IsBal.nil, by decide⟩
  · refine ⟨by rw [lex_simple_end P false v hs hne]; exact IsBal.plain _ _ rfl IsBal.nil, ?_⟩
    unfold Reparse.endBS
    rw [List.getLast?_eq_some_getLast hne]
    have := (simpleChar_spec (hs _ (List.getLast_mem hne))).2.2
    simp [this]

theorem valueOK_concat : ValueOK P "A} # {B".toList := by
  refine ⟨?_, by decide⟩
  have h := lex_concat (P := P) []
  have hnil : lexFrom P false [] = [] := by simp [lexFrom]
  rw [hnil, List.append_nil] at h
  rw [h]; exact isValue_concatToks

theorem valueOK_adj : ValueOK P "a}{b".toList := by
  refine ⟨?_, by decide⟩
  have h := lex_adj (P := P) []
  have hnil : lexFrom P false [] = [] := by simp [lexFrom]
  rw [hnil, List.append_nil] at h
  rw [h]; exact isValue_adjToks

theorem strValOK_adj : StrValOK P "a}{b".toList := by
  refine ⟨?_, by decide⟩
  have h := lex_adj (P := P) []
  have hnil : lexFrom P false [] = [] := by simp [lexFrom]
  rw [hnil, List.append_nil] at h
  rw [h]; exact isBal_adjToks

end Bib.PrintParse
