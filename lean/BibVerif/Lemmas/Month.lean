/-
  Helper lemmas for C15 (month middlewares).  Property statements are in Props/C15.lean.
-/
import BibVerif.Month
import BibVerif.Lemmas.MwCommon
namespace Bib.Month
open Bib

/-- What the proofs need to know about CPython's Unicode behaviour (each field is checked against the
running interpreter over all code points by `harness/props/c15.py: extra_obligations`). -/
structure MonthOK (P : PyChars) : Prop where
  /-- `str.lower` of an ASCII character is its ASCII lower case -/
  asciiLower : ∀ c : Char, c.toNat < 128 → P.lowerC c = [c.toLower]
  /-- an ASCII character is a digit character iff it is `0`..`9` -/
  asciiDigit : ∀ c : Char, c.toNat < 128 → P.isDigit c = c.isDigit
  /-- digit characters are caseless -/
  digitCaseless : ∀ c : Char, P.isDigit c = true → P.lowerC c = [c]

theorem asciiChars_ok : MonthOK asciiChars where
  asciiLower := by intro c _; rfl
  asciiDigit := by intro c _; rfl
  digitCaseless := by
    intro c h
    have hd : c.isDigit = true := h
    show [c.toLower] = [c]
    have : c.toLower = c := by
      unfold Char.toLower
      unfold Char.isDigit at hd
      simp only [Bool.and_eq_true, decide_eq_true_eq] at hd
      have h1 : ¬ (65 ≤ c.val ∧ c.val ≤ 90) := by
        intro ⟨h, _⟩
        have a := hd.2
        have : c.val ≤ 57 := a
        have h' : (65 : UInt32) ≤ c.val := h
        have := UInt32.le_trans h' this
        exact absurd this (by decide)
      exact dif_neg h1
    rw [this]

variable {P : PyChars} {D : Nat}

@[simp] theorem pure_ok {ε α} (a : α) : (pure a : Except ε α) = Except.ok a := rfl
@[simp] theorem throw_err {ε α} (e : ε) : (throw e : Except ε α) = Except.error e := rfl
@[simp] theorem bind_ok {ε α β} (a : α) (f : α → Except ε β) : (Except.ok a >>= f) = f a := rfl
@[simp] theorem bind_err {ε α β} (e : ε) (f : α → Except ε β) : (Except.error e >>= f) = Except.error e := rfl

/-! ### finite checks over a list by `decide` -/

theorem getElem?_all {α} {l : List α} {p : Nat → α → Bool}
    (h : ((List.range l.length).all fun i => match l[i]? with | some a => p i a | none => true) = true) :
    ∀ i a, l[i]? = some a → p i a = true := by
  intro i a hia
  have hi : i < l.length := (List.getElem?_eq_some_iff.mp hia).1
  have := List.all_eq_true.mp h i (List.mem_range.mpr hi)
  simpa [hia] using this

/-- `_LOWERCASE_FULL` computed with ASCII lower-casing -/
def lowerFullsC : List Str := fulls.map (·.map Char.toLower)

theorem lower_ascii (hP : MonthOK P) (s : Str) (hs : ∀ c ∈ s, c.toNat < 128) :
    lower P s = s.map Char.toLower := by
  induction s with
  | nil => rfl
  | cons c r ih =>
    have hc := hP.asciiLower c (hs c (by simp))
    have := ih (fun x hx => hs x (by simp [hx]))
    simp only [lower] at this ⊢
    simp [List.flatMap_cons, hc, this]

theorem lowerFulls_eq (hP : MonthOK P) : lowerFulls P = lowerFullsC := by
  unfold lowerFulls lowerFullsC
  apply List.map_congr_left
  intro f hf
  exact lower_ascii hP f ((by decide : ∀ f ∈ fulls, ∀ c ∈ f, c.toNat < 128) f hf)

theorem lower_abbr (hP : MonthOK P) {a : Str} (ha : a ∈ abbrs) : lower P a = a := by
  rw [lower_ascii hP a ((by decide : ∀ f ∈ abbrs, ∀ c ∈ f, c.toNat < 128) a ha)]
  exact (by decide : ∀ f ∈ abbrs, f.map Char.toLower = f) a ha

theorem lower_full (hP : MonthOK P) {f : Str} (hf : f ∈ fulls) : lower P f = f.map Char.toLower :=
  lower_ascii hP f ((by decide : ∀ f ∈ fulls, ∀ c ∈ f, c.toNat < 128) f hf)

/-- a digit string lower-cases to itself -/
theorem lower_digits (hP : MonthOK P) {s : Str} (h : s.all P.isDigit = true) : lower P s = s := by
  induction s with
  | nil => rfl
  | cons c r ih =>
    simp only [List.all_cons, Bool.and_eq_true] at h
    have hc := hP.digitCaseless c h.1
    have := ih h.2
    simp only [lower] at this ⊢
    simp [List.flatMap_cons, hc, this]

/-- month names start with an ASCII letter, which is not a digit character -/
theorem not_digitStr_of_name (hP : MonthOK P) {s : Str} (hs : s ∈ abbrs ∨ s ∈ lowerFullsC) :
    isDigitStr P s = false := by
  have key : ∀ t, t ∈ abbrs ∨ t ∈ lowerFullsC → ∃ c r, t = c :: r ∧ c.toNat < 128 ∧ c.isDigit = false := by
    intro t ht
    have hmem : t ∈ abbrs ++ lowerFullsC := List.mem_append.mpr ht
    have hd := (by decide : ∀ t ∈ abbrs ++ lowerFullsC,
      (match t with | c :: _ => decide (c.toNat < 128) && !c.isDigit | [] => false) = true) t hmem
    cases t with
    | nil => cases hd
    | cons c r =>
      simp only [Bool.and_eq_true, decide_eq_true_eq, Bool.not_eq_true'] at hd
      exact ⟨c, r, rfl, hd.1, hd.2⟩
  obtain ⟨c, r, rfl, hc, hd⟩ := key s hs
  have := hP.asciiDigit c hc
  simp [isDigitStr, this, hd]

theorem digitStr_not_name (hP : MonthOK P) {s : Str} (h : isDigitStr P s = true) :
    lower P s = s ∧ s ∉ abbrs ∧ s ∉ lowerFulls P := by
  have hall : s.all P.isDigit = true := by
    simp only [isDigitStr, Bool.and_eq_true] at h; exact h.2
  refine ⟨lower_digits hP hall, ?_, ?_⟩
  · intro hm
    have := not_digitStr_of_name hP (Or.inl hm)
    rw [h] at this; cases this
  · intro hm
    rw [lowerFulls_eq hP] at hm
    have := not_digitStr_of_name hP (Or.inr hm)
    rw [h] at this; cases this

/-! ### facts about the regenerated table, each by evaluation -/

theorem len_abbrs : abbrs.length = 12 := by decide
theorem len_fulls : fulls.length = 12 := by decide
theorem len_lowerFullsC : lowerFullsC.length = 12 := by decide

theorem abbr_take (i : Nat) (a : Str) (h : abbrs[i]? = some a) : a.take 3 = a :=
  of_decide_eq_true (getElem?_all (l := abbrs) (p := fun _ a => decide (a.take 3 = a)) (by decide) i a h)

theorem abbr_idx (i : Nat) (a : Str) (h : abbrs[i]? = some a) : abbrs.idxOf? a = some i :=
  of_decide_eq_true (getElem?_all (l := abbrs) (p := fun i a => decide (abbrs.idxOf? a = some i)) (by decide) i a h)

theorem abbr_lookup (i : Nat) (a : Str) (h : abbrs[i]? = some a) : Generated.months.lookup a = fulls[i]? ∧ (fulls[i]?).isSome :=
  of_decide_eq_true (getElem?_all (l := abbrs)
    (p := fun i a => decide (Generated.months.lookup a = fulls[i]? ∧ (fulls[i]?).isSome)) (by decide) i a h)

theorem full_idx (i : Nat) (f : Str) (h : lowerFullsC[i]? = some f) : lowerFullsC.idxOf? f = some i :=
  of_decide_eq_true (getElem?_all (l := lowerFullsC) (p := fun i f => decide (lowerFullsC.idxOf? f = some i)) (by decide) i f h)

/-- the first three letters of a lower-cased full name are the abbreviation of the same month -/
theorem full_take (i : Nat) (f : Str) (h : lowerFullsC[i]? = some f) : abbrs[i]? = some (f.take 3) :=
  of_decide_eq_true (getElem?_all (l := lowerFullsC) (p := fun i f => decide (abbrs[i]? = some (f.take 3))) (by decide) i f h)

/-- a lower-cased full name that is also an abbreviation (`may`) is the abbreviation of the same month -/
theorem full_in_abbrs (i : Nat) (f : Str) (h : lowerFullsC[i]? = some f) (hm : f ∈ abbrs) : abbrs[i]? = some f :=
  (of_decide_eq_true (getElem?_all (l := lowerFullsC) (p := fun i f => decide (f ∈ abbrs → abbrs[i]? = some f)) (by decide) i f h)) hm

/-- an abbreviation that is also a lower-cased full name is the full name of the same month -/
theorem abbr_in_fulls (i : Nat) (a : Str) (h : abbrs[i]? = some a) (hm : a ∈ lowerFullsC) : lowerFullsC[i]? = some a :=
  (of_decide_eq_true (getElem?_all (l := abbrs) (p := fun i a => decide (a ∈ lowerFullsC → lowerFullsC[i]? = some a)) (by decide) i a h)) hm

theorem fulls_lower (i : Nat) : lowerFullsC[i]? = (fulls[i]?).map (·.map Char.toLower) := by
  simp [lowerFullsC, List.getElem?_map]

theorem exists_abbr {i : Nat} (h : i < 12) : ∃ a, abbrs[i]? = some a :=
  ⟨abbrs[i]'(by rw [len_abbrs]; exact h), List.getElem?_eq_getElem _⟩
theorem exists_full {i : Nat} (h : i < 12) : ∃ a, fulls[i]? = some a :=
  ⟨fulls[i]'(by rw [len_fulls]; exact h), List.getElem?_eq_getElem _⟩
theorem lt_of_abbr {i : Nat} {a : Str} (h : abbrs[i]? = some a) : i < 12 := by
  have := (List.getElem?_eq_some_iff.mp h).1; rwa [len_abbrs] at this
theorem lt_of_lfull {i : Nat} {a : Str} (h : lowerFullsC[i]? = some a) : i < 12 := by
  have := (List.getElem?_eq_some_iff.mp h).1; rwa [len_lowerFullsC] at this

/-! ### spellings of a month -/

/-- `v` is an unenclosed spelling of month `m` (1-based): the int; a string with `isdigit()` that
`int()` reads as `m` (leading zeros, non-ASCII decimals); a string whose `lower()` is the
abbreviation; a string whose `lower()` is the lower-cased full name. -/
inductive Spelling (P : PyChars) (D : Nat) (m : Nat) : Val → Prop
  | int : Spelling P D m (.int (m : Int))
  | digits (s : Str) : isDigitStr P s = true → pyInt P D s = some m → Spelling P D m (.str s)
  | abbr (s : Str) : abbrs[m - 1]? = some (lower P s) → Spelling P D m (.str s)
  | full (s : Str) : (lowerFulls P)[m - 1]? = some (lower P s) → Spelling P D m (.str s)

/-- what month `m` looks like after each middleware -/
def canon (k : Kind) (m : Nat) : Option Val :=
  match k with
  | .toInt => some (.int (m : Int))
  | .toAbbr => (abbrs[m - 1]?).map .str
  | .toLong => (fulls[m - 1]?).map .str

theorem digitsToInt_int (i : Int) : digitsToInt P D (.int i) = .int i := rfl

theorem digitsToInt_digits {s : Str} {n : Nat} (h1 : isDigitStr P s = true) (h2 : pyInt P D s = some n) :
    digitsToInt P D (.str s) = .int (n : Int) := by
  simp [digitsToInt, h1, h2]

theorem digitsToInt_nondigit {s : Str} (h1 : isDigitStr P s = false) : digitsToInt P D (.str s) = .str s := by
  simp [digitsToInt, h1]

theorem digitsToInt_fail {s : Str} (h2 : pyInt P D s = none) : digitsToInt P D (.str s) = .str s := by
  simp [digitsToInt, h2]

theorem mem_abbrs_of {i : Nat} {a : Str} (h : abbrs[i]? = some a) : a ∈ abbrs := List.mem_of_getElem? h
theorem mem_lfull_of {i : Nat} {a : Str} (h : lowerFullsC[i]? = some a) : a ∈ lowerFullsC := List.mem_of_getElem? h

theorem sub_one_toNat {m : Nat} (h : 1 ≤ m) : ((m : Int) - 1).toNat = m - 1 := by omega

/-- the value part of `resolve` -/
theorem resolveVal_eq {k : Kind} {v w : Val} {msg : Str} (h : resolve P D k v = .ok (w, msg)) :
    resolveVal P D k v = .ok w := by
  simp [resolveVal, h]

/-! #### MonthIntMiddleware -/

theorem int_int (i : Int) : resolveVal P D .toInt (.int i) = .ok (.int i) := by
  simp [resolveVal, resolve, resolveInt]

theorem int_other {v : Val} (h : ∀ s, v ≠ .str s) : resolveVal P D .toInt v = .ok v := by
  cases v with
  | str s => exact absurd rfl (h s)
  | _ => simp [resolveVal, resolve, resolveInt]

theorem int_abbr (hP : MonthOK P) {s : Str} {i : Nat} (h : abbrs[i]? = some (lower P s)) :
    resolveVal P D .toInt (.str s) = .ok (.int ((i + 1 : Nat) : Int)) := by
  have hm := mem_abbrs_of h
  have ht := abbr_take i _ h
  have hi := abbr_idx i _ h
  simp [resolveVal, resolve, resolveInt, hm, ht, hi]

theorem int_full (hP : MonthOK P) {s : Str} {i : Nat} (h : (lowerFulls P)[i]? = some (lower P s)) :
    resolveVal P D .toInt (.str s) = .ok (.int ((i + 1 : Nat) : Int)) := by
  have h' := h
  rw [lowerFulls_eq hP] at h'
  by_cases hm : lower P s ∈ abbrs
  · exact int_abbr hP (full_in_abbrs i _ h' hm)
  · have hmf : lower P s ∈ lowerFulls P := List.mem_of_getElem? h
    have hi := full_idx i _ h'
    rw [← lowerFulls_eq hP] at hi
    simp [resolveVal, resolve, resolveInt, hm, hmf, hi]

theorem int_digits (hP : MonthOK P) {s : Str} (h1 : isDigitStr P s = true) :
    resolveVal P D .toInt (.str s) =
      .ok (match pyInt P D s with
           | some n => if 1 ≤ n ∧ n ≤ 12 then .int (n : Int) else .str s
           | none => .str s) := by
  obtain ⟨hl, ha, hf⟩ := digitStr_not_name hP h1
  cases hp : pyInt P D s with
  | none =>
    simp [resolveVal, resolve, resolveInt, hl, ha, hf, resolveIntDigits, digitsToInt_fail hp]
  | some n =>
    simp only [resolveVal, resolve, resolveInt, hl, ha, hf, resolveIntDigits, digitsToInt_digits h1 hp, if_false]
    by_cases hr : 1 ≤ n ∧ n ≤ 12
    · have : (1 : Int) ≤ (n : Int) ∧ (n : Int) ≤ 12 := by omega
      simp [hr, this]
    · have : ¬ ((1 : Int) ≤ (n : Int) ∧ (n : Int) ≤ 12) := by omega
      simp [hr, this]

theorem int_noname {s : Str} (h1 : isDigitStr P s = false) (ha : lower P s ∉ abbrs) (hf : lower P s ∉ lowerFulls P) :
    resolveVal P D .toInt (.str s) = .ok (.str s) := by
  simp [resolveVal, resolve, resolveInt, ha, hf, resolveIntDigits, digitsToInt_nondigit h1]

/-! #### MonthAbbreviationMiddleware -/

theorem abbr_int_in {i : Int} (h1 : 1 ≤ i) (h2 : i ≤ 12) :
    ∃ a, abbrs[(i - 1).toNat]? = some a ∧ resolveVal P D .toAbbr (.int i) = .ok (.str a) := by
  obtain ⟨a, ha⟩ := exists_abbr (i := (i - 1).toNat) (by omega)
  refine ⟨a, ha, ?_⟩
  have : ¬ (i < 1 ∨ i > 12) := by omega
  have ha2 : abbrs[i.toNat - 1]? = some a := by rw [← ha]; congr 1; omega
  simp [resolveVal, resolve, resolveAbbr, digitsToInt_int, this, ha2]

theorem abbr_int_out {i : Int} (h : i < 1 ∨ i > 12) :
    resolveVal P D .toAbbr (.int i) = .ok (.int i) := by
  simp [resolveVal, resolve, resolveAbbr, digitsToInt_int, h]

theorem abbr_digits_in {s : Str} {n : Nat} (h1 : isDigitStr P s = true) (hp : pyInt P D s = some n)
    (hr1 : 1 ≤ n) (hr2 : n ≤ 12) :
    ∃ a, abbrs[n - 1]? = some a ∧ resolveVal P D .toAbbr (.str s) = .ok (.str a) := by
  obtain ⟨a, ha⟩ := exists_abbr (i := n - 1) (by omega)
  refine ⟨a, ha, ?_⟩
  have : ¬ ((n : Int) < 1 ∨ (n : Int) > 12) := by omega
  have ha' : abbrs[((n : Int) - 1).toNat]? = some a := by rw [sub_one_toNat hr1]; exact ha
  simp [resolveVal, resolve, resolveAbbr, digitsToInt_digits h1 hp, this, ha, ha']

theorem abbr_digits_out (hP : MonthOK P) {s : Str} (h1 : isDigitStr P s = true)
    (hp : ∀ n, pyInt P D s = some n → ¬ (1 ≤ n ∧ n ≤ 12)) :
    resolveVal P D .toAbbr (.str s) = .ok (.str s) := by
  obtain ⟨hl, ha, hf⟩ := digitStr_not_name hP h1
  cases hq : pyInt P D s with
  | none => simp [resolveVal, resolve, resolveAbbr, digitsToInt_fail hq, hl, ha, hf]
  | some n =>
    have hr := hp n hq
    have : ((n : Int) < 1 ∨ (n : Int) > 12) := by omega
    simp [resolveVal, resolve, resolveAbbr, digitsToInt_digits h1 hq, this]

theorem abbr_abbr (hP : MonthOK P) {s : Str} {i : Nat} (h : abbrs[i]? = some (lower P s)) :
    resolveVal P D .toAbbr (.str s) = .ok (.str (lower P s)) := by
  have hm := mem_abbrs_of h
  have hnd : isDigitStr P s = false := by
    cases hd : isDigitStr P s with
    | false => rfl
    | true =>
      obtain ⟨hl, ha, _⟩ := digitStr_not_name hP hd
      rw [hl] at hm; exact absurd hm ha
  have ht := abbr_take i _ h
  by_cases hf : lower P s ∈ lowerFulls P
  · simp [resolveVal, resolve, resolveAbbr, digitsToInt_nondigit hnd, hf, ht]
  · by_cases hs : lower P s = s
    · rw [hs] at hf hm
      simp [resolveVal, resolve, resolveAbbr, digitsToInt_nondigit hnd, hf, hm, hs]
    · simp [resolveVal, resolve, resolveAbbr, digitsToInt_nondigit hnd, hf, hm, hs]

theorem abbr_full (hP : MonthOK P) {s : Str} {i : Nat} (h : (lowerFulls P)[i]? = some (lower P s)) :
    resolveVal P D .toAbbr (.str s) = .ok (.str ((lower P s).take 3)) ∧ abbrs[i]? = some ((lower P s).take 3) := by
  have hmf : lower P s ∈ lowerFulls P := List.mem_of_getElem? h
  have h' := h
  rw [lowerFulls_eq hP] at h'
  have hnd : isDigitStr P s = false := by
    cases hd : isDigitStr P s with
    | false => rfl
    | true =>
      obtain ⟨hl, _, hf⟩ := digitStr_not_name hP hd
      rw [hl] at hmf; exact absurd hmf hf
  refine ⟨?_, full_take i _ h'⟩
  simp [resolveVal, resolve, resolveAbbr, digitsToInt_nondigit hnd, hmf]

theorem abbr_noname {s : Str} (h1 : isDigitStr P s = false) (ha : lower P s ∉ abbrs) (hf : lower P s ∉ lowerFulls P) :
    resolveVal P D .toAbbr (.str s) = .ok (.str s) := by
  simp [resolveVal, resolve, resolveAbbr, digitsToInt_nondigit h1, ha, hf]

theorem abbr_other {v : Val} (h1 : ∀ s, v ≠ .str s) (h2 : ∀ i, v ≠ .int i) : resolveVal P D .toAbbr v = .ok v := by
  cases v with
  | str s => exact absurd rfl (h1 s)
  | int i => exact absurd rfl (h2 i)
  | _ => simp [resolveVal, resolve, resolveAbbr, digitsToInt]

/-! #### MonthLongStringMiddleware -/

theorem long_int_in {i : Int} (h1 : 1 ≤ i) (h2 : i ≤ 12) :
    ∃ a, fulls[(i - 1).toNat]? = some a ∧ resolveVal P D .toLong (.int i) = .ok (.str a) := by
  obtain ⟨a, ha⟩ := exists_full (i := (i - 1).toNat) (by omega)
  refine ⟨a, ha, ?_⟩
  have : ¬ (i < 1 ∨ i > 12) := by omega
  have ha2 : fulls[i.toNat - 1]? = some a := by rw [← ha]; congr 1; omega
  simp [resolveVal, resolve, resolveLong, digitsToInt_int, this, ha2]

theorem long_int_out {i : Int} (h : i < 1 ∨ i > 12) :
    resolveVal P D .toLong (.int i) = .ok (.int i) := by
  simp [resolveVal, resolve, resolveLong, digitsToInt_int, h]

/-- an int that `str()` refuses to print is shown by the placeholder text -/
theorem fmtInt_huge {i : Int} (hD : 0 < D) (hi : 10 ^ D ≤ i.natAbs) : fmtInt D i = tooManyDigits := by
  unfold fmtInt
  rw [if_pos ⟨hD, hi⟩]

/-- ... and the month middlewares answer with the "unknown month" message built from it -/
theorem resolve_huge (k : Kind) {i : Int} (hD : 0 < D) (hi : 10 ^ D ≤ i.natAbs) (h12 : 12 < i.natAbs) :
    resolve P D k (.int i) = .ok (.int i, match k with
      | .toInt => msgUnchanged
      | _ => msgUnknownPrefix ++ tooManyDigits) := by
  have h1 : i < 1 ∨ i > 12 := by omega
  cases k with
  | toInt => simp [resolve, resolveInt]
  | toAbbr => simp [resolve, resolveAbbr, digitsToInt_int, h1, msgUnknown, fmtInt_huge hD hi]
  | toLong => simp [resolve, resolveLong, digitsToInt_int, h1, msgUnknown, fmtInt_huge hD hi]

theorem long_digits_in {s : Str} {n : Nat} (h1 : isDigitStr P s = true) (hp : pyInt P D s = some n)
    (hr1 : 1 ≤ n) (hr2 : n ≤ 12) :
    ∃ a, fulls[n - 1]? = some a ∧ resolveVal P D .toLong (.str s) = .ok (.str a) := by
  obtain ⟨a, ha⟩ := exists_full (i := n - 1) (by omega)
  refine ⟨a, ha, ?_⟩
  have : ¬ ((n : Int) < 1 ∨ (n : Int) > 12) := by omega
  have ha' : fulls[((n : Int) - 1).toNat]? = some a := by rw [sub_one_toNat hr1]; exact ha
  simp [resolveVal, resolve, resolveLong, digitsToInt_digits h1 hp, this, ha, ha']

theorem long_digits_out (hP : MonthOK P) {s : Str} (h1 : isDigitStr P s = true)
    (hp : ∀ n, pyInt P D s = some n → ¬ (1 ≤ n ∧ n ≤ 12)) :
    resolveVal P D .toLong (.str s) = .ok (.str s) := by
  obtain ⟨hl, ha, hf⟩ := digitStr_not_name hP h1
  cases hq : pyInt P D s with
  | none => simp [resolveVal, resolve, resolveLong, digitsToInt_fail hq, hl, ha, hf]
  | some n =>
    have hr := hp n hq
    have : ((n : Int) < 1 ∨ (n : Int) > 12) := by omega
    simp [resolveVal, resolve, resolveLong, digitsToInt_digits h1 hq, this]

theorem long_abbr (hP : MonthOK P) {s : Str} {i : Nat} (h : abbrs[i]? = some (lower P s)) :
    ∃ f, fulls[i]? = some f ∧ resolveVal P D .toLong (.str s) = .ok (.str f) := by
  have hm := mem_abbrs_of h
  have hnd : isDigitStr P s = false := by
    cases hd : isDigitStr P s with
    | false => rfl
    | true =>
      obtain ⟨hl, ha, _⟩ := digitStr_not_name hP hd
      rw [hl] at hm; exact absurd hm ha
  obtain ⟨hlk, hsome⟩ := abbr_lookup i _ h
  obtain ⟨f, hf⟩ := Option.isSome_iff_exists.mp hsome
  refine ⟨f, hf, ?_⟩
  rw [hf] at hlk
  simp [resolveVal, resolve, resolveLong, digitsToInt_nondigit hnd, hm, hlk]

theorem long_full (hP : MonthOK P) {s : Str} {i : Nat} (h : (lowerFulls P)[i]? = some (lower P s)) :
    ∃ f, fulls[i]? = some f ∧ resolveVal P D .toLong (.str s) = .ok (.str f) := by
  have hmf : lower P s ∈ lowerFulls P := List.mem_of_getElem? h
  have h' := h
  rw [lowerFulls_eq hP] at h'
  by_cases hm : lower P s ∈ abbrs
  · exact long_abbr hP (full_in_abbrs i _ h' hm)
  · have hnd : isDigitStr P s = false := by
      cases hd : isDigitStr P s with
      | false => rfl
      | true =>
        obtain ⟨hl, _, hf⟩ := digitStr_not_name hP hd
        rw [hl] at hmf; exact absurd hmf hf
    have hta := full_take i _ h'
    obtain ⟨hlk, hsome⟩ := abbr_lookup i _ hta
    obtain ⟨f, hf⟩ := Option.isSome_iff_exists.mp hsome
    refine ⟨f, hf, ?_⟩
    rw [hf] at hlk
    by_cases hs : s = f
    · simp only [resolveVal, resolve, resolveLong, digitsToInt_nondigit hnd, hm, hmf, hlk]
      simp [hs]
    · simp [resolveVal, resolve, resolveLong, digitsToInt_nondigit hnd, hm, hmf, hlk, hs]

theorem long_noname {s : Str} (h1 : isDigitStr P s = false) (ha : lower P s ∉ abbrs) (hf : lower P s ∉ lowerFulls P) :
    resolveVal P D .toLong (.str s) = .ok (.str s) := by
  simp [resolveVal, resolve, resolveLong, digitsToInt_nondigit h1, ha, hf]

theorem long_other {v : Val} (h1 : ∀ s, v ≠ .str s) (h2 : ∀ i, v ≠ .int i) : resolveVal P D .toLong v = .ok v := by
  cases v with
  | str s => exact absurd rfl (h1 s)
  | int i => exact absurd rfl (h2 i)
  | _ => simp [resolveVal, resolve, resolveLong, digitsToInt]

/-! ### entry and library level -/

theorem lastMonth_none {fs : List Field} (h : lastMonth fs = none) : ∀ f ∈ fs, f.key ≠ monthKey := by
  induction fs with
  | nil => simp
  | cons f r ih =>
    unfold lastMonth at h
    split at h
    · cases h
    · rename_i hr
      split at h
      · cases h
      · rename_i hk
        intro g hg
        rcases List.mem_cons.mp hg with rfl | hg
        · exact hk
        · exact ih hr g hg

theorem lastMonth_some {fs : List Field} {f : Field} (h : lastMonth fs = some f) :
    ∃ pre post, fs = pre ++ f :: post ∧ f.key = monthKey ∧ (∀ g ∈ post, g.key ≠ monthKey) ∧
      ∀ nv, setLastMonth nv fs = pre ++ { f with value := nv } :: post := by
  induction fs with
  | nil => cases h
  | cons g r ih =>
    unfold lastMonth at h
    split at h
    · rename_i g' hr
      injection h with h; subst h
      obtain ⟨pre, post, h1, h2, h3, h4⟩ := ih hr
      refine ⟨g :: pre, post, by rw [h1]; rfl, h2, h3, ?_⟩
      intro nv
      rw [setLastMonth, hr]
      simp [h4 nv]
    · rename_i hr
      split at h
      · rename_i hk
        injection h with h; subst h
        refine ⟨[], r, rfl, hk, lastMonth_none hr, ?_⟩
        intro nv
        rw [setLastMonth, hr]
        simp [hk]
      · cases h

end Bib.Month
