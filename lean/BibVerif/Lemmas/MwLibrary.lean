/-
  `Library(blocks)` (`libraryOf`): a block list whose entry keys and string keys are unique - the
  invariant of every `Library` - is returned as it is; and whatever the blocks, the library built from
  them has unique entry keys and unique string keys.
-/
import BibVerif.MwCommon
namespace Bib

def entryKey? : Block → Option Str
  | .live (.entry e) => some e.key
  | _ => none

def stringKey? : Block → Option Str
  | .live (.string k ..) => some k
  | _ => none

def entryKeys (bs : List Block) : List Str := bs.filterMap entryKey?
def stringKeys (bs : List Block) : List Str := bs.filterMap stringKey?

/-- the invariant of `Library`: among the `Entry` blocks the keys are unique, and among the `String`
blocks (duplicates have been wrapped into `DuplicateBlockKeyBlock`s, which are neither) -/
def KeysUnique (bs : List Block) : Prop := (entryKeys bs).Nodup ∧ (stringKeys bs).Nodup

theorem KeysUnique.perm {l₁ l₂ : List Block} (h : l₁.Perm l₂) (hu : KeysUnique l₁) : KeysUnique l₂ :=
  ⟨(h.filterMap entryKey?).nodup_iff.mp hu.1, (h.filterMap stringKey?).nodup_iff.mp hu.2⟩

theorem entryKeys_concat_none {pre : List Block} {b : Block} (h : entryKey? b = none) :
    entryKeys (pre ++ [b]) = entryKeys pre := by
  simp [entryKeys, List.filterMap_append, h]

theorem entryKeys_concat_some {pre : List Block} {b : Block} {k : Str} (h : entryKey? b = some k) :
    entryKeys (pre ++ [b]) = entryKeys pre ++ [k] := by
  simp [entryKeys, List.filterMap_append, h]

theorem stringKeys_concat_none {pre : List Block} {b : Block} (h : stringKey? b = none) :
    stringKeys (pre ++ [b]) = stringKeys pre := by
  simp [stringKeys, List.filterMap_append, h]

theorem stringKeys_concat_some {pre : List Block} {b : Block} {k : Str} (h : stringKey? b = some k) :
    stringKeys (pre ++ [b]) = stringKeys pre ++ [k] := by
  simp [stringKeys, List.filterMap_append, h]

/-- what `Library.add` maintains -/
structure MwGood (st : LibSt) (pre : List Block) : Prop where
  rev : st.rev.reverse = pre
  ent : ∀ k, st.entries.lookup k = none ↔ k ∉ entryKeys pre
  str : ∀ k, st.strings.lookup k = none ↔ k ∉ stringKeys pre

theorem lookup_concat_none {β} (l : List (Str × β)) (k k' : Str) (v : β) :
    (l ++ [(k', v)]).lookup k = none ↔ l.lookup k = none ∧ k ≠ k' := by
  rw [List.lookup_append]
  cases h : l.lookup k with
  | some x => simp
  | none =>
    simp only [Option.none_or, true_and, List.lookup_cons, List.lookup_nil]
    by_cases hk : k = k'
    · subst hk; simp
    · have : (k == k') = false := by simpa using hk
      simp [this, hk]

theorem nodup_concat {l : List Str} {k : Str} (h : l.Nodup) (hk : k ∉ l) : (l ++ [k]).Nodup := by
  rw [List.nodup_append]
  refine ⟨h, by simp, ?_⟩
  intro a ha b hb
  simp only [List.mem_singleton] at hb
  subst hb
  intro e; subst e; exact hk ha

theorem good_add {st : LibSt} {pre : List Block} (h : MwGood st pre) (hu : KeysUnique pre) (b : Block) :
    ∃ b', MwGood (st.add b) (pre ++ [b']) ∧ KeysUnique (pre ++ [b']) ∧
      ((∀ k, entryKey? b = some k → k ∉ entryKeys pre) → (∀ k, stringKey? b = some k → k ∉ stringKeys pre) → b' = b) := by
  have plain : ∀ b : Block, entryKey? b = none → stringKey? b = none →
      MwGood { st with rev := b :: st.rev } (pre ++ [b]) ∧ KeysUnique (pre ++ [b]) := by
    intro b h1 h2
    refine ⟨⟨by simp [h.rev], ?_, ?_⟩, ?_, ?_⟩
    · intro k; rw [entryKeys_concat_none h1]; exact h.ent k
    · intro k; rw [stringKeys_concat_none h2]; exact h.str k
    · rw [entryKeys_concat_none h1]; exact hu.1
    · rw [stringKeys_concat_none h2]; exact hu.2
  cases b with
  | live l =>
    cases l with
    | entry e =>
      cases hl : st.entries.lookup e.key with
      | some prev =>
        have hadd : st.add (.live (.entry e)) = { st with rev := .dupKey e.key prev (.entry e) :: st.rev } := by
          simp [LibSt.add, hl]
        obtain ⟨g, u⟩ := plain (.dupKey e.key prev (.entry e)) rfl rfl
        refine ⟨_, by rw [hadd]; exact g, u, ?_⟩
        intro hfresh _
        have := (h.ent e.key).mpr (hfresh e.key rfl)
        rw [hl] at this; cases this
      | none =>
        have hadd : st.add (.live (.entry e)) =
            { st with rev := .live (.entry e) :: st.rev, entries := st.entries ++ [(e.key, .entry e)] } := by
          simp [LibSt.add, hl]
        have hfresh : e.key ∉ entryKeys pre := (h.ent e.key).mp hl
        refine ⟨.live (.entry e), ?_, ?_, fun _ _ => rfl⟩
        · rw [hadd]
          refine ⟨by simp [h.rev], ?_, ?_⟩
          · intro k
            rw [lookup_concat_none, h.ent k, entryKeys_concat_some (k := e.key) rfl]
            simp [List.mem_append]
          · intro k; rw [stringKeys_concat_none rfl]; exact h.str k
        · refine ⟨?_, ?_⟩
          · rw [entryKeys_concat_some (k := e.key) rfl]; exact nodup_concat hu.1 hfresh
          · rw [stringKeys_concat_none rfl]; exact hu.2
    | string k v ln r m =>
      cases hl : st.strings.lookup k with
      | some prev =>
        have hadd : st.add (.live (.string k v ln r m)) =
            { st with rev := .dupKey k prev (.string k v ln r m) :: st.rev } := by
          simp [LibSt.add, hl]
        obtain ⟨g, u⟩ := plain (.dupKey k prev (.string k v ln r m)) rfl rfl
        refine ⟨_, by rw [hadd]; exact g, u, ?_⟩
        intro _ hfresh
        have := (h.str k).mpr (hfresh k rfl)
        rw [hl] at this; cases this
      | none =>
        have hadd : st.add (.live (.string k v ln r m)) =
            { st with rev := .live (.string k v ln r m) :: st.rev, strings := st.strings ++ [(k, .string k v ln r m)] } := by
          simp [LibSt.add, hl]
        have hfresh : k ∉ stringKeys pre := (h.str k).mp hl
        refine ⟨.live (.string k v ln r m), ?_, ?_, fun _ _ => rfl⟩
        · rw [hadd]
          refine ⟨by simp [h.rev], ?_, ?_⟩
          · intro k'; rw [entryKeys_concat_none rfl]; exact h.ent k'
          · intro k'
            rw [lookup_concat_none, h.str k', stringKeys_concat_some (k := k) rfl]
            simp [List.mem_append]
        · refine ⟨?_, ?_⟩
          · rw [entryKeys_concat_none rfl]; exact hu.1
          · rw [stringKeys_concat_some (k := k) rfl]; exact nodup_concat hu.2 hfresh
    | preamble v ln r m =>
      obtain ⟨g, u⟩ := plain (.live (.preamble v ln r m)) rfl rfl
      exact ⟨_, g, u, fun _ _ => rfl⟩
    | expl v ln r m =>
      obtain ⟨g, u⟩ := plain (.live (.expl v ln r m)) rfl rfl
      exact ⟨_, g, u, fun _ _ => rfl⟩
    | impl v ln r m =>
      obtain ⟨g, u⟩ := plain (.live (.impl v ln r m)) rfl rfl
      exact ⟨_, g, u, fun _ _ => rfl⟩
  | failed w ln r =>
    obtain ⟨g, u⟩ := plain (.failed w ln r) rfl rfl
    exact ⟨_, g, u, fun _ _ => rfl⟩
  | dupField d e =>
    obtain ⟨g, u⟩ := plain (.dupField d e) rfl rfl
    exact ⟨_, g, u, fun _ _ => rfl⟩
  | dupKey k p d =>
    obtain ⟨g, u⟩ := plain (.dupKey k p d) rfl rfl
    exact ⟨_, g, u, fun _ _ => rfl⟩
  | mwError w i =>
    obtain ⟨g, u⟩ := plain (.mwError w i) rfl rfl
    exact ⟨_, g, u, fun _ _ => rfl⟩

theorem good_foldl : ∀ (bs : List Block) (st : LibSt) (pre : List Block), MwGood st pre → KeysUnique pre →
    ∃ out, (bs.foldl LibSt.add st).rev.reverse = pre ++ out ∧ KeysUnique (pre ++ out) ∧
      (KeysUnique (pre ++ bs) → out = bs)
  | [], st, pre, h, hu => ⟨[], by simp [h.rev], by simpa using hu, fun _ => rfl⟩
  | b :: rest, st, pre, h, hu => by
    obtain ⟨b', hg, hu', hsame⟩ := good_add h hu b
    obtain ⟨out, h1, h2, h3⟩ := good_foldl rest (st.add b) (pre ++ [b']) hg hu'
    refine ⟨b' :: out, by simpa [List.append_assoc] using h1, by simpa [List.append_assoc] using h2, ?_⟩
    intro hall
    have hb : b' = b := by
      apply hsame
      · intro k hk hmem
        have hn := hall.1
        have : entryKeys (pre ++ b :: rest) = entryKeys pre ++ k :: entryKeys rest := by
          simp [entryKeys, List.filterMap_append, List.filterMap_cons, hk]
        rw [this] at hn
        exact (List.nodup_append.mp hn).2.2 k hmem k (by simp) rfl
      · intro k hk hmem
        have hn := hall.2
        have : stringKeys (pre ++ b :: rest) = stringKeys pre ++ k :: stringKeys rest := by
          simp [stringKeys, List.filterMap_append, List.filterMap_cons, hk]
        rw [this] at hn
        exact (List.nodup_append.mp hn).2.2 k hmem k (by simp) rfl
    subst hb
    rw [h3 (by simpa [List.append_assoc] using hall)]

theorem good_init : MwGood {} [] :=
  ⟨rfl, by intro k; simp [entryKeys], by intro k; simp [stringKeys]⟩

/-- re-building a library from blocks with unique entry keys and unique string keys changes nothing -/
theorem libraryOf_of_keysUnique (bs : List Block) (h : KeysUnique bs) : libraryOf bs = bs := by
  obtain ⟨out, h1, _, h3⟩ := good_foldl bs {} [] good_init ⟨by simp [entryKeys], by simp [stringKeys]⟩
  unfold libraryOf
  rw [h1, h3 (by simpa using h)]
  rfl

/-- every library has unique entry keys and unique string keys -/
theorem keysUnique_libraryOf (bs : List Block) : KeysUnique (libraryOf bs) := by
  obtain ⟨out, h1, h2, _⟩ := good_foldl bs {} [] good_init ⟨by simp [entryKeys], by simp [stringKeys]⟩
  unfold libraryOf
  rw [h1]; exact h2

end Bib
