/-
  C08: specification vocabulary (`Inv`, `Fresh`, `Sig.Laws`, `MapEq`) and helper lemmas for the
  `Library` model.  The property statements are in `Props/C08.lean`.
-/
import BibVerif.Library
import BibVerif.Lemmas.EntryOps
set_option linter.unusedSectionVars false
namespace Bib
namespace PyDict
variable {α : Type}

theorem keys_del_sublist (d : List (Str × α)) (k : Str) : (keys (del d k)).Sublist (keys d) := by
  induction d with
  | nil => simp [del, keys]
  | cons p r ih =>
    obtain ⟨k0, v0⟩ := p
    by_cases h : k0 = k
    · simp [del, keys, h]
    · simp only [del, h, if_false, keys, List.map_cons]
      exact List.Sublist.cons_cons _ ih

theorem mem_del_iff (d : List (Str × α)) (k k' : Str) (v : α) (hn : (keys d).Nodup) :
    (k', v) ∈ del d k ↔ ((k', v) ∈ d ∧ k' ≠ k) := by
  induction d with
  | nil => simp [del]
  | cons p r ih =>
    obtain ⟨k0, v0⟩ := p
    simp only [keys, List.map_cons, List.nodup_cons] at hn
    by_cases h : k0 = k
    · subst h
      simp only [del, if_true, List.mem_cons, Prod.mk.injEq]
      constructor
      · intro hm
        refine ⟨Or.inr hm, ?_⟩
        intro hk; subst hk
        exact hn.1 (List.mem_map.mpr ⟨(k', v), hm, rfl⟩)
      · rintro ⟨h1 | h1, h2⟩
        · exact (h2 h1.1).elim
        · exact h1
    · simp only [del, h, if_false, List.mem_cons, Prod.mk.injEq]
      rw [ih (by simpa [keys] using hn.2)]
      constructor
      · rintro (⟨h1, h2⟩ | ⟨h1, h2⟩)
        · exact ⟨Or.inl ⟨h1, h2⟩, by rw [h1]; exact h⟩
        · exact ⟨Or.inr h1, h2⟩
      · rintro ⟨h1 | h1, h2⟩
        · exact Or.inl h1
        · exact Or.inr ⟨h1, h2⟩

theorem get_del_other (d : List (Str × α)) (k k' : Str) (h : k ≠ k') :
    get (del d k) k' = get d k' := by
  induction d with
  | nil => simp [del]
  | cons p r ih =>
    obtain ⟨k0, v0⟩ := p
    by_cases h0 : k0 = k
    · subst h0; simp [del, get, h]
    · by_cases h1 : k0 = k'
      · subst h1; simp [del, get, h0]
      · simp [del, get, h0, h1, ih]

theorem get_del_same (d : List (Str × α)) (k : Str) (hn : (keys d).Nodup) :
    get (del d k) k = none := by
  rw [get_eq_none_iff]
  intro hk
  simp only [keys, List.mem_map] at hk
  obtain ⟨⟨k', v⟩, hm, rfl⟩ := hk
  exact ((mem_del_iff d k' k' v hn).mp hm).2 rfl

theorem has_iff (d : List (Str × α)) (k : Str) : has d k = true ↔ k ∈ keys d := by
  unfold has
  cases h : get d k with
  | none => simp [(get_eq_none_iff d k).mp h]
  | some v =>
    simp
    have := mem_of_get d k v h
    exact List.mem_map.mpr ⟨(k, v), this, rfl⟩

/-- equality of dicts as mappings -/
def MapEq (a b : List (Str × α)) : Prop := ∀ k, get a k = get b k

theorem MapEq.refl (a : List (Str × α)) : MapEq a a := fun _ => rfl

/-- deleting a key and assigning it its old value again gives the same mapping (the pair moves to
the end) -/
theorem mapEq_set_del (d : List (Str × α)) (k : Str) (v : α)
    (hg : get d k = some v) : MapEq (set (del d k) k v) d := by
  intro k'
  by_cases h : k = k'
  · subst h; rw [get_set_same, hg]
  · rw [get_set_other _ _ _ _ h, get_del_other _ _ _ h]

end PyDict

namespace Lib
open PyDict
variable {β : Type} [DecidableEq β]

/-! ### list primitives -/

theorem listIndex_none {l : List β} {x : β} : listIndex l x = none ↔ x ∉ l := by
  induction l with
  | nil => simp [listIndex]
  | cons a r ih =>
    by_cases h : a = x
    · simp [listIndex, h]
    · have : ¬ x = a := fun e => h e.symm
      simp [listIndex, h, ih, this]

theorem listIndex_some {l : List β} {x : β} {i : Nat} (h : listIndex l x = some i) :
    ∃ pre post, l = pre ++ x :: post ∧ x ∉ pre ∧ pre.length = i := by
  induction l generalizing i with
  | nil => simp [listIndex] at h
  | cons a r ih =>
    by_cases ha : a = x
    · simp [listIndex, ha] at h
      exact ⟨[], r, by simp [ha], by simp, by simp [h]⟩
    · simp [listIndex, ha] at h
      obtain ⟨j, hj, rfl⟩ := h
      obtain ⟨pre, post, h1, h2, h3⟩ := ih hj
      refine ⟨a :: pre, post, by simp [h1], ?_, by simp [h3]⟩
      simp only [List.mem_cons, not_or]
      exact ⟨fun e => ha e.symm, h2⟩

theorem listIndex_append {pre post : List β} {x : β} (h : x ∉ pre) :
    listIndex (pre ++ x :: post) x = some pre.length := by
  induction pre with
  | nil => simp [listIndex]
  | cons a r ih =>
    simp only [List.mem_cons, not_or] at h
    have : ¬ a = x := fun e => h.1 e.symm
    simp [listIndex, this, ih h.2]

theorem erase_append_head {pre post : List β} {x : β} (h : x ∉ pre) :
    (pre ++ x :: post).erase x = pre ++ post := by
  rw [List.erase_append_right _ h]; simp

theorem listInsert_append (pre post : List β) (x : β) :
    listInsert (pre ++ post) pre.length x = pre ++ x :: post := by
  simp [listInsert]

theorem listInsert_perm (l : List β) (i : Nat) (x : β) : (listInsert l i x).Perm (x :: l) := by
  unfold listInsert
  have := @List.perm_middle _ x (l.take i) (l.drop i)
  rwa [List.take_append_drop] at this

/-! ### one index -/

/-- `idx` maps exactly the keys (`kf`) of the held blocks to those blocks, and no two held blocks
share a key -/
def IdxOK (kf : β → Option Str) (blocks : List β) (idx : List (Str × β)) : Prop :=
  (∀ k b, (k, b) ∈ idx ↔ (b ∈ blocks ∧ kf b = some k)) ∧ (keys idx).Nodup ∧
    (blocks.filterMap kf).Nodup

variable {kf : β → Option Str} {l l' : List β} {idx : List (Str × β)} {b : β} {k : Str}

theorem IdxOK.nil : IdxOK kf ([] : List β) [] := by simp [IdxOK, keys]

theorem IdxOK.perm (h : IdxOK kf l idx) (p : l.Perm l') : IdxOK kf l' idx := by
  obtain ⟨h1, h2, h3⟩ := h
  refine ⟨fun k b => ?_, h2, ?_⟩
  · rw [h1, p.mem_iff]
  · exact (List.Perm.nodup_iff (p.filterMap kf)).mp h3

theorem IdxOK.cons_none (hb : kf b = none) (h : IdxOK kf l idx) : IdxOK kf (b :: l) idx := by
  obtain ⟨h1, h2, h3⟩ := h
  refine ⟨fun k' b' => ?_, h2, by simpa [List.filterMap_cons, hb] using h3⟩
  rw [h1, List.mem_cons]
  constructor
  · rintro ⟨a, c⟩; exact ⟨Or.inr a, c⟩
  · rintro ⟨a | a, c⟩
    · subst a; rw [hb] at c; cases c
    · exact ⟨a, c⟩

theorem IdxOK.uncons_none (hb : kf b = none) (h : IdxOK kf (b :: l) idx) : IdxOK kf l idx := by
  obtain ⟨h1, h2, h3⟩ := h
  refine ⟨fun k' b' => ?_, h2, by simpa [List.filterMap_cons, hb] using h3⟩
  rw [h1, List.mem_cons]
  constructor
  · rintro ⟨a | a, c⟩
    · subst a; rw [hb] at c; cases c
    · exact ⟨a, c⟩
  · rintro ⟨a, c⟩; exact ⟨Or.inr a, c⟩

theorem IdxOK.mem_keys_iff (h : IdxOK kf l idx) : k ∈ keys idx ↔ k ∈ l.filterMap kf := by
  simp only [keys, List.mem_map, List.mem_filterMap]
  constructor
  · rintro ⟨⟨k', b'⟩, hm, rfl⟩
    exact ⟨b', (h.1 k' b').mp hm⟩
  · rintro ⟨b', hm, hk⟩
    exact ⟨(k, b'), (h.1 k b').mpr ⟨hm, hk⟩, rfl⟩

theorem IdxOK.cons_some (hb : kf b = some k) (hg : get idx k = none) (h : IdxOK kf l idx) :
    IdxOK kf (b :: l) (set idx k b) := by
  have hk : k ∉ keys idx := (get_eq_none_iff idx k).mp hg
  rw [set_of_absent idx k b hk]
  obtain ⟨h1, h2, h3⟩ := h
  refine ⟨fun k' b' => ?_, ?_, ?_⟩
  · simp only [List.mem_append, h1, List.mem_cons, List.mem_singleton, Prod.mk.injEq, List.not_mem_nil,
      or_false]
    constructor
    · rintro (⟨a, c⟩ | ⟨a, c⟩)
      · exact ⟨Or.inr a, c⟩
      · subst a; subst c; exact ⟨Or.inl rfl, hb⟩
    · rintro ⟨a | a, c⟩
      · subst a; rw [hb] at c; cases c; exact Or.inr ⟨rfl, rfl⟩
      · exact Or.inl ⟨a, c⟩
  · simp only [keys, List.map_append, List.map_cons, List.map_nil]
    refine List.nodup_append.mpr ⟨h2, by simp, ?_⟩
    intro a ha c hc
    simp at hc; subst hc
    intro e; subst e; exact hk ha
  · simp only [List.filterMap_cons, hb, List.nodup_cons]
    refine ⟨?_, h3⟩
    intro hm
    exact hk ((IdxOK.mem_keys_iff ⟨h1, h2, h3⟩).mpr hm)

theorem IdxOK.uncons_some (hb : kf b = some k) (h : IdxOK kf (b :: l) idx) :
    IdxOK kf l (del idx k) := by
  obtain ⟨h1, h2, h3⟩ := h
  simp only [List.filterMap_cons, hb, List.nodup_cons] at h3
  refine ⟨fun k' b' => ?_, h2.sublist (keys_del_sublist idx k), h3.2⟩
  rw [mem_del_iff idx k k' b' h2, h1, List.mem_cons]
  constructor
  · rintro ⟨⟨a | a, c⟩, d⟩
    · subst a; rw [hb] at c; cases c; exact (d rfl).elim
    · exact ⟨a, c⟩
  · rintro ⟨a, c⟩
    refine ⟨⟨Or.inr a, c⟩, ?_⟩
    intro e; subst e
    exact h3.1 (List.mem_filterMap.mpr ⟨b', a, c⟩)

theorem IdxOK.get_of_mem (h : IdxOK kf l idx) (hb : b ∈ l) (hk : kf b = some k) :
    get idx k = some b :=
  PyDict.get_of_mem idx k b h.2.1 ((h.1 k b).mpr ⟨hb, hk⟩)

theorem IdxOK.of_get (h : IdxOK kf l idx) (hg : get idx k = some b) : b ∈ l ∧ kf b = some k :=
  (h.1 k b).mp (mem_of_get idx k b hg)

/-- removing (the first occurrence of) a held block that has no key in this index -/
theorem IdxOK.erase_none (hm : b ∈ l) (hb : kf b = none) (h : IdxOK kf l idx) :
    IdxOK kf (l.erase b) idx :=
  (h.perm (List.perm_cons_erase hm)).uncons_none hb

/-- removing a held block together with its key -/
theorem IdxOK.erase_some (hm : b ∈ l) (hb : kf b = some k) (h : IdxOK kf l idx) :
    IdxOK kf (l.erase b) (del idx k) :=
  (h.perm (List.perm_cons_erase hm)).uncons_some hb

/-! ### the library invariant -/

variable (S : Sig β)

def ekey (b : β) : Option Str := match S.kind b with | .entry k => some k | _ => none
def skey (b : β) : Option Str := match S.kind b with | .string k => some k | _ => none

/-- **The invariant.**  `entries_dict` / `strings_dict` map exactly the keys of the held Entry /
String blocks to those blocks, and no two held entries (strings) share a key. -/
def Inv (L : Lib β) : Prop :=
  IdxOK (ekey S) L.blocks L.eidx ∧ IdxOK (skey S) L.blocks L.sidx

/-- all identity tokens in use are below the counter -/
def Fresh (L : Lib β) : Prop := ∀ b ∈ L.blocks, S.bound b ≤ L.next

/-- what the proofs need to know about a block type -/
structure Sig.Laws (S : Sig β) : Prop where
  /-- a `DuplicateBlockKeyBlock` is a `ParsingFailedBlock` -/
  wrap_failed : ∀ n k p d, S.kind (S.wrap n k p d) = .failed
  /-- a wrapper with a fresh error object equals no block made before -/
  wrap_fresh : ∀ n k p d b, S.bound b ≤ n → S.wrap n k p d ≠ b
  wrap_bound : ∀ n k p d, S.bound (S.wrap n k p d) ≤ n + 1

theorem ekey_of_kind {b : β} {k : Str} (h : S.kind b = .entry k) : ekey S b = some k ∧ skey S b = none := by
  simp [ekey, skey, h]

theorem skey_of_kind {b : β} {k : Str} (h : S.kind b = .string k) : skey S b = some k ∧ ekey S b = none := by
  simp [ekey, skey, h]

theorem keys_none_of_kind {b : β} (h1 : ∀ k, S.kind b ≠ .entry k) (h2 : ∀ k, S.kind b ≠ .string k) :
    ekey S b = none ∧ skey S b = none := by
  unfold ekey skey
  constructor
  · split
    · rename_i k hk; exact (h1 k hk).elim
    · rfl
  · split
    · rename_i k hk; exact (h2 k hk).elim
    · rfl

theorem ekey_some_iff {b : β} {k : Str} : ekey S b = some k ↔ S.kind b = .entry k := by
  unfold ekey; split <;> simp_all

theorem skey_some_iff {b : β} {k : Str} : skey S b = some k ↔ S.kind b = .string k := by
  unfold skey; split <;> simp_all

end Lib
end Bib
