/-
  Lemmas shared by the middleware properties C15 / C16 / C17: `List.mapM` in `Except`, and
  `BlockMiddleware.transform` / `Library(blocks)` (`blockMw`, `libraryOf`).
-/
import BibVerif.MwCommon
namespace Bib

/-- two lists of the same length related position by position -/
inductive Pointwise {α β} (R : α → β → Prop) : List α → List β → Prop
  | nil : Pointwise R [] []
  | cons {a b l₁ l₂} : R a b → Pointwise R l₁ l₂ → Pointwise R (a :: l₁) (b :: l₂)

theorem Pointwise.length_eq {α β} {R : α → β → Prop} {l₁ : List α} {l₂ : List β} (h : Pointwise R l₁ l₂) :
    l₁.length = l₂.length := by
  induction h with
  | nil => rfl
  | cons _ _ ih => simp [ih]

theorem Pointwise.get {α β} {R : α → β → Prop} {l₁ : List α} {l₂ : List β} (h : Pointwise R l₁ l₂) :
    ∀ (i : Nat) (a : α), l₁[i]? = some a → ∃ b, l₂[i]? = some b ∧ R a b := by
  induction h with
  | nil => intro i a h; simp at h
  | cons hr _ ih =>
    intro i a h
    cases i with
    | zero => simp at h; subst h; exact ⟨_, by simp, hr⟩
    | succ n => simp at h; simpa using ih n a h

/-- pointwise description of `List.mapM` in `Except` -/
theorem mapM_ok_pointwise {ε α β} (f : α → Except ε β) : ∀ (l : List α) (out : List β),
    l.mapM f = .ok out → Pointwise (fun a b => f a = .ok b) l out := by
  intro l
  induction l with
  | nil => intro out h; simp [List.mapM_nil] at h; cases h; exact .nil
  | cons a t ih =>
    intro out h
    rw [List.mapM_cons] at h
    cases ha : f a with
    | error e => rw [ha] at h; cases h
    | ok b =>
      rw [ha] at h
      cases ht : t.mapM f with
      | error e => rw [ht] at h; cases h
      | ok bs =>
        rw [ht] at h
        have : out = b :: bs := by cases h; rfl
        subst this
        exact .cons ha (ih bs ht)

theorem mapM_ok_of_forall {ε α β} (f : α → Except ε β) : ∀ (l : List α),
    (∀ a ∈ l, ∃ b, f a = .ok b) → ∃ out, l.mapM f = .ok out := by
  intro l
  induction l with
  | nil => intro _; exact ⟨[], by simp [List.mapM_nil]; rfl⟩
  | cons a t ih =>
    intro h
    obtain ⟨b, hb⟩ := h a (by simp)
    obtain ⟨bs, hbs⟩ := ih (fun x hx => h x (by simp [hx]))
    exact ⟨b :: bs, by rw [List.mapM_cons, hb, hbs]; rfl⟩

/-- what `BlockMiddleware.transform` does to one block -/
def MwStep {ε} (onEntry : Entry → Except ε Entry) (b b' : Block) : Prop :=
  match b with
  | .live (.entry e) => ∃ r, onEntry e = .ok r ∧ b' = .live (.entry r)
  | _ => b' = b

/-- `BlockMiddleware.transform`: the blocks are transformed one by one, in place and in order (entries
by `transform_entry`, every other block - also failed blocks - is handed on unchanged), then
`Library(...)` is built from them. -/
theorem mwBlock_step {ε} (onEntry : Entry → Except ε Entry) (b b' : Block)
    (h : mwBlock onEntry b = .ok b') : MwStep onEntry b b' := by
  unfold mwBlock at h
  unfold MwStep
  split at h
  · rename_i e
    split at h
    · rename_i r hr
      cases h; exact ⟨r, hr, rfl⟩
    · cases h
  · rename_i hne
    cases h
    split
    · rename_i e; exact absurd rfl (hne e)
    · rfl

theorem blockMw_ok {ε} (onEntry : Entry → Except ε Entry) (bs out : List Block)
    (h : blockMw onEntry bs = .ok out) :
    ∃ mid, out = libraryOf mid ∧ Pointwise (MwStep onEntry) bs mid := by
  unfold blockMw at h
  split at h
  · rename_i mid hm
    cases h
    refine ⟨mid, rfl, ?_⟩
    have hp := mapM_ok_pointwise _ bs mid hm
    clear hm
    induction hp with
    | nil => exact .nil
    | cons hab _ ih => exact .cons (mwBlock_step _ _ _ hab) ih
  · cases h

theorem blockMw_total {ε} (onEntry : Entry → Except ε Entry) (bs : List Block)
    (h : ∀ e, Block.live (.entry e) ∈ bs → ∃ r, onEntry e = .ok r) :
    ∃ out, blockMw onEntry bs = .ok out := by
  unfold blockMw
  obtain ⟨mid, hmid⟩ := mapM_ok_of_forall (mwBlock onEntry) bs (by
    intro b hb
    unfold mwBlock
    split
    · rename_i e
      obtain ⟨r, hr⟩ := h e hb
      exact ⟨.live (.entry r), by rw [hr]⟩
    · exact ⟨_, rfl⟩)
  exact ⟨libraryOf mid, by rw [hmid]⟩

end Bib
