/-
  Block-level scan lemmas: from a state between blocks, the tokens of a well-formed source block
  are consumed exactly, the expected block is emitted, and the automaton is between blocks again.
-/
import BibVerif.Grammar
namespace Bib

variable (P : PyChars)

theorem rflat_rev_append (ts acc : List Tok) : rflat (ts.reverse ++ acc) = rflat acc ++ flatten ts := by
  simp [rflat, flatten]

theorem rflat_reverse (ts : List Tok) : rflat ts.reverse = flatten ts := by simp [rflat]

theorem rflat_eq_flatten_reverse (ts : List Tok) : rflat ts = flatten ts.reverse := rfl

/-- the first scanning mode of a block, by kind -/
def firstMode : BKind × Str → Mode
  | (.comment, _) => .bracket .comment 0 []
  | (.preamble, _) => .bracket .preamble 0 []
  | (.string, _) => .strKey []
  | (.entry, ty) => .entKey ty []

/-- the state after `@type{` met between blocks -/
def opened (s : St) (impl : List Tok) (il : Int) (lit : Str) : St :=
  { out := (endImplicit P impl il).reverse ++ s.out, line := s.line, blockLine := s.line,
    raw := [LB, AT lit], mode := firstMode (classify P lit), err := none }

theorem run_at_lb (s : St) (impl : List Tok) (il : Int) (lit : Str) (he : s.err = none)
    (hm : s.mode = .top impl il) : run P s [AT lit, LB] = opened P s impl il lit := by
  cases s with
  | mk out line bl raw mode err =>
    simp only at he hm; subst he; subst hm
    simp only [run, List.foldl, AT, LB, opened, firstMode]
    generalize hc : classify P lit = c
    obtain ⟨k, ty⟩ := c
    cases k <;> simp [step, stepTop, hc]

/-- the state between blocks after a block was emitted -/
def afterBlock (s : St) (impl : List Tok) (il : Int) (b : Block) (n : Int) : St :=
  { out := b :: ((endImplicit P impl il).reverse ++ s.out), line := s.line + n, blockLine := s.line,
    raw := [], mode := .top [] (s.line + n), err := none }

theorem nlCount_LB : nlCount [LB] = 0 := by simp [nlCount, LB, isNlTok]
theorem nlCount_RB : nlCount [RB] = 0 := by simp [nlCount, RB, isNlTok]
theorem nlCount_CM : nlCount [CM] = 0 := by simp [nlCount, CM, isNlTok]
theorem nlCount_EQ : nlCount [EQ] = 0 := by simp [nlCount, EQ, isNlTok]
theorem nlCount_AT (l : Str) : nlCount [AT l] = 0 := by simp [nlCount, AT, isNlTok]

theorem nlCount_cons_LB (ts : List Tok) : nlCount (LB :: ts) = nlCount ts := by
  rw [nlCount_cons]; simp [LB, isNlTok]
theorem nlCount_cons_RB (ts : List Tok) : nlCount (RB :: ts) = nlCount ts := by
  rw [nlCount_cons]; simp [RB, isNlTok]
theorem nlCount_cons_CM (ts : List Tok) : nlCount (CM :: ts) = nlCount ts := by
  rw [nlCount_cons]; simp [CM, isNlTok]
theorem nlCount_cons_EQ (ts : List Tok) : nlCount (EQ :: ts) = nlCount ts := by
  rw [nlCount_cons]; simp [EQ, isNlTok]
theorem nlCount_cons_AT (l : Str) (ts : List Tok) : nlCount (AT l :: ts) = nlCount ts := by
  rw [nlCount_cons]; simp [AT, isNlTok]

theorem run_comment (s : St) (impl : List Tok) (il : Int) (lit : Str) (body : List Tok)
    (he : s.err = none) (hm : s.mode = .top impl il)
    (hw : (BlockSrc.comment lit body).WF P) :
    run P s (BlockSrc.comment lit body).toks =
      afterBlock P s impl il ((BlockSrc.comment lit body).expected P s.line)
        (nlCount (BlockSrc.comment lit body).toks) := by
  obtain ⟨hk, hb⟩ := hw
  simp only [BlockSrc.toks]
  rw [show AT lit :: LB :: (body ++ [RB]) = [AT lit, LB] ++ body ++ [RB] from by simp,
    run_append, run_append, run_at_lb P s impl il lit he hm]
  have hfm : firstMode (classify P lit) = .bracket .comment 0 [] := by
    generalize hc : classify P lit = c at hk
    obtain ⟨k, ty⟩ := c
    simp only at hk; subst hk; rfl
  have hat : Fam.bracket.at 0 (opened P s impl il lit).mode := by simp [opened, hfm, Fam.at]
  rw [run_bal P .bracket hb _ 0 rfl hat (by simp [Fam.lo])]
  simp only [run, List.foldl, opened, hfm, St.absorbed, Mode.push, RB, step, afterBlock,
    BlockSrc.expected, BlockSrc.toks, toTop]
  simp [rflat_rev_append, rflat, flatten, LB, RB, AT, nlCount_cons, isNlTok, nlCount_append, nlCount_nil]

theorem run_preamble (s : St) (impl : List Tok) (il : Int) (lit : Str) (body : List Tok)
    (he : s.err = none) (hm : s.mode = .top impl il)
    (hw : (BlockSrc.preamble lit body).WF P) :
    run P s (BlockSrc.preamble lit body).toks =
      afterBlock P s impl il ((BlockSrc.preamble lit body).expected P s.line)
        (nlCount (BlockSrc.preamble lit body).toks) := by
  obtain ⟨hk, hb⟩ := hw
  simp only [BlockSrc.toks]
  rw [show AT lit :: LB :: (body ++ [RB]) = [AT lit, LB] ++ body ++ [RB] from by simp,
    run_append, run_append, run_at_lb P s impl il lit he hm]
  have hfm : firstMode (classify P lit) = .bracket .preamble 0 [] := by
    generalize hc : classify P lit = c at hk
    obtain ⟨k, ty⟩ := c
    simp only at hk; subst hk; rfl
  have hat : Fam.bracket.at 0 (opened P s impl il lit).mode := by simp [opened, hfm, Fam.at]
  rw [run_bal P .bracket hb _ 0 rfl hat (by simp [Fam.lo])]
  simp only [run, List.foldl, opened, hfm, St.absorbed, Mode.push, RB, step, afterBlock,
    BlockSrc.expected, BlockSrc.toks, toTop]
  simp [rflat_rev_append, rflat, flatten, LB, RB, AT, nlCount_cons, isNlTok, nlCount_append, nlCount_nil]

theorem run_string (s : St) (impl : List Tok) (il : Int) (lit : Str) (key val : List Tok)
    (he : s.err = none) (hm : s.mode = .top impl il)
    (hw : (BlockSrc.string lit key val).WF P) :
    run P s (BlockSrc.string lit key val).toks =
      afterBlock P s impl il ((BlockSrc.string lit key val).expected P s.line)
        (nlCount (BlockSrc.string lit key val).toks) := by
  obtain ⟨hk, hkey, hb⟩ := hw
  simp only [BlockSrc.toks]
  rw [show AT lit :: LB :: (key ++ EQ :: (val ++ [RB])) = [AT lit, LB] ++ key ++ [EQ] ++ val ++ [RB] from by simp,
    run_append, run_append, run_append, run_append, run_at_lb P s impl il lit he hm]
  have hfm : firstMode (classify P lit) = .strKey [] := by
    generalize hc : classify P lit = c at hk
    obtain ⟨k, ty⟩ := c
    simp only at hk; subst hk; rfl
  rw [run_plain P key _ rfl (by simp [opened, hfm, Mode.scanning]) hkey]
  -- the `=`
  have hEq : run P ((opened P s impl il lit).absorbed key) [EQ] =
      { (opened P s impl il lit).absorbed key with
        raw := EQ :: ((opened P s impl il lit).absorbed key).raw,
        mode := .strVal (strip P (flatten key)) 0 [] } := by
    simp [run, List.foldl, opened, hfm, St.absorbed, Mode.push, EQ, step, rflat_rev_append, rflat, flatten]
  rw [hEq]
  have hat : Fam.strVal.at 0 ({ (opened P s impl il lit).absorbed key with
        raw := EQ :: ((opened P s impl il lit).absorbed key).raw,
        mode := Mode.strVal (strip P (flatten key)) 0 [] } : St).mode := by simp [Fam.at]
  rw [run_bal P .strVal hb _ 0 rfl hat (by simp [Fam.lo])]
  simp only [run, List.foldl, opened, hfm, St.absorbed, Mode.push, RB, step, afterBlock,
    BlockSrc.expected, BlockSrc.toks, toTop]
  simp [rflat_rev_append, rflat, flatten, LB, RB, AT, EQ, nlCount_cons, isNlTok, nlCount_append, nlCount_nil]
  omega

/-! ### entries -/

/-- `s'` is `s` after consuming the tokens `pre` inside the block being scanned -/
structure Ext (s s' : St) (pre : List Tok) : Prop where
  err : s'.err = none
  out : s'.out = s.out
  line : s'.line = s.line + nlCount pre
  blockLine : s'.blockLine = s.blockLine
  raw : s'.raw = pre.reverse ++ s.raw

theorem Ext.refl (s : St) (he : s.err = none) : Ext s s [] :=
  ⟨he, rfl, by simp [nlCount_nil], rfl, by simp⟩

theorem Ext.trans {s s' s'' : St} {a b : List Tok} (h1 : Ext s s' a) (h2 : Ext s' s'' b) :
    Ext s s'' (a ++ b) :=
  ⟨h2.err, h2.out.trans h1.out, by rw [h2.line, h1.line, nlCount_append]; omega,
    h2.blockLine.trans h1.blockLine, by rw [h2.raw, h1.raw]; simp⟩

theorem Ext.absorbed (s : St) (ts : List Tok) (he : s.err = none) : Ext s (s.absorbed ts) ts :=
  ⟨he, rfl, rfl, rfl, rfl⟩

/-- the state after the closing brace of an entry whose remaining tokens were `rest` -/
def entryDone (s : St) (ty key : Str) (fields : List Field) (rest : List Tok) : St :=
  { out := mkEntry ty key fields s.blockLine (rflat s.raw ++ flatten rest) :: s.out,
    line := s.line + nlCount rest, blockLine := s.blockLine, raw := [],
    mode := .top [] (s.line + nlCount rest), err := none }

theorem flatten_cons (t : Tok) (ts : List Tok) : flatten (t :: ts) = t.lit ++ flatten ts := by
  simp [flatten]

theorem entryDone_shift {s s' : St} {pre : List Tok} (h : Ext s s' pre) (ty key : Str)
    (fields : List Field) (rest : List Tok) :
    entryDone s' ty key fields rest = entryDone s ty key fields (pre ++ rest) := by
  simp only [entryDone, h.out, h.line, h.blockLine, h.raw, rflat_rev_append, nlCount_append,
    flatten_append, List.append_assoc, Int.add_assoc]

/-- closing brace right after a complete field value -/
theorem step_rb_after_value (s : St) (ty key fk : Str) (fs : List Field) (el : Int) (v : List Tok)
    (he : s.err = none) (hm : s.mode = .fldVal ty key fs fk el false 0 0 v) :
    run P s [RB] = entryDone s ty key (fs ++ [⟨fk, .str (strip P (rflat v)), el⟩]) [RB] := by
  cases s with
  | mk out line bl raw mode err =>
    simp only at he hm; subst he; subst hm
    simp [run, List.foldl, RB, step, entryDone, toTop, rflat_cons, flatten, nlCount, isNlTok]

/-- a comma right after a complete field value: the field is recorded, the next key starts -/
theorem step_cm_after_value (s : St) (ty key fk : Str) (fs : List Field) (el : Int) (v : List Tok)
    (he : s.err = none) (hm : s.mode = .fldVal ty key fs fk el false 0 0 v) :
    ∃ s', run P s [CM] = s' ∧ Ext s s' [CM] ∧
      s'.mode = .fldKey ty key (fs ++ [⟨fk, .str (strip P (rflat v)), el⟩]) [] := by
  cases s with
  | mk out line bl raw mode err =>
    simp only at he hm; subst he; subst hm
    refine ⟨_, rfl, ?_, ?_⟩
    · constructor <;> simp [run, List.foldl, CM, step, nlCount, isNlTok]
    · simp [run, List.foldl, CM, step]

/-- closing brace while waiting for a field key (trailing comma, or no field at all) -/
theorem step_rb_in_fldKey (s : St) (ty key : Str) (fs : List Field) (fk : List Tok)
    (he : s.err = none) (hm : s.mode = .fldKey ty key fs fk) :
    run P s [RB] = entryDone s ty key fs [RB] := by
  cases s with
  | mk out line bl raw mode err =>
    simp only at he hm; subst he; subst hm
    simp [run, List.foldl, RB, step, entryDone, toTop, rflat_cons, flatten, nlCount, isNlTok]

/-- `=` after a field key -/
theorem step_eq_in_fldKey (s : St) (ty key : Str) (fs : List Field) (fk : List Tok)
    (he : s.err = none) (hm : s.mode = .fldKey ty key fs fk) :
    ∃ s', run P s [EQ] = s' ∧ Ext s s' [EQ] ∧
      s'.mode = .fldVal ty key fs (strip P (rflat fk)) s.line false 0 0 [] := by
  cases s with
  | mk out line bl raw mode err =>
    simp only at he hm; subst he; subst hm
    refine ⟨_, rfl, ?_, ?_⟩
    · constructor <;> simp [run, List.foldl, EQ, step, nlCount, isNlTok]
    · simp [run, List.foldl, EQ, step]

/-- plain tokens (a key) in a scanning mode, with the frame -/
theorem run_plain_ext (s : St) (ts : List Tok) (he : s.err = none) (hm : s.mode.scanning = true)
    (hp : allPlain ts) :
    ∃ s', run P s ts = s' ∧ Ext s s' ts ∧ s'.mode = s.mode.push ts :=
  ⟨_, run_plain P ts s he hm hp, Ext.absorbed s ts he, rfl⟩

/-- a value at `q = false, curls = 0`, with the frame -/
theorem run_value_ext (s : St) (ts : List Tok) (he : s.err = none) (hm : Fam.valBrace.at 0 s.mode)
    (hv : IsValue ts) :
    ∃ s', run P s ts = s' ∧ Ext s s' ts ∧ s'.mode = s.mode.push ts :=
  ⟨_, run_value P hv s he hm, Ext.absorbed s ts he, rfl⟩

/-- **Field loop.** After a complete field value, the rest of a well-formed entry
`(CM Key EQ Value)* (CM Ws)? RB` is consumed and the entry is emitted with exactly the expected
fields (keys and values stripped, lines = line of each `=`). -/
theorem run_afterFields (rest : List FieldSrc) (tr : Option (List Tok)) :
    ∀ (s : St) (ty key fk : Str) (fs : List Field) (el : Int) (v : List Tok),
      s.err = none → s.mode = .fldVal ty key fs fk el false 0 0 v →
      (∀ f ∈ rest, allPlain f.key ∧ IsValue f.val) → (∀ w, tr = some w → allPlain w) →
      run P s (afterFields rest tr) =
        entryDone s ty key (fs ++ ⟨fk, .str (strip P (rflat v)), el⟩ :: expFields P s.line rest)
          (afterFields rest tr) := by
  induction rest with
  | nil =>
    intro s ty key fk fs el v he hm _ htr
    cases tr with
    | none =>
      simp only [afterFields, expFields]
      exact step_rb_after_value P s ty key fk fs el v he hm
    | some w =>
      simp only [afterFields, expFields]
      obtain ⟨s1, h1, e1, m1⟩ := step_cm_after_value P s ty key fk fs el v he hm
      obtain ⟨s2, h2, e2, m2⟩ := run_plain_ext P s1 w e1.err (by rw [m1]; rfl) (htr w rfl)
      rw [show CM :: (w ++ [RB]) = [CM] ++ w ++ [RB] from by simp, run_append, run_append, h1, h2]
      rw [m1] at m2
      rw [step_rb_in_fldKey P s2 ty key _ _ e2.err m2, entryDone_shift (e1.trans e2)]
  | cons f rest ih =>
    intro s ty key fk fs el v he hm hw htr
    obtain ⟨hfk, hfv⟩ := hw f (List.mem_cons_self)
    simp only [afterFields, expFields]
    obtain ⟨s1, h1, e1, m1⟩ := step_cm_after_value P s ty key fk fs el v he hm
    obtain ⟨s2, h2, e2, m2⟩ := run_plain_ext P s1 f.key e1.err (by rw [m1]; rfl) hfk
    rw [m1] at m2
    obtain ⟨s3, h3, e3, m3⟩ := step_eq_in_fldKey P s2 ty key _ _ e2.err m2
    obtain ⟨s4, h4, e4, m4⟩ := run_value_ext P s3 f.val e3.err (by rw [m3]; simp [Fam.at]) hfv
    rw [m3] at m4
    rw [show CM :: (f.key ++ EQ :: (f.val ++ afterFields rest tr))
        = [CM] ++ f.key ++ [EQ] ++ f.val ++ afterFields rest tr from by simp,
      run_append, run_append, run_append, run_append, h1, h2, h3, h4]
    rw [ih s4 ty key _ _ _ _ e4.err m4 (fun g hg => hw g (List.mem_cons_of_mem _ hg)) htr]
    have hext := ((e1.trans e2).trans e3).trans e4
    rw [entryDone_shift hext]
    have hl4 : s4.line = s.line + nlCount f.key + nlCount f.val := by
      rw [hext.line]; simp only [nlCount_append, nlCount_CM, nlCount_EQ]; omega
    have hl2 : s2.line = s.line + nlCount f.key := by
      rw [(e1.trans e2).line]; simp only [nlCount_append, nlCount_CM]; omega
    rw [hl4, hl2]
    simp [rflat_reverse]

theorem step_rb_in_entKey (s : St) (ty : Str) (key : List Tok)
    (he : s.err = none) (hm : s.mode = .entKey ty key) :
    run P s [RB] = entryDone s ty (strip P (rflat key)) [] [RB] := by
  cases s with
  | mk out line bl raw mode err =>
    simp only at he hm; subst he; subst hm
    simp [run, List.foldl, RB, step, entryDone, toTop, rflat_cons, flatten, nlCount, isNlTok]

theorem step_cm_in_entKey (s : St) (ty : Str) (key : List Tok)
    (he : s.err = none) (hm : s.mode = .entKey ty key) :
    ∃ s', run P s [CM] = s' ∧ Ext s s' [CM] ∧ s'.mode = .fldKey ty (strip P (rflat key)) [] [] := by
  cases s with
  | mk out line bl raw mode err =>
    simp only at he hm; subst he; subst hm
    refine ⟨_, rfl, ?_, ?_⟩
    · constructor <;> simp [run, List.foldl, CM, step, nlCount, isNlTok]
    · simp [run, List.foldl, CM, step]

theorem dupKeysGo_of_fresh (fs : List Field) : ∀ (seen dups : List Str),
    (fs.map (·.key)).Nodup → (∀ f ∈ fs, f.key ∉ seen) → dupKeysGo seen dups fs = dups := by
  induction fs with
  | nil => intro seen dups _ _; rfl
  | cons f fs ih =>
    intro seen dups hnd hfresh
    simp only [List.map_cons, List.nodup_cons] at hnd
    have hf : seen.contains f.key = false := by
      simpa using hfresh f (List.mem_cons_self)
    simp only [dupKeysGo, hf, Bool.false_eq_true, ↓reduceIte]
    apply ih _ _ hnd.2
    intro g hg
    simp only [List.mem_cons, not_or]
    refine ⟨?_, hfresh g (List.mem_cons_of_mem _ hg)⟩
    intro hgk
    exact hnd.1 (hgk ▸ List.mem_map_of_mem hg)

theorem mkEntry_of_nodup (ty key : Str) (fs : List Field) (l : Int) (r : Str)
    (h : (fs.map (·.key)).Nodup) :
    mkEntry ty key fs l r = .live (.entry { ty := ty, key := key, fields := fs, line := l, raw := r }) := by
  simp [mkEntry, dupKeys, dupKeysGo_of_fresh fs [] [] h (by simp)]

theorem expFields_keys (line : Int) (fs : List FieldSrc) :
    (expFields P line fs).map (·.key) = fs.map fun f => strip P (flatten f.key) := by
  induction fs generalizing line with
  | nil => rfl
  | cons f fs ih => simp [expFields, ih]

theorem nlCount_afterFields_first (f : FieldSrc) (fs : List FieldSrc) (tr : Option (List Tok)) :
    nlCount (afterFields (f :: fs) tr) = nlCount f.key + nlCount f.val + nlCount (afterFields fs tr) := by
  simp only [afterFields, nlCount_cons_CM, nlCount_append, nlCount_cons_EQ]; omega

theorem run_entry (s : St) (impl : List Tok) (il : Int) (lit : Str) (key : List Tok)
    (fields : List FieldSrc) (tr : Option (List Tok))
    (he : s.err = none) (hm : s.mode = .top impl il)
    (hw : (BlockSrc.entry lit key fields tr).WF P) :
    run P s (BlockSrc.entry lit key fields tr).toks =
      afterBlock P s impl il ((BlockSrc.entry lit key fields tr).expected P s.line)
        (nlCount (BlockSrc.entry lit key fields tr).toks) := by
  obtain ⟨hk, hkey, hfs, htr⟩ := hw
  simp only [BlockSrc.toks]
  rw [show AT lit :: LB :: (key ++ afterFields fields tr) = [AT lit, LB] ++ key ++ afterFields fields tr from by simp,
    run_append, run_append, run_at_lb P s impl il lit he hm]
  have hfm : firstMode (classify P lit) = .entKey (classify P lit).2 [] := by
    generalize hc : classify P lit = c at hk
    obtain ⟨k, ty⟩ := c
    simp only at hk; subst hk; rfl
  obtain ⟨o, ho⟩ : ∃ o, o = opened P s impl il lit := ⟨_, rfl⟩
  rw [← ho]
  have oerr : o.err = none := by rw [ho]; rfl
  have omode : o.mode = .entKey (classify P lit).2 [] := by rw [ho]; exact hfm
  obtain ⟨s1, h1, e1, m1⟩ := run_plain_ext P o key oerr (by rw [omode]; rfl) hkey
  rw [omode] at m1
  rw [h1]
  -- the final state in terms of `o`
  have fin : ∀ fl : List Field,
      entryDone o (classify P lit).2 (strip P (flatten key)) fl (key ++ afterFields fields tr) =
      afterBlock P s impl il (mkEntry (classify P lit).2 (strip P (flatten key))
          fl s.line (flatten (AT lit :: LB :: (key ++ afterFields fields tr))))
        (nlCount (AT lit :: LB :: (key ++ afterFields fields tr))) := by
    intro fl
    rw [ho]
    simp only [entryDone, opened, afterBlock]
    simp [rflat, flatten, nlCount_cons_AT, nlCount_cons_LB]
  cases fields with
  | nil =>
    cases tr with
    | none =>
      simp only [afterFields]
      rw [step_rb_in_entKey P s1 _ _ e1.err m1, entryDone_shift e1]
      have := fin []
      simp only [afterFields] at this
      simpa [BlockSrc.expected, BlockSrc.toks, expFields, afterFields, rflat_reverse] using this
    | some w =>
      simp only [afterFields]
      obtain ⟨s2, h2, e2, m2⟩ := step_cm_in_entKey P s1 _ _ e1.err m1
      obtain ⟨s3, h3, e3, m3⟩ := run_plain_ext P s2 w e2.err (by rw [m2]; rfl) (htr w rfl)
      rw [m2] at m3
      rw [show CM :: (w ++ [RB]) = [CM] ++ w ++ [RB] from by simp, run_append, run_append, h2, h3,
        step_rb_in_fldKey P s3 _ _ _ _ e3.err m3, entryDone_shift ((e1.trans e2).trans e3)]
      have := fin []
      simp only [afterFields] at this
      simpa [BlockSrc.expected, BlockSrc.toks, expFields, afterFields, rflat_reverse] using this
  | cons f rest =>
    obtain ⟨hfk, hfv⟩ := hfs f (List.mem_cons_self)
    simp only [afterFields]
    obtain ⟨s2, h2, e2, m2⟩ := step_cm_in_entKey P s1 _ _ e1.err m1
    obtain ⟨s3, h3, e3, m3⟩ := run_plain_ext P s2 f.key e2.err (by rw [m2]; rfl) hfk
    rw [m2] at m3
    obtain ⟨s4, h4, e4, m4⟩ := step_eq_in_fldKey P s3 _ _ _ _ e3.err m3
    obtain ⟨s5, h5, e5, m5⟩ := run_value_ext P s4 f.val e4.err (by rw [m4]; simp [Fam.at]) hfv
    rw [m4] at m5
    rw [show CM :: (f.key ++ EQ :: (f.val ++ afterFields rest tr))
        = [CM] ++ f.key ++ [EQ] ++ f.val ++ afterFields rest tr from by simp,
      run_append, run_append, run_append, run_append, h2, h3, h4, h5]
    rw [run_afterFields P rest tr s5 _ _ _ _ _ _ e5.err m5
      (fun g hg => hfs g (List.mem_cons_of_mem _ hg)) htr]
    have hext := (((e1.trans e2).trans e3).trans e4).trans e5
    rw [entryDone_shift hext]
    have hl5 : s5.line = s.line + nlCount key + nlCount f.key + nlCount f.val := by
      rw [hext.line, ho]; simp only [opened, nlCount_append, nlCount_CM, nlCount_EQ]; omega
    have hl3 : s3.line = s.line + nlCount key + nlCount f.key := by
      rw [((e1.trans e2).trans e3).line, ho]; simp only [opened, nlCount_append, nlCount_CM]; omega
    rw [hl5, hl3]
    have := fin ([] ++ (⟨strip P (rflat (f.key.reverse ++ [])), .str (strip P (rflat (f.val.reverse ++ []))),
          s.line + nlCount key + nlCount f.key⟩ : Field) ::
        expFields P (s.line + nlCount key + nlCount f.key + nlCount f.val) rest)
    simp only [afterFields] at this
    simp only [Mode.push, List.append_nil, rflat_reverse] at this ⊢
    simpa [BlockSrc.expected, BlockSrc.toks, expFields, afterFields, rflat_reverse] using this

/-- **Block scan.** From a state between blocks, a well-formed source block is consumed exactly:
the pending implicit comment is closed, the expected block is emitted, the line counter advances by
the block's newlines, and the automaton is between blocks again. -/
theorem run_block (s : St) (impl : List Tok) (il : Int) (b : BlockSrc)
    (he : s.err = none) (hm : s.mode = .top impl il) (hw : b.WF P) :
    run P s b.toks = afterBlock P s impl il (b.expected P s.line) (nlCount b.toks) := by
  cases b with
  | comment lit body => exact run_comment P s impl il lit body he hm hw
  | preamble lit body => exact run_preamble P s impl il lit body he hm hw
  | string lit key val => exact run_string P s impl il lit key val he hm hw
  | entry lit key fields tr => exact run_entry P s impl il lit key fields tr he hm hw

end Bib
