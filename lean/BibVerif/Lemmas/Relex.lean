/-
  Re-lexing: a canonical token list is the lexing of its own flattening, and lexing always yields
  a canonical token list.  Used by C02 (character level), C05 and C10.
-/
import BibVerif.Lex
namespace Bib

variable (P : PyChars)

/-- the look-behind flag after reading `u` (starting with flag `b`) -/
def lastIsBS (b : Bool) (u : Str) : Bool :=
  match u.getLast? with
  | none => b
  | some c => c = '\\'

/-- a text chunk that the lexer keeps as text when it is followed by `rest`: every delimiter in it
is escaped (preceded by a backslash) and is not a newline; no `@` in it starts a block -/
def CleanText (b : Bool) (cs rest : Str) : Prop :=
  ∀ u c v, cs = u ++ c :: v →
    ((delimKind c).isSome → c ≠ '\n' ∧ lastIsBS b u = true) ∧
    (c = '@' → atMatch P (v ++ rest) = none)

def startsWithMark : List Tok → Prop
  | [] => True
  | .mark _ _ :: _ => True
  | .text _ :: _ => False

/-- canonical token lists (what the lexer produces), relative to the look-behind flag -/
inductive Canon : Bool → List Tok → Prop
  | nil (b) : Canon b []
  | delim (b c k ts) : delimKind c = some k → (b = false ∨ c = '\n') → Canon false ts →
      Canon b (.mark k [c] :: ts)
  | atm (b w bl ts) : (∀ x ∈ w, P.isWord x = true) → (∀ x ∈ bl, isBlank x = true) →
      Canon false (.mark .lbrace ['{'] :: ts) →
      Canon b (.mark .at ('@' :: (w ++ bl)) :: .mark .lbrace ['{'] :: ts)
  | text (b cs ts) : cs ≠ [] → CleanText P b cs (flatten ts) → startsWithMark ts →
      Canon (lastIsBS b cs) ts → Canon b (.text cs :: ts)

/-- hypotheses on `\w` (checked against CPython over all code points): it matches neither `{`
nor a blank -/
structure WordOK2 : Prop where
  lbrace : P.isWord '{' = false
  blank : ∀ c, isBlank c = true → P.isWord c = false

theorem pushText_of_startsWithMark (c : Char) (ts : List Tok) (h : startsWithMark ts) :
    pushText c ts = .text [c] :: ts := by
  cases ts with
  | nil => rfl
  | cons t ts => cases t <;> simp_all [startsWithMark, pushText]

theorem lastIsBS_cons (b : Bool) (x : Char) (xs : Str) :
    lastIsBS b (x :: xs) = lastIsBS (decide (x = '\\')) xs := by
  cases xs with
  | nil => simp [lastIsBS]
  | cons d ds =>
    simp only [lastIsBS, List.getLast?_cons_cons]
    rw [List.getLast?_eq_some_getLast (List.cons_ne_nil d ds)]

theorem lastIsBS_nil (b : Bool) : lastIsBS b [] = b := rfl

theorem lexFrom_text_step (b : Bool) (c : Char) (rest : Str)
    (hdel : (if (b && decide (c ≠ '\n')) = true then none else delimKind c) = none)
    (hat : c = '@' → atMatch P rest = none) :
    lexFrom P b (c :: rest) = pushText c (lexFrom P (decide (c = '\\')) rest) := by
  rw [lexFrom]
  split
  · rename_i k hk; rw [hdel] at hk; cases hk
  · split
    · rename_i hc
      split
      · rename_i lit r2 h; rw [hat hc] at h; cases h
      · subst hc; simp
    · rfl

/-- a clean text chunk followed by tokens that start with a mark lexes to that chunk followed by
those tokens -/
theorem lex_text (b : Bool) (cs rest : Str) (hcs : cs ≠ []) (hclean : CleanText P b cs rest)
    (ts : List Tok) (hts : lexFrom P (lastIsBS b cs) rest = ts) (hm : startsWithMark ts) :
    lexFrom P b (cs ++ rest) = .text cs :: ts := by
  induction cs generalizing b with
  | nil => exact absurd rfl hcs
  | cons c cs ih =>
    have h0 := hclean [] c cs rfl
    have hdel : (if (b && decide (c ≠ '\n')) = true then none else delimKind c) = none := by
      by_cases hd : (delimKind c).isSome
      · have := h0.1 hd
        simp [lastIsBS] at this
        simp [this.1, this.2]
      · simp at hd; simp [hd]
    have hstep := lexFrom_text_step P b c (cs ++ rest) hdel (by
      intro hc; have := h0.2 hc; simpa using this)
    rw [List.cons_append, hstep]
    by_cases hnil : cs = []
    · subst hnil
      have hb : lastIsBS b [c] = decide (c = '\\') := by simp [lastIsBS]
      rw [hb] at hts
      simp only [List.nil_append]
      rw [hts, pushText_of_startsWithMark _ _ hm]
    · have hb : lastIsBS (decide (c = '\\')) cs = lastIsBS b (c :: cs) := (lastIsBS_cons b c cs).symm
      have hclean' : CleanText P (decide (c = '\\')) cs rest := by
        intro u x v huv
        have := hclean (c :: u) x v (by rw [huv]; rfl)
        refine ⟨fun hx => ?_, this.2⟩
        have h1 := this.1 hx
        refine ⟨h1.1, ?_⟩
        rw [← lastIsBS_cons b c u]; exact h1.2
      rw [ih (decide (c = '\\')) hnil hclean' (by rw [hb]; exact hts)]
      simp [pushText]

theorem takeWhile_append_of_stop {α} (p : α → Bool) (w : List α) (x : α) (r : List α)
    (hw : ∀ a ∈ w, p a = true) (hx : p x = false) :
    (w ++ x :: r).takeWhile p = w ∧ (w ++ x :: r).dropWhile p = x :: r := by
  induction w with
  | nil => simp [List.takeWhile, List.dropWhile, hx]
  | cons a w ih =>
    have ha := hw a (List.mem_cons_self)
    have := ih (fun y hy => hw y (List.mem_cons_of_mem _ hy))
    simp [List.takeWhile, List.dropWhile, ha, this.1, this.2]

/-- the `@type` alternative on `w ++ bl ++ '{' :: rest` -/
theorem atMatch_word_blank (hP : WordOK2 P) (w bl rest : Str)
    (hw : ∀ x ∈ w, P.isWord x = true) (hbl : ∀ x ∈ bl, isBlank x = true) :
    atMatch P (w ++ bl ++ '{' :: rest) = some (w ++ bl, '{' :: rest) := by
  unfold atMatch
  have h1 : (w ++ bl ++ '{' :: rest).takeWhile P.isWord = w ∧
      (w ++ bl ++ '{' :: rest).dropWhile P.isWord = bl ++ '{' :: rest := by
    cases bl with
    | nil => simpa using takeWhile_append_of_stop P.isWord w '{' rest hw hP.lbrace
    | cons x bl' =>
      have hx : P.isWord x = false := hP.blank x (hbl x (List.mem_cons_self))
      have := takeWhile_append_of_stop P.isWord w x (bl' ++ '{' :: rest) hw hx
      simpa [List.append_assoc] using this
  have h2 : (bl ++ '{' :: rest).takeWhile isBlank = bl ∧ (bl ++ '{' :: rest).dropWhile isBlank = '{' :: rest :=
    takeWhile_append_of_stop isBlank bl '{' rest hbl (by decide)
  simp only [h1.1, h1.2, h2.1, h2.2]

/-- **Re-lexing.** A canonical token list is the lexing of its own flattening. -/
theorem relex (hP : WordOK2 P) {b : Bool} {ts : List Tok} (h : Canon P b ts) :
    lexFrom P b (flatten ts) = ts := by
  induction h with
  | nil b => simp [flatten, lexFrom]
  | delim b c k ts hk hb _ ih =>
    rw [flatten_cons_mark, List.singleton_append, lexFrom]
    have : (if (b && decide (c ≠ '\n')) = true then none else delimKind c) = some k := by
      rcases hb with hb | hb
      · subst hb; simpa using hk
      · subst hb; simpa using hk
    rw [this]; simp only; rw [ih]
  | atm b w bl ts hw hbl _ ih =>
    have hfl : flatten (.mark .at ('@' :: (w ++ bl)) :: .mark .lbrace ['{'] :: ts)
        = '@' :: (w ++ bl ++ '{' :: flatten ts) := by
      simp [flatten, Tok.lit]
    rw [hfl, lexFrom]
    have hd : (if (b && decide ('@' ≠ '\n')) = true then none else delimKind '@') = none := by
      cases b <;> simp [delimKind]
    rw [hd]
    simp only [↓reduceIte]
    have hm := atMatch_word_blank P hP w bl (flatten ts) hw hbl
    split
    · rename_i lit r2 heq
      rw [hm] at heq
      injection heq with heq; injection heq with h1 h2
      subst h1; subst h2
      have : flatten (.mark .lbrace ['{'] :: ts) = '{' :: flatten ts := by simp [flatten, Tok.lit]
      rw [← this, ih]
    · rename_i heq; rw [hm] at heq; cases heq
  | text b cs ts hcs hclean hm _ ih =>
    have : flatten (.text cs :: ts) = cs ++ flatten ts := by simp [flatten, Tok.lit]
    rw [this]
    exact lex_text P b cs (flatten ts) hcs hclean ts ih hm

end Bib

namespace Bib

variable (P : PyChars)

theorem cleanText_single (b : Bool) (c : Char) (rest : Str)
    (hdel : (if (b && decide (c ≠ '\n')) = true then none else delimKind c) = none)
    (hat : c = '@' → atMatch P rest = none) : CleanText P b [c] rest := by
  intro u x v huv
  have hu : u = [] ∧ x = c ∧ v = [] := by
    cases u with
    | nil => simp at huv; exact ⟨rfl, huv.1.symm, huv.2⟩
    | cons y u => simp at huv
  obtain ⟨rfl, rfl, rfl⟩ := hu
  refine ⟨fun hd => ?_, fun hx => by simpa using hat hx⟩
  cases b with
  | false => simp at hdel; rw [hdel] at hd; cases hd
  | true =>
    by_cases hn : x = '\n'
    · subst hn; simp [delimKind] at hdel
    · exact ⟨hn, rfl⟩

theorem cleanText_cons (b : Bool) (c : Char) (cs rest : Str)
    (hdel : (if (b && decide (c ≠ '\n')) = true then none else delimKind c) = none)
    (hat : c = '@' → atMatch P (cs ++ rest) = none)
    (h : CleanText P (decide (c = '\\')) cs rest) : CleanText P b (c :: cs) rest := by
  intro u x v huv
  cases u with
  | nil =>
    simp only [List.nil_append, List.cons.injEq] at huv
    obtain ⟨rfl, rfl⟩ := huv
    have := cleanText_single P b c (cs ++ rest) hdel hat [] c [] rfl
    exact ⟨this.1, fun hx => hat hx⟩
  | cons y u =>
    simp only [List.cons_append, List.cons.injEq] at huv
    obtain ⟨rfl, hcs⟩ := huv
    have := h u x v hcs
    refine ⟨fun hd => ?_, this.2⟩
    have h1 := this.1 hd
    exact ⟨h1.1, by rw [lastIsBS_cons]; exact h1.2⟩

theorem canon_pushText (b : Bool) (c : Char) (ts : List Tok)
    (hdel : (if (b && decide (c ≠ '\n')) = true then none else delimKind c) = none)
    (hat : c = '@' → atMatch P (flatten ts) = none)
    (h : Canon P (decide (c = '\\')) ts) : Canon P b (pushText c ts) := by
  cases h with
  | nil _ =>
    simp only [pushText]
    exact Canon.text b [c] [] (by simp) (cleanText_single P b c _ hdel hat) trivial
      (by simpa [lastIsBS] using Canon.nil _)
  | delim _ c' k ts' hk hb hc =>
    simp only [pushText]
    exact Canon.text b [c] _ (by simp) (cleanText_single P b c _ hdel hat) trivial
      (by simpa [lastIsBS] using Canon.delim _ c' k ts' hk hb hc)
  | atm _ w bl ts' hw hbl hc =>
    simp only [pushText]
    exact Canon.text b [c] _ (by simp) (cleanText_single P b c _ hdel hat) trivial
      (by simpa [lastIsBS] using Canon.atm _ w bl ts' hw hbl hc)
  | text _ cs ts' hcs hclean hm hc =>
    simp only [pushText]
    refine Canon.text b (c :: cs) ts' (by simp) ?_ hm (by rw [lastIsBS_cons]; exact hc)
    refine cleanText_cons P b c cs _ hdel ?_ hclean
    intro hx
    have := hat hx
    simpa [flatten, Tok.lit] using this

/-- **The lexer only produces canonical token lists.** -/
theorem lex_canonical (b : Bool) (s : Str) : Canon P b (lexFrom P b s) := by
  fun_induction lexFrom P b s with
  | case1 => exact Canon.nil _
  | case2 b c rest k hk ih =>
    have hd : delimKind c = some k := by
      split at hk
      · cases hk
      · exact hk
    have hb : b = false ∨ c = '\n' := by
      cases b with
      | false => exact Or.inl rfl
      | true =>
        by_cases hn : c = '\n'
        · exact Or.inr hn
        · simp [hn] at hk
    exact Canon.delim b c k _ hd hb ih
  | case3 b rest lit r2 h hk ih =>
    obtain ⟨r3, hr⟩ := (atMatch_spec P rest lit r2 h).2.2
    subst hr
    have hlit : lit = rest.takeWhile P.isWord ++ (rest.dropWhile P.isWord).takeWhile isBlank := by
      unfold atMatch at h; simp only at h; split at h
      · injection h with h; injection h with h1 h2; exact h1.symm
      · cases h
    rw [lexFrom_lbrace] at ih ⊢
    rw [hlit]
    exact Canon.atm b _ _ _ (fun x hx => mem_takeWhile_imp hx) (fun x hx => mem_takeWhile_imp hx) ih
  | case4 b rest h hk ih =>
    refine canon_pushText P b '@' _ hk (fun _ => ?_) (by simpa using ih)
    rw [flatten_lexFrom]; exact h
  | case5 b c rest hk hc ih =>
    exact canon_pushText P b c _ hk (fun hx => absurd hx hc) ih

/-- lexing is a retraction of flattening on its own image -/
theorem relex_lex (hP : WordOK2 P) (b : Bool) (s : Str) :
    lexFrom P b (flatten (lexFrom P b s)) = lexFrom P b s :=
  relex P hP (lex_canonical P b s)

end Bib
