/-
  Helper lemmas for C16 (sorting_blocks.py): the tuple order, the type rank, and the invariant of
  the grouping loop `_block_junks`.
-/
import BibVerif.SortBlocks
import BibVerif.Lemmas.Sort
import BibVerif.Lemmas.MwLibrary
namespace Bib.SortBlocks
open Bib

/-! ### `(int, str)` tuples -/

theorem tupleLe_iff (a b : Nat × Str) : tupleLe a b = true ↔ a.1 < b.1 ∨ (a.1 = b.1 ∧ a.2 ≤ b.2) := by
  simp [tupleLe, keyLe]

theorem tupleLe_trans (a b c : Nat × Str) (h1 : tupleLe a b = true) (h2 : tupleLe b c = true) :
    tupleLe a c = true := by
  rw [tupleLe_iff] at *
  rcases h1 with h1 | ⟨e1, l1⟩ <;> rcases h2 with h2 | ⟨e2, l2⟩
  · left; omega
  · left; omega
  · left; omega
  · right; exact ⟨by omega, List.le_trans l1 l2⟩

theorem tupleLe_total (a b : Nat × Str) : (tupleLe a b || tupleLe b a) = true := by
  rw [Bool.or_eq_true, tupleLe_iff, tupleLe_iff]
  by_cases h : a.1 < b.1
  · exact Or.inl (Or.inl h)
  · by_cases h' : b.1 < a.1
    · exact Or.inr (Or.inl h')
    · have e : a.1 = b.1 := by omega
      rcases List.le_total a.2 b.2 with l | l
      · exact Or.inl (Or.inr ⟨e, l⟩)
      · exact Or.inr (Or.inr ⟨e.symm, l⟩)

theorem tupleLe_refl (a : Nat × Str) : tupleLe a a = true := by
  rw [tupleLe_iff]; exact Or.inr ⟨rfl, List.le_refl _⟩

/-- sorting by a key into `(int, str)` tuples -/
def leBy {α : Type} (k : α → Nat × Str) (a b : α) : Bool := tupleLe (k a) (k b)

theorem leBy_trans {α : Type} (k : α → Nat × Str) : ∀ a b c, leBy k a b = true → leBy k b c = true → leBy k a c = true :=
  fun a b c => tupleLe_trans (k a) (k b) (k c)

theorem leBy_total {α : Type} (k : α → Nat × Str) : ∀ a b, (leBy k a b || leBy k b a) = true :=
  fun a b => tupleLe_total (k a) (k b)

theorem by_sorted {α : Type} (k : α → Nat × Str) (l : List α) :
    (l.mergeSort (leBy k)).Pairwise (fun a b => tupleLe (k a) (k b) = true) :=
  List.pairwise_mergeSort (leBy_trans k) (leBy_total k) l

theorem by_stable {α : Type} (k : α → Nat × Str) (c : Nat × Str) (l : List α) :
    (l.mergeSort (leBy k)).filter (fun a => k a == c) = l.filter (fun a => k a == c) :=
  Sort.stable_filter (leBy_trans k) (leBy_total k) (fun a => k a == c) (by
    intro a b ha hb
    simp only [beq_iff_eq] at ha hb
    show tupleLe (k a) (k b) = true
    rw [ha, hb]
    exact tupleLe_refl c) l

theorem by_idempotent {α : Type} (k : α → Nat × Str) (l : List α) :
    (l.mergeSort (leBy k)).mergeSort (leBy k) = l.mergeSort (leBy k) :=
  List.mergeSort_of_pairwise (List.pairwise_mergeSort (leBy_trans k) (leBy_total k) l)

theorem sortPlain_eq (order : List BType) (bs : List Block) :
    sortPlain order bs = bs.mergeSort (leBy (blockSortKey order)) := rfl

theorem sortJunks_eq (order : List BType) (js : List Junk) :
    sortJunks order js = js.mergeSort (leBy (junkKey order)) := rfl

/-! ### type rank -/

theorem typeRank_of_mem (order : List BType) (t : BType) (h : t ∈ order) :
    typeRank order t < order.length ∧ order[typeRank order t]? = some t ∧
      ∀ j, j < typeRank order t → order[j]? ≠ some t := by
  unfold typeRank
  cases hi : order.idxOf? t with
  | none => exact absurd h (List.idxOf?_eq_none_iff.mp hi)
  | some i =>
    obtain ⟨hlt, hget, hmin⟩ := List.idxOf?_eq_some_iff.mp hi
    refine ⟨hlt, ?_, ?_⟩
    · rw [List.getElem?_eq_getElem hlt, hget]
    · intro j hj hcontra
      have hjl : j < order.length := Nat.lt_trans hj hlt
      have := hmin j hj
      rw [List.getElem?_eq_getElem hjl] at hcontra
      exact this (by simpa using hcontra)

theorem typeRank_of_not_mem (order : List BType) (t : BType) (h : t ∉ order) :
    typeRank order t = order.length := by
  unfold typeRank
  rw [List.idxOf?_eq_none_iff.mpr h]

/-! ### the grouping loop -/

/-- `getattr(block, "key", "")` -/
def keyOr (b : Block) : Str := match key? b with | some k => k | none => []

theorem key_of_comment {b : Block} (h : isComment b = true) : key? b = none := by
  cases b with
  | live l => cases l <;> simp_all [isComment, key?]
  | _ => simp_all [isComment]

/-- a finished group: a run of comments and the non-comment block below it, keyed by that block -/
def MainJunk (j : Junk) : Prop :=
  ∃ cs m, j.blocks = cs ++ [m] ∧ (∀ c ∈ cs, isComment c = true) ∧ isComment m = false ∧ j.sortKey = keyOr m

/-- the group of comments after the last non-comment block -/
def TrailJunk (j : Junk) : Prop :=
  j.blocks ≠ [] ∧ (∀ c ∈ j.blocks, isComment c = true) ∧ j.sortKey = []

/-- invariant of the loop: the finished groups and the current comment run tile the consumed blocks -/
structure JInv (s : List Junk × Junk) (seen : List Block) : Prop where
  flat : s.1.flatMap (·.blocks) ++ s.2.blocks = seen
  mains : ∀ j ∈ s.1, MainJunk j
  cur : (∀ c ∈ s.2.blocks, isComment c = true) ∧ s.2.sortKey = []

theorem jinv_step {s : List Junk × Junk} {seen : List Block} (h : JInv s seen) (b : Block) :
    JInv (junkStep s b) (seen ++ [b]) := by
  unfold junkStep
  by_cases hc : isComment b = true
  · have hk := key_of_comment hc
    simp only [hc, Bool.not_true, Bool.false_eq_true, if_false, hk]
    refine ⟨?_, h.mains, ?_⟩
    · simp only []
      rw [← List.append_assoc, h.flat]
    · refine ⟨?_, h.cur.2⟩
      intro c hcm
      rcases List.mem_append.mp hcm with hcm | hcm
      · exact h.cur.1 c hcm
      · simp only [List.mem_singleton] at hcm; subst hcm; exact hc
  · have hc' : isComment b = false := by simpa using hc
    simp only [hc', Bool.not_false, if_true]
    refine ⟨?_, ?_, ?_⟩
    · simp only [List.flatMap_append, List.flatMap_cons, List.flatMap_nil, List.append_nil]
      rw [← List.append_assoc, h.flat]
    · intro j hj
      rcases List.mem_append.mp hj with hj | hj
      · exact h.mains j hj
      · simp only [List.mem_singleton] at hj
        subst hj
        refine ⟨s.2.blocks, b, rfl, h.cur.1, hc', ?_⟩
        simp only [keyOr]
        cases hk : key? b with
        | some k => rfl
        | none => simp [h.cur.2]
    · exact ⟨(by intro c hcm; cases hcm), rfl⟩

theorem jinv_foldl : ∀ (bs : List Block) (s : List Junk × Junk) (seen : List Block), JInv s seen →
    JInv (bs.foldl junkStep s) (seen ++ bs)
  | [], s, seen, h => by simpa using h
  | b :: r, s, seen, h => by
    have := jinv_foldl r (junkStep s b) (seen ++ [b]) (jinv_step h b)
    simpa [List.append_assoc] using this

theorem jinv_all (bs : List Block) : JInv (bs.foldl junkStep ([], {})) bs := by
  have := jinv_foldl bs ([], {}) [] ⟨rfl, (by intro j hj; cases hj), (by intro c hc; cases hc), rfl⟩
  simpa using this

theorem blockJunks_flatten (bs : List Block) : (blockJunks bs).flatMap (·.blocks) = bs := by
  have h := jinv_all bs
  unfold blockJunks
  by_cases he : (bs.foldl junkStep ([], {})).2.blocks = []
  · simp only [he, ne_eq, not_true_eq_false, if_false]
    have := h.flat
    rw [he, List.append_nil] at this
    exact this
  · simp only [he, ne_eq, not_false_eq_true, if_true, List.flatMap_append, List.flatMap_cons, List.flatMap_nil,
      List.append_nil]
    exact h.flat

theorem blockJunks_shape (bs : List Block) :
    ∃ mains tail, blockJunks bs = mains ++ tail ∧ (∀ j ∈ mains, MainJunk j) ∧
      (tail = [] ∨ ∃ j, tail = [j] ∧ TrailJunk j) := by
  have h := jinv_all bs
  unfold blockJunks
  by_cases he : (bs.foldl junkStep ([], {})).2.blocks = []
  · exact ⟨_, [], by simp [he], h.mains, Or.inl rfl⟩
  · exact ⟨_, [(bs.foldl junkStep ([], {})).2], by simp [he], h.mains,
      Or.inr ⟨_, rfl, he, h.cur.1, h.cur.2⟩⟩

theorem junk_nonempty {bs : List Block} {j : Junk} (hj : j ∈ blockJunks bs) : j.blocks ≠ [] := by
  obtain ⟨mains, tail, he, hm, ht⟩ := blockJunks_shape bs
  rw [he] at hj
  rcases List.mem_append.mp hj with hj | hj
  · obtain ⟨cs, m, hb, _⟩ := hm j hj
    rw [hb]; simp
  · rcases ht with ht | ⟨j', ht, htr⟩
    · rw [ht] at hj; cases hj
    · rw [ht] at hj; simp only [List.mem_singleton] at hj; subst hj; exact htr.1

theorem junkSortKey_ok (order : List BType) {j : Junk} (h : j.blocks ≠ []) :
    junkSortKey order j = .ok (junkKey order j) := by
  unfold junkSortKey junkKey
  cases hl : j.blocks.getLast? with
  | none => exact absurd (List.getLast?_eq_none_iff.mp hl) h
  | some b => rfl

theorem junkKey_main (order : List BType) {j : Junk} (h : MainJunk j) :
    ∃ cs m, j.blocks = cs ++ [m] ∧ junkKey order j = (typeRank order (btype m), keyOr m) := by
  obtain ⟨cs, m, hb, _, _, hk⟩ := h
  refine ⟨cs, m, hb, ?_⟩
  unfold junkKey
  rw [hb, List.getLast?_concat, hk]

theorem mapM_junkSortKey (order : List BType) (bs : List Block) :
    ∃ ks, (blockJunks bs).mapM (junkSortKey order) = .ok ks := by
  have : ∀ js : List Junk, (∀ j ∈ js, j.blocks ≠ []) → ∃ ks, js.mapM (junkSortKey order) = .ok ks := by
    intro js
    induction js with
    | nil => intro _; exact ⟨[], rfl⟩
    | cons j t ih =>
      intro h
      obtain ⟨ks, hks⟩ := ih (fun x hx => h x (by simp [hx]))
      refine ⟨junkKey order j :: ks, ?_⟩
      rw [List.mapM_cons, junkSortKey_ok order (h j (by simp)), hks]
      rfl
  exact this _ (fun j hj => junk_nonempty hj)

theorem sortPreserve_eq (order : List BType) (bs : List Block) :
    sortPreserve order bs = .ok ((sortJunks order (blockJunks bs)).flatMap (·.blocks)) := by
  obtain ⟨ks, hks⟩ := mapM_junkSortKey order bs
  simp only [sortPreserve, hks]

theorem checkOrder_ok {order : List BType} (h : BType.notBlock ∉ order) : checkOrder order = .ok () := by
  unfold checkOrder
  rw [if_neg]
  intro hany
  rw [List.any_eq_true] at hany
  obtain ⟨x, hx, hxe⟩ := hany
  simp only [beq_iff_eq] at hxe
  subst hxe
  exact h hx

theorem checkOrder_err {order : List BType} (h : BType.notBlock ∈ order) : checkOrder order = .error .valueError := by
  unfold checkOrder
  rw [if_pos]
  rw [List.any_eq_true]
  exact ⟨_, h, by simp⟩

end Bib.SortBlocks
