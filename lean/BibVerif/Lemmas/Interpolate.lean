/-
  Helper lemmas for C11: the field loop as a map / filter, the string index built by `addAll`,
  enclosing removal on string-valued fields.
-/
import BibVerif.Interpolate
import BibVerif.Lemmas.Enclosing
namespace Bib.Interpolate
open Bib Bib.Enclosing

/-- what the loop body does to one field -/
def resolveField (strings : List (Str × Live)) (f : Field) : Field :=
  match resolution strings f.value with
  | some v => { f with value := v }
  | none => f

/-- the first `@string` block with key `k` among the blocks handed to `Library.add` -/
def firstString (k : Str) : List Block → Option Live
  | [] => none
  | b :: rest =>
    match b with
    | .live (.string k' v l r m) => if k' = k then some (.string k' v l r m) else firstString k rest
    | _ => firstString k rest

theorem resolveFields_fst (strings : List (Str × Live)) (fs : List Field) :
    (resolveFields strings fs).1 = fs.map (resolveField strings) := by
  induction fs with
  | nil => rfl
  | cons f r ih =>
    simp only [resolveFields, List.map_cons, resolveField]
    cases h : resolution strings f.value <;> simp [ih]

theorem resolveFields_snd (strings : List (Str × Live)) (fs : List Field) :
    (resolveFields strings fs).2 =
      (fs.filter fun f => (resolution strings f.value).isSome).map (·.key) := by
  induction fs with
  | nil => rfl
  | cons f r ih =>
    simp only [resolveFields]
    cases h : resolution strings f.value <;> simp [h, ih]

theorem resolution_some_iff (strings : List (Str × Live)) (v w : Val) :
    resolution strings v = some w ↔
      ∃ s, v = .str s ∧ valueIsNonstringOrEnclosed (.str s) = false ∧
        ∃ k l r m, lookup strings s = some (.string k w l r m) := by
  unfold resolution
  cases v with
  | str s =>
    by_cases he : valueIsNonstringOrEnclosed (.str s) = true
    · simp [he]
    · simp only [he, Bool.false_eq_true, ↓reduceIte]
      constructor
      · intro h
        split at h
        · rename_i k sv l r m hl
          injection h with h; subst h
          exact ⟨s, rfl, by simpa using he, k, l, r, m, hl⟩
        · cases h
      · rintro ⟨s', hs, _, k, l, r, m, hl⟩
        injection hs with hs; subst hs
        simp [hl]
  | int i => simp [valueIsNonstringOrEnclosed]
  | names l => simp [valueIsNonstringOrEnclosed]
  | parts l => simp [valueIsNonstringOrEnclosed]
  | part p => simp [valueIsNonstringOrEnclosed]
  | «opaque» t => simp [valueIsNonstringOrEnclosed]

/-! ### the string index -/

theorem lookup_append (d : List (Str × Live)) (k' : Str) (b : Live) (k : Str) :
    lookup (d ++ [(k', b)]) k =
      match lookup d k with
      | some x => some x
      | none => if k' = k then some b else none := by
  induction d with
  | nil => simp [lookup]
  | cons p r ih =>
    obtain ⟨k2, b2⟩ := p
    by_cases h : k2 = k <;> simp [lookup, h, ih]

theorem strings_foldl (bs : List Block) (L0 : Lib) (k : Str) :
    lookup (bs.foldl addOne L0).strings k =
      match lookup L0.strings k with
      | some x => some x
      | none => firstString k bs := by
  induction bs generalizing L0 with
  | nil => simp only [List.foldl_nil, firstString]; cases lookup L0.strings k <;> rfl
  | cons b rest ih =>
    rw [List.foldl_cons, ih]
    have other : ∀ (b' : Block) (L1 : Lib), L1.strings = L0.strings →
        firstString k (b' :: rest) = firstString k rest →
        (match lookup L1.strings k with | some x => some x | none => firstString k rest) =
        (match lookup L0.strings k with | some x => some x | none => firstString k (b' :: rest)) := by
      intro b' L1 h1 h2; rw [h1, h2]
    match b with
    | .live (.entry e) =>
      refine other _ _ ?_ rfl
      simp only [addOne]; split <;> rfl
    | .live (.string k' v l r m) =>
      simp only [addOne]
      cases hp : lookup L0.strings k' with
      | some prev =>
        simp only [firstString]
        by_cases hk : k' = k
        · subst hk; simp [hp]
        · simp [hk]
      | none =>
        simp only [lookup_append, firstString]
        cases hl : lookup L0.strings k with
        | some x => rfl
        | none =>
          by_cases hk : k' = k <;> simp [hk]
    | .live (.preamble _ _ _ _) => exact other _ _ rfl rfl
    | .live (.expl _ _ _ _) => exact other _ _ rfl rfl
    | .live (.impl _ _ _ _) => exact other _ _ rfl rfl
    | .failed _ _ _ => exact other _ _ rfl rfl
    | .dupField _ _ => exact other _ _ rfl rfl
    | .dupKey _ _ _ => exact other _ _ rfl rfl
    | .mwError _ _ => exact other _ _ rfl rfl

theorem firstString_key {k : Str} {bs : List Block} {b : Live} (h : firstString k bs = some b) :
    ∃ v l r m, b = .string k v l r m ∧ Block.live b ∈ bs := by
  induction bs with
  | nil => simp [firstString] at h
  | cons x rest ih =>
    simp only [firstString] at h
    split at h
    · rename_i k' v l r m
      by_cases hk : k' = k
      · subst hk
        simp only [↓reduceIte, Option.some.injEq] at h
        exact ⟨v, l, r, m, h.symm, by rw [← h]; simp⟩
      · simp only [hk, ↓reduceIte] at h
        obtain ⟨v', l', r', m', hb, hm⟩ := ih h
        exact ⟨v', l', r', m', hb, by simp [hm]⟩
    · obtain ⟨v', l', r', m', hb, hm⟩ := ih h
      exact ⟨v', l', r', m', hb, by simp [hm]⟩

/-! ### enclosing removal on string-valued fields -/

theorem removeFields_allStr (P : PyChars) (fs : List Field) (h : AllStr fs) (md : List (Str × Str)) :
    ∃ md', removeFields P fs md =
      .ok (fs.map fun f => { f with value := .str (stripEnclosing P (strOf f.value)).1 }, md') := by
  obtain ⟨md', hmd, _, _⟩ := removeFields_md P fs h md
  exact ⟨md', hmd⟩

end Bib.Interpolate
