/-
  C04 lemmas: the output only grows; an `@type` mark flushes the automaton from every mode.
-/
import BibVerif.Lemmas.Doc
import BibVerif.Lemmas.NoRaise
namespace Bib

variable (P : PyChars)

/-- a step only appends to the output (`out` is kept reversed: new blocks are consed in front) -/
theorem step_out_suffix (s : St) (t : Tok) : ∃ new, (step P s t).out = new ++ s.out := by
  unfold step
  split
  · exact ⟨[], rfl⟩
  · have hTop : ∀ (s' : St) impl il, ∃ new, (stepTop P s' impl il t).out = new ++ s'.out := by
      intro s' impl il
      unfold stepTop
      split
      · exact ⟨_, rfl⟩
      · exact ⟨[], rfl⟩
      · exact ⟨[], rfl⟩
    split
    · exact hTop s _ _
    · rename_i m hnt
      have hredo : ∀ why : Fail, ∃ new,
          (match (abort s why).mode with
            | .top impl il => stepTop P (abort s why) impl il t
            | _ => abort s why).out = new ++ s.out := by
        intro why
        have hmode : (abort s why).mode = .top [] s.line := by simp [abort, toTop]
        rw [hmode]
        obtain ⟨n1, h1⟩ := hTop (abort s why) [] s.line
        exact ⟨n1 ++ [Block.failed why s.blockLine (rflat s.raw)], by rw [h1]; simp [abort, toTop]⟩
      split
      · unfold absorb; split <;> exact ⟨[], rfl⟩
      · unfold absorb; split <;> exact ⟨[], rfl⟩
      · simp only []
        repeat' first
          | exact hredo _
          | exact ⟨[], rfl⟩
          | exact ⟨[_], rfl⟩
          | split

theorem run_out_suffix (ts : List Tok) : ∀ s, ∃ new, (run P s ts).out = new ++ s.out := by
  induction ts with
  | nil => intro s; exact ⟨[], rfl⟩
  | cons t ts ih =>
    intro s
    obtain ⟨n1, h1⟩ := step_out_suffix P s t
    obtain ⟨n2, h2⟩ := ih (step P s t)
    exact ⟨n2 ++ n1, by rw [run_cons, h2, h1]; simp⟩

/-- the reason recorded when a block start interrupts the mode -/
def abortWhy : Mode → Fail
  | .bracket _ _ _ => .atInBracket
  | .strKey _ => .expectedEqString
  | .strVal _ _ _ => .atInBracket
  | .entKey _ _ => .expectedComma
  | .fldKey _ _ _ _ => .expectedEq
  | .fldVal _ _ _ _ _ _ _ _ _ => .atInValue
  | _ => .eof

/-- the state between blocks that an `@type` mark forces: the pending implicit comment stays
pending (it is closed by the mark itself), an open block is closed as a failed block -/
def flushed (s : St) : St :=
  match s.mode with
  | .top _ _ => s
  | m => abort s (abortWhy m)

theorem flushed_mode (s : St) (hm : ∀ k ty, s.mode ≠ .afterAt k ty) :
    ∃ impl il, (flushed s).mode = .top impl il := by
  unfold flushed
  split
  · rename_i impl il h; exact ⟨impl, il, h⟩
  · exact ⟨[], s.line, by simp [abort, toTop]⟩

theorem flushed_err (s : St) : (flushed s).err = s.err := by
  unfold flushed; split <;> simp [abort, toTop]

theorem flushed_line (s : St) : (flushed s).line = s.line := by
  unfold flushed; split <;> simp [abort, toTop]

/-- **An `@type{` mark resets the scanner from every mode** — whatever the quote flag and the brace
counters: the open block (if any) is closed as a failed block that ends before the mark, and the
mark is processed as between blocks. -/
theorem at_resets (s : St) (lit : Str) (he : s.err = none) (hm : ∀ k ty, s.mode ≠ .afterAt k ty) :
    step P s (AT lit) = step P (flushed s) (AT lit) := by
  cases s with
  | mk out line bl raw mode err =>
    simp only at he; subst he
    cases mode <;> simp_all [flushed, step, AT, abort, toTop, abortWhy]
    all_goals (try (split <;> rfl))

end Bib
