/-
  C04, lexer level: the lexing of `x ++ y` is the lexing of `x` followed by the lexing of `y`
  whenever `y` starts with a block start (`@type{`): look-ahead from inside `x` stops at the `@`.
-/
import BibVerif.Lex
import BibVerif.Lemmas.Relex
namespace Bib

variable (P : PyChars)

theorem takeWhile_append_stop {α} (p : α → Bool) (v : List α) (x : α) (r : List α) (hx : p x = false) :
    (v ++ x :: r).takeWhile p = v.takeWhile p ∧
    (v ++ x :: r).dropWhile p = v.dropWhile p ++ (if v.dropWhile p = [] then x :: r else x :: r) := by
  induction v with
  | nil => simp [List.takeWhile, List.dropWhile, hx]
  | cons a v ih =>
    by_cases ha : p a = true
    · simp [List.takeWhile, List.dropWhile, ha, ih.1, ih.2]
    · simp [List.takeWhile, List.dropWhile, ha]

theorem dropWhile_append_stop {α} (p : α → Bool) (v : List α) (x : α) (r : List α) (hx : p x = false) :
    (v ++ x :: r).dropWhile p = v.dropWhile p ++ x :: r := by
  have := (takeWhile_append_stop p v x r hx).2
  simpa using this

theorem atMatch_eq (rest : Str) :
    atMatch P rest =
      if ((rest.dropWhile P.isWord).dropWhile isBlank).head? = some '{' then
        some (rest.takeWhile P.isWord ++ (rest.dropWhile P.isWord).takeWhile isBlank,
              (rest.dropWhile P.isWord).dropWhile isBlank)
      else none := by
  unfold atMatch
  simp only
  cases hr : (rest.dropWhile P.isWord).dropWhile isBlank with
  | nil => simp
  | cons c t =>
    by_cases hc : c = '{'
    · subst hc; simp
    · simp only [List.head?_cons, Option.some.injEq, hc, ↓reduceIte]
      split
      · rename_i h; injection h with h1 _; exact absurd h1 hc
      · rfl

/-- the `@type` alternative tried inside `v` does not see past a following `@` -/
theorem atMatch_append_at (hP : P.isWord '@' = false) (v r : Str) :
    atMatch P (v ++ '@' :: r) = match atMatch P v with
      | some (lit, r2) => some (lit, r2 ++ '@' :: r)
      | none => none := by
  rw [atMatch_eq, atMatch_eq]
  simp only [(takeWhile_append_stop P.isWord v '@' r hP).1, dropWhile_append_stop P.isWord v '@' r hP,
    (takeWhile_append_stop isBlank (v.dropWhile P.isWord) '@' r (by decide)).1,
    dropWhile_append_stop isBlank (v.dropWhile P.isWord) '@' r (by decide)]
  cases hr : (v.dropWhile P.isWord).dropWhile isBlank with
  | nil => simp
  | cons c t =>
    by_cases hc : c = '{'
    · subst hc; simp
    · simp [hc]

theorem lexFrom_mark_step (b : Bool) (c : Char) (k : Kind) (rest : Str)
    (hk : (if (b && decide (c ≠ '\n')) = true then none else delimKind c) = some k) :
    lexFrom P b (c :: rest) = .mark k [c] :: lexFrom P false rest := by
  rw [lexFrom]; rw [hk]

theorem lexFrom_at_step (b : Bool) (rest lit r2 : Str) (h : atMatch P rest = some (lit, r2)) :
    lexFrom P b ('@' :: rest) = .mark .at ('@' :: lit) :: lexFrom P false r2 := by
  rw [lexFrom]
  have hd : (if (b && decide ('@' ≠ '\n')) = true then none else delimKind '@') = none := by
    cases b <;> simp [delimKind]
  rw [hd]
  simp only [↓reduceIte]
  split
  · rename_i lit' r2' heq
    rw [h] at heq; injection heq with heq; injection heq with h1 h2
    subst h1; subst h2; rfl
  · rename_i heq; rw [h] at heq; cases heq

theorem pushText_append (c : Char) (a b : List Tok) (hb : startsWithMark b) :
    pushText c (a ++ b) = pushText c a ++ b := by
  cases a with
  | nil => rw [List.nil_append, pushText_of_startsWithMark c b hb]; rfl
  | cons t a => cases t <;> simp [pushText]

/-- **Lexer boundary.** If `y = '@' :: r` starts with a block start, then
`lex (x ++ y) = lex x ++ lex y`, whatever `x` is. -/
theorem lex_append_at (hP : P.isWord '@' = false) (r lit r2 : Str) (hy : atMatch P r = some (lit, r2))
    (b : Bool) (x : Str) :
    lexFrom P b (x ++ '@' :: r) = lexFrom P b x ++ lexFrom P false ('@' :: r) := by
  have hys : startsWithMark (lexFrom P false ('@' :: r)) := by
    rw [lexFrom_at_step P false r lit r2 hy]; trivial
  fun_induction lexFrom P b x with
  | case1 b =>
    simp only [List.nil_append]
    rw [lexFrom_at_step P b r lit r2 hy, lexFrom_at_step P false r lit r2 hy]
  | case2 b c rest k hk ih =>
    rw [List.cons_append, lexFrom_mark_step P b c k _ hk, ih]; rfl
  | case3 b rest lit' r2' h hk ih =>
    have : atMatch P (rest ++ '@' :: r) = some (lit', r2' ++ '@' :: r) := by
      rw [atMatch_append_at P hP, h]
    rw [List.cons_append, lexFrom_at_step P b _ _ _ this, ih]; rfl
  | case4 b rest h hk ih =>
    have : atMatch P (rest ++ '@' :: r) = none := by rw [atMatch_append_at P hP, h]
    rw [List.cons_append, lexFrom_text_step P b '@' _ hk (fun _ => this)]
    simp only [show decide ('@' = '\\') = false from by decide]
    rw [ih, pushText_append _ _ _ hys]
  | case5 b c rest hk hc ih =>
    rw [List.cons_append, lexFrom_text_step P b c _ hk (fun h => absurd h hc), ih,
      pushText_append _ _ _ hys]

end Bib
