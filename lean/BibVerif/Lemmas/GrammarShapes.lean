/-
  C05 (grammar level): the token predicates of the grammar (`IsBal`, `IsQBody`, `IsValue`, plain
  tokens) only depend on the kinds of the tokens, are insensitive to white space at both ends
  (`TrimClosed`), and the three shapes a parsed value can have - `{w}`, `"w"`, bare / concatenated -
  all give a content that can be written between braces again (`ValueOK`, `StrValOK`).
-/
import BibVerif.Lemmas.TrimLex
import BibVerif.Lemmas.LexNl
import BibVerif.Lemmas.ParsedWritable
namespace Bib.PrintParse
open Bib Bib.Enclosing

variable {P : PyChars}

/-! ### only the kinds of the tokens matter -/

def tokKind : Tok → Option Kind
  | .text _ => none
  | .mark k _ => some k

theorem tokKind_mark {t : Tok} {k : Kind} (h : tokKind t = some k) : ∃ l, t = .mark k l := by
  cases t with
  | text cs => cases h
  | mark k' l => simp only [tokKind, Option.some.injEq] at h; subst h; exact ⟨l, rfl⟩

theorem isBalPlain_kind {t t' : Tok} (h : tokKind t' = tokKind t) (ht : isBalPlain t = true) : isBalPlain t' = true := by
  cases t with
  | text cs => cases t' with
    | text cs' => rfl
    | mark k l => simp [tokKind] at h
  | mark k l => cases t' with
    | text cs' => simp [tokKind] at h
    | mark k' l' =>
      simp only [tokKind, Option.some.injEq] at h; subst h
      cases k' <;> simp_all [isBalPlain]

theorem isQPlain_kind {t t' : Tok} (h : tokKind t' = tokKind t) (ht : isQPlain t = true) : isQPlain t' = true := by
  cases t with
  | text cs => cases t' with
    | text cs' => rfl
    | mark k l => simp [tokKind] at h
  | mark k l => cases t' with
    | text cs' => simp [tokKind] at h
    | mark k' l' =>
      simp only [tokKind, Option.some.injEq] at h; subst h
      cases k' <;> simp_all [isQPlain]

theorem isPlainTok_kind {t t' : Tok} (h : tokKind t' = tokKind t) (ht : isPlainTok t = true) : isPlainTok t' = true := by
  cases t with
  | text cs => cases t' with
    | text cs' => rfl
    | mark k l => simp [tokKind] at h
  | mark k l => cases t' with
    | text cs' => simp [tokKind] at h
    | mark k' l' =>
      simp only [tokKind, Option.some.injEq] at h; subst h
      cases k' <;> simp_all [isPlainTok]

/-- splitting a list whose kinds are those of `l :: a ++ r :: b` -/
theorem kinds_group {ts' : List Tok} {k1 k2 : Kind} {l r : Str} {a b : List Tok}
    (h : ts'.map tokKind = (Tok.mark k1 l :: (a ++ Tok.mark k2 r :: b)).map tokKind) :
    ∃ l' r' a' b', ts' = .mark k1 l' :: (a' ++ .mark k2 r' :: b') ∧ a'.map tokKind = a.map tokKind ∧
      b'.map tokKind = b.map tokKind := by
  simp only [List.map_cons, List.map_append, tokKind] at h
  obtain ⟨t0, rest, rfl, h0, hrest⟩ := List.map_eq_cons_iff.mp h
  obtain ⟨a', r2, rfl, ha, hr2⟩ := List.map_eq_append_iff.mp hrest
  obtain ⟨t1, b', rfl, h1, hb⟩ := List.map_eq_cons_iff.mp hr2
  obtain ⟨l', rfl⟩ := tokKind_mark h0
  obtain ⟨r', rfl⟩ := tokKind_mark h1
  exact ⟨l', r', a', b', rfl, ha, hb⟩

theorem isBal_kinds {ts : List Tok} (h : IsBal ts) : ∀ ts', ts'.map tokKind = ts.map tokKind → IsBal ts' := by
  induction h with
  | nil => intro ts' h; simp at h; subst h; exact IsBal.nil
  | plain t ts ht _ ih =>
    intro ts' h
    obtain ⟨t', r', rfl, h0, hr⟩ := List.map_eq_cons_iff.mp h
    exact IsBal.plain t' r' (isBalPlain_kind h0 ht) (ih r' hr)
  | grp l r a b _ _ iha ihb =>
    intro ts' h
    obtain ⟨l', r', a', b', rfl, ha, hb⟩ := kinds_group h
    exact IsBal.grp l' r' a' b' (iha a' ha) (ihb b' hb)

theorem isQBody_kinds {ts : List Tok} (h : IsQBody ts) : ∀ ts', ts'.map tokKind = ts.map tokKind → IsQBody ts' := by
  induction h with
  | nil => intro ts' h; simp at h; subst h; exact IsQBody.nil
  | plain t ts ht _ ih =>
    intro ts' h
    obtain ⟨t', r', rfl, h0, hr⟩ := List.map_eq_cons_iff.mp h
    exact IsQBody.plain t' r' (isQPlain_kind h0 ht) (ih r' hr)
  | grp l r a b ha _ ihb =>
    intro ts' h
    obtain ⟨l', r', a', b', rfl, ha', hb⟩ := kinds_group h
    exact IsQBody.grp l' r' a' b' (isBal_kinds ha a' ha') (ihb b' hb)

theorem isValue_kinds {ts : List Tok} (h : IsValue ts) : ∀ ts', ts'.map tokKind = ts.map tokKind → IsValue ts' := by
  induction h with
  | nil => intro ts' h; simp at h; subst h; exact IsValue.nil
  | plain t ts ht _ ih =>
    intro ts' h
    obtain ⟨t', r', rfl, h0, hr⟩ := List.map_eq_cons_iff.mp h
    exact IsValue.plain t' r' (isPlainTok_kind h0 ht) (ih r' hr)
  | braced l r a b ha _ ihb =>
    intro ts' h
    obtain ⟨l', r', a', b', rfl, ha', hb⟩ := kinds_group h
    exact IsValue.braced l' r' a' b' (isBal_kinds ha a' ha') (ihb b' hb)
  | quoted l r a b ha _ ihb =>
    intro ts' h
    obtain ⟨l', r', a', b', rfl, ha', hb⟩ := kinds_group h
    exact IsValue.quoted l' r' a' b' (isQBody_kinds ha a' ha') (ihb b' hb)

/-! ### inclusions -/

theorem isQBody_isBal {ts : List Tok} (h : IsQBody ts) : IsBal ts := by
  induction h with
  | nil => exact IsBal.nil
  | plain t ts ht _ ih =>
    refine IsBal.plain t ts ?_ ih
    cases t with
    | text cs => rfl
    | mark k l => cases k <;> simp_all [isQPlain, isBalPlain]
  | grp l r a b ha _ ih => exact IsBal.grp l r a b ha ih

theorem isValue_isBal {ts : List Tok} (h : IsValue ts) : IsBal ts := by
  induction h with
  | nil => exact IsBal.nil
  | plain t ts ht _ ih =>
    refine IsBal.plain t ts ?_ ih
    cases t with
    | text cs => rfl
    | mark k l => cases k <;> simp_all [isPlainTok, isBalPlain]
  | braced l r a b ha _ ih => exact IsBal.grp l r a b ha ih
  | quoted l r a b ha _ ih =>
    have h1 : IsBal (a ++ .mark .quote r :: b) := IsBal.append (isQBody_isBal ha) (IsBal.plain _ _ rfl ih)
    exact IsBal.plain _ _ rfl h1

/-! ### removing a plain token at either end -/

theorem isBal_cons_inv {t : Tok} {ts : List Tok} (ht : isBalPlain t = true) (h : IsBal (t :: ts)) : IsBal ts := by
  generalize hl : t :: ts = l at h
  cases h with
  | nil => cases hl
  | plain t' ts' _ h' => injection hl with h1 h2; subst h2; exact h'
  | grp l r a b _ _ => injection hl with h1 _; subst h1; simp [isBalPlain] at ht

theorem isBal_snoc_inv {l : List Tok} (h : IsBal l) : ∀ (ts : List Tok) (t : Tok), isBalPlain t = true →
    l = ts ++ [t] → IsBal ts := by
  induction h with
  | nil => intro ts t _ h; simp at h
  | plain t' ts' ht' _ ih =>
    intro ts t ht h
    cases ts with
    | nil => exact IsBal.nil
    | cons x xs =>
      simp only [List.cons_append, List.cons.injEq] at h
      obtain ⟨rfl, h2⟩ := h
      exact IsBal.plain _ _ ht' (ih xs t ht h2)
  | grp l r a b ha _ _ ihb =>
    intro ts t ht h
    -- the last token of `LB a RB b` is the last of `b`, or RB itself
    rcases List.eq_nil_or_concat b with hb | ⟨b', x, hb⟩
    · subst hb
      have : (Tok.mark Kind.lbrace l :: (a ++ [Tok.mark Kind.rbrace r])) = (Tok.mark Kind.lbrace l :: a) ++ [Tok.mark Kind.rbrace r] := by simp
      rw [this] at h
      have := List.append_inj' h (by simp)
      have h2 : Tok.mark Kind.rbrace r = t := by simpa using this.2
      subst h2; simp [isBalPlain] at ht
    · rw [List.concat_eq_append] at hb
      subst hb
      have : (Tok.mark Kind.lbrace l :: (a ++ Tok.mark Kind.rbrace r :: (b' ++ [x]))) =
          (Tok.mark Kind.lbrace l :: (a ++ Tok.mark Kind.rbrace r :: b')) ++ [x] := by simp
      rw [this] at h
      have h' := List.append_inj' h (by simp)
      have hx : x = t := by simpa using h'.2
      subst hx
      rw [← h'.1]
      exact IsBal.grp l r a b' ha (ihb b' x ht rfl)

theorem isValue_cons_inv {t : Tok} {ts : List Tok} (ht : isPlainTok t = true) (h : IsValue (t :: ts)) : IsValue ts := by
  generalize hl : t :: ts = l at h
  cases h with
  | nil => cases hl
  | plain t' ts' _ h' => injection hl with h1 h2; subst h2; exact h'
  | braced l r a b _ _ => injection hl with h1 _; subst h1; simp [isPlainTok] at ht
  | quoted l r a b _ _ => injection hl with h1 _; subst h1; simp [isPlainTok] at ht

theorem isValue_snoc_inv {l : List Tok} (h : IsValue l) : ∀ (ts : List Tok) (t : Tok), isPlainTok t = true →
    l = ts ++ [t] → IsValue ts := by
  induction h with
  | nil => intro ts t _ h; simp at h
  | plain t' ts' ht' _ ih =>
    intro ts t ht h
    cases ts with
    | nil => exact IsValue.nil
    | cons x xs =>
      simp only [List.cons_append, List.cons.injEq] at h
      obtain ⟨rfl, h2⟩ := h
      exact IsValue.plain _ _ ht' (ih xs t ht h2)
  | braced l r a b ha _ ihb =>
    intro ts t ht h
    rcases List.eq_nil_or_concat b with hb | ⟨b', x, hb⟩
    · subst hb
      have : (Tok.mark Kind.lbrace l :: (a ++ [Tok.mark Kind.rbrace r])) = (Tok.mark Kind.lbrace l :: a) ++ [Tok.mark Kind.rbrace r] := by simp
      rw [this] at h
      have := List.append_inj' h (by simp)
      have h2 : Tok.mark Kind.rbrace r = t := by simpa using this.2
      subst h2; simp [isPlainTok] at ht
    · rw [List.concat_eq_append] at hb
      subst hb
      have : (Tok.mark Kind.lbrace l :: (a ++ Tok.mark Kind.rbrace r :: (b' ++ [x]))) =
          (Tok.mark Kind.lbrace l :: (a ++ Tok.mark Kind.rbrace r :: b')) ++ [x] := by simp
      rw [this] at h
      have h' := List.append_inj' h (by simp)
      have hx : x = t := by simpa using h'.2
      subst hx
      rw [← h'.1]
      exact IsValue.braced l r a b' ha (ihb b' x ht rfl)
  | quoted l r a b ha _ ihb =>
    intro ts t ht h
    rcases List.eq_nil_or_concat b with hb | ⟨b', x, hb⟩
    · subst hb
      have : (Tok.mark Kind.quote l :: (a ++ [Tok.mark Kind.quote r])) = (Tok.mark Kind.quote l :: a) ++ [Tok.mark Kind.quote r] := by simp
      rw [this] at h
      have := List.append_inj' h (by simp)
      have h2 : Tok.mark Kind.quote r = t := by simpa using this.2
      subst h2; simp [isPlainTok] at ht
    · rw [List.concat_eq_append] at hb
      subst hb
      have : (Tok.mark Kind.quote l :: (a ++ Tok.mark Kind.quote r :: (b' ++ [x]))) =
          (Tok.mark Kind.quote l :: (a ++ Tok.mark Kind.quote r :: b')) ++ [x] := by simp
      rw [this] at h
      have h' := List.append_inj' h (by simp)
      have hx : x = t := by simpa using h'.2
      subst hx
      rw [← h'.1]
      exact IsValue.quoted l r a b' ha (ihb b' x ht rfl)

theorem isPlain_isBalPlain {t : Tok} (h : isPlainTok t = true) : isBalPlain t = true := by
  cases t with
  | text cs => rfl
  | mark k l => cases k <;> simp_all [isPlainTok, isBalPlain]

theorem kinds_text (A B : List Tok) (a a' : Str) :
    (A ++ Tok.text a' :: B).map tokKind = (A ++ Tok.text a :: B).map tokKind := by
  simp [tokKind]

theorem trimClosed_isBal : TrimClosed IsBal where
  consPlain := fun _ _ ht h => isBal_cons_inv (isPlain_isBalPlain ht) h
  snocPlain := fun ts t ht h => isBal_snoc_inv h ts t (isPlain_isBalPlain ht) rfl
  textAny := fun A a a' B h => isBal_kinds h _ (kinds_text A B a a')

theorem trimClosed_isValue : TrimClosed IsValue where
  consPlain := fun _ _ ht h => isValue_cons_inv ht h
  snocPlain := fun ts t ht h => isValue_snoc_inv h ts t ht rfl
  textAny := fun A a a' B h => isValue_kinds h _ (kinds_text A B a a')

theorem trimClosed_allPlain : TrimClosed (fun ts => ts.all isPlainTok = true) where
  consPlain := fun _ _ _ h => by simp only [List.all_cons, Bool.and_eq_true] at h; exact h.2
  snocPlain := fun _ _ _ h => by simp only [List.all_append, Bool.and_eq_true] at h; exact h.1
  textAny := fun A a a' B h => by simpa [List.all_append, isPlainTok] using h

/-! ### from source tokens to the stripped text -/

theorem spaceHarmless_of_printOK (hP : PrintOK P) : SpaceHarmless P := by
  intro c hc
  rcases hP.space c hc with h | ⟨h1, h2⟩
  · exact Or.inl h
  · exact Or.inr ⟨h1, h2⟩

/-- the tokens of the stripped flattening of a source piece keep every `TrimClosed` property of the
piece -/
theorem strip_tokens {Q : List Tok → Prop} (hQ : TrimClosed Q) (hP : PrintOK P) (ts : List Tok)
    (hrelex : lexFrom P false (flatten ts) = ts) (h : Q ts) : Q (lexFrom P false (strip P (flatten ts))) :=
  trim_lex hQ hP.word (spaceHarmless_of_printOK hP) hP.nlWord _ (by rw [hrelex]; exact h)

theorem lastIsBS_eq_endBS (b : Bool) (v : Str) : lastIsBS b v = Reparse.endBS b v := rfl

/-! ### the three shapes of a parsed value -/

theorem lex_braces (hP : PrintOK P) (v : Str) (he : Reparse.endBS false v = false) :
    lexFrom P false ('{' :: (v ++ ['}'])) = LB :: (lexFrom P false v ++ [RB]) := by
  rw [lex_delim P '{' .lbrace _ (by decide), Reparse.lexFrom_append_rbrace P hP.rbWord [] false v he]
  simp [lexFrom, LB, RB]

theorem lex_quotes (hP : PrintOK P) (v : Str) (he : Reparse.endBS false v = false) :
    lexFrom P false ('"' :: (v ++ ['"'])) = .mark .quote ['"'] :: (lexFrom P false v ++ [.mark .quote ['"']]) := by
  rw [lex_delim P '"' .quote _ (by decide), Reparse.lexFrom_append_quote P hP.qWord [] false v he]
  simp [lexFrom]

/-- the content of a text whose tokens are balanced, once one enclosing layer is stripped and braces
are put around it, lexes to balanced tokens again -/
theorem strValOK_of_tokens (hP : PrintOK P) (x : Str) (hx : IsBal (lexFrom P false x)) (hs : strip P x = x)
    (he : Reparse.endBS false (stripEnclosing P x).1 = false) : StrValOK P (stripEnclosing P x).1 := by
  refine ⟨?_, he⟩
  rcases stripEnclosing_cases P x with ⟨i, hi, hr⟩ | ⟨i, hi, hr⟩ | ⟨_, _, hr⟩
  · have hv : (stripEnclosing P x).1 = i := by rw [hr]
    rw [hs] at hi
    have hi' : x = '{' :: (i ++ ['}']) := by simpa using hi
    rw [hv, ← hi']; exact hx
  · have hv : (stripEnclosing P x).1 = i := by rw [hr]
    rw [hv] at he ⊢
    rw [hs] at hi
    have hi' : x = '"' :: (i ++ ['"']) := by simpa using hi
    rw [hi', lex_quotes hP i he] at hx
    have h1 := isBal_cons_inv rfl hx
    have h2 := isBal_snoc_inv h1 _ _ rfl rfl
    rw [lex_braces hP i he]
    simpa [LB, RB] using IsBal.grp ['{'] ['}'] _ [] h2 IsBal.nil
  · have hv : (stripEnclosing P x).1 = x := by rw [hr, hs]
    rw [hv] at he ⊢
    rw [lex_braces hP x he]
    simpa [LB, RB] using IsBal.grp ['{'] ['}'] _ [] hx IsBal.nil

/-- ... and for a text whose tokens are a `Value`: the three shapes `{w}` (same text), `"w"` (a `QBody`
inside braces is balanced), bare / concatenated (a `Value` inside one more brace pair) -/
theorem valueOK_of_tokens (hP : PrintOK P) (x : Str) (hx : IsValue (lexFrom P false x)) (hs : strip P x = x)
    (he : Reparse.endBS false (stripEnclosing P x).1 = false) : ValueOK P (stripEnclosing P x).1 := by
  refine ⟨?_, he⟩
  rcases stripEnclosing_cases P x with ⟨i, hi, hr⟩ | ⟨i, hi, hr⟩ | ⟨_, _, hr⟩
  · have hv : (stripEnclosing P x).1 = i := by rw [hr]
    rw [hs] at hi
    have hi' : x = '{' :: (i ++ ['}']) := by simpa using hi
    rw [hv, ← hi']; exact hx
  · have hv : (stripEnclosing P x).1 = i := by rw [hr]
    rw [hv] at he ⊢
    rw [hs] at hi
    have hi' : x = '"' :: (i ++ ['"']) := by simpa using hi
    have hb := isValue_isBal hx
    rw [hi', lex_quotes hP i he] at hb
    have h1 := isBal_cons_inv rfl hb
    have h2 := isBal_snoc_inv h1 _ _ rfl rfl
    rw [lex_braces hP i he]
    simpa [LB, RB] using IsValue.braced ['{'] ['}'] _ [] h2 IsValue.nil
  · have hv : (stripEnclosing P x).1 = x := by rw [hr, hs]
    rw [hv] at he ⊢
    rw [lex_braces hP x he]
    simpa [LB, RB] using IsValue.braced ['{'] ['}'] _ [] (isValue_isBal hx) IsValue.nil

/-- a text whose tokens are plain, without trailing backslash, is a `KeyOK` -/
theorem keyOK_of_tokens (k : Str) (hx : (lexFrom P false k).all isPlainTok = true)
    (he : Reparse.endBS false k = false) : KeyOK P k := ⟨hx, he⟩

/-- a text whose tokens are plain, without newline and trailing backslash, is a `KeyText` -/
theorem keyText_of_tokens (k : Str) (hx : (lexFrom P false k).all isPlainTok = true) (hnl : '\n' ∉ k)
    (he : Reparse.endBS false k = false) : KeyText P k := by
  refine ⟨?_, he⟩
  have hcanon := lex_canonical P false k
  have hflat := flatten_lexFrom P false k
  generalize lexFrom P false k = T at hx hcanon hflat
  match T, hx, hcanon, hflat with
  | [], _, _, hflat =>
    have : k = [] := by simpa [flatten] using hflat.symm
    subst this; exact cleanText_nil false []
  | t :: rest, hx, hcanon, hflat =>
    rcases canon_cons_inv hcanon with ⟨kd, l, rfl, _, hd⟩ | ⟨cs, rfl, hcs, hclean, hm, hc⟩
    · -- a mark among plain tokens is a newline mark, whose text is in `k`
      exfalso
      simp only [List.all_cons, Bool.and_eq_true] at hx
      have hkd : kd = .nl := by
        cases kd <;> simp [isPlainTok] at hx ⊢
      subst hkd
      obtain ⟨ch, rfl, hk, _⟩ := hd rfl
      have hch : ch = '\n' := (delimKind_nl_iff ch .nl hk).mp rfl
      subst hch
      apply hnl
      rw [← hflat]; simp [flatten, Tok.lit]
    · -- a text token; what follows starts with a mark, which would again be a newline
      cases rest with
      | nil =>
        have : k = cs := by simpa [flatten, Tok.lit] using hflat.symm
        subst this
        simpa [flatten] using hclean
      | cons t2 r2 =>
        exfalso
        simp only [List.all_cons, Bool.and_eq_true] at hx
        cases t2 with
        | text cs2 => exact hm
        | mark kd l =>
          have hkd : kd = .nl := by
            have := hx.2.1
            cases kd <;> simp [isPlainTok] at this ⊢
          subst hkd
          rcases canon_cons_inv hc with ⟨kd', l', h0, _, hd⟩ | ⟨cs', h0, _⟩
          · injection h0 with h1 h2; subst h1; subst h2
            obtain ⟨ch, rfl, hk, _⟩ := hd rfl
            have hch : ch = '\n' := (delimKind_nl_iff ch .nl hk).mp rfl
            subst hch
            apply hnl
            rw [← hflat]; simp [flatten, Tok.lit]
          · cases h0

end Bib.PrintParse
