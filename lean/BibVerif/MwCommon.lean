/-
  Pieces shared by the middleware models (month.py, fieldkeys.py, sorting_*.py):

  * `mdSet`            `block.parser_metadata[key] = value` on an insertion-ordered dict
  * `libraryOf`        `Library(blocks)`  (library.py:20-46,136-158): every block is appended; an
                       `Entry` / `String` whose key is already held by an earlier Entry / String of this
                       library is wrapped into a `DuplicateBlockKeyBlock`
  * `blockMw`          `BlockMiddleware.transform` (middleware.py:76-134) for middlewares that only
                       override `transform_entry` and return one block
-/
import BibVerif.Model
namespace Bib

/-- `d[k] = v` on an insertion-ordered dict: update in place, else append -/
def mdSet (m : MetaD) (k : Str) (v : Meta) : MetaD :=
  match m with
  | [] => [(k, v)]
  | (k', v') :: r => if k' = k then (k, v) :: r else (k', v') :: mdSet r k v

/-- state of `Library.add` while it loops over the blocks: blocks so far (reversed) and the two dicts -/
structure LibSt where
  rev : List Block := []
  entries : List (Str × Live) := []
  strings : List (Str × Live) := []
deriving Repr

/-- one iteration of the loop in `Library.add` (`_add_to_dicts` + append).  The two `assert`s of
`_cast_to_duplicate` cannot fire: the previous block came from the dict of the same class and was
looked up by this very key. -/
def LibSt.add (st : LibSt) (b : Block) : LibSt :=
  match b with
  | .live (.entry e) =>
    match st.entries.lookup e.key with
    | some prev => { st with rev := .dupKey e.key prev (.entry e) :: st.rev }
    | none => { st with rev := b :: st.rev, entries := st.entries ++ [(e.key, .entry e)] }
  | .live (.string k v l r m) =>
    match st.strings.lookup k with
    | some prev => { st with rev := .dupKey k prev (.string k v l r m) :: st.rev }
    | none => { st with rev := b :: st.rev, strings := st.strings ++ [(k, .string k v l r m)] }
  | _ => { st with rev := b :: st.rev }

/-- `Library(blocks).blocks` -/
def libraryOf (bs : List Block) : List Block := (bs.foldl LibSt.add {}).rev.reverse

/-- `BlockMiddleware.transform_block` for a middleware that only overrides `transform_entry` (and cannot
raise): entries are transformed, every other block class is handed back as it is -/
def mapEntries (g : Entry → Entry) (b : Block) : Block :=
  match b with
  | .live (.entry e) => .live (.entry (g e))
  | _ => b

/-- `BlockMiddleware.transform` for a middleware whose `transform_entry` may raise and returns the
(mutated) entry; every other block class is handed back as it is (also the failed-block classes:
"Unknown block type" is only logged). -/
def mwBlock {ε} (onEntry : Entry → Except ε Entry) (b : Block) : Except ε Block :=
  match b with
  | .live (.entry e) =>
    match onEntry e with
    | .ok r => .ok (.live (.entry r))
    | .error x => .error x
  | _ => .ok b

def blockMw {ε} (onEntry : Entry → Except ε Entry) (bs : List Block) : Except ε (List Block) :=
  match bs.mapM (mwBlock onEntry) with
  | .ok out => .ok (libraryOf out)
  | .error x => .error x

end Bib
