/-
  C13 — Name parts follow BibTeX's First/von/Last/Jr rules and keep every word once.

  Statements only.  Helper lemmas: Lemmas/NamesAssign.lean (the partition function),
  Lemmas/NamesScan.lean (the scanner against the reference functions), Lemmas/NamesMw.lean;
  the reference notions (`dropTopSeps`, `Invalid`, …) are defined in Lemmas/NamesSpec.lean, the
  partition rule (`Rule1`, `Rule23`) in Lemmas/NamesAssign.lean.

  `parse P` is the model of `parse_single_name_into_parts(name, strict=True)`; `scan P` its first
  half (comma sections of words, each word with its case); `P` ranges over every classification
  of characters by `str.isalpha` / `str.isupper` - no hypothesis about them is needed.
  A word is lower-case (`isLowerW`) when the case the scanner computed for it is 0; by `case_spec`
  that case is `wordCase P w` (Names/Case.lean: BibTeX's case of the word as a function of the
  word's own characters), so `rule_form1_case` / `rule_form23_case` / `rule_form3_case` state the
  partition rule on the texts of the words alone (`Rule1T`, `Rule23T` in Lemmas/NamesCase.lean:
  "lower-case word" = `wordCase P w = 0`).
-/
import BibVerif.Lemmas.NamesAssign
import BibVerif.Lemmas.NamesScan
import BibVerif.Lemmas.NamesMw
import BibVerif.Lemmas.NamesMerge
import BibVerif.Lemmas.NamesCase
namespace Bib.C13
open Bib NameP Names

variable (P : PyChars)

theorem parse_of_scan {n : Str} {secs : List (List Word)} (h : scan P n = .ok secs) :
    parse P n = .ok (assign secs) := by
  unfold parse; rw [h]

/-- **C13 (every word once, in order, unaltered).**  Concatenating all words of all comma sections
in order gives the name with its top-level separators removed (`dropTopSeps`: an independent
recursion over brace depth and escapes). -/
theorem words_preserved (n : Str) (secs : List (List Word)) (h : scan P n = .ok secs) :
    ((secs.map words).flatten.flatten : Str) = dropTopSeps false 0 n :=
  (kscan_ok_spec (kscan_of_scan_ok P h)).2.1

/-- what the scanner returns: at most three sections, no empty word, the last section non-empty -/
theorem scan_shape (n : Str) (secs : List (List Word)) (h : scan P n = .ok secs) :
    secs.length ≤ 3 ∧ (∀ sec ∈ secs, ∀ w ∈ sec, w.1 ≠ []) ∧ (∀ l, secs.getLast? = some l → l ≠ []) := by
  obtain ⟨_, _, h3, h4, h5⟩ := kscan_ok_spec (kscan_of_scan_ok P h)
  refine ⟨by simpa using h3, ?_, ?_⟩
  · intro sec hs w hw
    exact h4 (words sec) (List.mem_map.mpr ⟨sec, hs, rfl⟩) w.1 (List.mem_map.mpr ⟨w, hw, rfl⟩)
  · intro l hl h0
    have := h5 (words l) (by simp [List.getLast?_map, hl])
    apply this; simp [h0, words]

/-- **C13 (sections).**  `first ++ von ++ last` is the only section of a comma-free name
(form 1), `von ++ last` the first comma section of forms 2/3; `jr` and `first` are the later
sections; there are never more than three sections and a blank name has empty parts. -/
theorem sections_partition (n : Str) (secs : List (List Word)) (h : scan P n = .ok secs) :
    match secs with
    | [] => parse P n = .ok {}
    | [p0] => ∃ p, parse P n = .ok p ∧ p.first ++ p.von ++ p.last = words p0 ∧ p.jr = [] ∧ p0 ≠ []
    | [p0, f] => ∃ p, parse P n = .ok p ∧ p.von ++ p.last = words p0 ∧ p.first = words f ∧ p.jr = [] ∧ f ≠ []
    | [p0, j, f] => ∃ p, parse P n = .ok p ∧ p.von ++ p.last = words p0 ∧ p.jr = words j ∧
        p.first = words f ∧ f ≠ []
    | _ => False := by
  obtain ⟨hlen, hne, hlast⟩ := scan_shape P n secs h
  have hp := parse_of_scan P h
  match secs, hlen, hne, hlast, hp with
  | [], _, _, _, hp => simpa [assign, assignW, WParts.toNameParts, words] using hp
  | [p0], _, _, hlast, hp =>
    have hp0 : p0 ≠ [] := hlast p0 rfl
    refine ⟨_, hp, ?_, ?_, hp0⟩
    · match p0, hp0 with
      | [w], _ => simp [assign_one, words]
      | [a, b], _ => simp [assign_two, words]
      | a :: b :: c :: r, _ =>
        obtain ⟨F, V, L, hr, he⟩ := assign_form1 (a :: b :: c :: r) (by simp)
        rw [he, hr.split]; simp [words]
    · match p0, hp0 with
      | [w], _ => simp [assign_one]
      | [a, b], _ => simp [assign_two]
      | a :: b :: c :: r, _ =>
        obtain ⟨F, V, L, _, he⟩ := assign_form1 (a :: b :: c :: r) (by simp)
        rw [he]
  | [p0, f], _, hne, hlast, hp =>
    obtain ⟨V, L, hr, he⟩ := assign23_rule p0 [] f false (hne f (by simp)) (by simp)
    have : assign [p0, f] = (assign23 p0 [] f false).toNameParts := rfl
    refine ⟨_, hp, ?_, ?_, ?_, hlast f rfl⟩ <;> rw [this, he]
    · rw [hr.split]; simp [words]
    · simp
  | [p0, j, f], _, hne, hlast, hp =>
    obtain ⟨V, L, hr, he⟩ := assign23_rule p0 j f true (hne f (by simp)) (hne j (by simp))
    have : assign [p0, j, f] = (assign23 p0 j f true).toNameParts := rfl
    refine ⟨_, hp, ?_, ?_, ?_, hlast f rfl⟩ <;> rw [this, he]
    · rw [hr.split]; simp [words]
    · simp
  | _ :: _ :: _ :: _ :: _, hlen, _, _, _ => simp at hlen

/-- **C13 (rule, comma-free form).**  One word is Last.  Two words are First Last.  Otherwise
(`Rule1`): First are the leading non-lower-case words; von begins with the first lower-case word
and ends with the last lower-case word that is not the final word; Last is the rest, always keeps
the final word, and is just the final word when no word before it is lower-case. -/
theorem rule_form1 (n : Str) (p0 : List Word) (h : scan P n = .ok [p0]) :
    (∀ w, p0 = [w] → parse P n = .ok { last := [w.1] }) ∧
    (∀ a b, p0 = [a, b] → parse P n = .ok { first := [a.1], last := [b.1] }) ∧
    (3 ≤ p0.length → ∃ F V L, Rule1 p0 F V L ∧
      parse P n = .ok { first := words F, von := words V, last := words L, jr := [] }) := by
  have hp := parse_of_scan P h
  refine ⟨?_, ?_, ?_⟩
  · intro w hw; subst hw; rw [hp, assign_one]
  · intro a b hw; subst hw; rw [hp, assign_two]
  · intro h3
    obtain ⟨F, V, L, hr, he⟩ := assign_form1 p0 h3
    exact ⟨F, V, L, hr, by rw [hp, he]⟩

/-- the rule is exact: `Rule1` (comma-free form) and `Rule23` (comma forms) each determine the
partition uniquely, so `rule_form1` / `rule_form23` leave no freedom -/
theorem rule_form1_unique {p0 F V L F' V' L' : List Word} (h : Rule1 p0 F V L) (h' : Rule1 p0 F' V' L') :
    F = F' ∧ V = V' ∧ L = L' :=
  rule1_unique h h'

theorem rule_form23_unique {p0 V L V' L' : List Word} (h : Rule23 p0 V L) (h' : Rule23 p0 V' L')
    (hne : p0 ≠ []) : V = V' ∧ L = L' :=
  rule23_eq h h' hne

/-- **C13 (rule, comma forms).**  The first comma section is `von ++ Last` (`Rule23`): von begins
at the section start and ends with the last lower-case word that is not the final word of the
section, Last is the rest and keeps at least the final word; Jr (form 3) and First are the later
sections as they stand. -/
theorem rule_form23 (n : Str) (p0 f : List Word) (h : scan P n = .ok [p0, f]) :
    ∃ V L, Rule23 p0 V L ∧
      parse P n = .ok { first := words f, jr := [], von := words V, last := words L } := by
  obtain ⟨_, hne, _⟩ := scan_shape P n _ h
  obtain ⟨V, L, hr, he⟩ := assign23_rule p0 [] f false (hne f (by simp)) (by simp)
  have : assign [p0, f] = (assign23 p0 [] f false).toNameParts := rfl
  exact ⟨V, L, hr, by rw [parse_of_scan P h, this, he]; simp⟩

theorem rule_form3 (n : Str) (p0 j f : List Word) (h : scan P n = .ok [p0, j, f]) :
    ∃ V L, Rule23 p0 V L ∧
      parse P n = .ok { first := words f, jr := words j, von := words V, last := words L } := by
  obtain ⟨_, hne, _⟩ := scan_shape P n _ h
  obtain ⟨V, L, hr, he⟩ := assign23_rule p0 j f true (hne f (by simp)) (hne j (by simp))
  have : assign [p0, j, f] = (assign23 p0 j f true).toNameParts := rfl
  exact ⟨V, L, hr, by rw [parse_of_scan P h, this, he]; simp⟩

/-- **C13 (case of a word).**  The case the one-pass scanner records for a word - computed inline,
interleaved with sections, separators and the words before it - is BibTeX's case of that word as a
function of the word's own characters: `wordCase P w` (`1` upper, `0` lower, `-1` caseless), a fold
over the characters of `w` alone in which the first letter that counts decides; letters count at
brace depth 0, as the character of an escape that does not open a special character, and inside a
special character `{\cs …}` after its control sequence; ordinary brace groups are skipped.
For every name, every classification of characters, every word of every section. -/
theorem case_spec (n : Str) (secs : List (List Word)) (h : scan P n = .ok secs) :
    ∀ sec ∈ secs, ∀ w ∈ sec, caseInt w.2 = wordCase P w.1 := by
  intro sec hs w hw
  unfold wordCase
  rw [scan_cases P h sec hs w hw]

/-- the same in the scanner's own type of cases (`none` caseless, `some false` lower, `some true` upper) -/
theorem case_spec_c (n : Str) (secs : List (List Word)) (h : scan P n = .ok secs) :
    ∀ sec ∈ secs, ∀ w ∈ sec, w.2 = wordCaseC P w.1 :=
  scan_cases P h

/-- "lower-case word" (`isLowerW`, the notion `Rule1` / `Rule23` are stated with) is
`wordCase P w = 0` for every word the scanner returns -/
theorem lower_iff_wordCase (n : Str) (secs : List (List Word)) (h : scan P n = .ok secs) :
    ∀ sec ∈ secs, ∀ w ∈ sec, (isLowerW w = true ↔ wordCase P w.1 = 0) ∧
      (isLowerW w = false ↔ wordCase P w.1 ≠ 0) := by
  intro sec hs w hw
  have := scan_cases P h sec hs w hw
  exact ⟨isLowerW_iff P this, isLowerW_false_iff P this⟩

/-- **C13 (rule, comma-free form, on the texts alone).**  `rule_form1` with "lower-case" spelled
out: for three or more words the parts `F V L` are lists of strings with `Rule1T`: they concatenate
to the words of the section, no word of First has `wordCase = 0`, von (if any) begins and ends with
a word of `wordCase = 0`, Last is non-empty, only its final word may have `wordCase = 0`, and it is
one word when von is empty.  `Rule1T` determines `F V L` (`rule_form1_case_unique`). -/
theorem rule_form1_case (n : Str) (p0 : List Word) (h : scan P n = .ok [p0]) (h3 : 3 ≤ p0.length) :
    ∃ F V L : List Str, Rule1T P (words p0) F V L ∧
      parse P n = .ok { first := F, von := V, last := L, jr := [] } := by
  obtain ⟨F, V, L, hr, hp⟩ := (rule_form1 P n p0 h).2.2 h3
  exact ⟨words F, words V, words L, rule1_text P hr (scan_cases P h p0 (by simp)), hp⟩

theorem rule_form1_case_unique {p0 F V L F' V' L' : List Str}
    (h : Rule1T P p0 F V L) (h' : Rule1T P p0 F' V' L') : F = F' ∧ V = V' ∧ L = L' :=
  rule1T_unique P h h'

/-- **C13 (rule, comma forms, on the texts alone).**  `rule_form23` / `rule_form3` with
"lower-case" spelled out (`Rule23T`): von ends with the last word of `wordCase = 0` that is not the
final word of the first section; Last is the rest. -/
theorem rule_form23_case (n : Str) (p0 f : List Word) (h : scan P n = .ok [p0, f]) :
    ∃ V L : List Str, Rule23T P (words p0) V L ∧
      parse P n = .ok { first := words f, jr := [], von := V, last := L } := by
  obtain ⟨V, L, hr, hp⟩ := rule_form23 P n p0 f h
  exact ⟨words V, words L, rule23_text P hr (scan_cases P h p0 (by simp)), hp⟩

theorem rule_form3_case (n : Str) (p0 j f : List Word) (h : scan P n = .ok [p0, j, f]) :
    ∃ V L : List Str, Rule23T P (words p0) V L ∧
      parse P n = .ok { first := words f, jr := words j, von := V, last := L } := by
  obtain ⟨V, L, hr, hp⟩ := rule_form3 P n p0 j f h
  exact ⟨words V, words L, rule23_text P hr (scan_cases P h p0 (by simp)), hp⟩

theorem rule_form23_case_unique {p0 V L V' L' : List Str}
    (h : Rule23T P p0 V L) (h' : Rule23T P p0 V' L') (hne : p0 ≠ []) : V = V' ∧ L = L' :=
  rule23T_unique P h h' hne

/-- **C13 (invalid names).**  `parse` fails - always with one of the four `InvalidNameError`
reasons, the model has no other failure mode - exactly for names with unbalanced braces, more than
two top-level commas, or a trailing comma (`Invalid`, independent recursions over the text). -/
theorem invalid_iff (n : Str) : (∃ e, parse P n = .error e) ↔ Invalid n := by
  constructor
  · rintro ⟨e, he⟩
    unfold parse at he
    cases hs : scan P n with
    | error e' => exact kscan_error_spec (kscan_of_scan_error P hs)
    | ok secs => rw [hs] at he; cases he
  · intro hinv
    cases hs : scan P n with
    | error e => exact ⟨e, by unfold parse; rw [hs]⟩
    | ok secs => exact absurd hinv (kscan_ok_spec (kscan_of_scan_ok P hs)).1

/-- **C13 (error block).**  When `SplitNameParts` meets an invalid name in a name field, the
result is a `MiddlewareErrorBlock` (no exception) whose `ignore_error_block` is the entry being
transformed: the name fields before the failing one already converted (`pre'`), the failing field
and everything after it untouched. -/
theorem middleware_error_block (e : Entry) (pre post pre' : List Field) (fld : Field) (l : List Str)
    (he : e.fields = pre ++ fld :: post)
    (hpre : mapFields (transformValue P .splitParts) pre = (pre', none))
    (hk : nameFields.contains fld.key = true) (hv : fld.value = .names l)
    (hbad : ∃ n ∈ l, ∃ err, parse P n = .error err) :
    transformEntry P .splitParts e =
      .ok (.mwError .invalidName (.entry { e with fields := pre' ++ fld :: post })) := by
  obtain ⟨err, hpa⟩ := parseAll_error_of_bad P l hbad
  unfold transformEntry
  rw [he, mapFields_append, hpre]
  simp only [mapFields, hk, if_true, hv, transformValue, hpa]

/-- **C13 (never an exception).**  On an entry whose name fields hold lists of strings (what
`SeparateCoAuthors` produces) `SplitNameParts` returns either the converted entry or an error block
around an entry with the same type, key, raw text, line, metadata and field keys - it never raises. -/
theorem middleware_never_raises (e : Entry)
    (h : ∀ fld ∈ e.fields, fld.key ∈ nameFields → ∃ l, fld.value = .names l) :
    ∃ fs, fs.map (·.key) = e.fields.map (·.key) ∧
      (transformEntry P .splitParts e = .ok (.live (.entry { e with fields := fs })) ∨
       transformEntry P .splitParts e = .ok (.mwError .invalidName (.entry { e with fields := fs }))) := by
  refine ⟨(mapFields (transformValue P .splitParts) e.fields).1, mapFields_keys _ _, ?_⟩
  unfold transformEntry
  rcases mapFields_split_err P e.fields h with h0 | ⟨err, h1⟩
  · left
    rcases hm : mapFields (transformValue P .splitParts) e.fields with ⟨fs, o⟩
    rw [hm] at h0; simp only at h0; subst h0; rfl
  · right
    rcases hm : mapFields (transformValue P .splitParts) e.fields with ⟨fs, o⟩
    rw [hm] at h1; simp only at h1; subst h1; rfl

/-! ### non-vacuity (evaluated by the kernel) -/

/-- D8 witness: `AA bb CC dd` is First=`AA`, von=`bb`, Last=`CC dd` -/
example : parse asciiChars "AA bb CC dd".toList =
    .ok { first := ["AA".toList], von := ["bb".toList], last := ["CC".toList, "dd".toList] } := by
  decide +kernel

/-- an instance of the hypothesis of `rule_form1` with three words and of `words_preserved` -/
example : scan asciiChars "AA bb~CC".toList =
    .ok [[("AA".toList, some true), ("bb".toList, some false), ("CC".toList, some true)]] := by
  decide +kernel

/-- an instance of the hypotheses of `rule_form3` / `sections_partition` (three sections) -/
example : (scan asciiChars "de la Vall{\\'e}e Poussin, Jr, Charles".toList).toOption.map (·.map words) =
    some [["de".toList, "la".toList, "Vall{\\'e}e".toList, "Poussin".toList], ["Jr".toList], ["Charles".toList]] := by
  decide +kernel

/-- `wordCase` on concrete words: special characters `{\'E}x` (upper: the `E` after the control
sequence `\'`), `{\'e}x` (lower), `{\relax ab}` (lower: the letters of `\relax` and the blank that
ends it do not count), `{\relax Ab}` (upper), an ordinary brace group `{Ab}` (caseless: skipped),
`{Ab}c` (lower: the first depth-0 letter), `\x1` (lower: the escaped `x`), `\X` (upper), `{x\Y}`
(upper: the escape is not at the brace start, so its character counts even inside the group), `{\1Ab}` (upper: the one non-letter `1` ends the
control sequence), `{{\'e}}z` (lower by `z`: the escape is at the start of the inner group, whose
special character then counts - `e`), `12` and the empty word (caseless), `A\` (trailing backslash) -/
example : wordCase asciiChars "{\\'E}x".toList = 1 ∧ wordCase asciiChars "{\\'e}x".toList = 0 ∧
    wordCase asciiChars "{\\relax ab}".toList = 0 ∧ wordCase asciiChars "{\\relax Ab}".toList = 1 ∧
    wordCase asciiChars "{Ab}".toList = -1 ∧ wordCase asciiChars "{Ab}c".toList = 0 ∧
    wordCase asciiChars "\\x1".toList = 0 ∧ wordCase asciiChars "\\X".toList = 1 ∧
    wordCase asciiChars "{x\\Y}".toList = 1 ∧ wordCase asciiChars "{\\1Ab}".toList = 1 ∧
    wordCase asciiChars "{{\\'e}}z".toList = 0 ∧ wordCase asciiChars "12".toList = -1 ∧
    wordCase asciiChars [] = -1 ∧ wordCase asciiChars "a\\".toList = 0 ∧
    wordCase asciiChars "{\\ a}B".toList = 1 := by
  decide +kernel

/-- an instance of `case_spec` / `rule_form1_case`: the scanner's cases for a name with special
characters, and the per-word function on the same words -/
example : scan asciiChars "{\\'E}x {\\relax ab} {Ab} \\x1".toList =
      .ok [[("{\\'E}x".toList, some true), ("{\\relax ab}".toList, some false), ("{Ab}".toList, none),
            ("\\x1".toList, some false)]] ∧
    ["{\\'E}x", "{\\relax ab}", "{Ab}", "\\x1"].map (fun w => wordCase asciiChars w.toList) = [1, 0, -1, 0] := by
  decide +kernel

/-- the four invalid shapes, and a valid one -/
example : Invalid "A}".toList ∧ Invalid "{A".toList ∧ Invalid "A, B, C, D".toList ∧ Invalid "A, B,".toList ∧
    ¬ Invalid "A\\}, {B,}".toList := by decide +kernel

/-- D14 input: an entry with an invalid name becomes an error block around the entry -/
example : transformEntry asciiChars .splitParts
    { ty := "a".toList, key := "k".toList, line := 0, raw := [],
      fields := [⟨"author".toList, .names ["A, B, C, D".toList], 1⟩] } =
    .ok (.mwError .invalidName (.entry
      { ty := "a".toList, key := "k".toList, line := 0, raw := [],
        fields := [⟨"author".toList, .names ["A, B, C, D".toList], 1⟩] })) := by
  decide +kernel

end Bib.C13
