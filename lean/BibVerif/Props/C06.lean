/-
  C06 — The written text obeys the BibtexFormat contract and carries every block's content.

  Statements only (model: Writer.lean; helper lemmas and the declarative shapes `fieldLine`,
  `fieldLines`, `entryText`, `blockText`, `padding`, `hasComma`: Lemmas/Writer.lean).
  `write P F L` is the model of `bibtexparser.writer.write(library, bibtex_format)`, `L` the list
  `library.blocks`; `resolveFormat F L` is the format the blocks are rendered with (the caller's, or a
  copy with the computed column for `value_column = "auto"`).  Shape theorems are stated for items
  whose values are `str` (`IsStr`, as after the default unparse stack); for other values both the
  model and the code raise `TypeError` from `"".join`.
-/
import BibVerif.Lemmas.Writer
namespace Bib.C06
open Bib Bib.Writer

variable (P : PyChars)

/-! ### separator: blocks in library order, joined by exactly the separator, none after the last -/

/-- If every block has a text, the output is these texts joined by `block_separator`. -/
theorem write_eq_intercalate (F : BibtexFormat) (L : List Item) (texts : List Str)
    (h : Forall2 (fun b t => blockText P (resolveFormat F L) b = .ok t) L texts) :
    write P F L = .ok (joinWith F.blockSeparator texts) := by
  obtain ⟨pieces, hp, hj⟩ := writeLoop_join P (resolveFormat F L) L.length L texts h 0 (by simp)
  simp [write, writeSt, hp, hj, resolveFormat_sep]

/-- Conversely, whatever `write` returns is such a join: one text per block, in order. -/
theorem write_ok_inv (F : BibtexFormat) (L : List Item) (out : Str) (h : write P F L = .ok out) :
    ∃ texts, Forall2 (fun b t => blockText P (resolveFormat F L) b = .ok t) L texts ∧
      out = joinWith F.blockSeparator texts := by
  simp only [write, writeSt] at h
  cases hp : writeLoop P (resolveFormat F L) L.length 0 L with
  | error e => simp [hp] at h
  | ok pieces =>
    simp only [hp] at h
    obtain ⟨texts, hf, ho⟩ := writeLoop_inv P (resolveFormat F L) L.length L 0 (by simp) pieces out hp h
    exact ⟨texts, hf, by rw [ho, resolveFormat_sep]⟩

/-- `joinWith` is `List.intercalate`: separator between consecutive texts only. -/
theorem joinWith_eq_intercalate (sep : Str) (texts : List Str) :
    joinWith sep texts = List.intercalate sep texts := by
  induction texts with
  | nil => rfl
  | cons x r ih =>
    cases r with
    | nil => simp [joinWith, List.intercalate]
    | cons y r' =>
      simp only [joinWith, ih]
      simp [List.intercalate, List.intersperse]

/-! ### entries: header, one line per field, footer -/

/-- An entry is written as `@type{key,\n`, then one line per field, then `}\n`. -/
theorem entry_shape (F : BibtexFormat) (col : Nat) (hc : F.valueColumn = .num col) (e : Entry)
    (hv : ∀ f ∈ e.fields, IsStr f.value) :
    blockText P F (.block (.live (.entry e))) = .ok
      (['@'] ++ e.ty ++ ['{'] ++ e.key ++ [',', '\n'] ++
        fieldLines F col e.fields.length 0 e.fields ++ ['}', '\n']) := by
  obtain ⟨p, hp, hj⟩ := treatEntry_join F col hc e hv
  simp [blockText, treatBlock, hp, hj, entryText]

/-- `fieldLines` is one `fieldLine` per field, in order: the field at position `pre.length` of `n`
fields contributes exactly
`indent ++ key ++ padding ++ " = " ++ value ++ comma? ++ "\n"` (definition of `fieldLine`). -/
theorem entry_lines (F : BibtexFormat) (col n : Nat) (pre : List Field) (f : Field) (post : List Field) :
    fieldLines F col n 0 (pre ++ f :: post) =
      fieldLines F col n 0 pre ++
      (F.indent ++ f.key ++ padding col f.key ++ " = ".toList ++ valText f.value ++
        (if hasComma F n pre.length then [','] else []) ++ ['\n']) ++
      fieldLines F col n (pre.length + 1) post := by
  rw [fieldLines_append]
  simp [fieldLines, fieldLine, VAL_SEP]

/-! ### the value column -/

/-- Key short enough: the value starts at column `len(indent) + value_column` of its line. -/
theorem value_column_hit (F : BibtexFormat) (col n i : Nat) (f : Field)
    (hk : f.key.length + 3 ≤ col) (hi : '\n' ∉ F.indent) (hkey : '\n' ∉ f.key) :
    ∃ pre post, fieldLine F col n i f = pre ++ valText f.value ++ post ∧
      pre.length = F.indent.length + col ∧ '\n' ∉ pre := by
  refine ⟨F.indent ++ f.key ++ padding col f.key ++ VAL_SEP,
    (if hasComma F n i then [','] else []) ++ ['\n'], by simp [fieldLine], ?_, ?_⟩
  · simp [padding, VAL_SEP]; omega
  · simp [padding, VAL_SEP, hi, hkey]

/-- Key too long for the column: no padding, the value follows `key = ` directly. -/
theorem value_column_miss (F : BibtexFormat) (col n i : Nat) (f : Field) (hk : col ≤ f.key.length + 3) :
    padding col f.key = [] ∧
    ∃ post, fieldLine F col n i f = F.indent ++ f.key ++ " = ".toList ++ valText f.value ++ post := by
  have hp : padding col f.key = [] := by
    unfold padding
    have : col - (f.key.length + 3) = 0 := by omega
    rw [this]; rfl
  exact ⟨hp, (if hasComma F n i then [','] else []) ++ ['\n'], by simp [fieldLine, hp, VAL_SEP]⟩

/-- `value_column = "auto"`: every live entry is rendered with the column `maxKey + 3`, every key fits
it, hence all values of all entries start in the same column `len(indent) + maxKey + 3`. -/
theorem auto_aligned (F : BibtexFormat) (L : List Item) (ha : F.valueColumn = .auto)
    (e : Entry) (he : Item.block (.live (.entry e)) ∈ L) (hv : ∀ f ∈ e.fields, IsStr f.value) :
    blockText P (resolveFormat F L) (.block (.live (.entry e))) =
        .ok (entryText (resolveFormat F L) (maxKeyLen L + 3) e) ∧
    ∀ f ∈ e.fields, ∀ n i, '\n' ∉ F.indent → '\n' ∉ f.key →
      ∃ pre post, fieldLine (resolveFormat F L) (maxKeyLen L + 3) n i f = pre ++ valText f.value ++ post ∧
        pre.length = F.indent.length + (maxKeyLen L + 3) ∧ '\n' ∉ pre := by
  constructor
  · obtain ⟨p, hp, hj⟩ := treatEntry_join (resolveFormat F L) _ (resolveFormat_auto F L ha) e hv
    simp [blockText, treatBlock, hp, hj]
  · intro f hf n i hi hkey
    have hle := le_maxKeyLen (mem_liveEntries.mpr he) hf
    have := value_column_hit (resolveFormat F L) (maxKeyLen L + 3) n i f (by omega)
      (by rw [resolveFormat_indent]; exact hi) hkey
    rwa [resolveFormat_indent] at this

/-- ... and that column is minimal: some field of some live entry gets no padding at all. -/
theorem auto_minimal (F : BibtexFormat) (L : List Item) (ha : F.valueColumn = .auto)
    (h : ∃ e, Item.block (.live (.entry e)) ∈ L ∧ e.fields ≠ []) :
    (resolveFormat F L).valueColumn = .num (maxKeyLen L + 3) ∧
    ∃ e f, Item.block (.live (.entry e)) ∈ L ∧ f ∈ e.fields ∧
      f.key.length + 3 = maxKeyLen L + 3 ∧ padding (maxKeyLen L + 3) f.key = [] := by
  refine ⟨resolveFormat_auto F L ha, ?_⟩
  obtain ⟨e, he, hne⟩ := h
  obtain ⟨e', he', f, hf, hl⟩ := maxKeyLen_attained ⟨e, mem_liveEntries.mpr he, hne⟩
  refine ⟨e', f, mem_liveEntries.mp he', hf, by omega, ?_⟩
  unfold padding
  have : maxKeyLen L + 3 - (f.key.length + 3) = 0 := by omega
  rw [this]; rfl

/-- An explicit integer column is used as it is (and the format needs no copy). -/
theorem explicit_column (F : BibtexFormat) (L : List Item) (c : Nat) (h : F.valueColumn = .num c) :
    resolveFormat F L = F := resolveFormat_num F L c h

/-! ### the comma rule -/

/-- A comma follows every field that is not the last one ... -/
theorem comma_rule_inner (F : BibtexFormat) (n i : Nat) (h : i + 1 < n) : hasComma F n i = true := by
  simp [hasComma, h]

/-- ... and the last one has it iff `trailing_comma` is set (also with a single field). -/
theorem comma_rule_last (F : BibtexFormat) (n i : Nat) (h : i + 1 = n) : hasComma F n i = F.trailingComma := by
  have : ¬ i + 1 < n := by omega
  simp [hasComma, this]

/-- The pieces the model's loop body emits for field `i` of `n` join to the `fieldLine` with exactly
that comma decision (ties `hasComma` to `trailing_comma or i < len(fields) - 1`). -/
theorem comma_rule (F : BibtexFormat) (col n i : Nat) (f : Field) (hc : F.valueColumn = .num col)
    (hv : IsStr f.value) :
    ∃ p, fieldPieces F n i f = .ok p ∧
      joinPieces p = .ok (F.indent ++ f.key ++ padding col f.key ++ " = ".toList ++ valText f.value ++
        (if F.trailingComma = true ∨ i + 1 < n then [','] else []) ++ ['\n']) := by
  obtain ⟨p, hp, hj⟩ := fieldPieces_join F col n i f hc hv
  refine ⟨p, hp, ?_⟩
  rw [hj]
  simp [fieldLine, hasComma, VAL_SEP]

/-! ### failed blocks -/

/-- Every failed block (parsing failure, duplicate field keys, duplicate block key, middleware error)
is written as the configured comment with `{n}` = `len(raw.splitlines())`, a newline, the raw text
verbatim, a newline. -/
theorem failed_verbatim (F : BibtexFormat) (b : Block) (hb : b.isFailed = true) (c : Str)
    (hc : formatN (splitlinesCount P b.raw) F.parsingFailedComment = .ok c) :
    blockText P F (.block b) = .ok (c ++ ['\n'] ++ b.raw ++ ['\n']) := by
  cases b with
  | live l => simp [Block.isFailed] at hb
  | failed w l r => simp [blockText, treatBlock, treatFailed, Block.raw] at hc ⊢; simp [hc, joinPieces]
  | dupField d e => simp [blockText, treatBlock, treatFailed, Block.raw] at hc ⊢; simp [hc, joinPieces]
  | dupKey k p d => simp [blockText, treatBlock, treatFailed, Block.raw] at hc ⊢; simp [hc, joinPieces]
  | mwError w i => simp [blockText, treatBlock, treatFailed, Block.raw] at hc ⊢; simp [hc, joinPieces]

/-- The configured comment: a template `a{n}b` without other braces becomes `a<count>b`. -/
theorem failed_comment_n (n : Nat) (a b : Str) (ha : NoBrace a) (hb : NoBrace b) :
    formatN n (a ++ "{n}".toList ++ b) = .ok (a ++ natToStr n ++ b) := by
  rw [List.append_assoc, formatN_plain_append n a _ ha]
  show prependOk a (formatN n ('{' :: 'n' :: '}' :: b)) = _
  rw [formatN_field, formatN_plain n b hb]
  simp [prependOk]

/-- A custom comment without `{n}` is used as it is. -/
theorem failed_comment_plain (n : Nat) (a : Str) (ha : NoBrace a) : formatN n a = .ok a :=
  formatN_plain n a ha

/-! ### the format object -/

/-- The caller's format object is the same after the call (the `auto` column is set on a copy). -/
theorem format_unchanged (F : BibtexFormat) (L : List Item) : (writeSt P F L).2 = F := rfl

/-- ... also the copy differs from the caller's format in `value_column` only. -/
theorem copy_differs_in_column_only (F : BibtexFormat) (L : List Item) :
    (resolveFormat F L).indent = F.indent ∧ (resolveFormat F L).blockSeparator = F.blockSeparator ∧
    (resolveFormat F L).trailingComma = F.trailingComma ∧
    (resolveFormat F L).parsingFailedComment = F.parsingFailedComment :=
  ⟨resolveFormat_indent F L, resolveFormat_sep F L, resolveFormat_comma F L, resolveFormat_comment F L⟩

/-! ### totality on writable libraries -/

/-- A library of blocks whose values are strings is always written (no exception), provided the
configured comment is a valid template. -/
theorem write_total (F : BibtexFormat) (L : List Item) (hL : ∀ it ∈ L, Writable it)
    (ht : ∀ n, ∃ c, formatN n F.parsingFailedComment = .ok c) : ∃ t, write P F L = .ok t := by
  obtain ⟨col, hcol⟩ := resolveFormat_isNum F L
  have key : ∀ it, Writable it → ∃ t, blockText P (resolveFormat F L) it = .ok t := by
    intro it hw
    have hfail : ∀ b : Block, b.isFailed = true → ∃ t, blockText P (resolveFormat F L) (.block b) = .ok t := by
      intro b hb
      obtain ⟨c, hc⟩ := ht (splitlinesCount P b.raw)
      rw [← resolveFormat_comment F L] at hc
      exact ⟨_, failed_verbatim P _ b hb c hc⟩
    match it, hw with
    | .other, hw => exact hw.elim
    | .block (.live (.entry e)), hw => exact ⟨_, entry_shape P _ col hcol e hw⟩
    | .block (.live (.string k v l r m)), hw =>
      obtain ⟨s, rfl⟩ := hw
      simp [blockText, treatBlock, pieceOfVal, joinPieces]
    | .block (.live (.preamble v l r m)), _ => simp [blockText, treatBlock, joinPieces]
    | .block (.live (.expl c l r m)), _ => simp [blockText, treatBlock, joinPieces]
    | .block (.live (.impl c l r m)), _ => simp [blockText, treatBlock, joinPieces]
    | .block (.failed w l r), _ => exact hfail _ rfl
    | .block (.dupField d e), _ => exact hfail _ rfl
    | .block (.dupKey k p d), _ => exact hfail _ rfl
    | .block (.mwError w i), _ => exact hfail _ rfl
  have all : ∀ L' : List Item, (∀ it ∈ L', Writable it) →
      ∃ texts, Forall2 (fun b t => blockText P (resolveFormat F L) b = .ok t) L' texts := by
    intro L'
    induction L' with
    | nil => exact fun _ => ⟨[], .nil⟩
    | cons b r ih =>
      intro h
      obtain ⟨t, ht'⟩ := key b (h b (by simp))
      obtain ⟨ts, hts⟩ := ih (fun x hx => h x (by simp [hx]))
      exact ⟨t :: ts, .cons ht' hts⟩
  obtain ⟨texts, hts⟩ := all L hL
  exact ⟨_, write_eq_intercalate P F L texts hts⟩

/-! ### non-vacuity: concrete instances evaluated by the kernel -/

def exEntry : Entry :=
  { ty := "article".toList, key := "k".toList,
    fields := [⟨"author".toList, .str "{A}".toList, 1⟩, ⟨"year".toList, .str "2020".toList, 2⟩],
    line := 0, raw := "raw".toList }

def exLib : List Item :=
  [.block (.live (.entry exEntry)), .block (.failed .eof 5 "@a{k, x\ny".toList),
   .block (.live (.expl "c".toList 9 [] []))]

/-- two fields, explicit column 10, trailing comma off, a failed block of two lines under a custom
comment, separator `%%\n` between but not after the blocks -/
example :
    write asciiChars { indent := "  ".toList, valueColumn := .num 10, blockSeparator := "%%\n".toList,
                       trailingComma := false, parsingFailedComment := "% failed: {n} lines".toList } exLib
      = .ok ("@article{k,\n  author  = {A},\n  year    = 2020\n}\n%%\n" ++
             "% failed: 2 lines\n@a{k, x\ny\n%%\n@comment{c}\n").toList := by
  decide +kernel

/-- `auto`: the column is `len("author") + 3`; the caller's format still says `auto` -/
example :
    writeSt asciiChars { indent := [], valueColumn := .auto, blockSeparator := [], trailingComma := true }
        [.block (.live (.entry exEntry))]
      = (.ok "@article{k,\nauthor = {A},\nyear   = 2020,\n}\n".toList,
         { indent := [], valueColumn := .auto, blockSeparator := [], trailingComma := true }) := by
  decide +kernel

/-- the hypotheses of `value_column_hit` / `auto_minimal` / `failed_comment_n` are satisfiable -/
example : ("year".toList.length + 3 ≤ 10) ∧ '\n' ∉ "  ".toList ∧ '\n' ∉ "year".toList := by decide

example : ∃ e, Item.block (.live (.entry e)) ∈ exLib ∧ e.fields ≠ [] :=
  ⟨exEntry, by simp [exLib], by intro h; cases h⟩

example : NoBrace "% failed: ".toList ∧ NoBrace " lines".toList := by
  constructor <;> (intro c hc; revert c hc; decide)

/-- an int value makes `"".join` raise `TypeError`; an unknown object `ValueError` -/
example : write asciiChars {} [.block (.live (.entry { exEntry with fields := [⟨"year".toList, .int 2020, 1⟩] }))]
    = .error .typeError := by decide +kernel

example : write asciiChars {} [.other] = .error .valueError := by decide +kernel

end Bib.C06
