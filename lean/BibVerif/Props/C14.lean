/-
  C14 — Splitting names and merging them back is an inverse pair through the whole stack.

  Statements only.  Helper lemmas: Lemmas/NamesMerge.lean; reference notions (`NoOddBS`,
  `Balanced`, `Trimmed`, `NoAndWord`, `topWords`) in Lemmas/NamesSpec.lean.

  `parse P` = `parse_single_name_into_parts`, `mergeLastFirst` = `NameParts.merge_last_name_first`,
  `CoAuth.split` = `split_multiple_persons_names`, `CoAuth.join` = `" and ".join`,
  `applyOps P ops` = the name middlewares applied in order to one block.

  Second sentence (through the entry points; models in Names/Pipeline.lean, lemmas in
  Lemmas/NamesPipeline.lean): `parseNames P s` = `parse_string(s, append_middleware=[SeparateCoAuthors(),
  SplitNameParts()])`, `writeNames P F L` = `write_string(L, prepend_middleware=[MergeNameParts(),
  MergeCoAuthors()], bibtex_format=F)`; `applyMws` = a stack of name middlewares over a library the way
  the entry points run it (one middleware over all blocks, `Library(blocks)`, then the next),
  `applyOpsLib` = the same block by block; `Pipeline.parseDefault` / `writeDefault` = the default stacks
  (C05), `contentOf` = class, type, key, field keys and values in order (so: the structured names).
-/
import BibVerif.Lemmas.NamesMerge
import BibVerif.Lemmas.NamesJoin
import BibVerif.Lemmas.NamesMergedOk
import BibVerif.Lemmas.NamesStack
import BibVerif.Lemmas.NamesPipeline
namespace Bib.C14
open Bib NameP Names CoAuth Bib.Pipeline Bib.PrintParse

/-- what a name must satisfy to survive `" and ".join` + `split`: not empty, trimmed,
brace-balanced, not ending in an unescaped backslash (it would escape the blank of ` and `; the
merge functions never produce one), and without a bare top-level word `and` (any letter case) -/
def NameOK (n : Str) : Prop :=
  n ≠ [] ∧ Trimmed n ∧ Balanced n ∧ endsEscaped false n = false ∧ NoAndWord n

/-- **C14 (merge then parse).**  For the parts `p` that `parse` returns on a valid name, with a
non-empty last name and no word ending in an odd number of backslashes:
`parse (merge_last_name_first p) = p` - for every name and every classification of characters. -/
theorem merge_parse (P : PyChars) (n : Str) (p : NameParts) (h : parse P n = .ok p) (hl : p.last ≠ [])
    (hb : NoOddBS p) : parse P (mergeLastFirst p) = .ok p :=
  merge_parse_thm P n p h hl hb

/-- **C14 (join then split).**  Names that are non-empty, trimmed, brace-balanced, do not end in
an unescaped backslash and contain no bare top-level word `and` survive `" and ".join` followed by
`split_multiple_persons_names`: the list comes back exactly. -/
theorem join_split (ns : List Str) (h : ∀ n ∈ ns, NameOK n) : CoAuth.split (CoAuth.join ns) = ns :=
  split_join ns h

/-- without the backslash condition the statement is false: the backslash escapes the blank -/
theorem join_split_backslash_cx :
    ¬ (∀ ns : List Str, (∀ n ∈ ns, n ≠ [] ∧ Trimmed n ∧ Balanced n ∧ NoAndWord n) →
        CoAuth.split (CoAuth.join ns) = ns) := by
  intro h
  have := h ["A\\".toList, "B".toList] (by unfold Trimmed; decide)
  revert this
  decide

/-- the merged form of parsed parts is non-empty, trimmed, balanced and does not end in an unescaped
backslash (it may still contain a word `and`: that is the known finding K3) -/
theorem merged_ok (P : PyChars) (n : Str) (p : NameParts) (h : parse P n = .ok p) (hl : p.last ≠ [])
    (hb : NoOddBS p) :
    mergeLastFirst p ≠ [] ∧ Trimmed (mergeLastFirst p) ∧ Balanced (mergeLastFirst p) ∧
      endsEscaped false (mergeLastFirst p) = false :=
  merged_ok_thm P n p h hl hb

/-- **C14 (merge then parse), the partition half.**  Re-sectioning the parts the way
`merge_last_name_first` writes them (`von Last`, then `Jr` and `First` if non-empty) and
partitioning again gives the same parts: for every list of sections the scanner can return
(at most three, last one non-empty, no empty word) whose partition has a non-empty last name. -/
theorem merge_parse_partition (secs : List (List Word))
    (hlen : secs.length ≤ 3) (hne : ∀ sec ∈ secs, ∀ w ∈ sec, w.1 ≠ [])
    (hlast : ∀ l, secs.getLast? = some l → l ≠ [])
    (hl : (assignW secs).last ≠ []) :
    assignW (mergeSecs (assignW secs)) = assignW secs :=
  assignW_mergeSecs secs hlen hne hlast hl

/-- **C14 (co-author lists).**  If the persons `ps`
are what `parse` returns for the pieces of `s`, each with a non-empty last name, no word ending in an
odd number of backslashes and no bare word `and` in its merged form, then merging each
(last-name-first), joining with `" and "`, splitting and parsing again yields exactly `ps`. -/
theorem list_roundtrip (P : PyChars) (names : List Str) (ps : List NameParts)
    (h : parseAll P names = .ok ps)
    (hgood : ∀ p ∈ ps, p.last ≠ [] ∧ NoOddBS p ∧ NoAndWord (mergeLastFirst p)) :
    parseAll P (CoAuth.split (CoAuth.join (ps.map mergeLastFirst))) = .ok ps := by
  have hparsed : ∀ p ∈ ps, ∃ n, parse P n = .ok p := parseAll_sources P names ps h
  have hsplit : CoAuth.split (CoAuth.join (ps.map mergeLastFirst)) = ps.map mergeLastFirst := by
    apply join_split
    intro m hmem
    obtain ⟨p, hp, rfl⟩ := List.mem_map.mp hmem
    obtain ⟨n, hn⟩ := hparsed p hp
    obtain ⟨g1, g2, g3⟩ := hgood p hp
    obtain ⟨k1, k2, k3, k4⟩ := merged_ok P n p hn g1 g2
    exact ⟨k1, k2, k3, k4, g3⟩
  rw [hsplit]
  apply parseAll_map_merge P ps
  intro p hp
  obtain ⟨n, hn⟩ := hparsed p hp
  exact merge_parse P n p hn (hgood p hp).1 (hgood p hp).2.1

/-- **C14 (through the middlewares, one field value).**  For a name-field value
`s`: `SeparateCoAuthors` then `SplitNameParts` give the persons `ps`; `MergeNameParts` (last name
first) then `MergeCoAuthors` give a string; separating and splitting that string gives `ps` again. -/
theorem value_roundtrip (P : PyChars) (s : Str) (ps : List NameParts)
    (h1 : (transformValue P .separate (.str s)).bind (transformValue P .splitParts) = .ok (.parts ps))
    (hgood : ∀ p ∈ ps, p.last ≠ [] ∧ NoOddBS p ∧ NoAndWord (mergeLastFirst p)) :
    ∃ merged, ((transformValue P (.mergeParts true) (.parts ps)).bind (transformValue P .mergeCo)) = .ok (.str merged) ∧
      (transformValue P .separate (.str merged)).bind (transformValue P .splitParts) = .ok (.parts ps) := by
  have hpa : parseAll P (CoAuth.split s) = .ok ps := by
    simp only [transformValue, Except.bind] at h1
    cases hp : parseAll P (CoAuth.split s) with
    | error e => rw [hp] at h1; cases h1
    | ok ps' => rw [hp] at h1; simp only at h1; injection h1 with h1; injection h1 with h1; rw [h1]
  refine ⟨CoAuth.join (ps.map mergeLastFirst), by simp [transformValue, Except.bind], ?_⟩
  have := list_roundtrip P _ ps hpa hgood
  simp only [transformValue, Except.bind, this]

/-- **C14 (through the middleware stacks).**  If `SeparateCoAuthors` then `SplitNameParts` turn the
entry `e` into the entry `e1` (every name valid), and every person in the name fields of `e1` has a
non-empty last name, no word ending in an odd number of backslashes and no bare word `and` in its
merged form, then `MergeNameParts` (last name first) followed by `MergeCoAuthors` yield an entry `e2`
(strings again), and separating + splitting `e2` gives back exactly `e1` - the same structured names,
every other field and attribute untouched. -/
theorem stack_roundtrip (P : PyChars) (e e1 : Entry)
    (h1 : applyOps P [.separate, .splitParts] (.live (.entry e)) = .ok (.live (.entry e1)))
    (hgood : ∀ fld ∈ e1.fields, nameFields.contains fld.key = true → ∀ ps, fld.value = .parts ps →
      ∀ p ∈ ps, p.last ≠ [] ∧ NoOddBS p ∧ NoAndWord (mergeLastFirst p)) :
    ∃ e2, applyOps P [.mergeParts true, .mergeCo] (.live (.entry e1)) = .ok (.live (.entry e2)) ∧
      applyOps P [.separate, .splitParts] (.live (.entry e2)) = .ok (.live (.entry e1)) := by
  obtain ⟨hm1, _⟩ := (applyOps_two_entry P .separate .splitParts e e1).mp h1
  have hout := mapFields_outputs _ _ _ hm1
  have hfields := fields_roundtrip (chain P .separate .splitParts) (chain P (.mergeParts true) .mergeCo)
    e.fields e1.fields hm1 (by
      intro fld hfld hk
      obtain ⟨v, hv⟩ := hout fld hfld hk
      obtain ⟨s, ps, _, hps, hpa⟩ := chain_sep_split_inv P hv
      have hval : (transformValue P .separate (.str s)).bind (transformValue P .splitParts) = .ok (.parts ps) := by
        simp only [transformValue, Except.bind, hpa]
      obtain ⟨merged, g1, g2⟩ := value_roundtrip P s ps hval (hgood fld hfld hk ps hps)
      rw [hps]
      exact ⟨.str merged, g1, g2⟩)
  obtain ⟨fs2, i1, i2⟩ := hfields
  refine ⟨{ e1 with fields := fs2 }, ?_, ?_⟩
  · exact (applyOps_two_entry P (.mergeParts true) .mergeCo e1 { e1 with fields := fs2 }).mpr ⟨i1, rfl⟩
  · exact (applyOps_two_entry P .separate .splitParts { e1 with fields := fs2 } e1).mpr ⟨i2, rfl⟩

/-! ### through `parse_string(append_middleware=…)` / `write_string(prepend_middleware=…)` -/

/-- **The entry points run the middlewares one after the other over the whole library, rebuilding the
`Library` each time; on a library (live keys unique) that is the block-by-block application**: both
succeed or neither, with the same blocks - the name middlewares never change a key, so `Library(blocks)`
wraps nothing (C09 / C16 `libraryOf_of_keysUnique`). -/
theorem mws_blockwise (P : PyChars) (ops : List Op) (L M : List Block) (hu : KeysUnique L) :
    applyMws P ops L = .ok M ↔ applyOpsLib P ops L = .ok M :=
  applyMws_ok_iff P ops L M hu

/-- every library `parse_string` returns has unique live keys -/
theorem parsed_keysUnique (P : PyChars) (s : Str) (L : List Block) (h : parseDefault P s = .ok L) :
    KeysUnique L :=
  keysUnique_of_parse s L h

/-- **What the name middlewares do to a block depends only on its content** (type, key, field keys and
values - not raw text, line numbers, metadata): on two blocks of equal content a stack of them raises on
both, or yields two blocks of equal content.  (Stated for results that are not error blocks: the
`MiddlewareErrorBlock` an invalid name produces carries the entry's raw text, which is not content - see
`Names.applyOps_congr` for the general form and `content_only_failed_cx`.) -/
theorem content_only (P : PyChars) (ops : List Op) (b b' c : Block) (h : contentOf b = contentOf b')
    (hc : applyOps P ops b = .ok c) (hl : c.isFailed = false) :
    ∃ c', applyOps P ops b' = .ok c' ∧ contentOf c' = contentOf c :=
  applyOps_content_congr P ops b b' c h hc hl

/-- ... for whole libraries -/
theorem content_only_lib (P : PyChars) (ops : List Op) (L L' M : List Block)
    (h : L'.map contentOf = L.map contentOf) (hM : applyOpsLib P ops L = .ok M)
    (hl : ∀ c ∈ M, c.isFailed = false) :
    ∃ M', applyOpsLib P ops L' = .ok M' ∧ M'.map contentOf = M.map contentOf :=
  applyOpsLib_content_congr P ops L L' M h hM hl

def cxEntry (raw : Str) (v : Val) : Block :=
  .live (.entry { ty := ['a'], key := ['k'], line := 0, raw := raw, fields := [⟨"author".toList, v, 1⟩] })

/-- without "not an error block" the statement is false of `contentOf` as C05 defines it: two entries
with the same content and different raw text, one invalid name -/
theorem content_only_failed_cx :
    ¬ (∀ (b b' c : Block), contentOf b = contentOf b' →
        applyOps asciiChars [.separate, .splitParts] b = .ok c →
        ∃ c', applyOps asciiChars [.separate, .splitParts] b' = .ok c' ∧ contentOf c' = contentOf c) := by
  intro h
  obtain ⟨c', h1, h2⟩ := h (cxEntry ['x'] (.str "Aa,".toList)) (cxEntry ['y'] (.str "Aa,".toList))
    (.mwError .invalidName (.entry { ty := ['a'], key := ['k'], line := 0, raw := ['x'],
                                     fields := [⟨"author".toList, .names ["Aa,".toList], 1⟩] }))
    (by decide +kernel) (by decide +kernel)
  have : applyOps asciiChars [.separate, .splitParts] (cxEntry ['y'] (.str "Aa,".toList)) =
      .ok (.mwError .invalidName (.entry { ty := ['a'], key := ['k'], line := 0, raw := ['y'],
                                           fields := [⟨"author".toList, .names ["Aa,".toList], 1⟩] })) := by
    decide +kernel
  rw [this] at h1
  injection h1 with h1
  subst h1
  revert h2
  decide +kernel

/-- **C14 (the four middlewares over a whole library).**  `stack_roundtrip` for every block: if
separating + splitting turns the library `L0` into `L1` and the persons of `L1` are good, then merging
succeeds on `L1` and separating + splitting the merged library gives back exactly `L1`. -/
theorem lib_roundtrip (P : PyChars) (L0 L1 : List Block)
    (h1 : applyOpsLib P [.separate, .splitParts] L0 = .ok L1)
    (hgood : ∀ e, Block.live (.entry e) ∈ L1 → ∀ fld ∈ e.fields, nameFields.contains fld.key = true →
      ∀ ps, fld.value = .parts ps → ∀ p ∈ ps, p.last ≠ [] ∧ NoOddBS p ∧ NoAndWord (mergeLastFirst p)) :
    ∃ L2, applyOpsLib P [.mergeParts true, .mergeCo] L1 = .ok L2 ∧
      applyOpsLib P [.separate, .splitParts] L2 = .ok L1 :=
  lib_roundtrip_of (fun e e1 h hg => stack_roundtrip P e e1 h hg) L0 L1 h1 hgood

/-- **C14, second sentence, through the model of the whole pipeline (block lists).**  Let `L1` be what
`SeparateCoAuthors` + `SplitNameParts` make of a library `L0` (what `parse_string(append_middleware=…)`
adds on top of the default parse), every person in every name field of every entry of `L1` with a
non-empty last name, no word ending in an odd number of backslashes and no bare word `and` in its merged
form.  Then `MergeNameParts` + `MergeCoAuthors` succeed on `L1` (giving `L2`), and if `L2` is `Writable`
(C05: printable so that it reads back - this is where a merged value ending in a backslash, K5, is
excluded), the default write stack prints it, the default parse stack reads the text back (`L3`),
`SeparateCoAuthors` + `SplitNameParts` succeed on `L3`, and the result has the content of `L1`: the same
blocks with the same types, keys, field order and values - the same structured names.  For every
character table satisfying `PrintOK` and every `FormatOK` format. -/
theorem pipeline_roundtrip (P : PyChars) (F : Writer.BibtexFormat) (hP : PrintOK P) (hF : FormatOK F)
    (L0 L1 : List Block)
    (h1 : applyOpsLib P [.separate, .splitParts] L0 = .ok L1)
    (hgood : ∀ e, Block.live (.entry e) ∈ L1 → ∀ fld ∈ e.fields, nameFields.contains fld.key = true →
      ∀ ps, fld.value = .parts ps → ∀ p ∈ ps, p.last ≠ [] ∧ NoOddBS p ∧ NoAndWord (mergeLastFirst p))
    (hw : ∀ L2, applyOpsLib P [.mergeParts true, .mergeCo] L1 = .ok L2 → Writable P L2) :
    ∃ L2 t L3 L4, applyOpsLib P [.mergeParts true, .mergeCo] L1 = .ok L2 ∧
      writeDefault P F L2 = .ok t ∧ parseDefault P t = .ok L3 ∧
      applyOpsLib P [.separate, .splitParts] L3 = .ok L4 ∧ L4.map contentOf = L1.map contentOf :=
  pipeline_of (fun e e1 h hg => stack_roundtrip P e e1 h hg) F hP hF L0 L1 h1 hgood hw

/-- **C14, second sentence, at the entry points.**  If `parse_string(s, append_middleware=[Separate…,
Split…])` returns the library `L1` whose persons are good, and the library the two merge middlewares make
of it is `Writable`, then `write_string(L1, prepend_middleware=[MergeNameParts, MergeCoAuthors], F)`
returns a text `t`, and `parse_string(t, append_middleware=[Separate…, Split…])` returns a library with
the content of `L1`.  Here the middlewares run as the entry points run them (`applyMws`: one middleware
over the whole library, `Library(blocks)`, then the next). -/
theorem entrypoint_roundtrip (P : PyChars) (F : Writer.BibtexFormat) (hP : PrintOK P) (hF : FormatOK F)
    (s : Str) (L1 : List Block) (h1 : parseNames P s = .ok L1)
    (hgood : ∀ e, Block.live (.entry e) ∈ L1 → ∀ fld ∈ e.fields, nameFields.contains fld.key = true →
      ∀ ps, fld.value = .parts ps → ∀ p ∈ ps, p.last ≠ [] ∧ NoOddBS p ∧ NoAndWord (mergeLastFirst p))
    (hw : ∀ L2, applyMws P [.mergeParts true, .mergeCo] L1 = .ok L2 → Writable P L2) :
    ∃ t L4, writeNames P F L1 = .ok t ∧ parseNames P t = .ok L4 ∧ L4.map contentOf = L1.map contentOf := by
  obtain ⟨t, L4, g1, g2, g3, _⟩ :=
    entrypoint_of (fun e e1 h hg => stack_roundtrip P e e1 h hg) F hP hF s L1 h1 hgood hw
  exact ⟨t, L4, g1, g2, g3⟩

/-- **The clause as the property words it** - no condition on what the merged library looks like, only
"valid names" (no failed block in `L1`) and the conditions of the first sentence.  NOT provable: it is
false of model and code alike (`pipeline_roundtrip_full_cx` = known finding K5: the merged value ends in
a backslash; `merged_blockstart_cx` = K6: merging brings `@word` and `{` together).  What
`entrypoint_roundtrip` adds is the hypothesis `Writable` of the merged library; what is missing between
the two is a characterisation of that hypothesis in terms of the source document (when is every merged
name value `CleanVal`?), which is not attempted: the merged value is a rearrangement of the words of the
source value with every separator replaced by a blank, and K6 shows that `TextOK` of the source value
is not enough. -/
def pipeline_roundtrip_full : Prop :=
  ∀ (P : PyChars) (F : Writer.BibtexFormat) (s : Str) (L1 : List Block), PrintOK P → FormatOK F →
    parseNames P s = .ok L1 → (∀ b ∈ L1, b.isFailed = false) →
    (∀ e, Block.live (.entry e) ∈ L1 → ∀ fld ∈ e.fields, nameFields.contains fld.key = true →
      ∀ ps, fld.value = .parts ps → ∀ p ∈ ps, p.last ≠ [] ∧ NoOddBS p ∧ NoAndWord (mergeLastFirst p)) →
    ∃ t L4, writeNames P F L1 = .ok t ∧ parseNames P t = .ok L4 ∧ L4.map contentOf = L1.map contentOf

def k5Doc : Str := "@a{k, author = {A\\\\\\\\ B}}".toList

/-- what `parse_string(k5Doc, append_middleware=[Separate…, Split…])` returns -/
def k5Lib : List Block :=
  [.live (.entry { ty := ['a'], key := ['k'], line := 0, raw := k5Doc,
                   fields := [⟨"author".toList, .parts [{ first := ["A\\\\\\\\".toList], last := ["B".toList] }], 0⟩],
                   md := [(Enclosing.REMOVED_ENCLOSING_KEY, .dict [("author".toList, "{".toList)])] })]

def k5Written : Str := "@a{k,\n\tauthor = {B, A\\\\\\\\}\n}\n".toList

/-- **K5 (known finding): `Writable` of the merged library cannot be dropped.**  `author = {A\\\\ B}`
(first name `A\\\\`: an even number of backslashes, so every hypothesis of the first sentence holds)
merges to `B, A\\\\`; the writer prints `author = {B, A\\\\}`, whose closing brace the splitter reads as
escaped: the written document re-parses to one failed block. -/
theorem pipeline_roundtrip_full_cx : ¬ pipeline_roundtrip_full := by
  intro h
  have h1 : parseNames asciiChars k5Doc = .ok k5Lib := by decide +kernel
  obtain ⟨t, L4, g1, g2, g3⟩ := h asciiChars {} k5Doc k5Lib printOK_ascii ⟨by decide, by decide⟩ h1
    (by decide) (goodLib_of_blocks _ (by decide +kernel))
  have e1 : writeNames asciiChars {} k5Lib = .ok k5Written := by decide +kernel
  rw [e1] at g1
  injection g1 with g1
  subst g1
  have e2 : parseNames asciiChars k5Written = .ok [.failed .eof 0 k5Written] := by decide +kernel
  rw [e2] at g2
  injection g2 with g2
  subst g2
  revert g3
  decide +kernel

def k6Doc : Str := "@a{k, author = {a@b~{c} D}}".toList

/-- what `parse_string(k6Doc, append_middleware=[Separate…, Split…])` returns: one person, von `a@b`,
last `{c} D` -/
def k6Lib : List Block :=
  [.live (.entry { ty := ['a'], key := ['k'], line := 0, raw := k6Doc,
                   fields := [⟨"author".toList, .parts [{ von := ["a@b".toList], last := ["{c}".toList, "D".toList] }], 0⟩],
                   md := [(Enclosing.REMOVED_ENCLOSING_KEY, .dict [("author".toList, "{".toList)])] })]

def k6Written : Str := "@a{k,\n\tauthor = {a@b {c} D}\n}\n".toList

/-- **K6 (known finding): a second way `Writable` of the merged library fails.**  Merging normalises
every separator between words to one blank.  In `author = {a@b~{c} D}` the tie keeps `@b` and `{` apart;
the merged value `a@b {c} D` contains the block start `@b {` (C10's K2), so the written document - whose
source contained no block start inside a value - re-parses to a failed block, an entry `@b{c}` and a
free-text comment.  All hypotheses of the first sentence hold. -/
theorem merged_blockstart_cx :
    parseNames asciiChars k6Doc = .ok k6Lib ∧ (∀ b ∈ k6Lib, b.isFailed = false) ∧
    (∀ e, Block.live (.entry e) ∈ k6Lib → ∀ fld ∈ e.fields, nameFields.contains fld.key = true →
      ∀ ps, fld.value = .parts ps → ∀ p ∈ ps, p.last ≠ [] ∧ NoOddBS p ∧ NoAndWord (mergeLastFirst p)) ∧
    writeNames asciiChars {} k6Lib = .ok k6Written ∧
    (parseNames asciiChars k6Written).toOption.map (fun L => L.map contentOf) =
      some [.failed "@a{k,\n\tauthor = {a".toList, .entry ['b'] ['c'] [], .impl "D}\n}".toList] :=
  ⟨by decide +kernel, by decide, goodLib_of_blocks _ (by decide +kernel), by decide +kernel, by decide +kernel⟩

/-- **K3 (known finding): the `NoAndWord` hypothesis cannot be dropped.**  `X and and B and C`
separates into three valid names with non-empty last names and no backslashes; the middle one is
first=`and`, last=`B`, merged to `B, and`; the joined list `X and B, and and C` no longer splits
into names that parse to the same persons (the third piece `and C` differs and `B,` is invalid). -/
theorem and_word_cx :
    ¬ (∀ (s : Str) (ps : List NameParts), parseAll asciiChars (CoAuth.split s) = .ok ps →
        (∀ p ∈ ps, p.last ≠ [] ∧ NoOddBS p) →
        parseAll asciiChars (CoAuth.split (CoAuth.join (ps.map mergeLastFirst))) = .ok ps) := by
  intro h
  have := h "X and and B and C".toList
    [{ last := ["X".toList] }, { first := ["and".toList], last := ["B".toList] }, { last := ["C".toList] }]
    (by decide +kernel) (by decide +kernel)
  revert this
  decide +kernel

/-! ### non-vacuity -/

/-- an instance of the hypotheses of `merge_parse` / `merge_parse_partition` (D8 witness) and
the round trip on it -/
example : parse asciiChars "AA bb CC dd".toList =
      .ok { first := ["AA".toList], von := ["bb".toList], last := ["CC".toList, "dd".toList] } ∧
    mergeLastFirst { first := ["AA".toList], von := ["bb".toList], last := ["CC".toList, "dd".toList] }
      = "bb CC dd, AA".toList ∧
    parse asciiChars "bb CC dd, AA".toList =
      .ok { first := ["AA".toList], von := ["bb".toList], last := ["CC".toList, "dd".toList] } := by
  decide +kernel

/-- names satisfying `NameOK`, and the join/split round trip on them -/
example : NameOK "de la {Vall{\\'e}e and Co}, A.".toList ∧ NameOK "Knuth, D. E.".toList ∧
    CoAuth.split (CoAuth.join ["de la {Vall{\\'e}e and Co}, A.".toList, "Knuth, D. E.".toList]) =
      ["de la {Vall{\\'e}e and Co}, A.".toList, "Knuth, D. E.".toList] := by
  unfold NameOK Trimmed
  decide +kernel

/-- an instance of the hypothesis of `stack_roundtrip`: an entry with two name fields -/
example : applyOps asciiChars [.separate, .splitParts] (.live (.entry
      { ty := "a".toList, key := "k".toList, line := 0, raw := [],
        fields := [⟨"author".toList, .str "Aa Bb and cc Dd, Ee".toList, 1⟩, ⟨"title".toList, .str "T and U".toList, 2⟩] })) =
    .ok (.live (.entry
      { ty := "a".toList, key := "k".toList, line := 0, raw := [],
        fields := [⟨"author".toList, .parts [{ first := ["Aa".toList], last := ["Bb".toList] },
            { first := ["Ee".toList], von := ["cc".toList], last := ["Dd".toList] }], 1⟩,
          ⟨"title".toList, .str "T and U".toList, 2⟩] })) := by
  decide +kernel

/-- the hypotheses of `list_roundtrip` / `value_roundtrip`: two persons -/
example : parseAll asciiChars (CoAuth.split "Aa Bb and cc Dd, Ee".toList) =
    .ok [{ first := ["Aa".toList], last := ["Bb".toList] },
         { first := ["Ee".toList], von := ["cc".toList], last := ["Dd".toList] }] := by
  decide +kernel

/-! ### non-vacuity of `pipeline_roundtrip` / `entrypoint_roundtrip` -/

/-- a document: an entry whose author field holds two persons (the second with a von part `de` and a
braced last name `{La Rue}`), a title containing ` and `, and an explicit comment -/
def exDoc : Str :=
  "@a{k, author = {Aa Bb and de {La Rue}, Ee}, t = {T and U}}\n@comment{c}".toList

/-- the library `parse_string(exDoc)` returns, with `v` as the value of the author field -/
def exLibOf (v : Val) : List Block :=
  [.live (.entry { ty := "a".toList, key := "k".toList, line := 0,
                   raw := "@a{k, author = {Aa Bb and de {La Rue}, Ee}, t = {T and U}}".toList,
                   fields := [⟨"author".toList, v, 0⟩, ⟨"t".toList, .str "T and U".toList, 0⟩],
                   md := [(Enclosing.REMOVED_ENCLOSING_KEY,
                           .dict [("author".toList, "{".toList), ("t".toList, "{".toList)])] }),
   .live (.expl "c".toList 1 "@comment{c}".toList [])]

def exPersons : List NameParts :=
  [{ first := ["Aa".toList], last := ["Bb".toList] },
   { first := ["Ee".toList], von := ["de".toList], last := ["{La Rue}".toList] }]

def exMerged : Str := "Bb, Aa and de {La Rue}, Ee".toList

theorem ex_split : applyOpsLib asciiChars [.separate, .splitParts]
    (exLibOf (.str "Aa Bb and de {La Rue}, Ee".toList)) = .ok (exLibOf (.parts exPersons)) := by
  decide +kernel

theorem ex_parseNames : parseNames asciiChars exDoc = .ok (exLibOf (.parts exPersons)) := by
  decide +kernel

theorem ex_merge : applyOpsLib asciiChars [.mergeParts true, .mergeCo] (exLibOf (.parts exPersons)) =
    .ok (exLibOf (.str exMerged)) := by
  decide +kernel

theorem ex_mergeMws : applyMws asciiChars [.mergeParts true, .mergeCo] (exLibOf (.parts exPersons)) =
    .ok (exLibOf (.str exMerged)) :=
  (mws_blockwise asciiChars _ _ _ ⟨by decide, by decide⟩).mpr ex_merge

theorem ex_good : ∀ e, Block.live (.entry e) ∈ exLibOf (.parts exPersons) → ∀ fld ∈ e.fields,
    nameFields.contains fld.key = true → ∀ ps, fld.value = .parts ps →
    ∀ p ∈ ps, p.last ≠ [] ∧ NoOddBS p ∧ NoAndWord (mergeLastFirst p) :=
  goodLib_of_blocks _ (by decide +kernel)

theorem simple_of_all (t : Str) (h : t.all simpleChar = true) : SimpleText t :=
  fun c hc => List.all_eq_true.mp h c hc

/-- the merged author value `Bb, Aa and de {La Rue}, Ee` can be written between braces: its tokens
(text, commas, one brace group) are balanced and it does not end in a backslash -/
theorem ex_merged_clean : CleanVal asciiChars exMerged := by
  apply cleanVal_of_lex (by decide) exMerged ?_ (by decide)
  have : lexFrom asciiChars false exMerged =
      [.text "Bb".toList, .mark .comma [','], .text " Aa and de ".toList, .mark .lbrace ['{'],
       .text "La Rue".toList, .mark .rbrace ['}'], .mark .comma [','], .text " Ee".toList] := by
    decide +kernel
  rw [this]
  refine IsBal.plain _ _ rfl (IsBal.plain _ _ rfl (IsBal.plain _ _ rfl ?_))
  exact IsBal.grp ['{'] ['}'] [.text "La Rue".toList] [.mark .comma [','], .text " Ee".toList]
    (IsBal.plain _ _ rfl IsBal.nil) (IsBal.plain _ _ rfl (IsBal.plain _ _ rfl IsBal.nil))

/-- the merged library is `Writable` -/
theorem ex_writable : Writable asciiChars (exLibOf (.str exMerged)) := by
  refine ⟨?_, by decide, by decide, by simp [exLibOf, NoAdjImpl, isImpl]⟩
  intro b hb
  simp only [exLibOf, List.mem_cons, List.not_mem_nil, or_false] at hb
  rcases hb with rfl | rfl
  · refine ⟨by decide, by decide, by decide, by decide, by decide, by decide,
      PrintParse.keyOK_of_simple _ (simple_of_all _ (by decide)), by decide, ?_, by decide, Or.inr ⟨_, rfl⟩⟩
    intro f hf
    simp only [List.mem_cons, List.not_mem_nil, or_false] at hf
    rcases hf with rfl | rfl
    · exact ⟨PrintParse.keyOK_of_simple _ (simple_of_all _ (by decide)), by decide, _, rfl, PrintParse.encVal_of_clean ex_merged_clean⟩
    · exact ⟨PrintParse.keyOK_of_simple _ (simple_of_all _ (by decide)), by decide, _, rfl,
        PrintParse.encVal_of_clean (cleanVal_simple _ (simple_of_all _ (by decide)))⟩
  · exact ⟨cleanVal_simple _ (simple_of_all _ (by decide)), by decide⟩

/-- all hypotheses of `pipeline_roundtrip` hold for the library of the example document -/
example : PrintOK asciiChars ∧ FormatOK ({} : Writer.BibtexFormat) ∧
    applyOpsLib asciiChars [.separate, .splitParts] (exLibOf (.str "Aa Bb and de {La Rue}, Ee".toList)) =
      .ok (exLibOf (.parts exPersons)) ∧
    (∀ L2, applyOpsLib asciiChars [.mergeParts true, .mergeCo] (exLibOf (.parts exPersons)) = .ok L2 →
      Writable asciiChars L2) :=
  ⟨printOK_ascii, ⟨by decide, by decide⟩, ex_split, fun L2 h => by
    rw [ex_merge] at h; injection h with h; subst h; exact ex_writable⟩

/-- ... and of `entrypoint_roundtrip` for the document itself; so its conclusion holds: the document
`write_string(prepend_middleware=…)` produces for the parsed library re-parses, with the split
middlewares appended, to the same structured names -/
example : ∃ t L4, writeNames asciiChars {} (exLibOf (.parts exPersons)) = .ok t ∧
    parseNames asciiChars t = .ok L4 ∧
    L4.map contentOf = (exLibOf (.parts exPersons)).map contentOf :=
  entrypoint_roundtrip asciiChars {} printOK_ascii ⟨by decide, by decide⟩ exDoc _ ex_parseNames ex_good
    (fun L2 h => by rw [ex_mergeMws] at h; injection h with h; subst h; exact ex_writable)

/-- the text, by kernel evaluation of the model -/
example : writeNames asciiChars {} (exLibOf (.parts exPersons)) = .ok
    "@a{k,\n\tauthor = {Bb, Aa and de {La Rue}, Ee},\n\tt = {T and U}\n}\n\n\n@comment{c}\n".toList := by
  decide +kernel

end Bib.C14
