/-
  C14 — Splitting names and merging them back is an inverse pair through the whole stack.

  Statements only.  Helper lemmas: Lemmas/NamesMerge.lean; reference notions (`NoOddBS`,
  `Balanced`, `Trimmed`, `NoAndWord`, `topWords`) in Lemmas/NamesSpec.lean.

  `parse P` = `parse_single_name_into_parts`, `mergeLastFirst` = `NameParts.merge_last_name_first`,
  `CoAuth.split` = `split_multiple_persons_names`, `CoAuth.join` = `" and ".join`,
  `applyOps P ops` = the name middlewares applied in order to one block.
-/
import BibVerif.Lemmas.NamesMerge
import BibVerif.Lemmas.NamesJoin
import BibVerif.Lemmas.NamesMergedOk
import BibVerif.Lemmas.NamesStack
namespace Bib.C14
open Bib NameP Names CoAuth

/-- what a name must satisfy to survive `" and ".join` + `split`: not empty, trimmed,
brace-balanced, not ending in an unescaped backslash (it would escape the blank of ` and `; the
merge functions never produce one), and without a bare top-level word `and` (any letter case) -/
def NameOK (n : Str) : Prop :=
  n ≠ [] ∧ Trimmed n ∧ Balanced n ∧ endsEscaped false n = false ∧ NoAndWord n

/-- **C14 (merge then parse).**  For the parts `p` that `parse` returns on a valid name, with a
non-empty last name and no word ending in an odd number of backslashes:
`parse (merge_last_name_first p) = p` - for every name and every classification of characters. -/
theorem merge_parse (P : PyChars) (n : Str) (p : NameParts) (h : parse P n = .ok p) (hl : p.last ≠ [])
    (hb : NoOddBS p) : parse P (mergeLastFirst p) = .ok p :=
  merge_parse_thm P n p h hl hb

/-- **C14 (join then split).**  Names that are non-empty, trimmed, brace-balanced, do not end in
an unescaped backslash and contain no bare top-level word `and` survive `" and ".join` followed by
`split_multiple_persons_names`: the list comes back exactly. -/
theorem join_split (ns : List Str) (h : ∀ n ∈ ns, NameOK n) : CoAuth.split (CoAuth.join ns) = ns :=
  split_join ns h

/-- without the backslash condition the statement is false: the backslash escapes the blank -/
theorem join_split_backslash_cx :
    ¬ (∀ ns : List Str, (∀ n ∈ ns, n ≠ [] ∧ Trimmed n ∧ Balanced n ∧ NoAndWord n) →
        CoAuth.split (CoAuth.join ns) = ns) := by
  intro h
  have := h ["A\\".toList, "B".toList] (by unfold Trimmed; decide)
  revert this
  decide

/-- the merged form of parsed parts is non-empty, trimmed, balanced and does not end in an unescaped
backslash (it may still contain a word `and`: that is the known finding K3) -/
theorem merged_ok (P : PyChars) (n : Str) (p : NameParts) (h : parse P n = .ok p) (hl : p.last ≠ [])
    (hb : NoOddBS p) :
    mergeLastFirst p ≠ [] ∧ Trimmed (mergeLastFirst p) ∧ Balanced (mergeLastFirst p) ∧
      endsEscaped false (mergeLastFirst p) = false :=
  merged_ok_thm P n p h hl hb

/-- **C14 (merge then parse), the partition half.**  Re-sectioning the parts the way
`merge_last_name_first` writes them (`von Last`, then `Jr` and `First` if non-empty) and
partitioning again gives the same parts: for every list of sections the scanner can return
(at most three, last one non-empty, no empty word) whose partition has a non-empty last name. -/
theorem merge_parse_partition (secs : List (List Word))
    (hlen : secs.length ≤ 3) (hne : ∀ sec ∈ secs, ∀ w ∈ sec, w.1 ≠ [])
    (hlast : ∀ l, secs.getLast? = some l → l ≠ [])
    (hl : (assignW secs).last ≠ []) :
    assignW (mergeSecs (assignW secs)) = assignW secs :=
  assignW_mergeSecs secs hlen hne hlast hl

/-- **C14 (co-author lists).**  If the persons `ps`
are what `parse` returns for the pieces of `s`, each with a non-empty last name, no word ending in an
odd number of backslashes and no bare word `and` in its merged form, then merging each
(last-name-first), joining with `" and "`, splitting and parsing again yields exactly `ps`. -/
theorem list_roundtrip (P : PyChars) (names : List Str) (ps : List NameParts)
    (h : parseAll P names = .ok ps)
    (hgood : ∀ p ∈ ps, p.last ≠ [] ∧ NoOddBS p ∧ NoAndWord (mergeLastFirst p)) :
    parseAll P (CoAuth.split (CoAuth.join (ps.map mergeLastFirst))) = .ok ps := by
  have hparsed : ∀ p ∈ ps, ∃ n, parse P n = .ok p := parseAll_sources P names ps h
  have hsplit : CoAuth.split (CoAuth.join (ps.map mergeLastFirst)) = ps.map mergeLastFirst := by
    apply join_split
    intro m hmem
    obtain ⟨p, hp, rfl⟩ := List.mem_map.mp hmem
    obtain ⟨n, hn⟩ := hparsed p hp
    obtain ⟨g1, g2, g3⟩ := hgood p hp
    obtain ⟨k1, k2, k3, k4⟩ := merged_ok P n p hn g1 g2
    exact ⟨k1, k2, k3, k4, g3⟩
  rw [hsplit]
  apply parseAll_map_merge P ps
  intro p hp
  obtain ⟨n, hn⟩ := hparsed p hp
  exact merge_parse P n p hn (hgood p hp).1 (hgood p hp).2.1

/-- **C14 (through the middlewares, one field value).**  For a name-field value
`s`: `SeparateCoAuthors` then `SplitNameParts` give the persons `ps`; `MergeNameParts` (last name
first) then `MergeCoAuthors` give a string; separating and splitting that string gives `ps` again. -/
theorem value_roundtrip (P : PyChars) (s : Str) (ps : List NameParts)
    (h1 : (transformValue P .separate (.str s)).bind (transformValue P .splitParts) = .ok (.parts ps))
    (hgood : ∀ p ∈ ps, p.last ≠ [] ∧ NoOddBS p ∧ NoAndWord (mergeLastFirst p)) :
    ∃ merged, ((transformValue P (.mergeParts true) (.parts ps)).bind (transformValue P .mergeCo)) = .ok (.str merged) ∧
      (transformValue P .separate (.str merged)).bind (transformValue P .splitParts) = .ok (.parts ps) := by
  have hpa : parseAll P (CoAuth.split s) = .ok ps := by
    simp only [transformValue, Except.bind] at h1
    cases hp : parseAll P (CoAuth.split s) with
    | error e => rw [hp] at h1; cases h1
    | ok ps' => rw [hp] at h1; simp only at h1; injection h1 with h1; injection h1 with h1; rw [h1]
  refine ⟨CoAuth.join (ps.map mergeLastFirst), by simp [transformValue, Except.bind], ?_⟩
  have := list_roundtrip P _ ps hpa hgood
  simp only [transformValue, Except.bind, this]

/-- **C14 (through the middleware stacks).**  If `SeparateCoAuthors` then `SplitNameParts` turn the
entry `e` into the entry `e1` (every name valid), and every person in the name fields of `e1` has a
non-empty last name, no word ending in an odd number of backslashes and no bare word `and` in its
merged form, then `MergeNameParts` (last name first) followed by `MergeCoAuthors` yield an entry `e2`
(strings again), and separating + splitting `e2` gives back exactly `e1` - the same structured names,
every other field and attribute untouched. -/
theorem stack_roundtrip (P : PyChars) (e e1 : Entry)
    (h1 : applyOps P [.separate, .splitParts] (.live (.entry e)) = .ok (.live (.entry e1)))
    (hgood : ∀ fld ∈ e1.fields, nameFields.contains fld.key = true → ∀ ps, fld.value = .parts ps →
      ∀ p ∈ ps, p.last ≠ [] ∧ NoOddBS p ∧ NoAndWord (mergeLastFirst p)) :
    ∃ e2, applyOps P [.mergeParts true, .mergeCo] (.live (.entry e1)) = .ok (.live (.entry e2)) ∧
      applyOps P [.separate, .splitParts] (.live (.entry e2)) = .ok (.live (.entry e1)) := by
  obtain ⟨hm1, _⟩ := (applyOps_two_entry P .separate .splitParts e e1).mp h1
  have hout := mapFields_outputs _ _ _ hm1
  have hfields := fields_roundtrip (chain P .separate .splitParts) (chain P (.mergeParts true) .mergeCo)
    e.fields e1.fields hm1 (by
      intro fld hfld hk
      obtain ⟨v, hv⟩ := hout fld hfld hk
      obtain ⟨s, ps, _, hps, hpa⟩ := chain_sep_split_inv P hv
      have hval : (transformValue P .separate (.str s)).bind (transformValue P .splitParts) = .ok (.parts ps) := by
        simp only [transformValue, Except.bind, hpa]
      obtain ⟨merged, g1, g2⟩ := value_roundtrip P s ps hval (hgood fld hfld hk ps hps)
      rw [hps]
      exact ⟨.str merged, g1, g2⟩)
  obtain ⟨fs2, i1, i2⟩ := hfields
  refine ⟨{ e1 with fields := fs2 }, ?_, ?_⟩
  · exact (applyOps_two_entry P (.mergeParts true) .mergeCo e1 { e1 with fields := fs2 }).mpr ⟨i1, rfl⟩
  · exact (applyOps_two_entry P .separate .splitParts { e1 with fields := fs2 } e1).mpr ⟨i2, rfl⟩

/-- **K3 (known finding): the `NoAndWord` hypothesis cannot be dropped.**  `X and and B and C`
separates into three valid names with non-empty last names and no backslashes; the middle one is
first=`and`, last=`B`, merged to `B, and`; the joined list `X and B, and and C` no longer splits
into names that parse to the same persons (the third piece `and C` differs and `B,` is invalid). -/
theorem and_word_cx :
    ¬ (∀ (s : Str) (ps : List NameParts), parseAll asciiChars (CoAuth.split s) = .ok ps →
        (∀ p ∈ ps, p.last ≠ [] ∧ NoOddBS p) →
        parseAll asciiChars (CoAuth.split (CoAuth.join (ps.map mergeLastFirst))) = .ok ps) := by
  intro h
  have := h "X and and B and C".toList
    [{ last := ["X".toList] }, { first := ["and".toList], last := ["B".toList] }, { last := ["C".toList] }]
    (by decide +kernel) (by decide +kernel)
  revert this
  decide +kernel

/-! ### non-vacuity -/

/-- an instance of the hypotheses of `merge_parse` / `merge_parse_partition` (D8 witness) and
the round trip on it -/
example : parse asciiChars "AA bb CC dd".toList =
      .ok { first := ["AA".toList], von := ["bb".toList], last := ["CC".toList, "dd".toList] } ∧
    mergeLastFirst { first := ["AA".toList], von := ["bb".toList], last := ["CC".toList, "dd".toList] }
      = "bb CC dd, AA".toList ∧
    parse asciiChars "bb CC dd, AA".toList =
      .ok { first := ["AA".toList], von := ["bb".toList], last := ["CC".toList, "dd".toList] } := by
  decide +kernel

/-- names satisfying `NameOK`, and the join/split round trip on them -/
example : NameOK "de la {Vall{\\'e}e and Co}, A.".toList ∧ NameOK "Knuth, D. E.".toList ∧
    CoAuth.split (CoAuth.join ["de la {Vall{\\'e}e and Co}, A.".toList, "Knuth, D. E.".toList]) =
      ["de la {Vall{\\'e}e and Co}, A.".toList, "Knuth, D. E.".toList] := by
  unfold NameOK Trimmed
  decide +kernel

/-- an instance of the hypothesis of `stack_roundtrip`: an entry with two name fields -/
example : applyOps asciiChars [.separate, .splitParts] (.live (.entry
      { ty := "a".toList, key := "k".toList, line := 0, raw := [],
        fields := [⟨"author".toList, .str "Aa Bb and cc Dd, Ee".toList, 1⟩, ⟨"title".toList, .str "T and U".toList, 2⟩] })) =
    .ok (.live (.entry
      { ty := "a".toList, key := "k".toList, line := 0, raw := [],
        fields := [⟨"author".toList, .parts [{ first := ["Aa".toList], last := ["Bb".toList] },
            { first := ["Ee".toList], von := ["cc".toList], last := ["Dd".toList] }], 1⟩,
          ⟨"title".toList, .str "T and U".toList, 2⟩] })) := by
  decide +kernel

/-- the hypotheses of `list_roundtrip` / `value_roundtrip`: two persons -/
example : parseAll asciiChars (CoAuth.split "Aa Bb and cc Dd, Ee".toList) =
    .ok [{ first := ["Aa".toList], last := ["Bb".toList] },
         { first := ["Ee".toList], von := ["cc".toList], last := ["Dd".toList] }] := by
  decide +kernel

end Bib.C14
