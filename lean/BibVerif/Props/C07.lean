/-
  C07 — Writing and copy-mode middleware never mutate or alias their input.

  Store model (`Heap.lean`): objects with slots, `copy.deepcopy` with memo, straight-line programs
  with a freshness discipline (`check`): a program is *disciplined* if it writes only to objects
  allocated by the run (deep copies, new objects and whatever is read out of those) and stores only
  such objects or immutables into them.  The theorems are generic in the program; the copy patterns
  of the middleware framework (`HeapProgs.lean`) are checked against the discipline by the Lean
  function `check` — here on sample shapes, and by the driver on the shape of every library of the
  correspondence run.  PARTIAL by nature: `copy.deepcopy` itself and the attribute protocol are
  CPython behaviour (modelled and validated, not verified), and that each shipped `transform_*`
  method writes only through its block argument is established by the object-graph comparison of the
  correspondence run, not by proof.
-/
import BibVerif.Lemmas.Heap
import BibVerif.HeapProgs
namespace Bib.C07
open Bib.Heap

/-- **`copy.deepcopy` returns a fresh, closed copy and writes to no existing object**: every
object that existed is unchanged, and whatever is reachable from the result is immutable or was
allocated by the call — for every recursion budget and every object graph (cycles included). -/
theorem deepcopy_fresh (fuel : Nat) (σ σ' : Heap) (v v' : V) (h : deepcopy fuel σ v = some (σ', v')) :
    Keeps σ σ' ∧ ∀ w, Reach σ' v' w → Fresh σ.length w := by
  unfold deepcopy at h
  cases hc : copyV fuel σ [] v with
  | none => rw [hc] at h; simp at h
  | some r =>
    obtain ⟨σ2, m2, v2⟩ := r
    rw [hc] at h; simp only [Option.map_some] at h
    injection h with h; injection h with e1 e2; subst e1; subst e2
    have hsep0 : WellSep σ.length σ := by
      intro a o ha hget
      have : σ[a]? = none := by simp [List.getElem?_eq_none ha]
      rw [this] at hget; cases hget
    obtain ⟨k, s, _, f⟩ := copyV_spec σ.length fuel σ [] v σ2 m2 v2 hc (Nat.le_refl _) hsep0
      (by intro p hp; cases hp)
    exact ⟨k, fun w hw => reach_fresh σ.length σ2 s hw f⟩

/-- **Soundness of the ownership discipline.** Run a disciplined program on any heap with any
input registers (typed `old`): every object that existed before the run is unchanged (the input
library "equals its prior deep copy"), and from every register typed `fresh` — in particular the
returned library — only immutables and objects allocated by the run are reachable (the result
shares no mutable block, field, field list, value or metadata object with the input). -/
theorem discipline_sound (fuel : Nat) (σ σ' : Heap) (env env' : Env) (p : List Instr) (tys' : List Ty)
    (hc : check (env.map fun _ => Ty.old) p = some tys')
    (he : exec fuel σ env p = some (σ', env')) :
    (∀ a, a < σ.length → σ'[a]? = σ[a]?) ∧
    ∀ (r : Nat) (v w : V), tys'[r]? = some Ty.fresh → env'[r]? = some v → Reach σ' v w →
      Fresh σ.length w := by
  have h0 : RunInv σ.length σ σ env (env.map fun _ => Ty.old) := by
    refine ⟨Nat.le_refl _, fun _ _ => rfl, ?_, by simp, ?_⟩
    · intro a o ha hget
      have : σ[a]? = none := by simp [List.getElem?_eq_none ha]
      rw [this] at hget; cases hget
    · intro r v ht _
      rw [List.getElem?_map] at ht
      cases h : env[r]? <;> simp [h] at ht
  have h := exec_inv σ.length fuel σ p σ σ' env env' _ tys' hc he h0
  exact ⟨h.old, fun r v w ht hv hw => reach_fresh σ.length σ' h.sep hw (h.fresh r v ht hv)⟩

/-- the discipline is not vacuous: the in-place variant of the block-middleware pattern is
rejected by `check`, and it really does change existing objects -/
example : (check [.old] (progBlockMw true [some 2, none, some 0])).isSome = false := by decide +kernel
example :
    (exec 50 (mkLibrary [some 2, none]).1 [.ref 0] (progBlockMw true [some 2, none])).map
      (fun r => (changedOld (mkLibrary [some 2, none]).1 r.1).isEmpty) = some false := by
  decide +kernel

/-- the copy patterns of the framework are disciplined (sample shape; the driver evaluates the
same `check` for the shape of every library of the correspondence run): per-block `deepcopy` of
`BlockMiddleware`, `deepcopy(library)` of `LibraryMiddleware`, `deepcopy(library.blocks)` of the
block sorter, and the format copy of `writer.write` -/
example : (check [.old] (progBlockMw false [some 2, none, some 0, some 3])).isSome = true := by decide +kernel
example : (check [.old] (progLibraryMw false [some 2, none, some 0, some 3])).isSome = true := by decide +kernel
example : (check [.old] (progSortBlocks [some 2, none, some 0, some 3])).isSome = true := by decide +kernel
example : (check [.old] (progWriteFormat true)).isSome = true := by decide
example : (check [.old] (progWriteFormat false)).isSome = false := by decide

/-- … and running them leaves the input untouched and returns a result disjoint from it
(an instance of `discipline_sound`, evaluated by the kernel) -/
example :
    (exec 50 (mkLibrary [some 2, none, some 1]).1 [.ref 0] (progBlockMw false [some 2, none, some 1])).map
      (fun r => ((changedOld (mkLibrary [some 2, none, some 1]).1 r.1).isEmpty,
                 r.2.getLast?.map (reachesOld r.1 (mkLibrary [some 2, none, some 1]).1.length 50)))
      = some (true, some false) := by
  decide +kernel

end Bib.C07
