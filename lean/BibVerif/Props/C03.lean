/-
  C03 — Block raw texts tile the source without loss or overlap; line numbers are true.

  Statements only (helper lemmas: Lemmas/Tile.lean, Lemmas/LexNl.lean, Lemmas/NoRaise.lean,
  Lemmas/FieldLines.lean).
  `P` ranges over every `PyChars` (CPython's Unicode classes) such that `\w` does not match a
  newline (`WordOK`, checked against the running CPython over all code points on every run).
-/
import BibVerif.Lemmas.Tile
import BibVerif.Lemmas.LexNl
import BibVerif.Lemmas.NoRaise
import BibVerif.Lemmas.FieldLines
namespace Bib.C03
open Bib

variable (P : PyChars)

/-- Token level: whatever the token list, if the splitter returns, the raws of the returned blocks
tile the flattened input in block order with whitespace-only gaps (no character dropped, none
duplicated — also around failed blocks), and every block's `start_line` is the number of
newlines before its raw text (minus the newline `Splitter.__init__` prepends). -/
theorem tiling_toks (ts : List Tok) (hts : ∀ t ∈ ts, NlTok t) (bs : List Block)
    (h : splitToks P ts = .ok bs) :
    ∃ pre tail, allSpace P tail ∧ Tiles P bs pre ∧ flatten ts = pre ++ tail := by
  have hinv := foldl_inv P ts hts init [] (init_inv P)
  simp only [List.nil_append] at hinv
  unfold splitToks finish at h
  generalize run P init ts = s at h hinv
  split at h
  · cases h
  · rename_i herr
    obtain ⟨pre, carry, hc, ht, hf, _, hst⟩ := hinv herr
    split at h
    · rename_i impl il hm
      injection h with h; subst h
      have hst' : il = nlc (pre ++ carry) - 1 := by simpa [startLine, hm] using hst
      obtain ⟨pre', carry', hc', ht', heq⟩ := endImplicit_tiles P (impl := impl) hc ht hst'
      refine ⟨pre', carry', hc', by simpa using ht', ?_⟩
      rw [hf, ← heq]; simp [pending, hm]
    · rename_i hnt
      injection h with h; subst h
      have hp : pending s = rflat s.raw := pending_of_not_top (fun a b hh => hnt a b hh)
      have hs : startLine s = s.blockLine := startLine_of_not_top (fun a b hh => hnt a b hh)
      refine ⟨pre ++ carry ++ rflat s.raw, [], allSpace_nil P, ?_, ?_⟩
      · simp only [List.reverse_cons]
        exact Tiles.snoc _ _ _ (.failed .eof s.blockLine (rflat s.raw)) ht hc (by simp [Block.line, ← hs, hst])
      · rw [hf, hp]; simp

/-- **C03 (tiling and block lines), character level.**  For every text `s`: `split` returns blocks
`bs`, and `"\n" ++ s = g₁ ++ raw b₁ ++ g₂ ++ raw b₂ ++ … ++ raw bₙ ++ tail` with every gap `gᵢ` and
`tail` whitespace, and `start_line bᵢ = (number of '\n' in g₁ ++ raw b₁ ++ … ++ gᵢ) - 1`. -/
theorem tiling_chars (hP : WordOK P) (s : Str) :
    ∃ bs pre tail, split P s = .ok bs ∧ allSpace P tail ∧ Tiles P bs pre ∧ '\n' :: s = pre ++ tail := by
  obtain ⟨bs, hbs⟩ := split_ok P s
  obtain ⟨pre, tail, h1, h2, h3⟩ :=
    tiling_toks P (lex P s) (nlTok_lexFrom P hP false _) bs hbs
  exact ⟨bs, pre, tail, hbs, h1, h2, by rw [← h3]; exact (flatten_lexFrom P false _).symm⟩

/-- `Tiles` unfolded at an arbitrary block: the text before it ends in a whitespace gap, its raw
follows, and its line is the number of newlines before the raw. -/
theorem tiles_at {bs : List Block} {pre : Str} (h : Tiles P bs pre) :
    ∀ bs₁ b bs₂, bs = bs₁ ++ b :: bs₂ →
      ∃ pre₁ g rest, Tiles P bs₁ pre₁ ∧ allSpace P g ∧ pre = pre₁ ++ g ++ b.raw ++ rest ∧
        b.line = nlc (pre₁ ++ g) - 1 := by
  induction h with
  | nil => intro bs₁ b bs₂ hh; simp at hh
  | snoc bs pre g b' ht hg hl ih =>
    intro bs₁ b bs₂ hh
    by_cases hlast : bs₂ = []
    · subst hlast
      have : bs = bs₁ ∧ b' = b := by
        have := List.append_inj' hh (by simp)
        exact ⟨this.1, by simpa using this.2⟩
      obtain ⟨h1, h2⟩ := this
      subst h1; subst h2
      exact ⟨pre, g, [], ht, hg, by simp, hl⟩
    · obtain ⟨bs₂', hb2⟩ : ∃ bs₂', bs₂ = bs₂' ++ [b'] := by
        rcases List.eq_nil_or_concat bs₂ with hnil | ⟨L, x, hL⟩
        · exact absurd hnil hlast
        · rw [List.concat_eq_append] at hL
          subst hL
          have : bs ++ [b'] = (bs₁ ++ b :: L) ++ [x] := by rw [hh]; simp
          have := List.append_inj' this (by simp)
          have hx : b' = x := by simpa using this.2
          exact ⟨L, by rw [hx]⟩
      subst hb2
      have hbs : bs = bs₁ ++ b :: bs₂' := by
        have : bs ++ [b'] = (bs₁ ++ b :: bs₂') ++ [b'] := by rw [hh]; simp
        exact List.append_cancel_right this
      obtain ⟨pre₁, g₁, rest, h1, h2, h3, h4⟩ := ih bs₁ b bs₂' hbs
      exact ⟨pre₁, g₁, rest ++ g ++ b'.raw, h1, h2, by rw [h3]; simp, h4⟩

/-- **C03 (line numbers).**  The `start_line` of every returned block is the 0-based line of the
input on which its raw text starts. -/
theorem line_true (hP : WordOK P) (s : Str) (bs : List Block) (h : split P s = .ok bs)
    (bs₁ : List Block) (b : Block) (bs₂ : List Block) (hb : bs = bs₁ ++ b :: bs₂) :
    ∃ before after, '\n' :: s = before ++ b.raw ++ after ∧ b.line = nlc before - 1 := by
  obtain ⟨bs', pre, tail, h1, _, h3, h4⟩ := tiling_chars P hP s
  rw [h] at h1; injection h1 with h1; subst h1
  obtain ⟨pre₁, g, rest, _, _, hpre, hl⟩ := tiles_at P h3 bs₁ b bs₂ hb
  exact ⟨pre₁ ++ g, rest ++ tail, by rw [h4, hpre]; simp, hl⟩

/-- Field lines: a field reports the line on which its `=` stands.  At the token level of the
automaton: the field being scanned records the line counter at its `=`; on grammar-derived
documents `Props/C02.lean` turns this into "the number of newlines before the `=`". -/
theorem field_line_is_eq_line (s : St) (ty key fk : Str) (fs : List Field) (l : Str)
    (he : s.err = none) (hm : s.mode = .fldKey ty key fs (fk.map fun c => Tok.text [c]).reverse) :
    ∃ v, (step P s (.mark .eq l)).mode = .fldVal ty key fs v s.line false 0 0 [] := by
  unfold step
  simp [he, hm]

/-- **C03 (where entries and their fields sit).**  For every text: every entry among the returned
blocks - live, or inside a duplicate-field wrapper - occupies a contiguous run `rawT` of the token
stream of the input, its raw is the text of that run, its line the number of newlines before the
run, and reading the run from the left one finds for every field in order: a `,` mark, key tokens
(text and newlines only), an `=` mark - with the field's key the stripped key text and the field's
line the entry's line plus the newlines of the run before that `=` (`FieldsAt`). -/
theorem entry_placed (hP : WordOK P) (s : Str) (bs : List Block) (h : split P s = .ok bs) :
    ∀ b ∈ bs, Placed P (lex P s) b :=
  splitToks_placed P (lex P s) (nlTok_lexFrom P hP false _) (eqLit_lexFrom P false _) bs h

/-- **C03 (field lines).**  A field reports the line on which its `=` stands: for every text `s`,
every field `f` of every returned entry has its own `=` mark in the token stream of `"\n" ++ s`,
directly preceded by the tokens `kt` of its key (text and newlines only), themselves directly
preceded by the `,` that separates the field from what comes before; `f.key` is the stripped key
text and `f.line` is the number of newline characters of the input in front of that `=` (minus the
newline `Splitter.__init__` prepends).  The second conjunct restates the position in characters. -/
theorem field_line_true (hP : WordOK P) (s : Str) (bs : List Block) (h : split P s = .ok bs)
    (b : Block) (hb : b ∈ bs) (e : Entry) (he : entryOf b = some e) (f : Field) (hf : f ∈ e.fields) :
    ∃ before c kt after,
      lex P s = before ++ Tok.mark .comma c :: kt ++ Tok.mark .eq ['='] :: after ∧
      '\n' :: s = flatten (before ++ Tok.mark .comma c :: kt) ++ '=' :: flatten after ∧
      kt.all isPlainTok = true ∧ f.key = strip P (flatten kt) ∧
      f.line = nlc (flatten (before ++ Tok.mark .comma c :: kt)) - 1 := by
  obtain ⟨preT, rawT, postT, h1, _, h3, h4⟩ := entry_placed P hP s bs h b hb e he
  have hmem : (f.key, f.line) ∈ kl e.fields := by
    simp only [kl, List.mem_map]; exact ⟨f, hf, rfl⟩
  obtain ⟨r1, c, kt, l, r2, hr, hpl, hk, hl⟩ := fieldsAt_mem P h4 f.key f.line hmem
  have hlex : lex P s = (preT ++ r1) ++ Tok.mark .comma c :: kt ++ Tok.mark .eq l :: (r2 ++ postT) := by
    rw [h1, hr]; simp
  have hl' : l = ['='] := by
    have hm : Tok.mark .eq l ∈ lex P s := by rw [hlex]; simp
    exact eqLit_lexFrom P false _ _ hm l rfl
  subst hl'
  refine ⟨preT ++ r1, c, kt, r2 ++ postT, hlex, ?_, hpl, hk, ?_⟩
  · have := flatten_lexFrom P false ('\n' :: s)
    rw [show lexFrom P false ('\n' :: s) = lex P s from rfl, hlex] at this
    rw [← this]
    simp [flatten_append, flatten_cons_mark]
  · rw [hl, h3]
    simp only [flatten_append, nlc_append]
    omega

/-- non-vacuity (token level, evaluated by the kernel): `@a{k, b, c}` NL `@comment{x}` gives a
failed block, an implicit comment `, b, c}` and an explicit comment. -/
example : (splitToks asciiChars
    [.mark .nl ['\n'], .mark .at "@a".toList, .mark .lbrace ['{'], .text "k".toList, .mark .comma [','],
     .text " b".toList, .mark .comma [','], .text " c".toList, .mark .rbrace ['}'], .mark .nl ['\n'],
     .mark .at "@comment".toList, .mark .lbrace ['{'], .text "x".toList, .mark .rbrace ['}']]).toOption.map
      (fun bs => bs.map fun b => (b.isFailed, b.line, String.ofList b.raw))
    = some [(true, 0, "@a{k, b"), (false, 0, ", c}"), (false, 1, "@comment{x}")] := by
  decide +kernel

/-- non-vacuity for the field lines (evaluated by the kernel): `@a{k,` NL ` x = 1,` NL NL ` y = 2}`
on the line after the prepended newline gives fields on lines 1 and 3. -/
example : (splitToks asciiChars
    [.mark .nl ['\n'], .mark .at "@a".toList, .mark .lbrace ['{'], .text "k".toList, .mark .comma [','],
     .mark .nl ['\n'], .text " x ".toList, .mark .eq ['='], .text " 1".toList, .mark .comma [','],
     .mark .nl ['\n'], .mark .nl ['\n'], .text " y ".toList, .mark .eq ['='], .text " 2".toList,
     .mark .rbrace ['}']]).toOption.map
      (fun bs => bs.map fun b => (b.line, (entryOf b).map fun e => e.fields.map fun f => (String.ofList f.key, f.line)))
    = some [(0, some [("x", 1), ("y", 3)])] := by
  decide +kernel

end Bib.C03
