/-
  C16 — Block sorting is a stable permutation by (type, key) keeping comments attached.

  Statements only (helper lemmas: Lemmas/Sort.lean, Lemmas/SortBlocks.lean, Lemmas/Library.lean;
  model: SortBlocks.lean).

  `sortPlain order bs`      = the sorted block list of the plain mode (before `Library(...)`)
  `blockJunks bs`           = `_block_junks(blocks)`: comment runs grouped with the block below them
  `sortJunks order js`      = the sorted list of groups;  `sortPreserve` flattens it
  `blockSortKey`/`junkKey`  = the `(int, str)` sort keys;  `tupleLe` = Python's `<=` on such tuples
  `transform order preserve bs` = `SortBlocksByTypeAndKeyMiddleware(order, preserve).transform(lib).blocks`
  for a library holding the blocks `bs`.  `KeysUnique bs` is the invariant of every `Library`.
  Every theorem holds for all block lists (any length) and all type orders.
-/
import BibVerif.Lemmas.SortBlocks
namespace Bib.C16
open Bib Bib.SortBlocks

variable (order : List BType)

/-! ### plain mode (`preserve_comments_on_top=False`) -/

/-- exactly the input blocks: none lost, duplicated or altered -/
theorem plain_perm (bs : List Block) : (sortPlain order bs).Perm bs := List.mergeSort_perm bs _

/-- ordered by (rank of the exact class in the order, key or "") as Python orders `(int, str)` tuples -/
theorem plain_sorted (bs : List Block) :
    (sortPlain order bs).Pairwise (fun a b =>
      (blockSortKey order a).1 < (blockSortKey order b).1 ∨
      ((blockSortKey order a).1 = (blockSortKey order b).1 ∧ (blockSortKey order a).2 ≤ (blockSortKey order b).2)) :=
  (by_sorted (blockSortKey order) bs).imp (fun h => (tupleLe_iff _ _).mp h)

/-- what the rank of a class is: its first index in the order; **unlisted types last** (rank = length
of the order).  Classes are compared exactly: a `DuplicateBlockKeyBlock` is not a listed
`ParsingFailedBlock`. -/
theorem rank_spec (t : BType) :
    (t ∈ order → typeRank order t < order.length ∧ order[typeRank order t]? = some t ∧
        ∀ j, j < typeRank order t → order[j]? ≠ some t) ∧
    (t ∉ order → typeRank order t = order.length) :=
  ⟨typeRank_of_mem order t, typeRank_of_not_mem order t⟩

/-- the sort key of a block: `(rank of its class, its key)`, the key being `""` for blocks without a
`.key` (comments, preambles, failed blocks other than duplicate-key blocks) -/
theorem plain_key_spec (b : Block) :
    blockSortKey order b = (typeRank order (btype b), keyOr b) := rfl

/-- **ties in original relative order**: the blocks with any given sort key appear in the order they had -/
theorem plain_stable (bs : List Block) (c : Nat × Str) :
    (sortPlain order bs).filter (fun b => blockSortKey order b == c) = bs.filter (fun b => blockSortKey order b == c) :=
  by_stable (blockSortKey order) c bs

theorem plain_idempotent (bs : List Block) : sortPlain order (sortPlain order bs) = sortPlain order bs :=
  by_idempotent (blockSortKey order) bs

/-! ### comment-preserving mode -/

/-- grouping then flattening is the identity -/
theorem junks_flatten (bs : List Block) : (blockJunks bs).flatMap (·.blocks) = bs :=
  blockJunks_flatten bs

/-- every group is a run of comments followed by ONE non-comment block and is keyed by that block;
only the last group may instead be the trailing run of comments (keyed `""`) -/
theorem junk_shape (bs : List Block) :
    ∃ mains tail, blockJunks bs = mains ++ tail ∧ (∀ j ∈ mains, MainJunk j) ∧
      (tail = [] ∨ ∃ j, tail = [j] ∧ TrailJunk j) :=
  blockJunks_shape bs

/-- the sort never meets an empty group: `RuntimeError` ("This is a bug in bibtexparser") cannot occur -/
theorem never_runtime_error (bs : List Block) :
    sortPreserve order bs = .ok ((sortJunks order (blockJunks bs)).flatMap (·.blocks)) :=
  sortPreserve_eq order bs

/-- the groups are permuted as wholes -/
theorem preserve_perm_groups (bs : List Block) : (sortJunks order (blockJunks bs)).Perm (blockJunks bs) :=
  List.mergeSort_perm _ _

/-- exactly the input blocks -/
theorem preserve_perm (bs out : List Block) (h : sortPreserve order bs = .ok out) : out.Perm bs := by
  rw [never_runtime_error] at h
  cases h
  have := (preserve_perm_groups order bs).flatMap_right (·.blocks)
  rwa [junks_flatten] at this

/-- the groups are ordered by `(rank of the class of their last block, key of that block or "")` -/
theorem preserve_sorted (bs : List Block) :
    (sortJunks order (blockJunks bs)).Pairwise (fun a b =>
      (junkKey order a).1 < (junkKey order b).1 ∨
      ((junkKey order a).1 = (junkKey order b).1 ∧ (junkKey order a).2 ≤ (junkKey order b).2)) :=
  (by_sorted (junkKey order) _).imp (fun h => (tupleLe_iff _ _).mp h)

/-- the key of a group `comments ++ [m]` is `(rank of the class of m, key of m or "")` -/
theorem preserve_key_spec (j : Junk) (h : MainJunk j) :
    ∃ cs m, j.blocks = cs ++ [m] ∧ junkKey order j = (typeRank order (btype m), keyOr m) :=
  junkKey_main order h

/-- ties between groups keep source order -/
theorem preserve_stable (bs : List Block) (c : Nat × Str) :
    (sortJunks order (blockJunks bs)).filter (fun j => junkKey order j == c) =
      (blockJunks bs).filter (fun j => junkKey order j == c) :=
  by_stable (junkKey order) c _

/-- **comment runs stay attached**: every group of the input - a run of comments with the block
directly below it, in their original internal order - occurs as one contiguous piece of the output -/
theorem comment_runs_attached (bs out : List Block) (h : sortPreserve order bs = .ok out) :
    ∀ j ∈ blockJunks bs, ∃ pre post, out = pre ++ j.blocks ++ post := by
  rw [never_runtime_error] at h
  cases h
  intro j hj
  have hmem : j ∈ sortJunks order (blockJunks bs) := (preserve_perm_groups order bs).mem_iff.mpr hj
  obtain ⟨s, t, hst⟩ := List.append_of_mem hmem
  refine ⟨s.flatMap (·.blocks), t.flatMap (·.blocks), ?_⟩
  rw [hst]
  simp [List.flatMap_append, List.flatMap_cons]

/-! ### the rebuilt library -/

/-- `Library(blocks)` gives back a block list whose entry keys and string keys are unique - and the
blocks of every library are such a list -/
theorem library_unchanged_by_rebuild (bs : List Block) :
    (KeysUnique bs → libraryOf bs = bs) ∧ KeysUnique (libraryOf bs) :=
  ⟨libraryOf_of_keysUnique bs, keysUnique_libraryOf bs⟩

/-- **the constructor** rejects exactly the orders that contain a class that is no `Block` subclass -/
theorem order_check (preserve : Bool) (bs : List Block) :
    (BType.notBlock ∈ order → transform order preserve bs = .error .valueError) ∧
    (BType.notBlock ∉ order → ∃ out, transform order preserve bs = .ok out) := by
  constructor
  · intro h; simp [transform, checkOrder_err h]
  · intro h
    cases preserve with
    | true =>
      exact ⟨libraryOf ((sortJunks order (blockJunks bs)).flatMap (·.blocks)),
        by simp [transform, checkOrder_ok h, never_runtime_error]⟩
    | false => exact ⟨libraryOf (sortPlain order bs), by simp [transform, checkOrder_ok h]⟩

/-- the whole middleware, plain mode, on a library: the result is the sorted list itself -/
theorem transform_plain (bs : List Block) (hu : KeysUnique bs) (ho : BType.notBlock ∉ order) :
    transform order false bs = .ok (sortPlain order bs) := by
  have hk : KeysUnique (sortPlain order bs) := KeysUnique.perm (plain_perm order bs).symm hu
  simp [transform, checkOrder_ok ho, libraryOf_of_keysUnique _ hk]

/-- the whole middleware, comment-preserving mode, on a library: the result is the concatenation of
the sorted groups -/
theorem transform_preserve (bs : List Block) (hu : KeysUnique bs) (ho : BType.notBlock ∉ order) :
    transform order true bs = .ok ((sortJunks order (blockJunks bs)).flatMap (·.blocks)) := by
  have hp := preserve_perm order bs _ (never_runtime_error order bs)
  have hk := KeysUnique.perm hp.symm hu
  simp [transform, checkOrder_ok ho, never_runtime_error, libraryOf_of_keysUnique _ hk]

/-- **blocks unaltered**, both modes: the resulting library holds exactly the input blocks -/
theorem blocks_unaltered (preserve : Bool) (bs out : List Block) (hu : KeysUnique bs)
    (h : transform order preserve bs = .ok out) : out.Perm bs := by
  have ho : BType.notBlock ∉ order := by
    intro hm
    rw [(order_check order preserve bs).1 hm] at h
    cases h
  cases preserve with
  | false =>
    rw [transform_plain order bs hu ho] at h
    cases h; exact plain_perm order bs
  | true =>
    rw [transform_preserve order bs hu ho] at h
    cases h; exact preserve_perm order bs _ (never_runtime_error order bs)

/-! ### non-vacuity -/

private def eA : Block := .live (.entry { ty := "article".toList, key := "a".toList, fields := [], line := 0, raw := [] })
private def eB : Block := .live (.entry { ty := "book".toList, key := "b".toList, fields := [], line := 1, raw := [] })
private def sA : Block := .live (.string "a".toList (.str "v".toList) 2 [] [])
private def c1 : Block := .live (.expl "c1".toList 3 [] [])
private def c2 : Block := .live (.impl "c2".toList 4 [] [])
private def pr : Block := .live (.preamble "p".toList 5 [] [])

/-- a library (unique keys) with a leading and a trailing comment run -/
example : KeysUnique [c1, eB, c2, c1, sA, pr, eA, c2] := by
  constructor <;> decide

/-- its grouping: `[c1 eB] [c2 c1 sA] [pr] [eA] [c2]`, keyed b, a, "", a, "" -/
example : (blockJunks [c1, eB, c2, c1, sA, pr, eA, c2]).map (fun j => (j.blocks.length, String.ofList j.sortKey)) =
    [(2, "b"), (3, "a"), (1, ""), (1, "a"), (1, "")] := by decide

example : MainJunk { sortKey := "b".toList, blocks := [c1, eB] } :=
  ⟨[c1], eB, rfl, by decide, by decide, by decide⟩

example : TrailJunk { sortKey := [], blocks := [c2] } := ⟨by decide, by decide, rfl⟩

/-- ranks under the order (Entry, String): listed classes by position, everything else last; a
duplicate-key block is not an Entry -/
example : typeRank [.entry, .string] .entry = 0 ∧ typeRank [.entry, .string] .string = 1 ∧
    typeRank [.entry, .string] .preamble = 2 ∧ typeRank [.entry, .string] .dupKey = 2 := by decide

example : BType.notBlock ∉ [BType.entry, BType.string] ∧ BType.notBlock ∈ [BType.entry, BType.notBlock] := by decide

/-- duplicate keys handed to `Library(...)` are wrapped: the result has unique keys although the input had not -/
example : ¬ KeysUnique [eA, eA] ∧ libraryOf [eA, eA] ≠ [eA, eA] := by
  constructor
  · intro h; exact absurd h.1 (by decide)
  · decide

end Bib.C16
