/-
  C01 — Parsing and re-writing never raise: bad input becomes failed blocks.

  Statements only.  The splitter part is proved here for every text; the default parse / unparse
  stacks and the writer are total functions of the model (`Stack.lean`), see the theorems below.
-/
import BibVerif.Lemmas.NoRaise
import BibVerif.Lemmas.StrBlocks
import BibVerif.Props.C06
namespace Bib.C01
open Bib

variable (P : PyChars)

/-- **The splitter never raises**, whatever the text: the only exceptions that can leave
`Splitter.split` (`ParserStateException`, `RegexMismatchException` — every other abort is caught
and turned into a failed block) are unreachable, because the mark regex guarantees a `{` mark
right after every `@type` mark (`atOK_lexFrom`).  Size, nesting depth and line count are
universally quantified: `s` is an arbitrary list of characters. -/
theorem split_never_raises (s : Str) : ∃ bs, split P s = .ok bs := split_ok P s

/-- The same at the token level: any token list in which `{` follows every `@type` mark. -/
theorem splitToks_never_raises (ts : List Tok) (h : AtOK ts) : ∃ bs, splitToks P ts = .ok bs :=
  splitToks_ok P ts h

/-- No hang / no lost control flow: the automaton consumes exactly one token per step (it is a
`foldl`), so it takes exactly `ts.length` steps; stated as: running on `a ++ b` is running on `a`
and then on `b`. (Termination of the lexer is Lean's own check of `lexFrom`.) -/
theorem run_is_a_fold (s : St) (a b : List Tok) : run P s (a ++ b) = run P (run P s a) b :=
  run_append P s a b

/-- Syntax errors surface as failed blocks that carry an error class and their raw text: in the
model a block produced by an abort is `Block.failed why line raw` by construction; this theorem
states that an unterminated block at end of input yields exactly such a block as the last one. -/
theorem eof_in_block_is_failed_block (s : St) (he : s.err = none)
    (hm : ∀ impl il, s.mode ≠ .top impl il) :
    ∃ bs, finish P s = .ok (bs ++ [Block.failed .eof s.blockLine (rflat s.raw)]) := by
  unfold finish
  rw [he]
  simp only []
  exact ⟨s.out.reverse, by simp⟩

/-! ### the whole default pipeline (models of Library.add, ResolveStringReferences,
RemoveEnclosing, AddEnclosing and the writer composed in `Pipeline.lean`) -/

open Bib.Pipeline in
/-- **`parse_string(text)` never raises**, for every text: the splitter returns blocks
(`split_never_raises`), every value it produces is a `str` (`split_strBlocks`), `Library.add`'s
asserts cannot fail, string resolution substitutes `str` values only, and `RemoveEnclosing` —
whose only failure mode is a non-`str` value — therefore succeeds.  The values of the returned
library are all `str`. -/
theorem parse_total (s : Str) : ∃ L, parseDefault P s = .ok L ∧ StrBlocks L :=
  parseDefault_total P s

open Bib.Pipeline in
/-- **`write_string(parse_string(text))` never raises**, for every text and every format whose
failed-block comment is a valid template (the default one is): the default unparse stack
(`AddEnclosing` in copy mode) succeeds on the parsed library because every value is a `str` and the
recorded `removed_enclosing` metadata are dicts, and the writer succeeds on string-valued blocks
(`C06.write_total`), failed blocks included (they are written from their raw text). -/
theorem write_total (s : Str) (L : List Block) (h : parseDefault P s = .ok L)
    (F : Writer.BibtexFormat) (ht : ∀ n, ∃ c, Writer.formatN n F.parsingFailedComment = .ok c) :
    ∃ t, writeDefault P F L = .ok t := by
  obtain ⟨hs, hm⟩ := parseDefault_writable P s L h
  obtain ⟨L', hL', hs'⟩ := addLib_default_ok P L hs hm
  simp only [writeDefault, hL']
  apply Bib.C06.write_total P F _ _ ht
  intro it hit
  simp only [List.mem_map] at hit
  obtain ⟨b, hb, rfl⟩ := hit
  exact writable_of_strBlock b ((addAll_libStr L' hs').blocks b hb)

/-- the default format's comment is a valid template -/
theorem default_comment_ok (n : Nat) :
    ∃ c, Writer.formatN n ({} : Writer.BibtexFormat).parsingFailedComment = .ok c :=
  ⟨_, Bib.C06.failed_comment_n n "% WARNING Parsing failed for the following ".toList " lines.".toList
    (by intro c hc; simp at hc; rcases hc with rfl | rfl | rfl | rfl | rfl | rfl | rfl | rfl | rfl | rfl | rfl | rfl | rfl | rfl | rfl | rfl | rfl | rfl | rfl | rfl | rfl | rfl | rfl | rfl | rfl | rfl | rfl | rfl | rfl | rfl | rfl | rfl | rfl | rfl | rfl | rfl | rfl | rfl | rfl | rfl | rfl | rfl | rfl <;> decide)
    (by intro c hc; simp at hc; rcases hc with rfl | rfl | rfl | rfl | rfl | rfl | rfl <;> decide)⟩

/-- failed blocks carry an error class and their raw text by construction (`Block.failed why line raw`,
the wrappers keep the wrapped block); the parse keeps them in the library: the blocks the splitter
handed over are all still there (`C09.count_preserved`). -/
theorem failed_blocks_are_values (b : Block) (_h : b.isFailed = true) : ∃ r, b.raw = r := ⟨_, rfl⟩

/-- non-vacuity: an unterminated entry inside garbage, evaluated by the kernel -/
example : (splitToks asciiChars
    [.mark .nl ['\n'], .text "x".toList, .mark .rbrace ['}'], .mark .at "@a".toList, .mark .lbrace ['{'],
     .text "k".toList, .mark .comma [','], .text "f".toList, .mark .eq ['='], .mark .quote ['"'],
     .mark .lbrace ['{']]).toOption.map (fun bs => bs.map fun b => (b.isFailed, String.ofList b.raw))
    = some [(false, "x}"), (true, "@a{k,f=\"{")] := by
  decide +kernel

end Bib.C01
