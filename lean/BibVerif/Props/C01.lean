/-
  C01 — Parsing and re-writing never raise: bad input becomes failed blocks.

  Statements only.  The splitter part is proved here for every text; the default parse / unparse
  stacks and the writer are total functions of the model (`Stack.lean`), see the theorems below.
-/
import BibVerif.Lemmas.NoRaise
namespace Bib.C01
open Bib

variable (P : PyChars)

/-- **The splitter never raises**, whatever the text: the only exceptions that can leave
`Splitter.split` (`ParserStateException`, `RegexMismatchException` — every other abort is caught
and turned into a failed block) are unreachable, because the mark regex guarantees a `{` mark
right after every `@type` mark (`atOK_lexFrom`).  Size, nesting depth and line count are
universally quantified: `s` is an arbitrary list of characters. -/
theorem split_never_raises (s : Str) : ∃ bs, split P s = .ok bs := split_ok P s

/-- The same at the token level: any token list in which `{` follows every `@type` mark. -/
theorem splitToks_never_raises (ts : List Tok) (h : AtOK ts) : ∃ bs, splitToks P ts = .ok bs :=
  splitToks_ok P ts h

/-- No hang / no lost control flow: the automaton consumes exactly one token per step (it is a
`foldl`), so it takes exactly `ts.length` steps; stated as: running on `a ++ b` is running on `a`
and then on `b`. (Termination of the lexer is Lean's own check of `lexFrom`.) -/
theorem run_is_a_fold (s : St) (a b : List Tok) : run P s (a ++ b) = run P (run P s a) b :=
  run_append P s a b

/-- Syntax errors surface as failed blocks that carry an error class and their raw text: in the
model a block produced by an abort is `Block.failed why line raw` by construction; this theorem
states that an unterminated block at end of input yields exactly such a block as the last one. -/
theorem eof_in_block_is_failed_block (s : St) (he : s.err = none)
    (hm : ∀ impl il, s.mode ≠ .top impl il) :
    ∃ bs, finish P s = .ok (bs ++ [Block.failed .eof s.blockLine (rflat s.raw)]) := by
  unfold finish
  rw [he]
  simp only []
  exact ⟨s.out.reverse, by simp⟩

/-- non-vacuity: an unterminated entry inside garbage, evaluated by the kernel -/
example : (splitToks asciiChars
    [.mark .nl ['\n'], .text "x".toList, .mark .rbrace ['}'], .mark .at "@a".toList, .mark .lbrace ['{'],
     .text "k".toList, .mark .comma [','], .text "f".toList, .mark .eq ['='], .mark .quote ['"'],
     .mark .lbrace ['{']]).toOption.map (fun bs => bs.map fun b => (b.isFailed, String.ofList b.raw))
    = some [(false, "x}"), (true, "@a{k,f=\"{")] := by
  decide +kernel

end Bib.C01
