/-
  C11 — @string references resolve exactly: bare matching identifiers only.

  Statements only.  Model: Interpolate.lean (`transform` = `ResolveStringReferencesMiddleware.transform`,
  `addAll` = the indexes `Library.add` builds from the splitter's blocks, `defaultParse` = `parse_string`
  with the default stack); helper lemmas and the spec functions `resolveField`, `firstString`, `strOf`,
  `AllStr`: Lemmas/Interpolate.lean.

  Reading of "Entry fields" written into the theorems: the middleware loops over `library.entries`, the
  *live* entries; an entry wrapped in a failed block (duplicate field keys, duplicate block key,
  middleware error) is not a live entry and is not touched.
-/
import BibVerif.Lemmas.Interpolate
namespace Bib.C11
open Bib Bib.Interpolate Bib.Enclosing

/-! ### which fields are replaced, and by what -/

/-- `transform` rewrites the block list pointwise and every live entry field by field. -/
theorem transform_blocks (L : Lib) : (transform L).blocks = L.blocks.map (resolveBlock L.strings) := rfl

theorem live_entry_resolved (L : Lib) (e : Entry) (h : Block.live (.entry e) ∈ L.blocks) :
    Block.live (.entry (resolveEntry L.strings e)) ∈ (transform L).blocks := by
  rw [transform_blocks]
  exact List.mem_map.mpr ⟨_, h, rfl⟩

theorem entry_fieldwise (strings : List (Str × Live)) (e : Entry) :
    (resolveEntry strings e).fields = e.fields.map (resolveField strings) ∧
    (resolveEntry strings e).ty = e.ty ∧ (resolveEntry strings e).key = e.key ∧
    (resolveEntry strings e).line = e.line ∧ (resolveEntry strings e).raw = e.raw :=
  ⟨resolveFields_fst strings e.fields, rfl, rfl, rfl, rfl⟩

/-- **resolves_iff.**  A field is replaced iff its value is a `str`, is not enclosed in quotes or braces
(the `startswith`/`endswith` test), and equals - as a string, case-sensitively - a key of the string
index; the new value is the value of the string block the index holds for that key.  Key and line of
the field stay. -/
theorem resolves_iff (strings : List (Str × Live)) (f : Field) :
    (∀ w, (∃ s, f.value = .str s ∧
              ¬ (startsWith ['"'] s = true ∧ endsWith ['"'] s = true) ∧
              ¬ (startsWith ['{'] s = true ∧ endsWith ['}'] s = true) ∧
              ∃ k l r m, lookup strings s = some (.string k w l r m)) →
          resolveField strings f = { f with value := w }) ∧
    ((¬ ∃ w s, f.value = .str s ∧
              ¬ (startsWith ['"'] s = true ∧ endsWith ['"'] s = true) ∧
              ¬ (startsWith ['{'] s = true ∧ endsWith ['}'] s = true) ∧
              ∃ k l r m, lookup strings s = some (.string k w l r m)) →
          resolveField strings f = f) := by
  have key : ∀ s, valueIsNonstringOrEnclosed (.str s) = false ↔
      (¬ (startsWith ['"'] s = true ∧ endsWith ['"'] s = true) ∧
       ¬ (startsWith ['{'] s = true ∧ endsWith ['}'] s = true)) := by
    intro s
    simp only [valueIsNonstringOrEnclosed, Bool.or_eq_false_iff, Bool.and_eq_false_iff]
    constructor
    · rintro ⟨h1, h2⟩
      exact ⟨fun ⟨a, b⟩ => by rcases h1 with h | h <;> simp_all, fun ⟨a, b⟩ => by rcases h2 with h | h <;> simp_all⟩
    · rintro ⟨h1, h2⟩
      constructor
      · by_cases a : startsWith ['"'] s = true
        · right; by_cases b : endsWith ['"'] s = true
          · exact absurd ⟨a, b⟩ h1
          · simpa using b
        · left; simpa using a
      · by_cases a : startsWith ['{'] s = true
        · right; by_cases b : endsWith ['}'] s = true
          · exact absurd ⟨a, b⟩ h2
          · simpa using b
        · left; simpa using a
  constructor
  · rintro w ⟨s, hs, h1, h2, k, l, r, m, hl⟩
    have : resolution strings f.value = some w :=
      (resolution_some_iff strings f.value w).mpr ⟨s, hs, (key s).mpr ⟨h1, h2⟩, k, l, r, m, hl⟩
    simp [resolveField, this]
  · intro hno
    cases h : resolution strings f.value with
    | none => simp [resolveField, h]
    | some w =>
      obtain ⟨s, hs, he, k, l, r, m, hl⟩ := (resolution_some_iff strings f.value w).mp h
      exact absurd ⟨w, s, hs, ((key s).mp he).1, ((key s).mp he).2, k, l, r, m, hl⟩ hno

/-- **first definition wins.**  In a library built by `Library.add` from the blocks `bs`, the index entry
for a key is the first `@string` block with exactly that key in `bs` (later ones become
`DuplicateBlockKeyBlock`s), wherever it stands relative to the entries - before or after its use. -/
theorem first_definition_wins (bs : List Block) (k : Str) :
    lookup (addAll bs).strings k = firstString k bs := by
  simpa [addAll, Lib.empty, lookup] using strings_foldl bs Lib.empty k

/-- ... and that block really is a `@string` block of `bs` with this very key. -/
theorem index_holds_string (bs : List Block) (k : Str) (b : Live) (h : lookup (addAll bs).strings k = some b) :
    ∃ v l r m, b = .string k v l r m ∧ Block.live b ∈ bs :=
  firstString_key (by rw [← first_definition_wins]; exact h)

/-- Non-string values (ints, lists, ...) and enclosed values are never replaced; neither is a name that
differs from every key (e.g. only in case). -/
theorem keeps_own_content (strings : List (Str × Live)) (f : Field)
    (h : valueIsNonstringOrEnclosed f.value = true ∨ ∀ s, f.value = .str s → lookup strings s = none) :
    resolveField strings f = f := by
  rcases h with h | h
  · simp [resolveField, resolution, h]
  · cases hr : resolution strings f.value with
    | none => simp [resolveField, hr]
    | some w =>
      obtain ⟨s, hs, _, k, l, r, m, hl⟩ := (resolution_some_iff strings f.value w).mp hr
      rw [h s hs] at hl; cases hl

/-! ### the @string blocks and everything else stay -/

/-- The string index is unchanged, and every block that is not a live entry (or the alias of one inside
a duplicate-key wrapper) is returned as it is: `@string`, `@preamble`, comments, failed blocks, entries
inside `DuplicateFieldKeyBlock` / `MiddlewareErrorBlock` / the duplicate of a `DuplicateBlockKeyBlock`. -/
theorem strings_untouched (L : Lib) :
    (transform L).strings = L.strings ∧ (transform L).stringBlocks = L.stringBlocks ∧
    (transform L).blocks.length = L.blocks.length ∧
    (∀ k v l r m, resolveBlock L.strings (.live (.string k v l r m)) = .live (.string k v l r m)) ∧
    (∀ v l r m, resolveBlock L.strings (.live (.preamble v l r m)) = .live (.preamble v l r m)) ∧
    (∀ c l r m, resolveBlock L.strings (.live (.expl c l r m)) = .live (.expl c l r m)) ∧
    (∀ c l r m, resolveBlock L.strings (.live (.impl c l r m)) = .live (.impl c l r m)) ∧
    (∀ w l r, resolveBlock L.strings (.failed w l r) = .failed w l r) ∧
    (∀ d e, resolveBlock L.strings (.dupField d e) = .dupField d e) ∧
    (∀ w i, resolveBlock L.strings (.mwError w i) = .mwError w i) ∧
    (∀ k p d, ∃ p', resolveBlock L.strings (.dupKey k p d) = .dupKey k p' d) := by
  refine ⟨rfl, rfl, by simp [transform], fun _ _ _ _ _ => rfl, fun _ _ _ _ => rfl, fun _ _ _ _ => rfl,
    fun _ _ _ _ => rfl, fun _ _ _ => rfl, fun _ _ => rfl, fun _ _ => rfl, ?_⟩
  intro k p d
  cases p <;> exact ⟨_, rfl⟩

/-! ### the resolved field keys are recorded on the entry -/

/-- `parser_metadata["ResolveStringReferences"]` is set to the keys of exactly the replaced fields, in
field order - and only when there is at least one; other metadata is kept. -/
theorem metadata_lists_resolved (strings : List (Str × Live)) (e : Entry) :
    (resolveEntry strings e).md =
      if (e.fields.filter fun f => (resolution strings f.value).isSome).map (·.key) = [] then e.md
      else assocSet e.md METADATA_KEY
        (.strs ((e.fields.filter fun f => (resolution strings f.value).isSome).map (·.key))) := by
  simp only [resolveEntry, resolveFields_snd, List.isEmpty_iff]

/-! ### composition with RemoveEnclosing: the value after default parsing -/

/-- `parse_string` = splitter, `Library.add`, resolution, then enclosing removal. -/
theorem default_stack_order (P : PyChars) (text : Str) (bs : List Block) (h : split P text = .ok bs) :
    defaultParse P text =
      match removeLib P true (transform (addAll bs)).blocks with
      | .error e => .error e
      | .ok bs' => .ok (addAll bs') := by
  simp only [defaultParse, h]
  cases removeLib P true (transform (addAll bs)).blocks <;> rfl

/-- For a live entry whose (resolved) values are strings, after the default stack every field holds the
one-layer-stripped text of its resolved value: a bare defined key gives the content of the first
`@string` with that key, `{key}` / `"key"` give `key`, anything else its own content. -/
theorem default_parse_value (P : PyChars) (strings : List (Str × Live)) (e : Entry)
    (h : AllStr (e.fields.map (resolveField strings))) :
    ∃ e', removeEntry P (resolveEntry strings e) = .ok e' ∧
      e'.fields = e.fields.map (fun f =>
        { f with value := .str (stripEnclosing P (strOf (resolveField strings f).value)).1 }) := by
  have hf := resolveFields_fst strings e.fields
  obtain ⟨md', hmd⟩ := removeFields_allStr P (e.fields.map (resolveField strings)) h []
  have hr : removeEntry P (resolveEntry strings e) = .ok
      { resolveEntry strings e with
        fields := (e.fields.map (resolveField strings)).map
          (fun f => { f with value := .str (stripEnclosing P (strOf f.value)).1 }),
        md := assocSet (resolveEntry strings e).md REMOVED_ENCLOSING_KEY (.dict md') } := by
    simp only [removeEntry, resolveEntry, hf, hmd]
  refine ⟨_, hr, ?_⟩
  simp only [List.map_map]
  apply List.map_congr_left
  intro f _
  simp only [Function.comp]
  cases hres : resolution strings f.value <;> simp [resolveField, hres]

/-! ### non-vacuity (kernel evaluation on a concrete library) -/

def exEntry : Entry :=
  { ty := "a".toList, key := "k".toList,
    fields := [⟨"f".toList, .str "abc".toList, 0⟩, ⟨"g".toList, .str "{abc}".toList, 0⟩,
               ⟨"h".toList, .str "ABC".toList, 0⟩, ⟨"i".toList, .str "abc # abc".toList, 0⟩,
               ⟨"j".toList, .str "\"abc\"".toList, 0⟩, ⟨"n".toList, .str "12".toList, 0⟩],
    line := 0, raw := [] }

def exBlocks : List Block :=
  [.live (.entry exEntry),
   .live (.string "abc".toList (.str "{first}".toList) 1 [] []),
   .live (.string "abc".toList (.str "{second}".toList) 2 [] [])]

/-- definition after use, duplicated: only `f` is replaced, by the first definition; the resolved key is
recorded; the second definition is a duplicate-key block -/
example : ((transform (addAll exBlocks)).blocks.map fun b => match b with
      | .live (.entry e) => (e.fields.map fun f => String.ofList (strOf f.value), e.md)
      | .dupKey _ _ _ => (["dup"], [])
      | _ => ([], []))
    = [(["{first}", "{abc}", "ABC", "abc # abc", "\"abc\"", "12"], [(METADATA_KEY, .strs ["f".toList])]),
       ([], []), (["dup"], [])] := by
  decide +kernel

example : (firstString "abc".toList exBlocks).map (fun b => match b with | .string _ v _ _ _ => strOf v | _ => [])
    = some "{first}".toList := by decide +kernel

/-- the hypothesis of `default_parse_value` holds for the example, and the stripped values are as expected -/
example : ((removeEntry asciiChars (resolveEntry (addAll exBlocks).strings exEntry)).toOption.map
      fun e => e.fields.map fun f => String.ofList (strOf f.value))
    = some ["first", "abc", "ABC", "abc # abc", "abc", "12"] := by
  decide +kernel

end Bib.C11
