/-
  C11 — @string references resolve exactly: bare matching identifiers only.

  Statements only.  Model: Interpolate.lean (`transform` = `ResolveStringReferencesMiddleware.transform`,
  `addAll` = the indexes `Library.add` builds from the splitter's blocks, `defaultParse` = `parse_string`
  with the default stack); helper lemmas and the spec functions `resolveField`, `firstString`, `strOf`,
  `AllStr`: Lemmas/Interpolate.lean.

  Reading of "Entry fields" written into the theorems: the middleware loops over `library.entries`, the
  *live* entries; an entry wrapped in a failed block (duplicate field keys, duplicate block key,
  middleware error) is not a live entry and is not touched.

  Document level (last section before the examples): the same facts through the WHOLE default parse
  stack `Pipeline.parseDefault` (splitter, `Library.add`, resolution, enclosing removal in place, the
  `Library(blocks)` rebuilds), in terms of the splitter's blocks `bs` of the source text only:
  `default_parse_fields`, `default_parse_metadata`, `default_parse_strings`, `default_parse_dup_entry`,
  `default_parse_dup_string`, `default_parse_passive`; `resolvedSrc` / `isRef` / `resolvedKeys` and the
  lemmas are in Lemmas/InterpolateDoc.lean (which builds on the C09 pipeline lemmas).  `firstString`
  there is `Interpolate.firstString` (Lemmas/Interpolate.lean) - written qualified in this file because
  AddAll.lean has a function of the same name (`first_string_spellings`: they are equal).
-/
import BibVerif.Lemmas.Interpolate
import BibVerif.Lemmas.InterpolateDoc
namespace Bib.C11
open Bib Bib.Interpolate Bib.Enclosing

/-! ### which fields are replaced, and by what -/

/-- `transform` rewrites the block list pointwise and every live entry field by field. -/
theorem transform_blocks (L : Lib) : (transform L).blocks = L.blocks.map (resolveBlock L.strings) := rfl

theorem live_entry_resolved (L : Lib) (e : Entry) (h : Block.live (.entry e) ∈ L.blocks) :
    Block.live (.entry (resolveEntry L.strings e)) ∈ (transform L).blocks := by
  rw [transform_blocks]
  exact List.mem_map.mpr ⟨_, h, rfl⟩

theorem entry_fieldwise (strings : List (Str × Live)) (e : Entry) :
    (resolveEntry strings e).fields = e.fields.map (resolveField strings) ∧
    (resolveEntry strings e).ty = e.ty ∧ (resolveEntry strings e).key = e.key ∧
    (resolveEntry strings e).line = e.line ∧ (resolveEntry strings e).raw = e.raw :=
  ⟨resolveFields_fst strings e.fields, rfl, rfl, rfl, rfl⟩

/-- **resolves_iff.**  A field is replaced iff its value is a `str`, is not enclosed in quotes or braces
(the `startswith`/`endswith` test), and equals - as a string, case-sensitively - a key of the string
index; the new value is the value of the string block the index holds for that key.  Key and line of
the field stay. -/
theorem resolves_iff (strings : List (Str × Live)) (f : Field) :
    (∀ w, (∃ s, f.value = .str s ∧
              ¬ (startsWith ['"'] s = true ∧ endsWith ['"'] s = true) ∧
              ¬ (startsWith ['{'] s = true ∧ endsWith ['}'] s = true) ∧
              ∃ k l r m, lookup strings s = some (.string k w l r m)) →
          resolveField strings f = { f with value := w }) ∧
    ((¬ ∃ w s, f.value = .str s ∧
              ¬ (startsWith ['"'] s = true ∧ endsWith ['"'] s = true) ∧
              ¬ (startsWith ['{'] s = true ∧ endsWith ['}'] s = true) ∧
              ∃ k l r m, lookup strings s = some (.string k w l r m)) →
          resolveField strings f = f) := by
  have key : ∀ s, valueIsNonstringOrEnclosed (.str s) = false ↔
      (¬ (startsWith ['"'] s = true ∧ endsWith ['"'] s = true) ∧
       ¬ (startsWith ['{'] s = true ∧ endsWith ['}'] s = true)) := by
    intro s
    simp only [valueIsNonstringOrEnclosed, Bool.or_eq_false_iff, Bool.and_eq_false_iff]
    constructor
    · rintro ⟨h1, h2⟩
      exact ⟨fun ⟨a, b⟩ => by rcases h1 with h | h <;> simp_all, fun ⟨a, b⟩ => by rcases h2 with h | h <;> simp_all⟩
    · rintro ⟨h1, h2⟩
      constructor
      · by_cases a : startsWith ['"'] s = true
        · right; by_cases b : endsWith ['"'] s = true
          · exact absurd ⟨a, b⟩ h1
          · simpa using b
        · left; simpa using a
      · by_cases a : startsWith ['{'] s = true
        · right; by_cases b : endsWith ['}'] s = true
          · exact absurd ⟨a, b⟩ h2
          · simpa using b
        · left; simpa using a
  constructor
  · rintro w ⟨s, hs, h1, h2, k, l, r, m, hl⟩
    have : resolution strings f.value = some w :=
      (resolution_some_iff strings f.value w).mpr ⟨s, hs, (key s).mpr ⟨h1, h2⟩, k, l, r, m, hl⟩
    simp [resolveField, this]
  · intro hno
    cases h : resolution strings f.value with
    | none => simp [resolveField, h]
    | some w =>
      obtain ⟨s, hs, he, k, l, r, m, hl⟩ := (resolution_some_iff strings f.value w).mp h
      exact absurd ⟨w, s, hs, ((key s).mp he).1, ((key s).mp he).2, k, l, r, m, hl⟩ hno

/-- **first definition wins.**  In a library built by `Library.add` from the blocks `bs`, the index entry
for a key is the first `@string` block with exactly that key in `bs` (later ones become
`DuplicateBlockKeyBlock`s), wherever it stands relative to the entries - before or after its use. -/
theorem first_definition_wins (bs : List Block) (k : Str) :
    lookup (addAll bs).strings k = Interpolate.firstString k bs := by
  simpa [addAll, Lib.empty, lookup] using strings_foldl bs Lib.empty k

/-- ... and that block really is a `@string` block of `bs` with this very key. -/
theorem index_holds_string (bs : List Block) (k : Str) (b : Live) (h : lookup (addAll bs).strings k = some b) :
    ∃ v l r m, b = .string k v l r m ∧ Block.live b ∈ bs :=
  Interpolate.firstString_key (by rw [← first_definition_wins]; exact h)

/-- Non-string values (ints, lists, ...) and enclosed values are never replaced; neither is a name that
differs from every key (e.g. only in case). -/
theorem keeps_own_content (strings : List (Str × Live)) (f : Field)
    (h : valueIsNonstringOrEnclosed f.value = true ∨ ∀ s, f.value = .str s → lookup strings s = none) :
    resolveField strings f = f := by
  rcases h with h | h
  · simp [resolveField, resolution, h]
  · cases hr : resolution strings f.value with
    | none => simp [resolveField, hr]
    | some w =>
      obtain ⟨s, hs, _, k, l, r, m, hl⟩ := (resolution_some_iff strings f.value w).mp hr
      rw [h s hs] at hl; cases hl

/-! ### the @string blocks and everything else stay -/

/-- The string index is unchanged, and every block that is not a live entry (or the alias of one inside
a duplicate-key wrapper) is returned as it is: `@string`, `@preamble`, comments, failed blocks, entries
inside `DuplicateFieldKeyBlock` / `MiddlewareErrorBlock` / the duplicate of a `DuplicateBlockKeyBlock`. -/
theorem strings_untouched (L : Lib) :
    (transform L).strings = L.strings ∧ (transform L).stringBlocks = L.stringBlocks ∧
    (transform L).blocks.length = L.blocks.length ∧
    (∀ k v l r m, resolveBlock L.strings (.live (.string k v l r m)) = .live (.string k v l r m)) ∧
    (∀ v l r m, resolveBlock L.strings (.live (.preamble v l r m)) = .live (.preamble v l r m)) ∧
    (∀ c l r m, resolveBlock L.strings (.live (.expl c l r m)) = .live (.expl c l r m)) ∧
    (∀ c l r m, resolveBlock L.strings (.live (.impl c l r m)) = .live (.impl c l r m)) ∧
    (∀ w l r, resolveBlock L.strings (.failed w l r) = .failed w l r) ∧
    (∀ d e, resolveBlock L.strings (.dupField d e) = .dupField d e) ∧
    (∀ w i, resolveBlock L.strings (.mwError w i) = .mwError w i) ∧
    (∀ k p d, ∃ p', resolveBlock L.strings (.dupKey k p d) = .dupKey k p' d) := by
  refine ⟨rfl, rfl, by simp [transform], fun _ _ _ _ _ => rfl, fun _ _ _ _ => rfl, fun _ _ _ _ => rfl,
    fun _ _ _ _ => rfl, fun _ _ _ => rfl, fun _ _ => rfl, fun _ _ => rfl, ?_⟩
  intro k p d
  cases p <;> exact ⟨_, rfl⟩

/-! ### the resolved field keys are recorded on the entry -/

/-- `parser_metadata["ResolveStringReferences"]` is set to the keys of exactly the replaced fields, in
field order - and only when there is at least one; other metadata is kept. -/
theorem metadata_lists_resolved (strings : List (Str × Live)) (e : Entry) :
    (resolveEntry strings e).md =
      if (e.fields.filter fun f => (resolution strings f.value).isSome).map (·.key) = [] then e.md
      else assocSet e.md METADATA_KEY
        (.strs ((e.fields.filter fun f => (resolution strings f.value).isSome).map (·.key))) := by
  simp only [resolveEntry, resolveFields_snd, List.isEmpty_iff]

/-! ### composition with RemoveEnclosing: the value after default parsing -/

/-- `parse_string` = splitter, `Library.add`, resolution, then enclosing removal. -/
theorem default_stack_order (P : PyChars) (text : Str) (bs : List Block) (h : split P text = .ok bs) :
    defaultParse P text =
      match removeLib P true (transform (addAll bs)).blocks with
      | .error e => .error e
      | .ok bs' => .ok (addAll bs') := by
  simp only [defaultParse, h]
  cases removeLib P true (transform (addAll bs)).blocks <;> rfl

/-- For a live entry whose (resolved) values are strings, after the default stack every field holds the
one-layer-stripped text of its resolved value: a bare defined key gives the content of the first
`@string` with that key, `{key}` / `"key"` give `key`, anything else its own content. -/
theorem default_parse_value (P : PyChars) (strings : List (Str × Live)) (e : Entry)
    (h : AllStr (e.fields.map (resolveField strings))) :
    ∃ e', removeEntry P (resolveEntry strings e) = .ok e' ∧
      e'.fields = e.fields.map (fun f =>
        { f with value := .str (stripEnclosing P (strOf (resolveField strings f).value)).1 }) := by
  have hf := resolveFields_fst strings e.fields
  obtain ⟨md', hmd⟩ := removeFields_allStr P (e.fields.map (resolveField strings)) h []
  have hr : removeEntry P (resolveEntry strings e) = .ok
      { resolveEntry strings e with
        fields := (e.fields.map (resolveField strings)).map
          (fun f => { f with value := .str (stripEnclosing P (strOf f.value)).1 }),
        md := assocSet (resolveEntry strings e).md REMOVED_ENCLOSING_KEY (.dict md') } := by
    simp only [removeEntry, resolveEntry, hf, hmd]
  refine ⟨_, hr, ?_⟩
  simp only [List.map_map]
  apply List.map_congr_left
  intro f _
  simp only [Function.comp]
  cases hres : resolution strings f.value <;> simp [resolveField, hres]

/-! ### document level: the whole default parse stack, in terms of the source blocks -/

/-- the two definitions of "first @string block with key `k`" in this development agree -/
theorem first_string_spellings (k : Str) (bs : List Block) :
    Interpolate.firstString k bs = Bib.firstString k bs := firstString_eq k bs

/-- `Interpolate.firstString k bs` is the FIRST @string block of the document with exactly the key
`k`: it stands in `bs`, and no @string block before it has that key -/
theorem first_string_is_first (k : Str) (bs : List Block) (p : Live)
    (h : Interpolate.firstString k bs = some p) :
    ∃ a c v l r m, bs = a ++ .live p :: c ∧ p = .string k v l r m ∧ Interpolate.firstString k a = none := by
  rw [firstString_eq] at h
  obtain ⟨a, c, hbs, ha, v, l, r, m, hp⟩ := firstString_pos h
  exact ⟨a, c, v, l, r, m, hbs, hp, by rw [firstString_eq]; exact ha⟩

/-- `resolvedSrc`: a bare value that is the key of an @string block of the document becomes the
source value of the first such block - wherever it stands, before or after the use … -/
theorem resolvedSrc_reference (bs : List Block) (src k v : Str) (l : Int) (r : Str) (m : MetaD)
    (h1 : valueIsNonstringOrEnclosed (.str src) = false)
    (h2 : Interpolate.firstString src bs = some (.string k (.str v) l r m)) :
    resolvedSrc bs src = v ∧ isRef bs src = true := by
  simp [resolvedSrc, isRef, h1, h2]

/-- … a value enclosed in braces or quotes keeps its own content … -/
theorem resolvedSrc_enclosed (bs : List Block) (src : Str)
    (h : valueIsNonstringOrEnclosed (.str src) = true) : resolvedSrc bs src = src ∧ isRef bs src = false := by
  simp [resolvedSrc, isRef, h]

/-- … and so does every value that is not - as a whole, case-sensitively - the key of an @string
block (undefined names, other case, numbers, concatenations) -/
theorem resolvedSrc_undefined (bs : List Block) (src : Str)
    (h : Interpolate.firstString src bs = none) : resolvedSrc bs src = src ∧ isRef bs src = false := by
  have : isRef bs src = false := by simp [isRef, h]
  exact ⟨resolvedSrc_of_not_ref bs src this, this⟩

/-- **C11 at document level - field values.**  `parse_string(text)` with the default stack: every
source entry that is the first with its key is the live entry at its position, with the same type,
key, lines, raw text and field keys, and field `i` holds the one-layer-stripped *resolved* source
value: for a bare identifier naming an @string of the document the content of the first such
@string (its source value, one layer of braces/quotes removed), for `{key}`, `"key"`, undefined
names, other-case names, numbers, concatenations its own (stripped) content. -/
theorem default_parse_fields (P : PyChars) (s : Str) (L : List Block)
    (h : Pipeline.parseDefault P s = .ok L) :
    ∃ bs, split P s = .ok bs ∧
      ∀ pre e post, bs = pre ++ .live (.entry e) :: post → firstEntry e.key pre = none →
        ∃ e', L[pre.length]? = some (.live (.entry e')) ∧ e'.ty = e.ty ∧ e'.key = e.key ∧
          e'.line = e.line ∧ e'.raw = e.raw ∧
          e'.fields.map (·.key) = e.fields.map (·.key) ∧
          e'.fields.map (·.line) = e.fields.map (·.line) ∧
          ∀ (i : Nat) (f : Field), e.fields[i]? = some f → ∃ src, f.value = .str src ∧
            (e'.fields[i]?).map (·.value) = some (.str (stripEnclosing P (resolvedSrc bs src)).1) := by
  obtain ⟨bs, hs, hall⟩ := parseDefault_entry P s L h
  refine ⟨bs, hs, ?_⟩
  intro pre e post hbs hf
  obtain ⟨he, _, e', d, hL, h1, h2, h3, h4, h5, _⟩ := hall pre e post hbs hf
  refine ⟨e', hL, h1, h2, h3, h4, ?_, ?_, ?_⟩
  · rw [h5, List.map_map]; rfl
  · rw [h5, List.map_map]; rfl
  · intro i f hi
    obtain ⟨src, hsrc⟩ := he f (List.mem_of_getElem? hi)
    refine ⟨src, hsrc, ?_⟩
    rw [h5, List.getElem?_map, hi]
    simp [hsrc, strOf]

/-- the same as one equation on the field list (every source value is a `str`) -/
theorem default_parse_fields_map (P : PyChars) (s : Str) (L : List Block)
    (h : Pipeline.parseDefault P s = .ok L) :
    ∃ bs, split P s = .ok bs ∧
      ∀ pre e post, bs = pre ++ .live (.entry e) :: post → firstEntry e.key pre = none →
        AllStr e.fields ∧
        ∃ e', L[pre.length]? = some (.live (.entry e')) ∧
          e'.fields = e.fields.map (fun f =>
            { f with value := .str (stripEnclosing P (resolvedSrc bs (strOf f.value))).1 }) := by
  obtain ⟨bs, hs, hall⟩ := parseDefault_entry P s L h
  refine ⟨bs, hs, ?_⟩
  intro pre e post hbs hf
  obtain ⟨he, _, e', d, hL, _, _, _, _, h5, _⟩ := hall pre e post hbs hf
  exact ⟨he, e', hL, h5⟩

/-- **C11 at document level - metadata.**  The source entry has no parser metadata; after default
parsing the live entry's metadata is: `ResolveStringReferences` ↦ the keys of exactly the fields
whose source value is a reference (`isRef`), in field order - absent when there is none - followed
by the `removed_enclosing` dict of `RemoveEnclosing` (C10). -/
theorem default_parse_metadata (P : PyChars) (s : Str) (L : List Block)
    (h : Pipeline.parseDefault P s = .ok L) :
    ∃ bs, split P s = .ok bs ∧
      ∀ pre e post, bs = pre ++ .live (.entry e) :: post → firstEntry e.key pre = none →
        e.md = [] ∧
        ∃ e' d, L[pre.length]? = some (.live (.entry e')) ∧
          e'.md = (if resolvedKeys bs e = [] then []
                   else [(METADATA_KEY, Meta.strs (resolvedKeys bs e))]) ++
                  [(REMOVED_ENCLOSING_KEY, Meta.dict d)] := by
  obtain ⟨bs, hs, hall⟩ := parseDefault_entry P s L h
  refine ⟨bs, hs, ?_⟩
  intro pre e post hbs hf
  obtain ⟨_, hmd, e', d, hL, _, _, _, _, _, h6⟩ := hall pre e post hbs hf
  exact ⟨hmd, e', d, hL, h6⟩

/-- `resolvedKeys` spelled out: the keys of the fields whose value is not enclosed and names an
@string block of the document -/
theorem resolvedKeys_eq (bs : List Block) (e : Entry) :
    resolvedKeys bs e = (e.fields.filter fun f =>
      !valueIsNonstringOrEnclosed (.str (strOf f.value)) &&
        (Interpolate.firstString (strOf f.value) bs).isSome).map (·.key) := rfl

/-- **C11 at document level - the @string blocks.**  Every @string block that is the first with its
key stays in the library at its position with its key, line and raw text.  *Resolution* leaves it
exactly as it is (`strings_untouched`; stated here for the block list after the resolution stage);
the default stack's enclosing removal then strips one layer of braces/quotes from its value, as
from every value (C10), and records the removed enclosing. -/
theorem default_parse_strings (P : PyChars) (s : Str) (L : List Block)
    (h : Pipeline.parseDefault P s = .ok L) :
    ∃ bs, split P s = .ok bs ∧
      ∀ pre k v l r m post, bs = pre ++ .live (.string k v l r m) :: post → Bib.firstString k pre = none →
        ∃ src, v = .str src ∧ m = [] ∧
          (transform (addAll bs)).blocks[pre.length]? = some (.live (.string k v l r m)) ∧
          L[pre.length]? = some (.live (.string k (.str (stripEnclosing P src).1) l r
            [(REMOVED_ENCLOSING_KEY, Meta.str (stripEnclosing P src).2)])) :=
  parseDefault_string P s L h

/-- **Entries inside duplicate-key blocks are not resolved.**  A source entry whose key an earlier
live entry `p` has (`p` stands at position `j`) is returned as a duplicate-key block holding the
duplicate EXACTLY as the splitter produced it - not resolved, not even enclosing-stripped - and, as
`previous_block`, the very (resolved, stripped) block `p'` that is live at position `j`. -/
theorem default_parse_dup_entry (P : PyChars) (s : Str) (L : List Block)
    (h : Pipeline.parseDefault P s = .ok L) :
    ∃ bs, split P s = .ok bs ∧
      ∀ pre e post p, bs = pre ++ .live (.entry e) :: post → firstEntry e.key pre = some p →
        ∃ p' j, j < pre.length ∧ bs[j]? = some (.live p) ∧ L[j]? = some (.live p') ∧
          L[pre.length]? = some (.dupKey e.key p' (.entry e)) :=
  parseDefault_dupEntry P s L h

/-- the same for a later @string with the key of an earlier one: it defines nothing
(`first_definition_wins`) and is kept untouched inside the duplicate-key block -/
theorem default_parse_dup_string (P : PyChars) (s : Str) (L : List Block)
    (h : Pipeline.parseDefault P s = .ok L) :
    ∃ bs, split P s = .ok bs ∧
      ∀ pre k v l r m post p, bs = pre ++ .live (.string k v l r m) :: post → Bib.firstString k pre = some p →
        ∃ p' j, j < pre.length ∧ bs[j]? = some (.live p) ∧ L[j]? = some (.live p') ∧
          L[pre.length]? = some (.dupKey k p' (.string k v l r m)) :=
  parseDefault_dupString P s L h

/-- **Entries with duplicate field keys are not resolved**, and nothing else is touched: a
duplicate-field block, a failed block, a preamble, a comment is returned exactly as the splitter
produced it (the inner entry of a duplicate-field block keeps its raw source values). -/
theorem default_parse_passive (P : PyChars) (s : Str) (L : List Block)
    (h : Pipeline.parseDefault P s = .ok L) :
    ∃ bs, split P s = .ok bs ∧
      ∀ pre b post, bs = pre ++ b :: post → isPassive b = true → L[pre.length]? = some b :=
  parseDefault_passive P s L h

/-! ### non-vacuity (kernel evaluation on a concrete library) -/

def exEntry : Entry :=
  { ty := "a".toList, key := "k".toList,
    fields := [⟨"f".toList, .str "abc".toList, 0⟩, ⟨"g".toList, .str "{abc}".toList, 0⟩,
               ⟨"h".toList, .str "ABC".toList, 0⟩, ⟨"i".toList, .str "abc # abc".toList, 0⟩,
               ⟨"j".toList, .str "\"abc\"".toList, 0⟩, ⟨"n".toList, .str "12".toList, 0⟩],
    line := 0, raw := [] }

def exBlocks : List Block :=
  [.live (.entry exEntry),
   .live (.string "abc".toList (.str "{first}".toList) 1 [] []),
   .live (.string "abc".toList (.str "{second}".toList) 2 [] [])]

/-- definition after use, duplicated: only `f` is replaced, by the first definition; the resolved key is
recorded; the second definition is a duplicate-key block -/
example : ((transform (addAll exBlocks)).blocks.map fun b => match b with
      | .live (.entry e) => (e.fields.map fun f => String.ofList (strOf f.value), e.md)
      | .dupKey _ _ _ => (["dup"], [])
      | _ => ([], []))
    = [(["{first}", "{abc}", "ABC", "abc # abc", "\"abc\"", "12"], [(METADATA_KEY, .strs ["f".toList])]),
       ([], []), (["dup"], [])] := by
  decide +kernel

example : (Interpolate.firstString "abc".toList exBlocks).map (fun b => match b with | .string _ v _ _ _ => strOf v | _ => [])
    = some "{first}".toList := by decide +kernel

/-- the hypothesis of `default_parse_value` holds for the example, and the stripped values are as expected -/
example : ((removeEntry asciiChars (resolveEntry (addAll exBlocks).strings exEntry)).toOption.map
      fun e => e.fields.map fun f => String.ofList (strOf f.value))
    = some ["first", "abc", "ABC", "abc # abc", "abc", "12"] := by
  decide +kernel

/-! ### non-vacuity at document level (kernel evaluation of the whole default stack) -/

/-- use before definition, a duplicate definition, `{key}`, `"key"`, an undefined name, a
concatenation, another case, a number; a duplicate-key entry and a duplicate-field entry -/
def exDoc : Str :=
  ("@a{k, a = abc, b = {abc}, c = \"abc\", d = nope, e = abc # abc, f = ABC, g = 12}\n" ++
   "@string{abc = {first}}\n@string{abc = \"second\"}\n@a{k, a = abc}\n@a{j, a = abc, a = abc}").toList

/-- what a block shows: class tag, field values, metadata keys with the resolved-keys list -/
def exView (b : Block) : String × List String × List String :=
  let vals (e : Entry) := e.fields.map fun f => String.ofList (strOf f.value)
  let mds (m : MetaD) := m.map fun kv => String.ofList kv.1 ++ (match kv.2 with
    | .strs l => "=" ++ String.intercalate "," (l.map String.ofList) | _ => "")
  match b with
  | .live (.entry e) => ("entry", vals e, mds e.md)
  | .live (.string _ v _ _ m) => ("string", [String.ofList (strOf v)], mds m)
  | .dupKey _ _ (.entry e) => ("dupkey", vals e, mds e.md)
  | .dupKey _ _ (.string _ v _ _ m) => ("dupkey", [String.ofList (strOf v)], mds m)
  | .dupField _ e => ("dupfield", vals e, mds e.md)
  | _ => ("other", [], [])

/-- the source blocks: the hypotheses of all six document-level theorems are met -/
example : (split asciiChars exDoc).toOption.map (fun bs => bs.map exView)
    = some [("entry", ["abc", "{abc}", "\"abc\"", "nope", "abc # abc", "ABC", "12"], []),
            ("string", ["{first}"], []), ("string", ["\"second\""], []),
            ("entry", ["abc"], []), ("dupfield", ["abc", "abc"], [])] := by
  decide +kernel

/-- `resolvedSrc` / `isRef` on the source blocks: only the bare `abc` is a reference, to the first
definition -/
example : (split asciiChars exDoc).toOption.map (fun bs =>
      ["abc", "{abc}", "\"abc\"", "nope", "abc # abc", "ABC", "12"].map fun v =>
        (String.ofList (resolvedSrc bs v.toList), isRef bs v.toList))
    = some [("{first}", true), ("{abc}", false), ("\"abc\"", false), ("nope", false),
            ("abc # abc", false), ("ABC", false), ("12", false)] := by
  decide +kernel

/-- the library after the default stack: `a` resolved (use before definition, first definition) and
recorded; the @strings stripped; the duplicate-key entry and the duplicate-field entry untouched -/
example : (Pipeline.parseDefault asciiChars exDoc).toOption.map (fun L => L.map exView)
    = some [("entry", ["first", "abc", "abc", "nope", "abc # abc", "ABC", "12"],
              ["ResolveStringReferences=a", "removed_enclosing"]),
            ("string", ["first"], ["removed_enclosing"]),
            ("dupkey", ["\"second\""], []),
            ("dupkey", ["abc"], []),
            ("dupfield", ["abc", "abc"], [])] := by
  decide +kernel

end Bib.C11
