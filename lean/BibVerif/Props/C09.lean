/-
  C09 — Duplicate keys are never merged or dropped: first wins, the rest are flagged.

  `libraryOfE bs` models the sequence of `library.add(block)` calls the splitter makes (and
  `Library(blocks)`, by which every block middleware rebuilds the library).  `addAllSpec` is the
  specification: block `i` is itself, or — if an earlier live entry/@string has its key — a
  duplicate-key block exposing the key, that FIRST block, and the complete duplicate.
  Statements only; lemmas in Lemmas/AddAll.lean; the splitter part reuses the C02 chain.

  Pipeline level (second half): `Interpolate.addAll` is the assert-free model of the same
  `Library.add` used by the model of the default parse stack (`Pipeline.parseDefault`); the two
  models agree (`models_agree`), and the default stack - ResolveStringReferences, RemoveEnclosing in
  place, each followed by a `Library(blocks)` rebuild - keeps the *skeleton* (`skel`: class, type,
  keys, field keys and lines, start line, raw text, wrapper structure; values and parser metadata
  erased) of every block of `parse_string(text, parse_stack=[])` at its position
  (`default_stack_keeps_structure`).  Lemmas in Lemmas/AddAllAgree.lean.
-/
import BibVerif.Lemmas.AddAll
import BibVerif.Lemmas.Doc
import BibVerif.Lemmas.AddAllAgree
import BibVerif.Lemmas.StrBlocks
import BibVerif.Props.C02
namespace Bib.C09
open Bib

variable (P : PyChars)

/-- Adding never raises (the two asserts of `_cast_to_duplicate` are unreachable) and yields
exactly the specified blocks. -/
theorem library_add (bs : List Block) : ∃ L, libraryOfE bs = .ok L ∧ L.blocks = addAllSpec [] bs := by
  obtain ⟨L, h, inv⟩ := addMany_inv bs {} [] libInv_empty
  exact ⟨L, h, by simpa using inv.blocks⟩

/-- **The number of returned blocks equals the number of blocks added** — nothing merged, nothing
dropped. -/
theorem count_preserved (bs : List Block) : (addAllSpec [] bs).length = bs.length :=
  addAllSpec_length [] bs

/-- every block appears at its own position -/
theorem block_at (pre : List Block) (b : Block) (post : List Block) :
    addAllSpec [] (pre ++ b :: post) =
      addAllSpec [] pre ++ addSpec pre b :: addAllSpec (pre ++ [b]) post := by
  rw [addAllSpec_append]; simp [addAllSpec]

/-- **First wins**: an entry with no earlier live entry of its key stays the live entry. -/
theorem first_wins (pre : List Block) (e : Entry) (h : firstEntry e.key pre = none) :
    addSpec pre (.live (.entry e)) = .live (.entry e) := by simp [addSpec, h]

/-- **Later ones are flagged**: the wrapper exposes the key, the first block with that key (no
live entry with the key precedes it), and the complete duplicate. -/
theorem later_wrapped (pre : List Block) (e : Entry) (p : Live) (h : firstEntry e.key pre = some p) :
    addSpec pre (.live (.entry e)) = .dupKey e.key p (.entry e) ∧
    ∃ a c e₀, pre = a ++ .live (.entry e₀) :: c ∧ p = .entry e₀ ∧ e₀.key = e.key ∧
      ∀ e', Block.live (.entry e') ∈ a → e'.key ≠ e.key :=
  ⟨by simp [addSpec, h], (firstEntry_iff e.key pre p).mp h⟩

theorem string_first_wins (pre : List Block) (k : Str) (v : Val) (l : Int) (r : Str) (m : MetaD)
    (h : firstString k pre = none) :
    addSpec pre (.live (.string k v l r m)) = .live (.string k v l r m) := by simp [addSpec, h]

theorem string_later_wrapped (pre : List Block) (k : Str) (v : Val) (l : Int) (r : Str) (m : MetaD)
    (p : Live) (h : firstString k pre = some p) :
    addSpec pre (.live (.string k v l r m)) = .dupKey k p (.string k v l r m) := by simp [addSpec, h]

/-- entries and @strings with the same name do not collide: an @string is never the "first
entry" and vice versa; failed blocks (incl. duplicate-field and duplicate-key blocks) register no key -/
theorem other_kinds_register_nothing (k : Str) (b : Block)
    (hb : ∀ e, b ≠ .live (.entry e)) : firstEntry k [b] = none := by
  cases b with
  | live l => cases l with
    | entry e => exact absurd rfl (hb e)
    | _ => rfl
  | _ => rfl

/-- **Survives the rebuilds of the stack**: every block middleware returns `Library(blocks)`;
re-adding the blocks of a library changes nothing. -/
theorem readd_is_identity (bs : List Block) :
    addAllSpec [] (addAllSpec [] bs) = addAllSpec [] bs := by
  have := addAllSpec_readd bs []
  simpa [addAllSpec] using this

/-- **Duplicate field keys.** A well-formed entry that repeats a field key is returned as a
duplicate-field block whose inner entry has every field occurrence in source order … -/
theorem dup_field_wrapper (line : Int) (lit : Str) (key : List Tok) (fields : List FieldSrc)
    (tr : Option (List Tok)) (h : dupKeys (expFields P (line + nlCount key) fields) ≠ []) :
    (BlockSrc.entry lit key fields tr).expected P line =
      .dupField (dupKeys (expFields P (line + nlCount key) fields))
        { ty := (classify P lit).2, key := strip P (flatten key),
          fields := expFields P (line + nlCount key) fields, line := line,
          raw := flatten (BlockSrc.entry lit key fields tr).toks } := by
  simp only [BlockSrc.expected, mkEntry]
  have : (dupKeys (expFields P (line + nlCount key) fields)).isEmpty = false := by
    cases hd : dupKeys (expFields P (line + nlCount key) fields) with
    | nil => exact absurd hd h
    | cons _ _ => rfl
  simp [this]

/-- … and its key is not registered as live: it is added unchanged and never counts as a first
entry. -/
theorem dup_field_not_registered (pre : List Block) (d : List Str) (e : Entry) (k : Str) :
    addSpec pre (.dupField d e) = .dupField d e ∧ firstEntry k [.dupField d e] = none :=
  ⟨rfl, rfl⟩

/-- a repeated key is reported: `dupKeys` is non-empty exactly when the keys are not pairwise
distinct -/
theorem dupKeys_nonempty_iff (fs : List Field) : dupKeys fs ≠ [] ↔ ¬ (fs.map (·.key)).Nodup := by
  constructor
  · intro h hnd
    exact h (by simpa [dupKeys] using dupKeysGo_of_fresh fs [] [] hnd (by simp))
  · intro hnd hnil
    apply hnd
    -- if no duplicate was recorded, every key was fresh when met
    have gen : ∀ (fs : List Field) (seen dups : List Str), dupKeysGo seen dups fs = [] →
        (fs.map (·.key)).Nodup ∧ ∀ f ∈ fs, f.key ∉ seen := by
      intro fs
      induction fs with
      | nil => intro _ _ _; exact ⟨List.nodup_nil, by simp⟩
      | cons f fs ih =>
        intro seen dups hgo
        simp only [dupKeysGo] at hgo
        split at hgo
        · -- a duplicate: the accumulator becomes non-empty and stays so
          rename_i hc
          exfalso
          have mono : ∀ (fs : List Field) (seen dups : List Str), dups ≠ [] → dupKeysGo seen dups fs ≠ [] := by
            intro fs
            induction fs with
            | nil => intro _ _ h; exact h
            | cons g gs ihg =>
              intro seen dups h
              simp only [dupKeysGo]
              split
              · apply ihg; split
                · exact h
                · simp
              · exact ihg _ _ h
          refine mono fs seen _ ?_ hgo
          split
          · rename_i hd; intro hnil'; rw [hnil'] at hd; simp at hd
          · simp
        · rename_i hc
          have hc' : f.key ∉ seen := by simpa using hc
          obtain ⟨h1, h2⟩ := ih _ _ hgo
          refine ⟨?_, ?_⟩
          · simp only [List.map_cons, List.nodup_cons]
            refine ⟨?_, h1⟩
            intro hm
            obtain ⟨g, hg, hgk⟩ := List.mem_map.mp hm
            exact h2 g hg (by rw [hgk]; exact List.mem_cons_self)
          · intro g hg
            rcases List.mem_cons.mp hg with rfl | hg
            · exact hc'
            · intro hm; exact h2 g hg (List.mem_cons_of_mem _ hm)
    exact (gen fs [] [] hnil).1

/-- non-vacuity: three entries with key `k` around an @string `k` and a duplicate-field block -/
example :
    let e (n : Int) : Block := .live (.entry { ty := "a".toList, key := "k".toList, fields := [], line := n, raw := [] })
    let s : Block := .live (.string "k".toList (.str []) 9 [] [])
    (libraryOfE [e 1, s, e 2, .dupField ["f".toList] { ty := [], key := "k".toList, fields := [], line := 3, raw := [] }, e 4, s]).toOption.map
        (fun L => L.blocks.map fun b => match b with
          | .dupKey _ p d => (1, p.line, d.line) | b => (0, b.line, b.line))
      = some [(0, 1, 1), (0, 9, 9), (1, 1, 2), (0, 3, 3), (1, 1, 4), (1, 9, 9)] := by
  decide +kernel

/-! ### the default parse stack keeps the structure -/

/-- **The two models of `Library.add` agree**: the assert-free fold used by the pipeline model
builds the blocks of the model with the two `_cast_to_duplicate` asserts … -/
theorem models_agree (bs : List Block) (K : KLib) (h : libraryOfE bs = .ok K) :
    (Interpolate.addAll bs).blocks = K.blocks :=
  (libraryOfE_agree bs K h).blocks

/-- … and the same two key indexes -/
theorem models_agree_indexes (bs : List Block) (K : KLib) (h : libraryOfE bs = .ok K) :
    (Interpolate.addAll bs).entries = K.eidx ∧ (Interpolate.addAll bs).strings = K.sidx :=
  ⟨(libraryOfE_agree bs K h).entries, (libraryOfE_agree bs K h).strings⟩

/-- hence (with `library_add`) the pipeline's `Library(blocks)` is the specification -/
theorem models_agree_spec (bs : List Block) : (Interpolate.addAll bs).blocks = addAllSpec [] bs :=
  addAll_blocks_spec bs

/-- `ResolveStringReferences` changes no skeleton -/
theorem resolve_keeps_skeleton (L : Interpolate.Lib) :
    (Interpolate.transform L).blocks.map skel = L.blocks.map skel :=
  skel_transform L

/-- `RemoveEnclosing` (in place or on copies) changes no skeleton when it does not raise -/
theorem remove_enclosing_keeps_skeleton (inplace : Bool) (bs bs' : List Block)
    (h : Enclosing.removeLib P inplace bs = .ok bs') : bs'.map skel = bs.map skel :=
  skel_removeLib P inplace bs bs' h

/-- **Re-adding, generalised to skeletons**: a block list that has the skeletons of a library
(values may differ) is a fixed point of `Library(blocks)` - keys are part of the skeleton, live
entries / @strings of a library have pairwise distinct keys, and duplicate-key wrappers are not
live, so nothing is wrapped again and nothing is dropped. -/
theorem readd_skeleton (bs' bs : List Block) (h : bs'.map skel = (addAllSpec [] bs).map skel) :
    (Interpolate.addAll bs').blocks = bs' := by
  rw [models_agree_spec]; exact addAllSpec_of_skel bs' bs h

/-- **The default parse stack keeps the structure**: `parse_string(text)` returns exactly the
blocks of `parse_string(text, parse_stack=[])` - same number, same positions, same classes, types,
keys, field keys, lines, raw texts, same wrappers around the same blocks. -/
theorem default_stack_keeps_structure (P : PyChars) (s : Str) (L : List Block)
    (h : Pipeline.parseDefault P s = .ok L) :
    ∃ bs, split P s = .ok bs ∧ L.map skel = (addAllSpec [] bs).map skel :=
  parseDefault_skel P s L h

/-- … for every text (the default stack never raises, C01 `parse_total`) -/
theorem default_stack_structure_total (s : Str) :
    ∃ L bs, Pipeline.parseDefault P s = .ok L ∧ split P s = .ok bs ∧
      L.map skel = (addAllSpec [] bs).map skel := by
  obtain ⟨L, h, _⟩ := Pipeline.parseDefault_total P s
  obtain ⟨bs, h1, h2⟩ := parseDefault_skel P s L h
  exact ⟨L, bs, h, h1, h2⟩

/-- **Count preserved by default parsing**: as many blocks as the splitter produced. -/
theorem count_preserved_default (s : Str) (L : List Block) (h : Pipeline.parseDefault P s = .ok L) :
    ∃ bs, split P s = .ok bs ∧ L.length = bs.length := by
  obtain ⟨bs, h1, h2⟩ := parseDefault_skel P s L h
  refine ⟨bs, h1, ?_⟩
  have := congrArg List.length h2
  simpa [addAllSpec_length] using this

/-- **One block per source block, default parsing**: for the text of a grammar derivation the
returned library has exactly one block that is not a free-text comment per `@…` source block -
duplicates (of block keys and of field keys) included. -/
theorem count_blocks_default (hP : WordOK2 P) (d : Doc) (h : d.WF P) (hc : Canon P false d.toks)
    (s : Str) (hs : '\n' :: s = flatten d.toks) (L : List Block)
    (hL : Pipeline.parseDefault P s = .ok L) :
    (L.filter notImplicit).length = d.items.length := by
  obtain ⟨bs, h1, h2⟩ := parseDefault_skel P s L hL
  rw [C02.split_correct_text P hP d h hc s hs] at h1
  injection h1 with h1; subst h1
  rw [filter_notImplicit_of_skel _ _ h2, filter_notImplicit_addAllSpec]
  exact C02.count_blocks P d

/-- **First wins, default parsing**: a source entry with no earlier live entry of its key is the
live entry at its position (values transformed, skeleton intact). -/
theorem first_wins_default (s : Str) (L : List Block) (h : Pipeline.parseDefault P s = .ok L) :
    ∃ bs, split P s = .ok bs ∧ ∀ pre e post, bs = pre ++ .live (.entry e) :: post →
      firstEntry e.key pre = none →
      ∃ e', L[pre.length]? = some (.live (.entry e')) ∧ skelEntry e' = skelEntry e := by
  obtain ⟨bs, h1, h2⟩ := parseDefault_skel P s L h
  refine ⟨bs, h1, ?_⟩
  intro pre e post hbs hf
  subst hbs
  obtain ⟨b', hb, hsk⟩ := skel_at L pre post _ h2
  rw [first_wins pre e hf] at hsk
  obtain ⟨e', rfl, he⟩ := skel_eq_entry hsk
  exact ⟨e', hb, he⟩

/-- **Later ones are flagged, default parsing**: a source entry whose key an earlier live entry
`p` has (the first such, `later_wrapped`) is, at its position, a duplicate-key block with that key,
a previous block with the skeleton of `p`, and a duplicate with the complete skeleton of the entry. -/
theorem later_wrapped_default (s : Str) (L : List Block) (h : Pipeline.parseDefault P s = .ok L) :
    ∃ bs, split P s = .ok bs ∧ ∀ pre e post p, bs = pre ++ .live (.entry e) :: post →
      firstEntry e.key pre = some p →
      ∃ p' d', L[pre.length]? = some (.dupKey e.key p' d') ∧ skelLive p' = skelLive p ∧
        skelLive d' = skelLive (.entry e) := by
  obtain ⟨bs, h1, h2⟩ := parseDefault_skel P s L h
  refine ⟨bs, h1, ?_⟩
  intro pre e post p hbs hf
  subst hbs
  obtain ⟨b', hb, hsk⟩ := skel_at L pre post _ h2
  rw [(later_wrapped pre e p hf).1] at hsk
  obtain ⟨p', d', rfl, hp, hd⟩ := skel_eq_dupKey hsk
  exact ⟨p', d', hb, hp, hd⟩

/-- the same for @strings -/
theorem string_later_wrapped_default (s : Str) (L : List Block) (h : Pipeline.parseDefault P s = .ok L) :
    ∃ bs, split P s = .ok bs ∧ ∀ pre k v l r m post p, bs = pre ++ .live (.string k v l r m) :: post →
      firstString k pre = some p →
      ∃ p' d', L[pre.length]? = some (.dupKey k p' d') ∧ skelLive p' = skelLive p ∧
        skelLive d' = .string k l r := by
  obtain ⟨bs, h1, h2⟩ := parseDefault_skel P s L h
  refine ⟨bs, h1, ?_⟩
  intro pre k v l r m post p hbs hf
  subst hbs
  obtain ⟨b', hb, hsk⟩ := skel_at L pre post _ h2
  rw [string_later_wrapped pre k v l r m p hf] at hsk
  obtain ⟨p', d', rfl, hp, hd⟩ := skel_eq_dupKey hsk
  exact ⟨p', d', hb, hp, hd⟩

/-- **Duplicate field keys, default parsing**: a duplicate-field block of the splitter is still a
duplicate-field block at its position, reporting the same keys, with every field occurrence of
the inner entry in order. -/
theorem dup_field_default (s : Str) (L : List Block) (h : Pipeline.parseDefault P s = .ok L) :
    ∃ bs, split P s = .ok bs ∧ ∀ pre ds e post, bs = pre ++ .dupField ds e :: post →
      ∃ e', L[pre.length]? = some (.dupField ds e') ∧ skelEntry e' = skelEntry e := by
  obtain ⟨bs, h1, h2⟩ := parseDefault_skel P s L h
  refine ⟨bs, h1, ?_⟩
  intro pre ds e post hbs
  subst hbs
  obtain ⟨b', hb, hsk⟩ := skel_at L pre post _ h2
  obtain ⟨e', rfl, he⟩ := skel_eq_dupField (show skel b' = skel (.dupField ds e) from hsk)
  exact ⟨e', hb, he⟩

/-! ### non-vacuity at pipeline level -/

/-- a duplicate entry key, a duplicate @string key and a duplicate field key -/
def exText : Str :=
  "@a{k, f = s}\n@b{k, g = {x}}\n@string{s = {1}}\n@string{s = \"2\"}\n@a{j, f = 1, f = 2}\njunk".toList

/-- the default parse stack returns entry, duplicate-key block, @string, duplicate-key block,
duplicate-field block, free-text comment -/
example : (Pipeline.parseDefault asciiChars exText).toOption.map (fun L => L.map fun b => (skel b).cls)
    = some [0, 7, 1, 7, 6, 4] := by
  decide +kernel

/-- … with, block by block, the skeletons of `parse_string(text, parse_stack=[])` … -/
example : (Pipeline.parseDefault asciiChars exText).toOption.map (fun L => L.map skel)
    = ((split asciiChars exText).toOption.bind fun bs => (libraryOfE bs).toOption).map
        (fun K => K.blocks.map skel) := by
  decide +kernel

/-- … although the blocks themselves differ (the skeleton is not the identity): the first entry's
field `f = s` has been resolved and stripped to `1` -/
example : ((Pipeline.parseDefault asciiChars exText).toOption.map fun L => L.take 1 |>.map fun b =>
      match b with | .live (.entry e) => e.fields.map (·.value) | _ => [])
    = some [[.str "1".toList]] ∧
    (((split asciiChars exText).toOption.bind fun bs => (libraryOfE bs).toOption).map fun K =>
      K.blocks.take 1 |>.map fun b => match b with | .live (.entry e) => e.fields.map (·.value) | _ => [])
    = some [[.str "s".toList]] := by
  decide +kernel

/-- the hypotheses of `later_wrapped_default` / `dup_field_default` are met by the example: the
splitter's second block is a live entry with the key of the first, its fifth a duplicate-field block -/
example : (split asciiChars exText).toOption.map (fun bs => bs.map fun b => ((skel b).cls, (skel b).entryKey?))
    = some [(0, some "k".toList), (0, some "k".toList), (1, none), (1, none), (6, none), (4, none)] := by
  decide +kernel

end Bib.C09
