/-
  C09 — Duplicate keys are never merged or dropped: first wins, the rest are flagged.

  `libraryOfE bs` models the sequence of `library.add(block)` calls the splitter makes (and
  `Library(blocks)`, by which every block middleware rebuilds the library).  `addAllSpec` is the
  specification: block `i` is itself, or — if an earlier live entry/@string has its key — a
  duplicate-key block exposing the key, that FIRST block, and the complete duplicate.
  Statements only; lemmas in Lemmas/AddAll.lean; the splitter part reuses the C02 chain.
-/
import BibVerif.Lemmas.AddAll
import BibVerif.Lemmas.Doc
namespace Bib.C09
open Bib

variable (P : PyChars)

/-- Adding never raises (the two asserts of `_cast_to_duplicate` are unreachable) and yields
exactly the specified blocks. -/
theorem library_add (bs : List Block) : ∃ L, libraryOfE bs = .ok L ∧ L.blocks = addAllSpec [] bs := by
  obtain ⟨L, h, inv⟩ := addMany_inv bs {} [] libInv_empty
  exact ⟨L, h, by simpa using inv.blocks⟩

/-- **The number of returned blocks equals the number of blocks added** — nothing merged, nothing
dropped. -/
theorem count_preserved (bs : List Block) : (addAllSpec [] bs).length = bs.length :=
  addAllSpec_length [] bs

/-- every block appears at its own position -/
theorem block_at (pre : List Block) (b : Block) (post : List Block) :
    addAllSpec [] (pre ++ b :: post) =
      addAllSpec [] pre ++ addSpec pre b :: addAllSpec (pre ++ [b]) post := by
  rw [addAllSpec_append]; simp [addAllSpec]

/-- **First wins**: an entry with no earlier live entry of its key stays the live entry. -/
theorem first_wins (pre : List Block) (e : Entry) (h : firstEntry e.key pre = none) :
    addSpec pre (.live (.entry e)) = .live (.entry e) := by simp [addSpec, h]

/-- **Later ones are flagged**: the wrapper exposes the key, the first block with that key (no
live entry with the key precedes it), and the complete duplicate. -/
theorem later_wrapped (pre : List Block) (e : Entry) (p : Live) (h : firstEntry e.key pre = some p) :
    addSpec pre (.live (.entry e)) = .dupKey e.key p (.entry e) ∧
    ∃ a c e₀, pre = a ++ .live (.entry e₀) :: c ∧ p = .entry e₀ ∧ e₀.key = e.key ∧
      ∀ e', Block.live (.entry e') ∈ a → e'.key ≠ e.key :=
  ⟨by simp [addSpec, h], (firstEntry_iff e.key pre p).mp h⟩

theorem string_first_wins (pre : List Block) (k : Str) (v : Val) (l : Int) (r : Str) (m : MetaD)
    (h : firstString k pre = none) :
    addSpec pre (.live (.string k v l r m)) = .live (.string k v l r m) := by simp [addSpec, h]

theorem string_later_wrapped (pre : List Block) (k : Str) (v : Val) (l : Int) (r : Str) (m : MetaD)
    (p : Live) (h : firstString k pre = some p) :
    addSpec pre (.live (.string k v l r m)) = .dupKey k p (.string k v l r m) := by simp [addSpec, h]

/-- entries and @strings with the same name do not collide: an @string is never the "first
entry" and vice versa; failed blocks (incl. duplicate-field and duplicate-key blocks) register no key -/
theorem other_kinds_register_nothing (k : Str) (b : Block)
    (hb : ∀ e, b ≠ .live (.entry e)) : firstEntry k [b] = none := by
  cases b with
  | live l => cases l with
    | entry e => exact absurd rfl (hb e)
    | _ => rfl
  | _ => rfl

/-- **Survives the rebuilds of the stack**: every block middleware returns `Library(blocks)`;
re-adding the blocks of a library changes nothing. -/
theorem readd_is_identity (bs : List Block) :
    addAllSpec [] (addAllSpec [] bs) = addAllSpec [] bs := by
  have := addAllSpec_readd bs []
  simpa [addAllSpec] using this

/-- **Duplicate field keys.** A well-formed entry that repeats a field key is returned as a
duplicate-field block whose inner entry has every field occurrence in source order … -/
theorem dup_field_wrapper (line : Int) (lit : Str) (key : List Tok) (fields : List FieldSrc)
    (tr : Option (List Tok)) (h : dupKeys (expFields P (line + nlCount key) fields) ≠ []) :
    (BlockSrc.entry lit key fields tr).expected P line =
      .dupField (dupKeys (expFields P (line + nlCount key) fields))
        { ty := (classify P lit).2, key := strip P (flatten key),
          fields := expFields P (line + nlCount key) fields, line := line,
          raw := flatten (BlockSrc.entry lit key fields tr).toks } := by
  simp only [BlockSrc.expected, mkEntry]
  have : (dupKeys (expFields P (line + nlCount key) fields)).isEmpty = false := by
    cases hd : dupKeys (expFields P (line + nlCount key) fields) with
    | nil => exact absurd hd h
    | cons _ _ => rfl
  simp [this]

/-- … and its key is not registered as live: it is added unchanged and never counts as a first
entry. -/
theorem dup_field_not_registered (pre : List Block) (d : List Str) (e : Entry) (k : Str) :
    addSpec pre (.dupField d e) = .dupField d e ∧ firstEntry k [.dupField d e] = none :=
  ⟨rfl, rfl⟩

/-- a repeated key is reported: `dupKeys` is non-empty exactly when the keys are not pairwise
distinct -/
theorem dupKeys_nonempty_iff (fs : List Field) : dupKeys fs ≠ [] ↔ ¬ (fs.map (·.key)).Nodup := by
  constructor
  · intro h hnd
    exact h (by simpa [dupKeys] using dupKeysGo_of_fresh fs [] [] hnd (by simp))
  · intro hnd hnil
    apply hnd
    -- if no duplicate was recorded, every key was fresh when met
    have gen : ∀ (fs : List Field) (seen dups : List Str), dupKeysGo seen dups fs = [] →
        (fs.map (·.key)).Nodup ∧ ∀ f ∈ fs, f.key ∉ seen := by
      intro fs
      induction fs with
      | nil => intro _ _ _; exact ⟨List.nodup_nil, by simp⟩
      | cons f fs ih =>
        intro seen dups hgo
        simp only [dupKeysGo] at hgo
        split at hgo
        · -- a duplicate: the accumulator becomes non-empty and stays so
          rename_i hc
          exfalso
          have mono : ∀ (fs : List Field) (seen dups : List Str), dups ≠ [] → dupKeysGo seen dups fs ≠ [] := by
            intro fs
            induction fs with
            | nil => intro _ _ h; exact h
            | cons g gs ihg =>
              intro seen dups h
              simp only [dupKeysGo]
              split
              · apply ihg; split
                · exact h
                · simp
              · exact ihg _ _ h
          refine mono fs seen _ ?_ hgo
          split
          · rename_i hd; intro hnil'; rw [hnil'] at hd; simp at hd
          · simp
        · rename_i hc
          have hc' : f.key ∉ seen := by simpa using hc
          obtain ⟨h1, h2⟩ := ih _ _ hgo
          refine ⟨?_, ?_⟩
          · simp only [List.map_cons, List.nodup_cons]
            refine ⟨?_, h1⟩
            intro hm
            obtain ⟨g, hg, hgk⟩ := List.mem_map.mp hm
            exact h2 g hg (by rw [hgk]; exact List.mem_cons_self)
          · intro g hg
            rcases List.mem_cons.mp hg with rfl | hg
            · exact hc'
            · intro hm; exact h2 g hg (List.mem_cons_of_mem _ hm)
    exact (gen fs [] [] hnil).1

/-- non-vacuity: three entries with key `k` around an @string `k` and a duplicate-field block -/
example :
    let e (n : Int) : Block := .live (.entry { ty := "a".toList, key := "k".toList, fields := [], line := n, raw := [] })
    let s : Block := .live (.string "k".toList (.str []) 9 [] [])
    (libraryOfE [e 1, s, e 2, .dupField ["f".toList] { ty := [], key := "k".toList, fields := [], line := 3, raw := [] }, e 4, s]).toOption.map
        (fun L => L.blocks.map fun b => match b with
          | .dupKey _ p d => (1, p.line, d.line) | b => (0, b.line, b.line))
      = some [(0, 1, 1), (0, 9, 9), (1, 1, 2), (0, 3, 3), (1, 1, 4), (1, 9, 9)] := by
  decide +kernel

end Bib.C09
