/-
  C04 — Malformed blocks never damage neighbours: parsing resyncs at the next @block.

  Statements only (lemmas: Lemmas/Resync.lean and the C02 scanner lemmas).
-/
import BibVerif.Lemmas.Resync
import BibVerif.Lemmas.LexAppend
namespace Bib.C04
open Bib

variable (P : PyChars)

/-- Strict left-to-right consumption: a step never touches blocks already handed to the library —
it only appends. -/
theorem out_monotone (s : St) (t : Tok) : ∃ new, (step P s t).out = new ++ s.out :=
  step_out_suffix P s t

/-- **Prefix stability.** If after the tokens `t₁` the automaton is between blocks with nothing
pending (a document ending in a complete block), then whatever follows (`t₂` arbitrary: unbalanced
braces or quotes, truncated blocks, garbage) the blocks parsed for `t₁` are unchanged: they are a
prefix of the result. -/
theorem prefix_stable (t₁ t₂ : List Tok) (l : Int)
    (he : (run P init t₁).err = none) (hm : (run P init t₁).mode = .top [] l) :
    splitToks P t₁ = .ok (run P init t₁).out.reverse ∧
    ∀ bs, splitToks P (t₁ ++ t₂) = .ok bs → ∃ rest, bs = (run P init t₁).out.reverse ++ rest := by
  constructor
  · simp [splitToks, finish, he, hm, endImplicit, rflat, flatten, rstrip]
  · intro bs hbs
    unfold splitToks at hbs
    rw [run_append] at hbs
    obtain ⟨new, hnew⟩ := run_out_suffix P t₂ (run P init t₁)
    generalize run P (run P init t₁) t₂ = s2 at hbs hnew
    unfold finish at hbs
    split at hbs
    · cases hbs
    · split at hbs
      · rename_i impl il _
        injection hbs with hbs; subst hbs
        exact ⟨new.reverse ++ endImplicit P impl il, by rw [hnew]; simp⟩
      · injection hbs with hbs; subst hbs
        exact ⟨new.reverse ++ [Block.failed .eof s2.blockLine (rflat s2.raw)], by rw [hnew]; simp⟩

/-- the blocks handed to the library when a block start flushes the state `s` -/
def flushBlocks (s : St) : List Block :=
  match s.mode with
  | .top impl il => s.out.reverse ++ endImplicit P impl il
  | m => s.out.reverse ++ [Block.failed (abortWhy m) s.blockLine (rflat s.raw)]

/-- **Every scanner hands an `@type{` mark back**: from every mode — inside a quoted value, at any
brace depth, waiting for a key, a comma or an equals sign — the mark closes what was open and
starts a block exactly as between blocks. -/
theorem at_resets (s : St) (lit : Str) (he : s.err = none) (hm : ∀ k ty, s.mode ≠ .afterAt k ty) :
    step P s (AT lit) = step P (flushed s) (AT lit) := Bib.at_resets P s lit he hm

theorem toks_starts_with_at (b : BlockSrc) : ∃ lit tl, b.toks = AT lit :: tl := by
  cases b <;> exact ⟨_, _, rfl⟩

/-- **Re-synchronisation.** Arbitrary tokens `x` followed by well-formed blocks `items` (the first
of which starts with its `@type{` mark): the result is what `x` had produced so far, closed at the
mark, followed by exactly the expected blocks of `items` — the same blocks they yield on their own
(`split_correct`), with line numbers offset by the newlines of `x`. -/
theorem resync (x : List Tok) (b : BlockSrc) (j : List Tok) (rest : List (BlockSrc × List Tok))
    (hw : ∀ bj ∈ (b, j) :: rest, bj.1.WF P ∧ IsJunk bj.2)
    (he : (run P init x).err = none) (hm : ∀ k ty, (run P init x).mode ≠ .afterAt k ty) :
    splitToks P (x ++ itemsToks ((b, j) :: rest)) =
      .ok (flushBlocks P (run P init x) ++ expItems P (run P init x).line ((b, j) :: rest)) := by
  unfold splitToks
  rw [run_append]
  generalize run P init x = s at he hm
  obtain ⟨lit, tl, hb⟩ := toks_starts_with_at b
  have htoks : itemsToks ((b, j) :: rest) = AT lit :: (tl ++ j ++ itemsToks rest) := by
    simp [itemsToks, hb]
  have hrun : run P s (itemsToks ((b, j) :: rest)) = run P (flushed s) (itemsToks ((b, j) :: rest)) := by
    rw [htoks, run_cons, run_cons, Bib.at_resets P s lit he hm]
  rw [hrun]
  obtain ⟨impl, il, hfm⟩ := flushed_mode s hm
  rw [finish_run_items P _ (flushed s) impl il (by rw [flushed_err, he]) hfm hw, flushed_line]
  congr 1
  unfold flushBlocks flushed at *
  split
  · rename_i impl' il' hmode
    simp only [hmode] at hfm
    injection hfm with h1 h2; subst h1; subst h2
    have := itemsOut_eq P ((b, j) :: rest) s.line [] il'
    simp only [itemsOut] at this ⊢
    simp only [List.reverse_nil, endImplicit, rflat, flatten, List.flatMap_nil, List.takeWhile_nil,
      List.dropWhile_nil, rstrip, List.reverse_nil, List.isEmpty_nil, ↓reduceIte, List.nil_append] at this
    simp only [expItems, List.append_assoc, List.cons_append, hmode]
    rw [itemsOut_eq P rest _ j _]
  · rename_i hnt
    simp only [abort, toTop] at hfm
    injection hfm with h1 h2; subst h1; subst h2
    simp only [abort, toTop, List.reverse_cons, itemsOut, endImplicit, rflat, flatten,
      List.reverse_nil, List.flatMap_nil, List.takeWhile_nil, List.dropWhile_nil, rstrip,
      List.isEmpty_nil, ↓reduceIte, List.nil_append, expItems, List.append_assoc, List.cons_append]
    rw [itemsOut_eq P rest _ j _]

/-- ... and the same blocks on their own -/
theorem alone (items : List (BlockSrc × List Tok)) (hw : ∀ bj ∈ items, bj.1.WF P ∧ IsJunk bj.2) :
    splitToks P (itemsToks items) = .ok (expItems P (-1) items) := by
  have := C04_helper P items hw
  exact this
where
  C04_helper (P : PyChars) (items : List (BlockSrc × List Tok))
      (hw : ∀ bj ∈ items, bj.1.WF P ∧ IsJunk bj.2) :
      splitToks P (itemsToks items) = .ok (expItems P (-1) items) := by
    unfold splitToks
    rw [finish_run_items P items init [] (-1) rfl rfl hw]
    have := itemsOut_eq P items (-1) [] (-1)
    simp only [List.reverse_nil] at this
    simp [init, this, expJunk, flatten, strip, lstrip, rstrip]

theorem expItems_append (a b : List (BlockSrc × List Tok)) (line : Int) :
    expItems P line (a ++ b) = expItems P line a ++ expItems P (line + nlCount (itemsToks a)) b := by
  induction a generalizing line with
  | nil => simp [expItems, itemsToks, nlCount_nil]
  | cons bj a ih =>
    obtain ⟨x, j⟩ := bj
    have : itemsToks ((x, j) :: a) = x.toks ++ j ++ itemsToks a := by simp [itemsToks]
    simp only [List.cons_append, expItems, ih, this, nlCount_append, List.append_assoc]
    simp [Int.add_assoc]

/-- **Concatenation.** Parsing a concatenation of well-formed documents (the second starting with
a block) yields the concatenation of their blocks, the second part's lines offset by the newlines
of the first. -/
theorem concat_docs (d₁ : Doc) (items₂ : List (BlockSrc × List Tok)) (h₁ : d₁.WF P)
    (h₂ : ∀ bj ∈ items₂, bj.1.WF P ∧ IsJunk bj.2) :
    splitToks P (d₁.toks ++ itemsToks items₂) =
      .ok (d₁.expected P (-1) ++
        expItems P (-1 + nlCount d₁.head + nlCount (itemsToks d₁.items)) items₂) := by
  have hd : (⟨d₁.head, d₁.items ++ items₂⟩ : Doc).WF P :=
    ⟨h₁.1, fun bj hbj => by
      rcases List.mem_append.mp hbj with h | h
      · exact h₁.2 bj h
      · exact h₂ bj h⟩
  have := splitToks_doc P ⟨d₁.head, d₁.items ++ items₂⟩ hd
  simpa [Doc.toks, Doc.expected, expItems_append, itemsToks, List.append_assoc] using this

/-- **Lexer boundary.** Look-ahead from inside arbitrary text `x` stops at a following block start:
`lex (x ++ '@' :: r) = lex x ++ lex ('@' :: r)` whenever `'@' :: r` starts with `@type{`. -/
theorem lexer_boundary (hP : P.isWord '@' = false) (r lit r2 : Str) (hy : atMatch P r = some (lit, r2))
    (b : Bool) (x : Str) :
    lexFrom P b (x ++ '@' :: r) = lexFrom P b x ++ lexFrom P false ('@' :: r) :=
  lex_append_at P hP r lit r2 hy b x

theorem run_good_append (a : List Tok) : ∀ (s : St) (b : List Tok), Good s (a ++ b) → Good (run P s a) b := by
  induction a with
  | nil => intro s b h; exact h
  | cons t a ih => intro s b h; exact ih _ b (step_good P s t _ h)

/-- **Re-synchronisation, text level.** Arbitrary text `x` (unbalanced braces or quotes, truncated
blocks, garbage) followed by text that starts with `@type{` and lexes to well-formed blocks: those
blocks are parsed exactly as expected on their own (line numbers offset by the newlines before
them), after whatever `x` had produced, closed at the mark. -/
theorem resync_text (hP : P.isWord '@' = false) (x r lit r2 : Str) (hy : atMatch P r = some (lit, r2))
    (b : BlockSrc) (j : List Tok) (rest : List (BlockSrc × List Tok))
    (hw : ∀ bj ∈ (b, j) :: rest, bj.1.WF P ∧ IsJunk bj.2)
    (hl : lexFrom P false ('@' :: r) = itemsToks ((b, j) :: rest)) :
    split P (x ++ '@' :: r) =
      .ok (flushBlocks P (run P init (lex P x)) ++
           expItems P (run P init (lex P x)).line ((b, j) :: rest)) := by
  unfold split
  have hlex : lex P (x ++ '@' :: r) = lex P x ++ itemsToks ((b, j) :: rest) := by
    unfold lex
    rw [← List.cons_append, lex_append_at P hP r lit r2 hy false ('\n' :: x), hl]
  rw [hlex]
  have hgood : Good init (lex P x ++ itemsToks ((b, j) :: rest)) := by
    refine ⟨rfl, ?_, fun k ty hh => by simp [init] at hh⟩
    rw [← hlex]; exact atOK_lexFrom P false _
  have hg := run_good_append P (lex P x) init _ hgood
  obtain ⟨lit', tl, hb⟩ := toks_starts_with_at b
  refine resync P (lex P x) b j rest hw hg.1 ?_
  intro k ty hm
  obtain ⟨l, r', hr⟩ := hg.2.2 k ty hm
  have : itemsToks ((b, j) :: rest) = AT lit' :: (tl ++ j ++ itemsToks rest) := by
    simp [itemsToks, hb]
  rw [this] at hr
  injection hr with h1 _
  simp [AT] at h1

/-- non-vacuity (kernel-evaluated): a truncated entry with an open quote and an open brace,
`@a{k,f="{`, followed on the next line by `@comment{c}` and `@b{j}`: the open block is closed as a
failed block ending before the mark, and both following blocks are parsed as on their own, one line
further down. -/
example :
    (splitToks asciiChars
      ([.mark .nl ['\n'], .mark .at "@a".toList, LB, .text "k".toList, CM, .text "f".toList, EQ,
        .mark .quote ['"'], LB, .mark .nl ['\n']] ++
       itemsToks [(.comment "@comment".toList [.text "c".toList], [.mark .nl ['\n']]),
                  (.entry "@b".toList [.text "j".toList] [] none, [])])).toOption.map
      (fun bs => bs.map fun b => (b.isFailed, b.line, String.ofList b.raw))
    = some [(true, 0, "@a{k,f=\"{\n"), (false, 1, "@comment{c}"), (false, 2, "@b{j}")] := by
  decide +kernel

example :
    (∀ bj ∈ [((BlockSrc.comment "@comment".toList [Tok.text "c".toList]), [Tok.mark .nl ['\n']]),
             ((BlockSrc.entry "@b".toList [Tok.text "j".toList] [] none), ([] : List Tok))],
      bj.1.WF asciiChars ∧ IsJunk bj.2) := by
  intro bj hbj
  simp only [List.mem_cons, List.not_mem_nil, or_false] at hbj
  rcases hbj with rfl | rfl
  · exact ⟨⟨by decide +kernel, IsBal.plain _ _ rfl IsBal.nil⟩, by decide⟩
  · exact ⟨⟨by decide +kernel, by decide, (by intro f hf; cases hf), (by intro w hw; cases hw)⟩, by decide⟩

end Bib.C04
