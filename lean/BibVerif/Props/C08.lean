/-
  C08 — Library views stay consistent under any sequence of add / remove / replace.

  Statements only.  Model: `Library.lean` (generic in the block type `β`, described by `S : Sig β`;
  `LBlock.sig` is the concrete instance the driver runs).  Vocabulary and helper lemmas:
  `Lemmas/Library.lean` (`Inv`, `IdxOK`, `Fresh`, `Sig.Laws`, `MapEq`), `Lemmas/LibrarySteps.lean`
  (`removed`, `IsAdded`, `AllAdded`), `Lemmas/LibraryViews.lean` (`Op.Bounded`).

  `Inv S L` : both indexes map exactly the keys of the held Entry / String blocks to those blocks,
              and no two held entries (strings) share a key.
  `Fresh S L`: every identity token held is below the counter (wrappers made later are new objects).
-/
import BibVerif.Lemmas.LibraryViews
namespace Bib.C08
open Bib Bib.Lib Bib.PyDict

section generic
variable {β : Type} [DecidableEq β] (S : Sig β)

/-- `Library()` satisfies the invariant. -/
theorem inv_init (n : Nat) : Inv S (empty n : Lib β) := ⟨IdxOK.nil, IdxOK.nil⟩

/-- what the invariant says, spelled out for `entries_dict` -/
theorem entries_dict_exact {L : Lib β} (hL : Inv S L) (k : Str) (b : β) :
    get (entriesDict L) k = some b ↔ (b ∈ L.blocks ∧ S.kind b = .entry k) := by
  constructor
  · intro h; have := hL.1.of_get h; exact ⟨this.1, (ekey_some_iff S).mp this.2⟩
  · rintro ⟨h1, h2⟩; exact hL.1.get_of_mem h1 ((ekey_some_iff S).mpr h2)

/-- … and for `strings_dict` -/
theorem strings_dict_exact {L : Lib β} (hL : Inv S L) (k : Str) (b : β) :
    get (stringsDict L) k = some b ↔ (b ∈ L.blocks ∧ S.kind b = .string k) := by
  constructor
  · intro h; have := hL.2.of_get h; exact ⟨this.1, (skey_some_iff S).mp this.2⟩
  · rintro ⟨h1, h2⟩; exact hL.2.get_of_mem h1 ((skey_some_iff S).mpr h2)

/-- no two held entries (strings) share a key: two positions holding entries with the same key
are the same position -/
theorem held_keys_distinct {L : Lib β} (hL : Inv S L) :
    (L.blocks.filterMap (ekey S)).Nodup ∧ (L.blocks.filterMap (skey S)).Nodup :=
  ⟨hL.1.2.2, hL.2.2.2⟩

/-! ### every call keeps the invariant — also when it raises -/

theorem add_sound (hS : S.Laws) {L : Lib β} (hL : Inv S L) (bs : List β) (f : Bool) :
    Inv S (add S L bs f).1 ∧ ((add S L bs f).2 = .ok ∨ (add S L bs f).2 = .raise .valueError) := by
  obtain ⟨L', d', xs, h, hI, _⟩ := addLoop_spec S hS bs L false hL
  have : add S L bs f = if (f && d') = true then (L', .raise .valueError) else (L', .ok) := by
    simp [add, h]
  rw [this]; split <;> simp [hI]

theorem remove_sound {L : Lib β} (hL : Inv S L) (bs : List β) :
    Inv S (remove S L bs).1 ∧ ((remove S L bs).2 = .ok ∨ (remove S L bs).2 = .raise .valueError) := by
  rcases remove_spec S L bs hL with ⟨L', h, hI, _⟩ | ⟨h, _⟩ <;> rw [h]
  · simp [hI]
  · simp [hL]

theorem replace_sound (hS : S.Laws) {L : Lib β} (hL : Inv S L) (old new : β) (f : Bool) :
    Inv S (replace S L old new f).1 ∧
      ((replace S L old new f).2 = .ok ∨ (replace S L old new f).2 = .raise .valueError) := by
  rcases replace_cases S hS hL old new f with ⟨_, h⟩ | ⟨_, _, _, _, _, _, _, _, _, h, hI⟩ |
      ⟨_, _, _, _, _, _, _, _, _, h, hI, _⟩ <;> rw [h]
  · simp [hL]
  · simp [hI]
  · simp [hI]

/-- **Invariant step.**  Whatever the call and its arguments (held or not, equal-but-distinct
copies, wrappers fetched from the library, …) and whether or not it raises, the library afterwards
satisfies the invariant. -/
theorem inv_step (hS : S.Laws) {L : Lib β} (hL : Inv S L) (op : Op β) : Inv S (step S L op) := by
  cases op with
  | add as f =>
    cases hm : as.mapM (Arg.resolve L) with
    | none => rw [step_add_none S f hm]; exact hL
    | some bs => rw [step_add_some S f hm]; exact (add_sound S hS hL bs f).1
  | remove as =>
    cases hm : as.mapM (Arg.resolve L) with
    | none => rw [step_remove_none S hm]; exact hL
    | some bs => rw [step_remove_some S hm]; exact (remove_sound S hL bs).1
  | replace a n f =>
    cases h1 : Arg.resolve L a with
    | none => rw [step_replace_none S f (Or.inl h1)]; exact hL
    | some old =>
      cases h2 : Arg.resolve L n with
      | none => rw [step_replace_none S f (Or.inr h2)]; exact hL
      | some new => rw [step_replace_some S f h1 h2]; exact (replace_sound S hS hL old new f).1

/-- **The only exception is `ValueError`.**  With the invariant, the two `assert`s of
`_cast_to_duplicate`, the `KeyError` of `del self._entries_by_key[...]` and the `AttributeError`
of `.key` are unreachable. -/
theorem no_internal_error (hS : S.Laws) {L L' : Lib β} (hL : Inv S L) (op : Op β) (o : Outcome)
    (h : applyOp S L op = some (L', o)) : o = .ok ∨ o = .raise .valueError := by
  unfold applyOp at h
  cases op with
  | add as f =>
    cases hm : as.mapM (Arg.resolve L) with
    | none => simp [hm] at h
    | some bs =>
      simp only [hm, Option.map_some, Option.some.injEq] at h
      have := (add_sound S hS hL bs f).2; rw [h] at this; exact this
  | remove as =>
    cases hm : as.mapM (Arg.resolve L) with
    | none => simp [hm] at h
    | some bs =>
      simp only [hm, Option.map_some, Option.some.injEq] at h
      have := (remove_sound S hL bs).2; rw [h] at this; exact this
  | replace a n f =>
    cases h1 : Arg.resolve L a with
    | none => simp [h1] at h
    | some x =>
      cases h2 : Arg.resolve L n with
      | none => simp [h1, h2] at h
      | some y =>
        simp only [h1, h2, Option.some.injEq] at h
        have := (replace_sound S hS hL x y f).2; rw [h] at this; exact this

/-- **Reachable states.**  After any finite history of add / remove / replace calls starting from
the empty library — any arguments, including calls that raise — the invariant holds. -/
theorem inv_reachable (hS : S.Laws) (n : Nat) (ops : List (Op β)) : Inv S (run S (empty n) ops) := by
  suffices ∀ (L : Lib β), Inv S L → Inv S (run S L ops) from this _ (inv_init S n)
  induction ops with
  | nil => exact fun L hL => hL
  | cons op ops ih => exact fun L hL => ih _ (inv_step S hS hL op)

/-! ### the views -/

/-- `strings` is the held String blocks — in the order of the string index, which after a
`replace` may differ from their order in `blocks`. -/
theorem strings_are_held {L : Lib β} (hL : Inv S L) :
    (strings L).Perm (L.blocks.filter (isString S)) := by
  have := idx_values_perm hL.2
  simpa [strings, ← isString_eq] using this

/-- **Partition.**  `entries`, `strings`, `preambles`, `comments` and `failed_blocks` together are
a permutation of `blocks` (`strings` follows the order of the string index, not of `blocks`). -/
theorem views_partition {L : Lib β} (hL : Inv S L) :
    (entries S L ++ strings L ++ preambles S L ++ comments S L ++ failedBlocks S L).Perm L.blocks := by
  have hs := strings_are_held S hL
  refine List.Perm.trans ?_ (five_way S L.blocks)
  unfold entries preambles comments failedBlocks
  exact ((((List.Perm.refl _).append hs).append (List.Perm.refl _)).append (List.Perm.refl _)).append
    (List.Perm.refl _)

/-- **Entries in order.**  `entries` is the Entry blocks of `blocks`, in that order, and
`entries_dict` maps the key of each of them to it. -/
theorem entries_in_order {L : Lib β} (hL : Inv S L) :
    entries S L = L.blocks.filter (isEntry S) ∧ (entries S L).Sublist L.blocks ∧
    (∀ b ∈ entries S L, ∃ k, S.kind b = .entry k ∧ get (entriesDict L) k = some b) ∧
    (values (entriesDict L)).Perm (entries S L) := by
  refine ⟨rfl, List.filter_sublist, ?_, ?_⟩
  · intro b hb
    obtain ⟨hm, he⟩ := List.mem_filter.mp hb
    cases hk : S.kind b with
    | entry k => exact ⟨k, rfl, (entries_dict_exact S hL k b).mpr ⟨hm, hk⟩⟩
    | _ => simp [isEntry, hk] at he
  · have := idx_values_perm hL.1
    simpa [entries, entriesDict, ← isEntry_eq] using this

/-- **`add` appends**, one block per argument, the argument itself or its wrapper — whether or
not it then raises (this is what makes `raise_unchanged_add` false, see below). -/
theorem add_appends (hS : S.Laws) {L : Lib β} (hL : Inv S L) (bs : List β) (f : Bool) :
    ∃ xs, (add S L bs f).1.blocks = L.blocks ++ xs ∧ AllAdded S bs xs := by
  obtain ⟨L', d', xs, h, _, hb, ha, _⟩ := addLoop_spec S hS bs L false hL
  refine ⟨xs, ?_, ha⟩
  have : add S L bs f = if (f && d') = true then (L', .raise .valueError) else (L', .ok) := by
    simp [add, h]
  rw [this]; split <;> exact hb

/-- **`remove` removes exactly the first occurrence of each argument.** -/
theorem remove_erases {L L' : Lib β} (hL : Inv S L) (bs : List β) (h : remove S L bs = (L', .ok)) :
    L'.blocks = bs.foldl List.erase L.blocks := by
  rcases remove_spec S L bs hL with ⟨L'', h', _, hb, _⟩ | ⟨h', _⟩ <;> rw [h'] at h <;> cases h
  exact hb

/-- **`replace` keeps the position.**  A successful `replace` puts the new block — or, with
`fail_on_duplicate_key=False` and a key collision, its wrapper — where the first block equal to
`old` was, and leaves every other position alone. -/
theorem replace_keeps_position (hS : S.Laws) {L L' : Lib β} (hL : Inv S L) (old new : β) (f : Bool)
    (h : replace S L old new f = (L', .ok)) :
    ∃ pre post x, L.blocks = pre ++ old :: post ∧ old ∉ pre ∧ L'.blocks = pre ++ x :: post ∧
      IsAdded S new x ∧ (f = true → x = new) := by
  rcases replace_cases S hS hL old new f with ⟨_, h'⟩ | ⟨pre, post, L2, x, w, h1, h2, h3, hwf, h', _⟩ |
      ⟨_, _, _, _, _, _, _, _, _, h', _⟩ <;> rw [h'] at h <;> cases h
  refine ⟨pre, post, x, h1, h2, rfl, ?_, ?_⟩
  · rcases addToDicts_result S (removed_inv S hL (by rw [h1]; simp)) h3 with ⟨_, hx, _⟩ | ⟨_, k, p, hx, _⟩
    · exact Or.inl hx
    · exact Or.inr ⟨_, k, p, hx⟩
  · intro hf
    rcases addToDicts_result S (removed_inv S hL (by rw [h1]; simp)) h3 with ⟨_, hx, _⟩ | ⟨hw, _⟩
    · exact hx
    · simp [hw, hf] at hwf

/-! ### a call that raises `ValueError` leaves the library as it was -/

/-- `remove` raising `ValueError` (some argument is not held, or not often enough) changes nothing
at all. -/
theorem raise_unchanged_remove {L : Lib β} (hL : Inv S L) (bs : List β)
    (h : (remove S L bs).2 = .raise .valueError) : (remove S L bs).1 = L := by
  rcases remove_spec S L bs hL with ⟨L', h', _⟩ | ⟨h', _⟩ <;> rw [h'] at h ⊢
  · cases h

/-- `replace` raising `ValueError` — `old` is not held, or the new key collides and
`fail_on_duplicate_key` is set — leaves `blocks` equal and both indexes equal as mappings (after
the rollback the re-inserted key sits at the end of its index: `strings` may be reordered). -/
theorem raise_unchanged_replace (hS : S.Laws) {L : Lib β} (hL : Inv S L) (hF : Fresh S L)
    (old new : β) (f : Bool) (h : (replace S L old new f).2 = .raise .valueError) :
    (replace S L old new f).1.blocks = L.blocks ∧
    MapEq (replace S L old new f).1.eidx L.eidx ∧ MapEq (replace S L old new f).1.sidx L.sidx := by
  rcases replace_cases S hS hL old new f with ⟨_, h'⟩ | ⟨_, _, _, _, _, _, _, _, _, h', _⟩ |
      ⟨_, _, _, _, _, _, _, _, _, h', _, hr⟩ <;> rw [h'] at h ⊢
  · exact ⟨rfl, MapEq.refl _, MapEq.refl _⟩
  · cases h
  · obtain ⟨hb, he, hs, _⟩ := hr hF
    exact ⟨hb, he, hs⟩

/-! ### identity tokens: histories a caller can produce -/

/-- a call whose block arguments were made before (tokens below the counter) keeps all tokens
below the counter -/
theorem fresh_step (hS : S.Laws) {L : Lib β} (hL : Inv S L) (hF : Fresh S L) (op : Op β)
    (hop : Op.Bounded S L.next op) : Fresh S (step S L op) ∧ L.next ≤ (step S L op).next := by
  cases op with
  | add as f =>
    cases hm : as.mapM (Arg.resolve L) with
    | none => rw [step_add_none S f hm]; exact ⟨hF, Nat.le_refl _⟩
    | some bs =>
      rw [step_add_some S f hm]
      have hb := mapM_resolve_bounded S hF as bs hop hm
      have := addLoop_fresh S hS bs L false hL hF hb
      obtain ⟨L', d', xs, h, _⟩ := addLoop_spec S hS bs L false hL
      have he : (add S L bs f).1 = (addLoop S L bs false).1 := by
        have : add S L bs f = if (f && d') = true then (L', .raise .valueError) else (L', .ok) := by
          simp [add, h]
        rw [this, h]; split <;> rfl
      rw [he]; exact this
  | remove as =>
    cases hm : as.mapM (Arg.resolve L) with
    | none => rw [step_remove_none S hm]; exact ⟨hF, Nat.le_refl _⟩
    | some bs =>
      rw [step_remove_some S hm]
      rcases remove_spec S L bs hL with ⟨L', h', _, hb, hn, _⟩ | ⟨h', _⟩ <;> rw [h']
      · refine ⟨fresh_of_sublist S hF (fun b hb' => ?_) (by simp [hn]), by simp [hn]⟩
        simp only [hb] at hb'; exact mem_foldl_erase bs _ b hb'
      · exact ⟨hF, Nat.le_refl _⟩
  | replace a n f =>
    cases h1 : Arg.resolve L a with
    | none => rw [step_replace_none S f (Or.inl h1)]; exact ⟨hF, Nat.le_refl _⟩
    | some old =>
      cases h2 : Arg.resolve L n with
      | none => rw [step_replace_none S f (Or.inr h2)]; exact ⟨hF, Nat.le_refl _⟩
      | some new =>
        rw [step_replace_some S f h1 h2]
        have hnew : S.bound new ≤ L.next := resolve_bounded S hF hop.2 h2
        rcases replace_cases S hS hL old new f with ⟨_, h'⟩ | ⟨pre, post, L2, x, w, hb1, hb2, h3, _, h', _⟩ |
            ⟨_, _, _, _, L5, _, _, _, _, h', _, hr⟩ <;> rw [h']
        · exact ⟨hF, Nat.le_refl _⟩
        · have hmem : old ∈ L.blocks := by rw [hb1]; simp
          obtain ⟨hx, hn⟩ := addToDicts_fresh S hS (removed_inv S hL hmem) h3 (by simpa [removed] using hnew)
          simp only [removed] at hn
          refine ⟨?_, hn⟩
          intro b hb
          simp only [List.mem_append, List.mem_cons] at hb
          rcases hb with hb | rfl | hb
          · exact Nat.le_trans (hF b (by rw [hb1]; simp [hb])) hn
          · exact hx
          · exact Nat.le_trans (hF b (by rw [hb1]; simp [hb])) hn
        · obtain ⟨hb, _, _, hn5⟩ := hr hF
          exact ⟨fresh_of_sublist S hF (fun b hb' => by simp only [hb] at hb'; exact hb') (by simp [hn5]),
            by simp [hn5]⟩

/-- **Reachable states are fresh.**  Histories in which every block the caller passes was made
before the library started (token below `n`; arguments `pos i` fetch held blocks, e.g. wrappers)
reach only states with the invariant and with all tokens below the counter. -/
theorem fresh_reachable (hS : S.Laws) (n : Nat) (ops : List (Op β)) (hops : ∀ op ∈ ops, Op.Bounded S n op) :
    Inv S (run S (empty n) ops) ∧ Fresh S (run S (empty n) ops) := by
  suffices ∀ (L : Lib β), Inv S L → Fresh S L → n ≤ L.next →
      Inv S (run S L ops) ∧ Fresh S (run S L ops) from
    this _ (inv_init S n) (by intro b hb; simp [empty] at hb) (Nat.le_refl _)
  induction ops with
  | nil => exact fun L hL hF _ => ⟨hL, hF⟩
  | cons op ops ih =>
    intro L hL hF hn
    have hop := (hops op (by simp)).mono S hn
    obtain ⟨hF', hn'⟩ := fresh_step S hS hL hF op hop
    exact ih (fun o ho => hops o (List.mem_cons_of_mem _ ho)) _ (inv_step S hS hL op) hF' (Nat.le_trans hn hn')

/-- **After any such history, a `replace` that raises `ValueError` changes nothing observable.** -/
theorem raise_unchanged_replace_reachable (hS : S.Laws) (n : Nat) (ops : List (Op β))
    (hops : ∀ op ∈ ops, Op.Bounded S n op) (old new : β) (f : Bool) :
    let L := run S (empty n) ops
    (replace S L old new f).2 = .raise .valueError →
      (replace S L old new f).1.blocks = L.blocks ∧
      MapEq (replace S L old new f).1.eidx L.eidx ∧ MapEq (replace S L old new f).1.sidx L.sidx := by
  intro L h
  obtain ⟨hL, hF⟩ := fresh_reachable S hS n ops hops
  exact raise_unchanged_replace S hS hL hF old new f h

end generic

/-! ### the concrete block type -/

/-- the driver's block type satisfies the laws: a wrapper is a failed block, and a wrapper with a
fresh token differs from every block made before -/
theorem lblock_laws : LBlock.sig.Laws where
  wrap_failed := fun _ _ _ _ => rfl
  wrap_fresh := by
    intro n k p d b hb h
    subst h
    simp [LBlock.sig] at hb
    omega
  wrap_bound := fun _ _ _ _ => Nat.le_refl _

def exE1 : LBlock := .live (.entry { ty := "article".toList, key := "a".toList, fields := [], line := 0, raw := [] })
def exE2 : LBlock := .live (.entry { ty := "book".toList, key := "a".toList, fields := [], line := 3, raw := [] })
def exS : LBlock := .live (.string "a".toList (.str "v".toList) 5 [] [])
def exC : LBlock := .live (.expl "c".toList 9 [] [])

/-- **`add(…, fail_on_duplicate_key=True)` does NOT leave the library unchanged when it raises**:
it raises after appending the wrapper.  False of the model and of library.py alike (pinned by
`tests/test_library.py::test_fail_on_duplicate_add`): known finding K1. -/
theorem raise_unchanged_add_cx :
    ¬ ∀ (L : Lib LBlock) (bs : List LBlock), Inv LBlock.sig L →
        (add LBlock.sig L bs true).2 = .raise .valueError → (add LBlock.sig L bs true).1.blocks = L.blocks := by
  intro h
  have hL : Inv LBlock.sig (add LBlock.sig (empty 0) [exE1] false).1 :=
    (add_sound LBlock.sig lblock_laws (inv_init _ 0) _ _).1
  have := h _ [exE2] hL (by decide)
  revert this
  decide

/-! ### non-vacuity: concrete histories, evaluated by the kernel on the model -/

/-- the history `add(E1); add([S, C]); add(E2)  -- same key as E1;  replace(E1, S', fail=True)`
is `Bounded`; its blocks / outcomes are as expected: the duplicate is wrapped in place 3 -/
example :
    let ops : List (Op LBlock) :=
      [.add [.blk exE1] false, .add [.blk exS, .blk exC] false, .add [.blk exE2] false]
    (∀ op ∈ ops, Op.Bounded LBlock.sig 0 op) ∧
    (run LBlock.sig (empty 0) ops).blocks.map LBlock.kind =
      [.entry "a".toList, .string "a".toList, .comment, .failed] ∧
    keys (run LBlock.sig (empty 0) ops).eidx = ["a".toList] ∧
    (run LBlock.sig (empty 0) ops).next = 1 := by
  refine ⟨?_, by decide, by decide, by decide⟩
  intro op hop
  simp only [List.mem_cons, List.mem_nil_iff, or_false] at hop
  rcases hop with rfl | rfl | rfl <;> simp [Op.Bounded, Arg.Bounded, LBlock.sig, exE1, exE2, exS, exC]

/-- a failing `replace` (hypothesis of `raise_unchanged_replace` satisfied non-trivially): with
`[E1, S, C, wrapper(E2)]` held, replacing the comment by `E2` under `fail_on_duplicate_key=True`
raises `ValueError` after inserting and rolling back a second wrapper; and `remove([E1, E2])` raises
because `E2` itself is not held -/
example :
    let L := run LBlock.sig (empty 0)
      [.add [.blk exE1] false, .add [.blk exS, .blk exC] false, .add [.blk exE2] false]
    (replace LBlock.sig L exC exE2 true).2 = .raise .valueError ∧
    (replace LBlock.sig L exC exE2 true).1.blocks = L.blocks ∧
    (replace LBlock.sig L exC exE2 true).1.next = L.next + 1 ∧
    (remove LBlock.sig L [exE1, exE2]).2 = .raise .valueError ∧
    (replace LBlock.sig L exE1 exE2 true).2 = .ok := by
  decide

end Bib.C08
