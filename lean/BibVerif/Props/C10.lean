/-
  C10 — Enclosing removal strips exactly one layer; adding back restores or re-encloses.

  Statements only.  Model: Enclosing.lean (`stripEnclosing` = `_strip_enclosing`, `enclose` = `_enclose`,
  `removeEntry`/`addEntry` = the two `transform_entry`), Split.lean / Lex.lean for the re-parse.
  Helper lemmas: Lemmas/Enclosing.lean (value level), Lemmas/Reparse.lean (automaton on balanced token
  lists), Lemmas/Relex.lean (lexing of `"@a{k, f = {" ++ v ++ "}}"`).

  Vocabulary of the re-parse theorems (DESIGN §5): `IsBal ts` / `IsQBody ts` are the non-terminals `Bal` /
  `QBody` of the dialect grammar as inductive relations on token lists; `NoAt ts` = no block-start mark
  `@\w*[ \t]*(?={)` among the tokens; `endBS false v = false` = `v` does not end in a backslash;
  `AsciiOK P` = `str.isspace`, `\w`, `str.lower` on ASCII characters are as in the model's ASCII table
  (checked against the running CPython on every run).
-/
import BibVerif.Lemmas.Enclosing
import BibVerif.Lemmas.ReparseLex
namespace Bib.C10
open Bib Bib.Enclosing Bib.Reparse

variable (P : PyChars)

/-! ### removal strips exactly one layer and records which -/

/-- With `s = value.strip()`: if `s = "{" ++ inner ++ "}"` (length ≥ 2, first `{`, last `}`) the result
is `(inner, "{")` - exactly the outer pair is gone; else if `s = "\"" ++ inner ++ "\""` it is
`(inner, "\"")`; otherwise `(s, "no-enclosing")`. -/
theorem strip_one_layer (v : Str) :
    (∀ inner, strip P v = '{' :: inner ++ ['}'] → stripEnclosing P v = (inner, ['{'])) ∧
    (∀ inner, strip P v = '"' :: inner ++ ['"'] → stripEnclosing P v = (inner, ['"'])) ∧
    ((¬ ∃ inner, strip P v = '{' :: inner ++ ['}']) → (¬ ∃ inner, strip P v = '"' :: inner ++ ['"']) →
      stripEnclosing P v = (strip P v, NO_ENCLOSING)) := by
  rcases stripEnclosing_cases P v with ⟨i, hs, hr⟩ | ⟨i, hs, hr⟩ | ⟨n1, n2, hr⟩
  · refine ⟨fun inner h => ?_, fun inner h => ?_, fun h _ => absurd ⟨i, hs⟩ h⟩
    · rw [hs] at h; simp at h; rw [hr, h]
    · rw [hs] at h; simp at h
  · refine ⟨fun inner h => ?_, fun inner h => ?_, fun _ h => absurd ⟨i, hs⟩ h⟩
    · rw [hs] at h; simp at h
    · rw [hs] at h; simp at h; rw [hr, h]
  · exact ⟨fun inner h => absurd ⟨inner, h⟩ n1, fun inner h => absurd ⟨inner, h⟩ n2, fun _ _ => hr⟩

/-- A single delimiter character (a lone `"` or `{`) is not an enclosing pair (D6). -/
theorem strip_single_char (v : Str) (c : Char) (h : strip P v = [c]) :
    stripEnclosing P v = ([c], NO_ENCLOSING) := by
  have := (strip_one_layer P v).2.2 (by rw [h]; rintro ⟨i, hi⟩; simp at hi) (by rw [h]; rintro ⟨i, hi⟩; simp at hi)
  rw [this, h]

/-- The recorded kind is one of the three, and the entry's metadata holds it under the field key. -/
theorem strip_kind (v : Str) :
    (stripEnclosing P v).2 = ['{'] ∨ (stripEnclosing P v).2 = ['"'] ∨ (stripEnclosing P v).2 = NO_ENCLOSING := by
  rcases stripEnclosing_cases P v with ⟨i, _, hr⟩ | ⟨i, _, hr⟩ | ⟨_, _, hr⟩ <;> simp [hr]

theorem remove_string_records (k : Str) (s : Str) (l : Int) (r : Str) (m : MetaD) :
    removeLive P (.string k (.str s) l r m) =
      .ok (.string k (.str (stripEnclosing P s).1) l r
        (assocSet m REMOVED_ENCLOSING_KEY (.str (stripEnclosing P s).2))) := rfl

theorem remove_entry_records (e : Entry) (f : Field) (s : Str) (hf : e.fields = [f]) (hs : f.value = .str s) :
    removeEntry P e = .ok { e with
      fields := [{ f with value := .str (stripEnclosing P s).1 }],
      md := assocSet e.md REMOVED_ENCLOSING_KEY (.dict [(f.key, (stripEnclosing P s).2)]) } := by
  simp [removeEntry, removeFields, hf, hs, assocSet]

/-! ### adding with reuse restores the original value -/

/-- `enclose` with `reuse_previous_enclosing` applied to what `_strip_enclosing` returned gives back
`value.strip()` exactly - whatever the default enclosing, the integer option and the field key. -/
theorem reuse_restores (cfg : AddCfg) (hr : cfg.reusePrevious = true) (air : Bool) (v : Str) :
    enclose P cfg (.str (stripEnclosing P v).1) (some (.str (stripEnclosing P v).2)) air =
      .ok (.str (strip P v)) := by
  rcases stripEnclosing_cases P v with ⟨i, hs, hres⟩ | ⟨i, hs, hres⟩ | ⟨_, _, hres⟩
  · simp [enclose, pyStr, hr, hres, wrapWith, hs]
  · simp [enclose, pyStr, hr, hres, wrapWith, hs]
  · simp [enclose, pyStr, hr, hres, wrapWith, no_enclosing_ne_brace, no_enclosing_ne_quote]

/-- The same through the two middlewares on a one-field entry: values and metadata are back
(the `removed_enclosing` key is popped), for an entry that had no such metadata before. -/
theorem remove_add_restores (cfg : AddCfg) (hr : cfg.reusePrevious = true) (e : Entry) (f : Field) (s : Str)
    (hf : e.fields = [f]) (hs : f.value = .str s) (hm : assocGet e.md REMOVED_ENCLOSING_KEY = none) :
    (match removeEntry P e with
      | .ok e' => addEntry P cfg e'
      | .error err => .error err) =
      .ok { e with fields := [{ f with value := .str (strip P s) }] } := by
  rw [remove_entry_records P e f s hf hs]
  simp only [addEntry, assocGet_set_same, addFields, prevEnclosing, assocGet, ↓reduceIte, Option.map_some]
  rw [reuse_restores P cfg hr]
  simp [addFields, assocErase_set_fresh _ _ _ hm]

/-- ... and on any entry whose field keys are pairwise distinct (as in every live entry the parser
produces) and whose values are strings: every value is back to its own `strip()`, the metadata is as
before.  (With a repeated field key the `removed_enclosing` dict keeps only the last kind.) -/
theorem remove_add_restores_entry (cfg : AddCfg) (hr : cfg.reusePrevious = true) (e : Entry)
    (hs : AllStr e.fields) (hk : e.fields.Pairwise (fun a b => a.key ≠ b.key))
    (hm : assocGet e.md REMOVED_ENCLOSING_KEY = none) :
    (match removeEntry P e with
      | .ok e' => addEntry P cfg e'
      | .error err => .error err) =
      .ok { e with fields := e.fields.map fun f => { f with value := .str (strip P (strOf f.value)) } } := by
  obtain ⟨md', hmd, _, h2⟩ := removeFields_md P e.fields hs []
  have hadd := addFields_restore P cfg hr md' e.fields hs (h2 hk)
  simp only [removeEntry, hmd, addEntry, assocGet_set_same, hadd, restoredFields,
    assocErase_set_fresh _ _ _ hm]

/-- `@string` blocks: value restored; their metadata is read, not popped. -/
theorem remove_add_restores_string (cfg : AddCfg) (hr : cfg.reusePrevious = true) (k s : Str) (l : Int) (r : Str)
    (m : MetaD) :
    (match removeLive P (.string k (.str s) l r m) with
      | .ok b => addLive P cfg b
      | .error err => .error err) =
      .ok (.string k (.str (strip P s)) l r (assocSet m REMOVED_ENCLOSING_KEY (.str (stripEnclosing P s).2))) := by
  simp only [removeLive, addLive, assocGet_set_same, reuse_restores P cfg hr]

/-! ### the integer rule -/

/-- In a numeric field (`ENTRY_POTENTIALLY_INT_FIELDS`, regenerated from the module), without a reused
enclosing, a digit string or int is returned as the bare digits iff `enclose_integers` is off, and
otherwise enclosed with the default. -/
theorem int_rule (cfg : AddCfg) (v : Val) (sv : Str) (hs : pyStr v = some sv) (hd : isDigitStr P sv = true)
    (md : Option Meta) (hmd : cfg.reusePrevious = false ∨ md = none) (key : Str) (hk : isIntField key = true) :
    enclose P cfg v md (isIntField key) =
      if cfg.encloseIntegers then wrapWith (.str cfg.defaultEnclosing) v sv else .ok (.str sv) := by
  have hnone : (if cfg.reusePrevious = true then md else none) = none := by
    rcases hmd with h | h <;> simp [h]
  simp only [enclose, hs, hnone, hk, hd]
  cases cfg.encloseIntegers <;> simp

/-- "stay unenclosed iff so configured" for a validly configured middleware. -/
theorem int_rule_iff (cfg : AddCfg) (hv : cfg.valid = true) (v : Val) (sv : Str) (hs : pyStr v = some sv)
    (hd : isDigitStr P sv = true) (md : Option Meta) (hmd : cfg.reusePrevious = false ∨ md = none)
    (key : Str) (hk : isIntField key = true) :
    enclose P cfg v md (isIntField key) = .ok (.str sv) ↔ cfg.encloseIntegers = false := by
  rw [int_rule P cfg v sv hs hd md hmd key hk]
  have hlen : ∀ a b : Char, a :: (sv ++ [b]) ≠ sv := by
    intro a b h
    have := congrArg List.length h
    simp at this
    omega
  cases he : cfg.encloseIntegers with
  | false => simp
  | true =>
    simp only [↓reduceIte, Bool.true_eq_false, iff_false]
    simp only [AddCfg.valid, Bool.or_eq_true, decide_eq_true_eq] at hv
    rcases hv with h | h <;> simp [wrapWith, h] <;> exact hlen _ _

/-- Outside the numeric fields the digits are enclosed like any other value. -/
theorem int_rule_other_field (cfg : AddCfg) (v : Val) (sv : Str) (hs : pyStr v = some sv)
    (md : Option Meta) (hmd : cfg.reusePrevious = false ∨ md = none) (key : Str) (hk : isIntField key = false) :
    enclose P cfg v md (isIntField key) = wrapWith (.str cfg.defaultEnclosing) v sv := by
  have hnone : (if cfg.reusePrevious = true then md else none) = none := by
    rcases hmd with h | h <;> simp [h]
  simp [enclose, hs, hnone, hk]

/-- Never an error: for str and int values, a validly configured middleware and metadata that is
absent or was written by `RemoveEnclosingMiddleware`, `_enclose` returns (also for ints with
`enclose_integers = False`, D6). -/
theorem enclose_total (cfg : AddCfg) (hv : cfg.valid = true) (v : Val) (sv : Str) (hs : pyStr v = some sv)
    (md : Option Meta)
    (hmd : md = none ∨ md = some (.str ['{']) ∨ md = some (.str ['"']) ∨ md = some (.str NO_ENCLOSING))
    (air : Bool) : ∃ r, enclose P cfg v md air = .ok r := by
  simp only [AddCfg.valid, Bool.or_eq_true, decide_eq_true_eq] at hv
  have hdef : ∃ r, wrapWith (.str cfg.defaultEnclosing) v sv = .ok r := by
    rcases hv with h | h <;> simp [wrapWith, h]
  simp only [enclose, hs]
  cases hr : cfg.reusePrevious with
  | false =>
    simp only [Bool.false_eq_true, ↓reduceIte]
    split
    · exact ⟨_, rfl⟩
    · exact hdef
  | true =>
    rcases hmd with h | h | h | h <;> subst h
    · simp only [↓reduceIte]
      split
      · exact ⟨_, rfl⟩
      · exact hdef
    · simp [wrapWith]
    · simp [wrapWith]
    · simp [wrapWith, no_enclosing_ne_brace, no_enclosing_ne_quote]

/-! ### a default-enclosed balanced value re-parses as one field with the same content -/

/-- Token level: for every brace-balanced token list `v` without a block-start mark - at every nesting
depth - the splitter automaton run on the tokens of `"\n" @type "{" k "," f "=" sp "{" v "}" "}"` returns
exactly one entry with one field whose value is `"{" ++ v ++ "}"`. -/
theorem reparse_braces_tokens (hP : SpaceOK P) (lit ty k f sp : Str) (hcl : classify P lit = (.entry, ty))
    (hs : allSpace P sp) (vtoks : List Tok) (hb : IsBal vtoks) (hn : NoAt vtoks) :
    splitToks P (entryToks lit k f sp (.mark .lbrace ['{']) vtoks (.mark .rbrace ['}'])) =
      .ok [expectedEntry P ty k f ('{' :: flatten vtoks ++ ['}'])
            (flatten (entryToks lit k f sp (.mark .lbrace ['{']) vtoks (.mark .rbrace ['}'])).tail)] :=
  reparse_braces_toks P hP lit ty k f sp hcl hs vtoks hb hn

/-- Token level, quote default: the same for `QBody` token lists (no quote outside braces). -/
theorem reparse_quotes_tokens (hP : SpaceOK P) (lit ty k f sp : Str) (hcl : classify P lit = (.entry, ty))
    (hs : allSpace P sp) (vtoks : List Tok) (hb : IsQBody vtoks) (hn : NoAt vtoks) :
    splitToks P (entryToks lit k f sp (.mark .quote ['"']) vtoks (.mark .quote ['"'])) =
      .ok [expectedEntry P ty k f ('"' :: flatten vtoks ++ ['"'])
            (flatten (entryToks lit k f sp (.mark .quote ['"']) vtoks (.mark .quote ['"'])).tail)] :=
  reparse_quotes_toks P hP lit ty k f sp hcl hs vtoks hb hn

/-- **Character level.**  For every text `v` whose tokens are brace-balanced and contain no block start,
and which does not end in a backslash: `split` on `"@a{k, f = {" ++ v ++ "}}"` is exactly one entry
`a`/`k` with the single field `f = "{" ++ v ++ "}"` (start lines 0, raw = the whole text). -/
theorem reparse_braces (hP : AsciiOK P) (v : Str) (hb : IsBal (lexFrom P false v))
    (hn : NoAt (lexFrom P false v)) (he : endBS false v = false) :
    split P ("@a{k, f = {".toList ++ v ++ "}}".toList) =
      .ok [oneFieldEntry ('{' :: v ++ ['}']) ("@a{k, f = {".toList ++ v ++ "}}".toList)] :=
  reparse_braces_chars hP v hb hn he

/-- **Character level, quote default.** -/
theorem reparse_quotes (hP : AsciiOK P) (v : Str) (hb : IsQBody (lexFrom P false v))
    (hn : NoAt (lexFrom P false v)) (he : endBS false v = false) :
    split P ("@a{k, f = \"".toList ++ v ++ "\"}".toList) =
      .ok [oneFieldEntry ('"' :: v ++ ['"']) ("@a{k, f = \"".toList ++ v ++ "\"}".toList)] :=
  reparse_quotes_chars hP v hb hn he

/-- ... and after `RemoveEnclosingMiddleware` the field holds `v` again (the same content). -/
theorem reparse_content (v : Str) (hsp : strip P ('{' :: v ++ ['}']) = '{' :: v ++ ['}']) :
    stripEnclosing P ('{' :: v ++ ['}']) = (v, ['{']) :=
  (strip_one_layer P _).1 v hsp

/-- **K2 (known finding).**  The hypothesis `NoAt` cannot be dropped: `x@y{z}` is brace-balanced and
does not end in a backslash, but its re-parse ends the entry at `@y{` (README: a block-start sequence
ends the previous block) - a failed block, the entry `@y{z}` and the text `}}`. -/
theorem reparse_noAt_cx :
    ¬ ∀ v : Str, IsBal (lexFrom asciiChars false v) → endBS false v = false →
        split asciiChars ("@a{k, f = {".toList ++ v ++ "}}".toList) =
          .ok [oneFieldEntry ('{' :: v ++ ['}']) ("@a{k, f = {".toList ++ v ++ "}}".toList)] := by
  intro h
  have h1 := h "x@y{z}".toList k2_value_balanced (by decide)
  have e : "@a{k, f = {".toList ++ "x@y{z}".toList ++ "}}".toList = "@a{k, f = {x@y{z}}}".toList := by decide
  rw [e] at h1
  unfold split at h1
  rw [k2_tokens] at h1
  have h3 := k2_blocks
  rw [h1] at h3
  simp [Except.toOption] at h3

/-! ### non-vacuity -/

/-- a balanced token list with nesting depth 2, a quote and a comma inside braces -/
example : IsBal [.text "a".toList, .mark .lbrace ['{'], .mark .quote ['"'], .mark .lbrace ['{'], .mark .comma [','],
    .mark .rbrace ['}'], .text "b".toList, .mark .rbrace ['}'], .mark .nl ['\n']] :=
  .ord trivial (IsBal.nest (a := [.mark .quote ['"'], .mark .lbrace ['{'], .mark .comma [','], .mark .rbrace ['}'],
      .text "b".toList]) (b := [.mark .nl ['\n']])
    (.ord ⟨by decide, by decide⟩ (IsBal.nest (a := [.mark .comma [',']]) (b := [.text "b".toList])
      (.ord ⟨by decide, by decide⟩ .nil) (.ord trivial .nil)))
    (.ord ⟨by decide, by decide⟩ .nil))

/-- a `QBody` with a quote inside braces -/
example : IsQBody [.text "x".toList, .mark .lbrace ['{'], .mark .quote ['"'], .mark .rbrace ['}'], .text "y".toList] :=
  .ord trivial (by intro l h; cases h) (IsQBody.nest (a := [.mark .quote ['"']]) (b := [.text "y".toList])
    (.ord ⟨by decide, by decide⟩ .nil) (.ord trivial (by intro l h; cases h) .nil))

/-- the hypotheses of `reparse_braces_tokens` hold for the ASCII table and `@a` -/
example : SpaceOK asciiChars ∧ classify asciiChars "@a".toList = (.entry, "a".toList) ∧ allSpace asciiChars " ".toList :=
  ⟨spaceOK_of_ascii asciiOK_ascii, classify_a asciiOK_ascii, by intro c hc; revert c hc; decide⟩

/-- the automaton itself on `@a{k, f = {x{y}z}}` (kernel evaluation) -/
example : (splitToks asciiChars (entryToks "@a".toList "k".toList " f ".toList " ".toList (.mark .lbrace ['{'])
      [.text "x".toList, .mark .lbrace ['{'], .text "y".toList, .mark .rbrace ['}'], .text "z".toList]
      (.mark .rbrace ['}']))).toOption.map
        (fun bs => bs.map fun b => match b with
          | .live (.entry e) => e.fields.map fun f => (String.ofList f.key, match f.value with | .str s => String.ofList s | _ => "")
          | _ => [])
    = some [[("f", "{x{y}z}")]] := by decide +kernel

/-- the hypotheses of `reparse_braces` and `reparse_quotes` hold at character level for `x{"}y` (a quote
inside braces, D4), so both theorems apply to it: -/
example : split asciiChars "@a{k, f = {x{\"}y}}".toList =
    .ok [oneFieldEntry "{x{\"}y}".toList "@a{k, f = {x{\"}y}}".toList] :=
  reparse_braces asciiChars asciiOK_ascii "x{\"}y".toList ex_value_ok.1 ex_value_ok.2.2.1 ex_value_ok.2.2.2

example : split asciiChars "@a{k, f = \"x{\"}y\"}".toList =
    .ok [oneFieldEntry "\"x{\"}y\"".toList "@a{k, f = \"x{\"}y\"}".toList] :=
  reparse_quotes asciiChars asciiOK_ascii "x{\"}y".toList ex_value_ok.2.1 ex_value_ok.2.2.1 ex_value_ok.2.2.2

/-- the hypotheses of `remove_add_restores_entry` on a two-field entry -/
example : AllStr [(⟨"a".toList, .str "{x}".toList, 0⟩ : Field), ⟨"b".toList, .str "\"y\"".toList, 0⟩] ∧
    [(⟨"a".toList, .str "{x}".toList, 0⟩ : Field), ⟨"b".toList, .str "\"y\"".toList, 0⟩].Pairwise
      (fun a b => a.key ≠ b.key) := by
  constructor
  · intro f hf; simp at hf; rcases hf with rfl | rfl <;> exact ⟨_, rfl⟩
  · simp

/-- strip / reuse / int rule on concrete values -/
example : stripEnclosing asciiChars " {a{b}} ".toList = ("a{b}".toList, "{".toList) := by decide
example : stripEnclosing asciiChars "\"".toList = ("\"".toList, "no-enclosing".toList) := by decide
example : stripEnclosing asciiChars "{a} # {b}".toList = ("a} # {b".toList, "{".toList) := by decide
example : isDigitStr asciiChars (intToStr 2020) = true ∧ pyStr (.int 2020) = some "2020".toList ∧
    isIntField "year".toList = true ∧ isIntField "title".toList = false := by decide
example : (enclose asciiChars ⟨false, false, ['{']⟩ (.int 2020) none true).toOption = some (.str "2020".toList) := by
  decide +kernel
example : (enclose asciiChars ⟨false, true, ['"']⟩ (.int 2020) none true).toOption = some (.str "\"2020\"".toList) := by
  decide +kernel

/-- **The numeric-field list is BibTeX's.** `ENTRY_POTENTIALLY_INT_FIELDS` is regenerated from
enclosing.py on every run; `int_rule` holds for whatever it contains, this equation pins what it
must contain (a dropped comma that merges two names, a removed field … break it). -/
theorem int_fields_table_ok :
    Generated.Enclosing.entryPotentiallyIntFields =
      ["year", "month", "volume", "number", "pages", "edition", "chapter", "issue"].map String.toList := by
  decide

end Bib.C10
