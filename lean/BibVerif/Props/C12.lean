/-
  C12 — Co-author splitting loses nothing and splits only at top-level ` and `.

  Statements only (helper lemmas: Lemmas/NamesCoAuth.lean).  `split` is the model of
  `split_multiple_persons_names` (Names/CoAuthors.lean); nothing depends on Unicode classes.
-/
import BibVerif.Lemmas.NamesCoAuth
import BibVerif.Lemmas.NamesWords
import BibVerif.Lemmas.NamesIdem
namespace Bib.C12
open Bib CoAuth

/-- **C12 (conservation).**  For every input `s`, with `t = s.strip(" \r\n\t")`: there are pieces
`p₀ … pₙ` and separators `s₁ … sₙ` (here: the list `l` of pairs `(pᵢ, sᵢ₊₁)` and the last piece)
such that `t = p₀ ++ s₁ ++ p₁ ++ … ++ sₙ ++ pₙ`, the function returns exactly `[p₀, …, pₙ]`
(nothing for blank input), and every separator has the form `ws⁺ [aA][nN][dD] ws⁺`.
Hence every character of `t` outside a separator - in particular every non-whitespace
character that is not the `and` of a separator - lies in exactly one returned piece. -/
theorem conservation (s : Str) :
    ∃ (l : List (Str × Str)) (last : Str),
      stripWs s = flat l ++ last ∧ (∀ ps ∈ l, IsSep ps.2) ∧
      split s = if stripWs s = [] then [] else l.map Prod.fst ++ [last] := by
  obtain ⟨l, tail, h1, _, h3, h4, h5, _⟩ := inv_run (stripWs s) init [] inv_init
  simp only [List.nil_append] at h1
  refine ⟨l, tail, h1, h5, ?_⟩
  unfold split
  simp only
  by_cases ht : stripWs s = []
  · simp [ht]
  · have hne : (stripWs s).isEmpty = false := by simpa using ht
    simp only [hne, ht, if_false, Bool.false_eq_true]
    unfold spans
    simp only [List.reverse_cons, List.map_append, List.map_cons, List.map_nil]
    rw [h4]
    congr 1
    · have := slices [] l tail
      simp only [List.length_nil, List.nil_append] at this
      rw [← h1] at this
      exact this
    · rw [h3]
      generalize stripWs s = t at h1
      subst h1
      simp [slice]

/-- **C12 (pieces are contiguous sub-strings of the input, in order).**  With gaps `gᵢ` between
them: `t = p₀ ++ g₁ ++ p₁ ++ … ++ gₙ ++ pₙ`; stated through `conservation` with the gaps being the
separators, plus the positional form: the `i`-th returned piece starts in `t` right after the
first `i` pieces and separators. -/
theorem pieces_contiguous_in_order (s : Str) (ps₁ : List Str) (p : Str) (ps₂ : List Str)
    (h : split s = ps₁ ++ p :: ps₂) :
    ∃ before after, stripWs s = before ++ p ++ after ∧
      (∃ l₁ : List (Str × Str), ps₁ = l₁.map Prod.fst ∧ before = flat l₁ ∧ ∀ x ∈ l₁, IsSep x.2) := by
  obtain ⟨l, last, h1, h2, h3⟩ := conservation s
  by_cases ht : stripWs s = []
  · rw [if_pos ht] at h3
    rw [h3] at h
    simp at h
  · rw [if_neg ht, h] at h3
    -- ps₁ ++ p :: ps₂ = l.map fst ++ [last]
    by_cases hlen : ps₁.length < l.length
    · -- p is one of the pieces of l
      have hl : l = l.take ps₁.length ++ (l.drop ps₁.length) := (List.take_append_drop _ _).symm
      obtain ⟨x, r, hdrop⟩ : ∃ x r, l.drop ps₁.length = x :: r := by
        cases hd : l.drop ps₁.length with
        | nil => simp at hd; omega
        | cons x r => exact ⟨x, r, rfl⟩
      rw [hdrop] at hl
      have hmap : l.map Prod.fst ++ [last] =
          (l.take ps₁.length).map Prod.fst ++ x.1 :: (r.map Prod.fst ++ [last]) := by
        conv => lhs; rw [hl]
        simp
      rw [hmap] at h3
      have hlen2 : ps₁.length = ((l.take ps₁.length).map Prod.fst).length := by
        simp; omega
      have := List.append_inj h3 hlen2
      obtain ⟨e1, e2⟩ := this
      have e3 : p = x.1 := by simpa using (List.cons.inj e2).1
      refine ⟨flat (l.take ps₁.length), x.2 ++ flat r ++ last, ?_, l.take ps₁.length, e1, rfl, ?_⟩
      · rw [h1]; conv => lhs; rw [hl]
        rw [flat_append, e3]
        obtain ⟨x1, x2⟩ := x
        simp [flat_cons]
      · intro y hy; exact h2 y (List.mem_of_mem_take hy)
    · -- p is the last piece
      have hlen' : ps₁.length = (l.map Prod.fst).length := by
        have := congrArg List.length h3
        simp at this ⊢
        omega
      obtain ⟨e1, e2⟩ := List.append_inj h3 hlen'
      have e3 : p = last := by simpa using (List.cons.inj e2).1
      exact ⟨flat l, [], by rw [h1, e3]; simp, l, e1, rfl, h2⟩

/-- every returned piece is non-empty and starts with a non-whitespace character (a name stands on
both sides of every separator) -/
theorem pieces_start (s : Str) : ∀ p ∈ split s, ∃ c r, p = c :: r ∧ isWs c = false :=
  split_pieces_start s

/-- **C12 (exact separator rule).**  On every input without an unmatched closing brace - in
particular on every brace-balanced input - the function returns exactly what the independent
word-level reference splitter returns (`splitWords`, Lemmas/NamesSpec.lean: cut the stripped text
into top-level words by brace depth and escapes; a word `and` in any letter case separates iff the
current piece is non-empty and a word follows).  So text inside braces, escaped characters and
`~`-joined words never split, and every top-level ` and ` between two names does. -/
theorem exact_rule_noClose (s : Str) (h : NameP.unmatchedClose false 0 s = false) :
    split s = splitWords s :=
  split_eq_splitWords s (noClose_strip h)

theorem exact_rule (s : Str) (h : Balanced s) : split s = splitWords s :=
  exact_rule_noClose s h.1

/-- the hypothesis is needed: a closing brace at depth 0 right after ` and ` is swallowed by the
machine (`A and }B` stays one piece), the reference splits there -/
theorem exact_rule_unbalanced_cx : ¬ ∀ s : Str, split s = splitWords s := by
  intro h
  have := h "A and }B".toList
  revert this
  decide

/-- **C12 (idempotence).**  For every input (balanced or not): merging the returned pieces with
`" and "` and splitting again gives the same pieces. -/
theorem idempotent (s : Str) : split (join (split s)) = split s :=
  split_join_split s

/-- non-vacuity: the D7 witness, an escape right after ` and ` (three pieces, evaluated by the kernel) -/
example : split "A and \\'Etienne B AND {C and D}".toList =
    ["A".toList, "\\'Etienne B".toList, "{C and D}".toList] := by decide

/-- a balanced input on which the rule is not trivial: `and` inside braces, an escaped space, a
`~` tie, a leading and a trailing `and` -/
example : Balanced "and A~and {B and C} and D\\ and and".toList ∧
    splitWords "and A~and {B and C} and D\\ and and".toList =
      ["and A~and {B and C}".toList, "D\\ and and".toList] := by
  decide

/-- idempotence on an unbalanced input with odd separators (evaluated by the kernel) -/
example : split "}A  AND\tand B{ and C".toList = ["}A".toList, "and B{ and C".toList] ∧
    join ["}A".toList, "and B{ and C".toList] = "}A and and B{ and C".toList ∧
    split "}A and and B{ and C".toList = ["}A".toList, "and B{ and C".toList] := by
  decide

example : IsSep " and ".toList :=
  ⟨[' '], 'a', 'n', 'd', [' '], rfl, by simp, by simp, by simp [allWs, isWs], by simp [allWs, isWs],
    by decide, by decide, by decide⟩

end Bib.C12
