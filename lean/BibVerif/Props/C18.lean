/-
  C18 — LaTeX en/decoding touches only text values, round-trips, and contains errors.

  The wrapper is modelled (`Latex.lean`); the converter is a parameter `conv : Str → Str × Str`
  (result, error message).  Scope, type and containment claims are proved for EVERY converter.
  The round trip is proved *assuming* `dec (enc t) = t` without error for the texts that occur —
  that assumption is about the third-party `pylatexenc` plus the rule lists in latex_encoding.py; it is
  not a theorem and is sampled by the correspondence run (see the harness module).
-/
import BibVerif.Latex
namespace Bib.C18
open Bib

variable (conv : Conv)

/-- same class of value: a str stays a str, a NameParts stays a NameParts, anything else is equal -/
def SameKind : Val → Val → Prop
  | .str _, .str _ => True
  | .part _, .part _ => True
  | a, b => a = b

theorem convAll_length (l : List Str) : (convAll conv l).1.length = l.length := by
  induction l with
  | nil => rfl
  | cons s rest ih => simp [convAll, ih]

/-- **Types are preserved** and non-text values are untouched. -/
theorem types_preserved (v : Val) : SameKind v (convVal conv v).1 := by
  cases v <;> simp [convVal, SameKind]

/-- **Scope (entries).** Field keys, their order and lines are unchanged; only values change, and
only in kind-preserving ways. -/
theorem scope_fields (fs : List Field) :
    (convFields conv fs).1.map (·.key) = fs.map (·.key) ∧
    (convFields conv fs).1.map (·.line) = fs.map (·.line) ∧
    (convFields conv fs).1.length = fs.length ∧
    ∀ p ∈ fs.zip (convFields conv fs).1, SameKind p.1.value p.2.value := by
  induction fs with
  | nil => exact ⟨rfl, rfl, rfl, by simp⟩
  | cons f rest ih =>
    simp only [convFields, List.map_cons, List.length_cons, List.zip_cons_cons]
    refine ⟨by simp [ih.1], by simp [ih.2.1], by simp [ih.2.2.1], ?_⟩
    intro p hp
    rcases List.mem_cons.mp hp with rfl | hp
    · exact types_preserved conv f.value
    · exact ih.2.2.2 p hp

/-- the entry inside the result of `transform_entry`, whether wrapped in an error block or not -/
def innerEntry : Block → Option Entry
  | .live (.entry e) => some e
  | .mwError _ (.entry e) => some e
  | _ => none

/-- **Scope (entry attributes).** Entry type, key, start line, raw text and metadata are
untouched — also when the result is an error block (which retains the entry). -/
theorem scope_entry (e : Entry) :
    ∃ e', innerEntry (latexEntry conv e) = some e' ∧ e'.ty = e.ty ∧ e'.key = e.key ∧
      e'.line = e.line ∧ e'.raw = e.raw ∧ e'.md = e.md ∧ e'.fields = (convFields conv e.fields).1 := by
  unfold latexEntry
  simp only
  split <;> exact ⟨_, rfl, rfl, rfl, rfl, rfl, rfl, rfl⟩

/-- **Scope (other blocks).** Preambles, comments and failed blocks are returned as they are. -/
theorem other_blocks_untouched (b : Block)
    (h : ∀ e, b ≠ .live (.entry e)) (h' : ∀ k v l r m, b ≠ .live (.string k v l r m)) :
    latexBlock conv b = b := by
  cases b with
  | live l =>
    cases l with
    | entry e => exact absurd rfl (h e)
    | string k v l r m => exact absurd rfl (h' k v l r m)
    | _ => rfl
  | _ => rfl

/-- **@string blocks**: only the value changes, and it stays a str. -/
theorem scope_string (k : Str) (s : Str) (l : Int) (r : Str) (m : MetaD) :
    latexString conv k (.str s) l r m = .live (.string k (.str (conv s).1) l r m) ∨
    latexString conv k (.str s) l r m = .mwError .partialMw (.string k (.str (conv s).1) l r m) := by
  simp only [latexString]
  split
  · exact Or.inl rfl
  · exact Or.inr rfl

/-- **Errors are contained**: the wrapper is a total function (no exception can leave it: the
converter's exceptions were turned into messages), and a non-empty message yields a
middleware-error block around the entry. -/
theorem error_contained (e : Entry) :
    (((convFields conv e.fields).2.filter (· ≠ [])).isEmpty = false →
      ∃ e', latexEntry conv e = .mwError .partialMw (.entry e')) ∧
    (((convFields conv e.fields).2.filter (· ≠ [])).isEmpty = true →
      ∃ e', latexEntry conv e = .live (.entry e')) := by
  unfold latexEntry
  simp only
  constructor
  · intro h; simp only [h]; exact ⟨_, rfl⟩
  · intro h; simp only [h]; exact ⟨_, rfl⟩

/-! ### round trip, conditional on the converter pair -/

/-- `enc` then `dec` gives the text back, without error messages -/
def RoundTrips (enc dec : Conv) (t : Str) : Prop :=
  (enc t).2 = [] ∧ dec (enc t).1 = (t, [])

def textsOfVal : Val → List Str
  | .str s => [s]
  | .part p => p.first ++ p.last ++ p.von ++ p.jr
  | _ => []

theorem convAll_roundtrip (enc dec : Conv) (l : List Str) (h : ∀ t ∈ l, RoundTrips enc dec t) :
    (∀ a ∈ (convAll enc l).2, a = []) ∧
    convAll dec (convAll enc l).1 = (l, l.map fun _ => []) := by
  induction l with
  | nil => exact ⟨by simp [convAll], rfl⟩
  | cons s rest ih =>
    have hs := h s (List.mem_cons_self)
    have ih' := ih (fun t ht => h t (List.mem_cons_of_mem _ ht))
    simp only [convAll, List.map_cons]
    refine ⟨?_, by rw [hs.2, ih'.2]⟩
    intro a ha
    rcases List.mem_cons.mp ha with rfl | ha
    · exact hs.1
    · exact ih'.1 a ha

theorem convVal_roundtrip (enc dec : Conv) (v : Val) (h : ∀ t ∈ textsOfVal v, RoundTrips enc dec t) :
    (∀ a ∈ (convVal enc v).2, a = []) ∧ (convVal dec (convVal enc v).1).1 = v ∧
    (∀ a ∈ (convVal dec (convVal enc v).1).2, a = []) := by
  cases v with
  | str s =>
    have hs := h s (by simp [textsOfVal])
    simp [convVal, hs.1, hs.2]
  | part p =>
    have h1 := convAll_roundtrip enc dec p.first (fun t ht => h t (by simp [textsOfVal, ht]))
    have h2 := convAll_roundtrip enc dec p.last (fun t ht => h t (by simp [textsOfVal, ht]))
    have h3 := convAll_roundtrip enc dec p.von (fun t ht => h t (by simp [textsOfVal, ht]))
    have h4 := convAll_roundtrip enc dec p.jr (fun t ht => h t (by simp [textsOfVal, ht]))
    simp only [convVal, h1.2, h2.2, h3.2, h4.2]
    refine ⟨?_, trivial, ?_⟩
    · intro a ha
      simp only [List.mem_append] at ha
      rcases ha with ((ha | ha) | ha) | ha
      · exact h1.1 a ha
      · exact h2.1 a ha
      · exact h3.1 a ha
      · exact h4.1 a ha
    · intro a ha
      simp only [List.mem_append, List.mem_map] at ha
      rcases ha with ((⟨_, _, rfl⟩ | ⟨_, _, rfl⟩) | ⟨_, _, rfl⟩) | ⟨_, _, rfl⟩ <;> rfl
  | _ => simp [convVal]

theorem convFields_roundtrip (enc dec : Conv) (fs : List Field)
    (h : ∀ f ∈ fs, ∀ t ∈ textsOfVal f.value, RoundTrips enc dec t) :
    (∀ a ∈ (convFields enc fs).2, a = []) ∧ (convFields dec (convFields enc fs).1).1 = fs ∧
    (∀ a ∈ (convFields dec (convFields enc fs).1).2, a = []) := by
  induction fs with
  | nil => exact ⟨by simp [convFields], rfl, by simp [convFields]⟩
  | cons f rest ih =>
    have hf := convVal_roundtrip enc dec f.value (h f (List.mem_cons_self))
    have ih' := ih (fun g hg => h g (List.mem_cons_of_mem _ hg))
    simp only [convFields]
    refine ⟨?_, by rw [hf.2.1, ih'.2.1], ?_⟩
    · intro a ha
      rcases List.mem_append.mp ha with ha | ha
      · exact hf.1 a ha
      · exact ih'.1 a ha
    · intro a ha
      rcases List.mem_append.mp ha with ha | ha
      · exact hf.2.2 a ha
      · exact ih'.2.2 a ha

theorem filter_nonempty_of_all_empty (l : List Str) (h : ∀ a ∈ l, a = []) :
    (l.filter (· ≠ [])).isEmpty = true := by
  simpa using h

/-- **Round trip (conditional).** If encoding then decoding returns each text of the entry
unchanged and without error, then decoding the encoded entry returns the entry. -/
theorem roundtrip_entry (enc dec : Conv) (e : Entry)
    (h : ∀ f ∈ e.fields, ∀ t ∈ textsOfVal f.value, RoundTrips enc dec t) :
    ∃ e₁, latexEntry enc e = .live (.entry e₁) ∧ latexEntry dec e₁ = .live (.entry e) := by
  obtain ⟨h1, h2, h3⟩ := convFields_roundtrip enc dec e.fields h
  refine ⟨{ e with fields := (convFields enc e.fields).1 }, ?_, ?_⟩
  · simpa [latexEntry] using h1
  · simpa [latexEntry, h2] using h3

theorem roundtrip_string (enc dec : Conv) (k s : Str) (l : Int) (r : Str) (m : MetaD)
    (h : RoundTrips enc dec s) :
    latexString enc k (.str s) l r m = .live (.string k (.str (enc s).1) l r m) ∧
    latexString dec k (.str (enc s).1) l r m = .live (.string k (.str s) l r m) := by
  simp [latexString, h.1, h.2]

/-- non-vacuity: a converter pair that round-trips on a text with a special character
(`&` ↦ `\&` and back), and one failing text that yields the error block -/
def exEnc : Conv := fun s => (s.flatMap fun c => if c = '&' then ['\\', '&'] else [c], [])
def exUnesc : Str → Str
  | '\\' :: '&' :: r => '&' :: exUnesc r
  | c :: r => c :: exUnesc r
  | [] => []
def exDec : Conv := fun s => if s = "bad".toList then (s, "err".toList) else (exUnesc s, [])

instance (t : Str) : Decidable (RoundTrips exEnc exDec t) := by unfold RoundTrips; infer_instance

example : RoundTrips exEnc exDec "a&b".toList ∧
    (latexEntry exDec { ty := [], key := [], fields := [⟨"f".toList, .str "bad".toList, 0⟩], line := 0, raw := [] }).isFailed = true := by
  decide

end Bib.C18
