/-
  C20 — Entry points apply exactly the requested middleware stack, in order.

  The model (`Stack.lean`) is nearly the specification; the theorems fix the reading, the
  assurance for the real code comes from the correspondence run with order-sensitive probes.
  File system and codecs (`parse_file`, `write_file`) are not modelled: exercised only.
-/
import BibVerif.Stack
import BibVerif.Lemmas.AddAll
namespace Bib.C20
open Bib

/-- applying a stack is the left-to-right composition -/
theorem applyStack_append (a b : List Mw) (bs : List Block) :
    applyStack (a ++ b) bs = (applyStack a bs).bind (applyStack b) := by
  induction a generalizing bs with
  | nil => rfl
  | cons m a ih =>
    simp only [List.cons_append, applyStack, bind, Except.bind]
    cases m bs with
    | error e => rfl
    | ok r => exact ih r

/-- `parse_string(s, parse_stack=S)` = split, then exactly `S` in the given order
(the default stack is not involved) -/
theorem parse_with_stack (dflt S : List Mw) (sp : Except PyErr (List Block)) :
    parseString dflt sp (some S) none = sp.bind (applyStack S) := by
  cases sp <;> rfl

/-- `parse_string(s, append_middleware=A)` = split, the default stack, then `A` in order -/
theorem parse_with_append (dflt A : List Mw) (sp : Except PyErr (List Block)) :
    parseString dflt sp none (some A) = (sp.bind (applyStack dflt)).bind (applyStack A) := by
  cases sp with
  | error e => rfl
  | ok bs =>
    simp only [parseString, buildParseStack, bind, Except.bind, pure, Except.pure]
    exact applyStack_append dflt A bs

theorem parse_default (dflt : List Mw) (sp : Except PyErr (List Block)) :
    parseString dflt sp none none = sp.bind (applyStack dflt) := by
  cases sp <;> rfl

/-- giving both a full stack and an addition raises ValueError (after the split succeeded) -/
theorem parse_both_given (dflt S A : List Mw) (bs : List Block) :
    parseString dflt (.ok bs) (some S) (some A) = .error .valueError := rfl

/-- `write_string(lib, prepend_middleware=Pp)` = `Pp` in order, then the default write stack, then
the writer -/
theorem write_with_prepend {α} (dflt Pp : List Mw) (w : List Block → Except PyErr α) (bs : List Block) :
    writeString dflt w bs none (some Pp) = ((applyStack Pp bs).bind (applyStack dflt)).bind w := by
  simp only [writeString, buildUnparseStack, bind, Except.bind, pure, Except.pure]
  rw [applyStack_append]
  cases applyStack Pp bs <;> rfl

/-- `write_string(lib, unparse_stack=S)` = exactly `S`, then the writer -/
theorem write_with_stack {α} (dflt S : List Mw) (w : List Block → Except PyErr α) (bs : List Block) :
    writeString dflt w bs (some S) none = (applyStack S bs).bind w := rfl

theorem write_both_given {α} (dflt S Pp : List Mw) (w : List Block → Except PyErr α) (bs : List Block) :
    writeString dflt w bs (some S) (some Pp) = .error .valueError := rfl

/-- the blocks a per-block result stands for -/
def spliced : TRes → Option (List Block)
  | .none => some []
  | .one b => some [b]
  | .many l => some l
  | _ => none

/-- **Splice protocol.** If every per-block result is `None`, a block or a collection of blocks,
the result replaces each block in place by zero, one or several blocks … -/
theorem splice_ok (f : Block → TRes) (bs : List Block) (h : ∀ b ∈ bs, (spliced (f b)).isSome) :
    spliceAll f bs = .ok (bs.flatMap fun b => (spliced (f b)).getD []) := by
  induction bs with
  | nil => rfl
  | cons b bs ih =>
    have hb := h b (List.mem_cons_self)
    have ih' := ih (fun x hx => h x (List.mem_cons_of_mem _ hx))
    simp only [spliceAll, List.flatMap_cons]
    cases hf : f b with
    | none => simp [ih', spliced]
    | one b' => simp [ih', spliced, bind, Except.bind, pure, Except.pure]
    | many l => simp [ih', spliced, bind, Except.bind, pure, Except.pure]
    | badCollection => simp [hf, spliced] at hb
    | illegal => simp [hf, spliced] at hb

/-- … and any non-block result raises TypeError. -/
theorem splice_type_error (f : Block → TRes) (pre : List Block) (b : Block) (post : List Block)
    (hpre : ∀ x ∈ pre, (spliced (f x)).isSome) (hb : spliced (f b) = none) :
    spliceAll f (pre ++ b :: post) = .error .typeError := by
  induction pre with
  | nil =>
    simp only [List.nil_append, spliceAll]
    cases hf : f b <;> simp_all [spliced]
  | cons x pre ih =>
    have hx := hpre x (List.mem_cons_self)
    have ih' := ih (fun y hy => hpre y (List.mem_cons_of_mem _ hy))
    simp only [List.cons_append, spliceAll]
    cases hf : f x with
    | none => exact ih'
    | one b' => simp [ih', bind, Except.bind]
    | many l => simp [ih', bind, Except.bind]
    | badCollection => simp [hf, spliced] at hx
    | illegal => simp [hf, spliced] at hx

/-- after splicing, the library is rebuilt with `Library(blocks)`: never an exception, and the
blocks are the spliced ones with later duplicates of a key flagged -/
theorem block_transform_splice (f : Block → TRes) (bs : List Block)
    (h : ∀ b ∈ bs, (spliced (f b)).isSome) :
    blockTransform f bs = .ok (addAllSpec [] (bs.flatMap fun b => (spliced (f b)).getD [])) := by
  simp only [blockTransform, splice_ok f bs h, bind, Except.bind]
  obtain ⟨L, hL, hbl⟩ := addMany_inv (bs.flatMap fun b => (spliced (f b)).getD []) {} [] libInv_empty
  simp only [libraryOfE, hL, pure, Except.pure, hbl.blocks]
  simp

/-- non-vacuity: a stack of two order-sensitive probes (each appends its tag to every entry key) -/
example :
    let tag (t : Str) : Mw := blockTransform fun b => match b with
      | .live (.entry e) => .one (.live (.entry { e with key := e.key ++ t }))
      | b => .one b
    let e : Block := .live (.entry { ty := [], key := "k".toList, fields := [], line := 0, raw := [] })
    (parseString [tag "d".toList] (.ok [e]) none (some [tag "1".toList, tag "2".toList])).toOption.map
        (fun bs => bs.map fun b => match b with | .live (.entry e) => String.ofList e.key | _ => "?")
      = some ["kd12"] := by
  decide +kernel

end Bib.C20
