/-
  C15 — Month middlewares share one 12-month table, compose, and leave non-months alone.

  Statements only (helper lemmas: Lemmas/Month.lean, Lemmas/MwCommon.lean; model: Month.lean).
  `P` ranges over every `PyChars` with `MonthOK P` (four facts about CPython's `str.lower`, `str.isdigit`
  and `int()`, each checked against the running interpreter over all code points on every run);
  `D` is `sys.get_int_max_str_digits()`.  `resolveVal P D k v` is the new value of the month field
  under middleware `k` (`toInt`, `toAbbr`, `toLong`), `Spelling P D m v` says that `v` is an unenclosed
  spelling of month `m`: the int, a digit string that `int()` reads as `m`, or a string whose
  `lower()` is the abbreviation / the lower-cased full name.
-/
import BibVerif.Lemmas.Month
namespace Bib.C15
open Bib Bib.Month

variable {P : PyChars} {D : Nat}

/-- **The table.**  What the real middlewares answer on 1..12 (regenerated on every run into
`Generated.months`) is the English table. -/
theorem table_ok : Generated.months =
    [("jan".toList, "January".toList), ("feb".toList, "February".toList), ("mar".toList, "March".toList),
     ("apr".toList, "April".toList), ("may".toList, "May".toList), ("jun".toList, "June".toList),
     ("jul".toList, "July".toList), ("aug".toList, "August".toList), ("sep".toList, "September".toList),
     ("oct".toList, "October".toList), ("nov".toList, "November".toList), ("dec".toList, "December".toList)] := by
  decide

/-- **MonthIntMiddleware** maps every spelling of month `m` to the int `m`. -/
theorem int_of_spelling (hP : MonthOK P) {m : Nat} {v : Val} (h : Spelling P D m v) (h1 : 1 ≤ m) (h12 : m ≤ 12) :
    resolveVal P D .toInt v = .ok (.int (m : Int)) := by
  have hm : ((m - 1 + 1 : Nat) : Int) = (m : Int) := by omega
  cases h with
  | int => exact int_int _
  | digits s hd hp =>
    rw [int_digits hP hd, hp]
    simp [h1, h12]
  | abbr s h => rw [int_abbr hP h, hm]
  | full s h => rw [int_full hP h, hm]

/-- **MonthAbbreviationMiddleware** maps every spelling of month `m` to row `m` of the abbreviation
column (by `table_ok`: the lower-case three-letter English abbreviation). -/
theorem abbr_of_spelling (hP : MonthOK P) {m : Nat} {v : Val} (h : Spelling P D m v) (h1 : 1 ≤ m) (h12 : m ≤ 12) :
    ∃ a, abbrs[m - 1]? = some a ∧ resolveVal P D .toAbbr v = .ok (.str a) := by
  cases h with
  | int =>
    obtain ⟨a, ha, hr⟩ := abbr_int_in (P := P) (D := D) (i := (m : Int)) (by omega) (by omega)
    rw [sub_one_toNat h1] at ha
    exact ⟨a, ha, hr⟩
  | digits s hd hp => exact abbr_digits_in hd hp h1 h12
  | abbr s h => exact ⟨_, h, abbr_abbr hP h⟩
  | full s h =>
    obtain ⟨hr, ha⟩ := abbr_full (D := D) hP h
    exact ⟨_, ha, hr⟩

/-- **MonthLongStringMiddleware** maps every spelling of month `m` to row `m` of the full-name column
(by `table_ok`: the capitalised English name). -/
theorem long_of_spelling (hP : MonthOK P) {m : Nat} {v : Val} (h : Spelling P D m v) (h1 : 1 ≤ m) (h12 : m ≤ 12) :
    ∃ f, fulls[m - 1]? = some f ∧ resolveVal P D .toLong v = .ok (.str f) := by
  cases h with
  | int =>
    obtain ⟨a, ha, hr⟩ := long_int_in (P := P) (D := D) (i := (m : Int)) (by omega) (by omega)
    rw [sub_one_toNat h1] at ha
    exact ⟨a, ha, hr⟩
  | digits s hd hp => exact long_digits_in hd hp h1 h12
  | abbr s h => exact long_abbr hP h
  | full s h => exact long_full hP h

/-- the three results in one statement: middleware `k` sends every spelling of `m` to `canon k m` -/
theorem result_of_spelling (hP : MonthOK P) (k : Kind) {m : Nat} {v : Val} (h : Spelling P D m v)
    (h1 : 1 ≤ m) (h12 : m ≤ 12) : ∃ w, canon k m = some w ∧ resolveVal P D k v = .ok w := by
  cases k with
  | toInt => exact ⟨_, rfl, int_of_spelling hP h h1 h12⟩
  | toAbbr =>
    obtain ⟨a, ha, hr⟩ := abbr_of_spelling hP h h1 h12
    exact ⟨.str a, by simp [canon, ha], hr⟩
  | toLong =>
    obtain ⟨a, ha, hr⟩ := long_of_spelling hP h h1 h12
    exact ⟨.str a, by simp [canon, ha], hr⟩

/-- what a middleware produces for month `m` is again a spelling of `m` -/
theorem canon_is_spelling (hP : MonthOK P) (k : Kind) {m : Nat} {w : Val} (hc : canon k m = some w) :
    Spelling P D m w := by
  cases k with
  | toInt => simp only [canon, Option.some.injEq] at hc; subst hc; exact .int
  | toAbbr =>
    simp only [canon, Option.map_eq_some_iff] at hc
    obtain ⟨a, ha, rfl⟩ := hc
    exact .abbr a (by rw [lower_abbr hP (mem_abbrs_of ha)]; exact ha)
  | toLong =>
    simp only [canon, Option.map_eq_some_iff] at hc
    obtain ⟨f, hf, rfl⟩ := hc
    exact .full f (by simp [lowerFulls, List.getElem?_map, hf])

/-- **Non-months are left alone**, with their type: a value that spells no month 1..12 (out-of-range
numbers, enclosed text, other words, digit strings `int()` rejects, lists, None ...) is returned as it
is by each of the three middlewares - also an int too long for `str()` to print (`huge_int_ok`). -/
theorem non_month_unchanged (hP : MonthOK P) (k : Kind) {v : Val}
    (hn : ¬ ∃ m, 1 ≤ m ∧ m ≤ 12 ∧ Spelling P D m v) :
    resolveVal P D k v = .ok v := by
  cases v with
  | int i =>
    have hout : i < 1 ∨ i > 12 := by
      by_cases hr : 1 ≤ i ∧ i ≤ 12
      · exfalso; apply hn
        refine ⟨i.toNat, by omega, by omega, ?_⟩
        have : Spelling P D i.toNat (.int ((i.toNat : Nat) : Int)) := .int
        rwa [Int.toNat_of_nonneg (by omega)] at this
      · omega
    cases k with
    | toInt => exact int_int i
    | toAbbr => exact abbr_int_out hout
    | toLong => exact long_int_out hout
  | str s =>
    cases hd : isDigitStr P s with
    | true =>
      have hp : ∀ n, pyInt P D s = some n → ¬ (1 ≤ n ∧ n ≤ 12) := by
        intro n hq hr
        exact hn ⟨n, hr.1, hr.2, .digits s hd hq⟩
      cases k with
      | toInt =>
        rw [int_digits hP hd]
        cases hq : pyInt P D s with
        | none => rfl
        | some n => simp [hp n hq]
      | toAbbr => exact abbr_digits_out hP hd hp
      | toLong => exact long_digits_out hP hd hp
    | false =>
      have ha : lower P s ∉ abbrs := by
        intro hm
        obtain ⟨i, hi⟩ := List.mem_iff_getElem?.mp hm
        have := lt_of_abbr hi
        exact hn ⟨i + 1, by omega, by omega, .abbr s (by simpa using hi)⟩
      have hf : lower P s ∉ lowerFulls P := by
        intro hm
        obtain ⟨i, hi⟩ := List.mem_iff_getElem?.mp hm
        have hi' := hi
        rw [lowerFulls_eq hP] at hi'
        have := lt_of_lfull hi'
        exact hn ⟨i + 1, by omega, by omega, .full s (by simpa using hi)⟩
      cases k with
      | toInt => exact int_noname hd ha hf
      | toAbbr => exact abbr_noname hd ha hf
      | toLong => exact long_noname hd ha hf
  | names l =>
    cases k with
    | toInt => exact int_other (by intro s h; cases h)
    | toAbbr => exact abbr_other (by intro s h; cases h) (by intro s h; cases h)
    | toLong => exact long_other (by intro s h; cases h) (by intro s h; cases h)
  | parts l =>
    cases k with
    | toInt => exact int_other (by intro s h; cases h)
    | toAbbr => exact abbr_other (by intro s h; cases h) (by intro s h; cases h)
    | toLong => exact long_other (by intro s h; cases h) (by intro s h; cases h)
  | part p =>
    cases k with
    | toInt => exact int_other (by intro s h; cases h)
    | toAbbr => exact abbr_other (by intro s h; cases h) (by intro s h; cases h)
    | toLong => exact long_other (by intro s h; cases h) (by intro s h; cases h)
  | «opaque» t =>
    cases k with
    | toInt => exact int_other (by intro s h; cases h)
    | toAbbr => exact abbr_other (by intro s h; cases h) (by intro s h; cases h)
    | toLong => exact long_other (by intro s h; cases h) (by intro s h; cases h)

/-- **Composition law**, all 9 ordered pairs, every value: applying `X` after `Y` equals applying
`X` alone. -/
theorem compose (hP : MonthOK P) (X Y : Kind) (v : Val) :
    ∃ w, resolveVal P D Y v = .ok w ∧ resolveVal P D X w = resolveVal P D X v := by
  by_cases hm : ∃ m, 1 ≤ m ∧ m ≤ 12 ∧ Spelling P D m v
  · obtain ⟨m, h1, h12, hs⟩ := hm
    obtain ⟨w, hc, hw⟩ := result_of_spelling hP Y hs h1 h12
    obtain ⟨u, _, hu⟩ := result_of_spelling hP X hs h1 h12
    obtain ⟨u', hcu', hu'⟩ := result_of_spelling hP X (canon_is_spelling (D := D) hP Y hc) h1 h12
    refine ⟨w, hw, ?_⟩
    rw [hu, hu']
    obtain ⟨u2, hcu2, hu2⟩ := result_of_spelling hP X hs h1 h12
    rw [hu] at hu2
    cases hu2
    rw [hcu'] at hcu2
    cases hcu2
    rfl
  · exact ⟨v, non_month_unchanged hP Y hm, rfl⟩

/-- the value-level functions never raise, whatever the value -/
theorem resolve_total (hP : MonthOK P) (k : Kind) (v : Val) :
    ∃ w msg, resolve P D k v = .ok (w, msg) := by
  have key : ∃ w, resolveVal P D k v = .ok w := by
    by_cases hm : ∃ m, 1 ≤ m ∧ m ≤ 12 ∧ Spelling P D m v
    · obtain ⟨m, h1, h12, hs⟩ := hm
      obtain ⟨w, _, hw⟩ := result_of_spelling hP k hs h1 h12
      exact ⟨w, hw⟩
    · exact ⟨v, non_month_unchanged hP k hm⟩
  obtain ⟨w, hw⟩ := key
  unfold resolveVal at hw
  split at hw
  · rename_i r hr
    exact ⟨r.1, r.2, hr⟩
  · cases hw

/-- **Never raises** (entry level): no value whatsoever makes `transform_entry` raise - any text
(superscript digits, 5000 digits, arbitrary Unicode), any int (also one with more digits than
`str()` prints, see `huge_int_ok`), any other object. -/
theorem never_raises (hP : MonthOK P) (k : Kind) (e : Entry) :
    ∃ r, transformEntry P D k e = .ok r := by
  unfold transformEntry
  cases hl : lastMonth e.fields with
  | none => exact ⟨e, rfl⟩
  | some f =>
    obtain ⟨w, msg, hr⟩ := resolve_total (D := D) hP k f.value
    exact ⟨_, by simp only [hr]; rfl⟩

/-- **Never raises** (library level): `Month…Middleware().transform(library)` returns for every library. -/
theorem never_raises_library (hP : MonthOK P) (k : Kind) (bs : List Block) :
    ∃ out, transform P D k bs = .ok out :=
  blockMw_total _ bs (fun e _ => never_raises hP k e)

/-- an int month value that `str()` refuses to print (`|i| ≥ 10^D`, `D > 0`) is left unchanged by all
three middlewares; the abbreviation and long-name middlewares record the "unknown month" message with
the placeholder text `<integer with too many digits>` in place of the number -/
theorem huge_int_ok (k : Kind) {i : Int} (hD : 0 < D) (hi : 10 ^ D ≤ i.natAbs) (h12 : 12 < i.natAbs) :
    resolve P D k (.int i) = .ok (.int i, match k with
      | .toInt => msgUnchanged
      | _ => msgUnknownPrefix ++ tooManyDigits) :=
  resolve_huge k hD hi h12

/-- **Only the month value and one metadata key change.**  An entry without a field called
`month` is returned as it is; otherwise the LAST such field gets the resolved value and
`parser_metadata[<middleware>]` the message; type, key, line, raw, every other field (key, value,
line) and the order of the fields are untouched. -/
theorem entry_frame (k : Kind) (e r : Entry) (h : transformEntry P D k e = .ok r) :
    ((∀ f ∈ e.fields, f.key ≠ monthKey) ∧ r = e) ∨
    ∃ pre f post w msg, e.fields = pre ++ f :: post ∧ f.key = monthKey ∧ (∀ g ∈ post, g.key ≠ monthKey) ∧
      resolve P D k f.value = .ok (w, msg) ∧
      r = { e with fields := pre ++ { f with value := w } :: post, md := mdSet e.md (metadataKey k) (.str msg) } := by
  unfold transformEntry at h
  cases hl : lastMonth e.fields with
  | none =>
    rw [hl] at h
    left
    exact ⟨lastMonth_none hl, by cases h; rfl⟩
  | some f =>
    rw [hl] at h
    right
    obtain ⟨pre, post, hfs, hk, hpost, hset⟩ := lastMonth_some hl
    cases hr : resolve P D k f.value with
    | error x => simp [hr] at h
    | ok wm =>
      obtain ⟨w, msg⟩ := wm
      simp only [hr, bind_ok, pure_ok, Except.ok.injEq] at h
      refine ⟨pre, f, post, w, msg, hfs, hk, hpost, hr, ?_⟩
      rw [← h, hset w]

/-- **Other blocks are untouched**: the library is transformed block by block, in order; only `Entry`
blocks go through `transform_entry`, every other block (strings, preambles, comments, failed and
duplicate blocks) is handed to `Library(...)` as it is. -/
theorem library_frame (k : Kind) (bs out : List Block) (h : transform P D k bs = .ok out) :
    ∃ mid, out = libraryOf mid ∧ Pointwise (MwStep (transformEntry P D k)) bs mid :=
  blockMw_ok _ bs out h

/-- leading zeros: if `int()` reads the digit string `s` as `m`, then `"0" ++ s` is a spelling of `m`
too (while the digit limit allows), so `"03"`, `"003"`, ... are spellings of March. -/
theorem leading_zero (h0 : P.decVal '0' = some 0) (hd : P.isDigit '0' = true) {m : Nat} {s : Str}
    (hlen : D = 0 ∨ s.length + 1 ≤ D) (hs : isDigitStr P s = true) (hp : pyInt P D s = some m) :
    Spelling P D m (.str ('0' :: s)) := by
  have hds : isDigitStr P ('0' :: s) = true := by
    simp only [isDigitStr, Bool.and_eq_true] at hs ⊢
    simp [hd, hs.2]
  refine .digits _ hds ?_
  unfold pyInt at hp ⊢
  split at hp
  · cases hp
  · rw [if_neg (by simp only [List.length_cons]; omega)]
    simpa [decValue, h0] using hp

/-! ### non-vacuity -/

example : MonthOK asciiChars := asciiChars_ok

example : Spelling asciiChars 4300 9 (.str "sEPTEMBER".toList) := .full _ (by decide)
example : Spelling asciiChars 4300 9 (.str "SeP".toList) := .abbr _ (by decide)
example : Spelling asciiChars 4300 9 (.str "0009".toList) := .digits _ (by decide) (by decide)
example : Spelling asciiChars 4300 9 (.int 9) := .int
example : Spelling asciiChars 4300 9 (.str "09".toList) :=
  leading_zero (by decide) (by decide) (Or.inr (by simp)) (s := "9".toList) (by decide) (by decide)

example : (resolve asciiChars 4300 .toLong (.str "sEP".toList)).toOption = some (.str "September".toList, msgLongAbbr) := by decide
example : (resolve asciiChars 4300 .toInt (.str "sEPTEMBER".toList)).toOption = some (.int 9, msgIntFull) := by decide
example : (resolve asciiChars 4300 .toAbbr (.str "0009".toList)).toOption = some (.str "sep".toList, msgAbbrInt) := by decide
example : (resolve asciiChars 4300 .toAbbr (.int 13)).toOption =
    some (.int 13, "month-field unchanged - unknown month 13".toList) := by decide +kernel

/-- a non-month: "13" spells nothing -/
example : ¬ ∃ m, 1 ≤ m ∧ m ≤ 12 ∧ Spelling asciiChars 4300 m (.str "13".toList) := by
  rintro ⟨m, h1, h12, h⟩
  have h13 : pyInt asciiChars 4300 "13".toList = some 13 := by decide
  cases h with
  | digits _ _ hp => rw [h13] at hp; cases hp; omega
  | abbr _ ha => exact absurd (List.mem_of_getElem? ha) (by decide)
  | full _ hf => exact absurd (List.mem_of_getElem? hf) (by decide)

/-- the huge-int case, evaluated by the kernel: `month = 10**4300` (an int of 4301 digits, one more
than CPython prints) now comes back unchanged with the placeholder message, for the entry as a whole -/
example : (transformEntry asciiChars 4300 .toLong
    { ty := [], key := [], fields := [⟨monthKey, .int (10 ^ 4300), 0⟩], line := 0, raw := [] }).toOption.map
      (fun r => (r.fields.map (·.value), r.md))
    = some ([.int (10 ^ 4300)],
        [(metadataKey .toLong, .str "month-field unchanged - unknown month <integer with too many digits>".toList)]) := by
  decide +kernel

example : (resolve asciiChars 4300 .toAbbr (.int (-(10 ^ 4300)))).toOption =
    some (.int (-(10 ^ 4300)), "month-field unchanged - unknown month <integer with too many digits>".toList) := by
  decide +kernel

/-- one digit fewer is printed in full (the message ends in the 4300 digits of the number) -/
example : ((resolve asciiChars 4300 .toAbbr (.int (10 ^ 4300 - 1))).toOption.map fun r => (r.1, r.2.length)) =
    some (.int (10 ^ 4300 - 1), 38 + 4300) := by
  decide +kernel

/-- hypotheses of `huge_int_ok` -/
example : (0 : Nat) < 4300 ∧ 10 ^ 4300 ≤ ((10 : Int) ^ 4300).natAbs ∧ 12 < ((10 : Int) ^ 4300).natAbs := by
  decide +kernel

/-- an entry with two `month` fields: the last one is resolved, everything else stays -/
example : (transformEntry asciiChars 4300 .toInt
    { ty := "article".toList, key := "k".toList, line := 0, raw := [],
      fields := [⟨"month".toList, .str "zzz".toList, 1⟩, ⟨"x".toList, .str "1".toList, 2⟩,
                 ⟨"month".toList, .str "DEC".toList, 3⟩, ⟨"y".toList, .str "jan".toList, 4⟩] }).toOption.map
      (fun r => r.fields.map (·.value))
    = some [.str "zzz".toList, .str "1".toList, .int 12, .str "jan".toList] := by decide

end Bib.C15
