/-
  C17 — Field sorting and key normalisation only permute/merge fields; values intact.

  Statements only (helper lemmas: Lemmas/Sort.lean, Lemmas/SortFields.lean, Lemmas/FieldKeys.lean,
  Lemmas/MwCommon.lean; models: SortFields.lean, FieldKeys.lean).

  `sortAlpha fs`            = `sorted(entry.fields, key=lambda f: f.key)`   (str compared by code point)
  `mkOrder P order cs`      = what `SortFieldsCustomMiddleware(order, case_sensitive=cs)` stores, or ValueError
  `sortCustom P o cs fs`    = `sorted(entry.fields, key=_sort_key)` with `rank P o cs f` = `_sort_key(f)`
  `normalize P fs`          = the fields after `NormalizeFieldKeys.transform_entry`
  Every theorem holds for all field lists (any length, keys, values) and all order lists.
-/
import BibVerif.Lemmas.SortFields
import BibVerif.Lemmas.FieldKeys
import BibVerif.Lemmas.MwCommon
namespace Bib.C17
open Bib Bib.SortFields Bib.FieldKeys

variable (P : PyChars)

/-! ### alphabetical sort -/

/-- exactly the entry's fields, each key/value/line triple as often as before -/
theorem alpha_perm (fs : List Field) : (sortAlpha fs).Perm fs := List.mergeSort_perm fs _

/-- in key order (Python's `<=` on `str`: code-point lexicographic) -/
theorem alpha_sorted (fs : List Field) : (sortAlpha fs).Pairwise (fun a b => a.key ≤ b.key) := by
  have := List.pairwise_mergeSort leKey_trans leKey_total fs
  exact this.imp (by intro a b h; simpa [leKey, keyLe] using h)

/-- ties keep source order: the fields with any given key appear in the order they had -/
theorem alpha_stable (fs : List Field) (k : Str) :
    (sortAlpha fs).filter (fun f => f.key == k) = fs.filter (fun f => f.key == k) :=
  Sort.stable_filter leKey_trans leKey_total _ (by
    intro a b ha hb
    simp only [beq_iff_eq] at ha hb
    simp only [leKey, keyLe, ha, hb, decide_eq_true_eq]
    exact List.le_refl k) fs

theorem alpha_idempotent (fs : List Field) : sortAlpha (sortAlpha fs) = sortAlpha fs :=
  List.mergeSort_of_pairwise (List.pairwise_mergeSort leKey_trans leKey_total fs)

/-! ### custom sort -/

/-- **Order-list validation** at construction: the list (lower-cased unless `case_sensitive`) is kept
if it has no duplicates, otherwise `ValueError`. -/
theorem order_validation (order : List Str) (cs : Bool) :
    ((folded P order cs).Nodup → mkOrder P order cs = .ok (folded P order cs)) ∧
    (¬ (folded P order cs).Nodup → mkOrder P order cs = .error .valueError) := by
  have hd := distinct_length_eq_iff (folded P order cs)
  unfold mkOrder
  have hf : (if (!cs) = true then order.map (lower P) else order) = folded P order cs := rfl
  simp only [hf]
  constructor
  · intro h
    rw [if_neg (by rw [hd.mpr h]; simp)]
  · intro h
    rw [if_pos (fun e => h (hd.mp e.symm))]

theorem custom_perm (o : List Str) (cs : Bool) (fs : List Field) : (sortCustom P o cs fs).Perm fs :=
  List.mergeSort_perm fs _

/-- ordered by index in the order list, unknown keys (rank = length of the list) last -/
theorem custom_sorted (o : List Str) (cs : Bool) (fs : List Field) :
    (sortCustom P o cs fs).Pairwise (fun a b => rank P o cs a ≤ rank P o cs b) :=
  Sort.rank_sorted _ fs

/-- what the rank is: the first index of the (case-folded) key in the order list, the length of the
list when the key is not listed -/
theorem rank_spec (o : List Str) (cs : Bool) (f : Field) :
    (normKey P cs f ∈ o → rank P o cs f < o.length ∧ o[rank P o cs f]? = some (normKey P cs f) ∧
        ∀ j, j < rank P o cs f → o[j]? ≠ some (normKey P cs f)) ∧
    (normKey P cs f ∉ o → rank P o cs f = o.length) :=
  ⟨rank_of_mem P o cs f, rank_of_not_mem P o cs f⟩

/-- ties keep source order: the fields of any given rank (same listed key up to case folding, or all
the unlisted ones) appear in the order they had -/
theorem custom_stable (o : List Str) (cs : Bool) (fs : List Field) (n : Nat) :
    (sortCustom P o cs fs).filter (fun f => rank P o cs f == n) = fs.filter (fun f => rank P o cs f == n) :=
  Sort.rank_stable _ n fs

/-- **listed keys first in listed order, the rest after them in source order** -/
theorem custom_listed_first (o : List Str) (cs : Bool) (fs : List Field) :
    ∃ listed, sortCustom P o cs fs = listed ++ fs.filter (fun f => decide (normKey P cs f ∉ o)) ∧
      (∀ f ∈ listed, normKey P cs f ∈ o) ∧
      listed.Pairwise (fun a b => rank P o cs a ≤ rank P o cs b) := by
  have hs := custom_sorted P o cs fs
  have hsplit := Sort.split_at_rank (rank P o cs) o.length _ hs
  refine ⟨(sortCustom P o cs fs).filter (fun a => decide (rank P o cs a < o.length)), ?_, ?_, ?_⟩
  · have h2 : (sortCustom P o cs fs).filter (fun a => decide (o.length ≤ rank P o cs a))
        = fs.filter (fun f => decide (normKey P cs f ∉ o)) := by
      have hst := custom_stable P o cs fs o.length
      have e1 : ∀ l : List Field, l.filter (fun a => decide (o.length ≤ rank P o cs a))
          = l.filter (fun f => rank P o cs f == o.length) := by
        intro l; apply List.filter_congr; intro x _
        have := rank_le P o cs x
        by_cases hx : rank P o cs x = o.length
        · simp [hx]
        · have : ¬ o.length ≤ rank P o cs x := by omega
          simp [hx, this]
      have e2 : fs.filter (fun f => rank P o cs f == o.length) = fs.filter (fun f => decide (normKey P cs f ∉ o)) := by
        apply List.filter_congr; intro x _
        by_cases hm : normKey P cs x ∈ o
        · have := (rank_of_mem P o cs x hm).1
          have hne : ¬ rank P o cs x = o.length := by omega
          simp [hm, hne]
        · simp [hm, rank_of_not_mem P o cs x hm]
      rw [e1, hst, e2]
    rw [← h2]
    exact hsplit
  · intro f hf
    have := (List.mem_filter.mp hf).2
    exact (rank_lt_iff P o cs f).mp (by simpa using this)
  · exact hs.sublist List.filter_sublist

theorem custom_idempotent (o : List Str) (cs : Bool) (fs : List Field) :
    sortCustom P o cs (sortCustom P o cs fs) = sortCustom P o cs fs :=
  Sort.rank_idempotent _ fs

/-! ### key normalisation -/

/-- keys are lower-case (each is the `lower()` of an input key, and `lower()` fixes it) and unique -/
theorem norm_keys_lower_unique (hP : LowerIdem P) (fs : List Field) :
    ((normalize P fs).map (·.key)).Nodup ∧
    ∀ g ∈ normalize P fs, (∃ f ∈ fs, g.key = lower P f.key) ∧ lower P g.key = g.key := by
  refine ⟨?_, ?_⟩
  · have := keys_normalize P fs
    unfold keys at this
    rw [this]; exact firsts_nodup _
  · intro g hg
    obtain ⟨f, hf, hgf⟩ := lastInv_normalize P fs g hg
    have hmem : f ∈ fs := (List.mem_filter.mp (List.mem_of_getLast? hf)).1
    have hk : g.key = lower P f.key := by rw [hgf]; rfl
    exact ⟨⟨f, hmem, hk⟩, by rw [hk, lower_lower hP]⟩

/-- **last value wins**: the field kept under a key is the LAST input field whose lower-cased key is
that key (with its key lower-cased); and every input key survives in lower case -/
theorem norm_last_value_wins (fs : List Field) :
    (∀ g ∈ normalize P fs, ∃ f, (fs.filter (fun h => lower P h.key == g.key)).getLast? = some f ∧
        g = { f with key := lower P f.key }) ∧
    (∀ f ∈ fs, ∃ g ∈ normalize P fs, g.key = lower P f.key) := by
  refine ⟨lastInv_normalize P fs, ?_⟩
  intro f hf
  have hk : lower P f.key ∈ keys (normalize P fs) := by
    rw [keys_normalize, mem_firsts]
    exact List.mem_map.mpr ⟨f, hf, rfl⟩
  obtain ⟨g, hg, hgk⟩ := List.mem_map.mp hk
  exact ⟨g, hg, hgk⟩

/-- **values unchanged**: every resulting field is an input field (value and line as they were) with
its key lower-cased -/
theorem norm_values_unchanged (fs : List Field) :
    ∀ g ∈ normalize P fs, ∃ f ∈ fs, g.value = f.value ∧ g.line = f.line ∧ g.key = lower P f.key := by
  intro g hg
  obtain ⟨f, hf, hgf⟩ := lastInv_normalize P fs g hg
  have hmem : f ∈ fs := (List.mem_filter.mp (List.mem_of_getLast? hf)).1
  exact ⟨f, hmem, by rw [hgf]; rfl, by rw [hgf]; rfl, by rw [hgf]; rfl⟩

/-- **relative order of first occurrences kept**: the resulting keys are the distinct lower-cased
input keys in order of first appearance (`firsts`, which is core's `List.eraseDups`) -/
theorem norm_first_occurrence_order (fs : List Field) :
    (normalize P fs).map (·.key) = firsts (fs.map fun f => lower P f.key) ∧
    firsts (fs.map fun f => lower P f.key) = (fs.map fun f => lower P f.key).eraseDups :=
  ⟨keys_normalize P fs, firsts_eq_eraseDups _⟩

theorem norm_idempotent (hP : LowerIdem P) (fs : List Field) :
    normalize P (normalize P fs) = normalize P fs := by
  have h1 := norm_keys_lower_unique P hP fs
  have := foldl_copy P (normalize P fs) [] (by simpa [keys] using h1.1) (by
    intro g hg
    have := (h1.2 g hg).2
    unfold lowerKey
    rw [this])
  simpa [normalize] using this

/-! ### everything else is untouched -/

theorem entry_frame (e : Entry) (o : List Str) (cs : Bool) :
    ((alphaEntry e).ty = e.ty ∧ (alphaEntry e).key = e.key ∧ (alphaEntry e).line = e.line ∧ (alphaEntry e).raw = e.raw) ∧
    ((customEntry P o cs e).ty = e.ty ∧ (customEntry P o cs e).key = e.key ∧ (customEntry P o cs e).line = e.line ∧
      (customEntry P o cs e).raw = e.raw) ∧
    ((normEntry P e).ty = e.ty ∧ (normEntry P e).key = e.key ∧ (normEntry P e).line = e.line ∧ (normEntry P e).raw = e.raw ∧
      (normEntry P e).md = e.md) :=
  ⟨⟨rfl, rfl, rfl, rfl⟩, ⟨rfl, rfl, rfl, rfl⟩, ⟨rfl, rfl, rfl, rfl, rfl⟩⟩

/-- the three middlewares map over the blocks in order (`mapEntries`: an `Entry` goes through
`transform_entry`, every other block - strings, preambles, comments, failed and duplicate blocks - is
handed on as it is), then `Library(...)` is built from the result -/
theorem library_frame (order : List Str) (cs : Bool) (bs : List Block) :
    SortFields.transformAlpha bs = libraryOf (bs.map (mapEntries alphaEntry)) ∧
    (∀ out, SortFields.transformCustom P order cs bs = .ok out →
      ∃ o, mkOrder P order cs = .ok o ∧ out = libraryOf (bs.map (mapEntries (customEntry P o cs)))) ∧
    FieldKeys.transform P bs = libraryOf (bs.map (mapEntries (normEntry P))) ∧
    (∀ (g : Entry → Entry) (b : Block), (∀ e, b ≠ .live (.entry e)) → mapEntries g b = b) ∧
    (∀ (g : Entry → Entry) (e : Entry), mapEntries g (.live (.entry e)) = .live (.entry (g e))) := by
  refine ⟨rfl, ?_, rfl, ?_, fun _ _ => rfl⟩
  · intro out h
    unfold SortFields.transformCustom at h
    cases ho : mkOrder P order cs with
    | error e => rw [ho] at h; cases h
    | ok o => rw [ho] at h; exact ⟨o, rfl, by cases h; rfl⟩
  · intro g b hb
    unfold mapEntries
    split
    · rename_i e; exact absurd rfl (hb e)
    · rfl

/-! ### non-vacuity -/

/-- `LowerIdem` holds for the ASCII behaviour -/
example : LowerIdem asciiChars := ⟨by
  intro c d hd
  have hd' : d = c.toLower := by simpa [asciiChars] using hd
  subst hd'
  show [c.toLower.toLower] = [c.toLower]
  have : c.toLower.toLower = c.toLower := by
    unfold Char.toLower
    split
    · rename_i h
      split
      · rename_i h2
        exfalso
        have h3 : (c.val + ('a'.val - 'A'.val)) ≤ 'Z'.val := h2.2
        have h4 : 'A'.val ≤ c.val := h.1
        have h5 : c.val ≤ 'Z'.val := h.2
        revert h3 h4 h5
        generalize c.val = v
        intro h3 h4 h5
        have : v.toNat ≤ 90 := h5
        have : 65 ≤ v.toNat := h4
        have h6 : (v + 32).toNat ≤ 90 := h3
        have : (v + 32).toNat = v.toNat + 32 := by
          rw [UInt32.toNat_add]; simp; omega
        omega
      · rfl
    · rename_i h
      simp [h]
  rw [this]⟩

private def f (k v : String) (n : Int) : Field := ⟨k.toList, .str v.toList, n⟩

example : sortAlpha [f "b" "1" 1, f "a" "2" 2, f "B" "3" 3, f "a" "4" 4] =
    [f "B" "3" 3, f "a" "2" 2, f "a" "4" 4, f "b" "1" 1] := by
  simp +decide [sortAlpha, List.mergeSort, List.MergeSort.Internal.splitInTwo, List.merge, keyLe, f]

example : (mkOrder asciiChars ["Title".toList, "title".toList] false).toOption = none ∧
    (mkOrder asciiChars ["Title".toList, "title".toList] true).toOption = some ["Title".toList, "title".toList] := by decide

example : ¬ (folded asciiChars ["Title".toList, "title".toList] false).Nodup ∧
    (folded asciiChars ["Title".toList, "title".toList] true).Nodup := by decide

example : sortCustom asciiChars ["title".toList, "a".toList] false
      [f "x" "1" 1, f "A" "2" 2, f "y" "3" 3, f "TITLE" "4" 4, f "a" "5" 5] =
    [f "TITLE" "4" 4, f "A" "2" 2, f "a" "5" 5, f "x" "1" 1, f "y" "3" 3] := by
  simp +decide [sortCustom, List.mergeSort, List.MergeSort.Internal.splitInTwo, List.merge, rank, f]

example : normalize asciiChars [f "Author" "1" 1, f "year" "2" 2, f "AUTHOR" "3" 3, f "Year" "4" 4, f "x" "5" 5] =
    [f "author" "3" 3, f "year" "4" 4, f "x" "5" 5] := by decide

end Bib.C17
