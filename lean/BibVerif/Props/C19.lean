/-
  C19 — An entry behaves like an insertion-ordered mapping of its fields; equality of fields and
  of the five non-failed block classes is structural.

  Statements only.  Model: `EntryOps.lean` (`Entry.set_field`, `__setitem__`, `pop`, `__delitem__`,
  `get`, `__contains__`, `__getitem__`, `fields_dict`, `items`, `Field.__eq__`, `Block.__eq__`).
  Vocabulary and helper lemmas: `Lemmas/EntryOps.lean` — the specification map `Map` with
  `Spec.insert / erase / find`, the refinement `R e m` (the field list *is* `m`, keys distinct, no
  reserved name), `Live.Same` (same class and attribute values, parser metadata equal as a mapping).
-/
import BibVerif.Lemmas.EntryOps
namespace Bib.C19
open Bib Bib.EntryOps Bib.PyDict

/-- `set_field` never reaches the `ValueError` of `list.index`, whatever the field list (also with
duplicate or reserved keys). -/
theorem set_field_never_raises (e : Entry) (f : Field) : ∃ e', setField e f = .ok e' := by
  unfold setField
  split
  · rename_i h
    obtain ⟨i, hi⟩ := keyIndex_of_mem e.fields f.key (mem_keys_of_has _ _ h)
    rw [hi]; exact ⟨_, rfl⟩
  · exact ⟨_, rfl⟩

/-- **One call.**  If the entry's fields are the map `m` (distinct keys, none reserved) and the
call does not mention a reserved name, then the entry after the call is again such a map — namely
the specification map after the same call: replacing kept the position, a new key was appended,
removal closed the gap — and the call returned what the specification returns (in particular
`KeyError` exactly for `e[k]` with `k` absent, and nothing else ever raises). -/
theorem refines (e : Entry) (m : Map) (op : Op) (hR : R e m) (hk : ¬ reserved op.key) :
    R (applyE op e).1 (applyM op m).1 ∧ (applyE op e).2 = (applyM op m).2 := by
  obtain ⟨hm, hn, hres⟩ := hR
  subst hm
  have hfd := fieldsDict_eq e.fields hn
  -- set_field with an arbitrary field
  have hset : ∀ f : Field, ¬ reserved f.key →
      ∃ e', setField e f = .ok e' ∧ R e' (Spec.insert (e.fields.map kv) f) := by
    intro f hf
    unfold setField
    by_cases hin : f.key ∈ e.fields.map (·.key)
    · have hhas : has (fieldsDict e.fields) f.key = true := by
        rw [hfd, has, get_map_kv]
        cases hf? : e.fields.find? (fun g => g.key = f.key) with
        | none => exact ((find?_none_iff_key _ _).mp hf? hin).elim
        | some _ => rfl
      obtain ⟨i, hi⟩ := keyIndex_of_mem e.fields f.key hin
      obtain ⟨h1, h2⟩ := set_at_keyIndex e.fields f i hn hi
      rw [if_pos hhas, hi]
      refine ⟨_, rfl, ?_, ?_, ?_⟩
      · simp only [Spec.insert, (any_map_kv e.fields f.key).mpr hin, if_true]
        exact h1.symm
      · simpa [h2] using hn
      · intro g hg
        rcases List.mem_or_eq_of_mem_set hg with hg | hg
        · exact hres g hg
        · subst hg; exact hf
    · have hhas : has (fieldsDict e.fields) f.key = false := by
        rw [hfd, has, get_map_kv, (find?_none_iff_key _ _).mpr hin]; rfl
      have hany : (e.fields.map kv).any (fun p => p.1 = f.key) = false := by
        cases h : (e.fields.map kv).any (fun p => p.1 = f.key) with
        | false => rfl
        | true => exact (hin ((any_map_kv _ _).mp h)).elim
      simp only [hhas, Bool.false_eq_true, if_false]
      refine ⟨_, rfl, ?_, ?_, ?_⟩
      · simp [Spec.insert, hany, kv]
      · simp only [List.map_append, List.map_cons, List.map_nil]
        exact List.nodup_append.mpr ⟨hn, by simp, by
          intro a ha b hb; simp at hb; subst hb; intro h; subst h; exact hin ha⟩
      · intro g hg
        rcases List.mem_append.mp hg with hg | hg
        · exact hres g hg
        · simp at hg; subst hg; exact hf
  -- removal
  have hpop : ∀ k, R { e with fields := e.fields.filter (fun g => g.key ≠ k) }
      (Spec.erase (e.fields.map kv) k) := by
    intro k
    refine ⟨?_, ?_, ?_⟩
    · simp only [Spec.erase]; exact (filter_map_kv e.fields k).symm
    · exact hn.sublist (List.Sublist.map _ (List.filter_sublist))
    · intro g hg; exact hres g (List.mem_filter.mp hg).1
  have hR0 : R e (e.fields.map kv) := ⟨rfl, hn, hres⟩
  cases op with
  | setField f =>
    obtain ⟨e', h1, h2⟩ := hset f hk
    simp only [applyE, applyM, h1]; exact ⟨h2, by first | trivial | rfl⟩
  | setItem k v =>
    obtain ⟨e', h1, h2⟩ := hset ⟨k, v, noLine⟩ hk
    simp only [applyE, applyM, setItem, h1]; exact ⟨h2, by first | trivial | rfl⟩
  | pop k d =>
    simp only [applyE, applyM, pop, hfd, get_map_kv, find_map_kv]
    cases e.fields.find? (fun g => g.key = k) with
    | none => exact ⟨hR0, by first | trivial | rfl⟩
    | some f => exact ⟨hpop k, by first | trivial | rfl⟩
  | delItem k =>
    simp only [applyE, applyM, delItem, pop, hfd, get_map_kv]
    cases hf? : e.fields.find? (fun g => g.key = k) with
    | none =>
      refine ⟨?_, by first | trivial | rfl⟩
      show R e _
      have : Spec.erase (e.fields.map kv) k = e.fields.map kv := by
        have hnot := (find?_none_iff_key _ _).mp hf?
        simp only [Spec.erase]
        apply List.filter_eq_self.mpr
        intro p hp
        simp [kv] at hp
        obtain ⟨g, hg, rfl⟩ := hp
        simp only [ne_eq, decide_eq_true_eq]
        intro h; exact hnot (by rw [← h]; exact List.mem_map_of_mem hg)
      rw [this]; exact hR0
    | some f => exact ⟨hpop k, by first | trivial | rfl⟩
  | get k d =>
    simp only [applyE, applyM, getField, hfd, get_map_kv, find_map_kv]
    cases e.fields.find? (fun g => g.key = k) <;> exact ⟨hR0, by first | trivial | rfl⟩
  | contains k =>
    simp only [applyE, applyM, contains, has, hfd, get_map_kv, find_map_kv]
    exact ⟨hR0, by first | trivial | rfl⟩
  | getItem k =>
    have h1 : k ≠ "ENTRYTYPE".toList := fun h => hk (Or.inl h)
    have h2 : k ≠ "ID".toList := fun h => hk (Or.inr h)
    simp only [applyE, applyM, getItem, if_neg h1, if_neg h2, hfd, get_map_kv, find_map_kv]
    cases e.fields.find? (fun g => g.key = k) <;> exact ⟨hR0, by first | trivial | rfl⟩

/-- **Histories.**  Any finite sequence of calls on non-reserved keys, from an entry whose field
keys are distinct and not reserved: the final field list and the result of *every* call equal
those of the insertion-ordered specification map subjected to the same calls. -/
theorem refines_history (ops : List Op) (e : Entry) (m : Map) (hR : R e m)
    (hk : ∀ op ∈ ops, ¬ reserved op.key) :
    R (runE ops e).1 (runM ops m).1 ∧ (runE ops e).2 = (runM ops m).2 := by
  induction ops generalizing e m with
  | nil => exact ⟨hR, rfl⟩
  | cons op ops ih =>
    obtain ⟨h1, h2⟩ := refines e m op hR (hk op (by simp))
    obtain ⟨h3, h4⟩ := ih _ _ h1 (fun o ho => hk o (List.mem_cons_of_mem _ ho))
    exact ⟨h3, by simp only [runE, runM, h2, h4]⟩

/-- **The three views agree.**  `fields`, `fields_dict` and `items()` describe the same fields in
the same order (`items()` behind its two reserved pairs). -/
theorem views_agree (e : Entry) (m : Map) (hR : R e m) :
    e.fields.map kv = m ∧ fieldsDict e.fields = m ∧
    items e = [("ENTRYTYPE".toList, .str e.ty), ("ID".toList, .str e.key)] ++
      m.map (fun p => (p.1, p.2.value)) := by
  obtain ⟨hm, hn, _⟩ := hR
  subst hm
  refine ⟨rfl, fieldsDict_eq _ hn, ?_⟩
  simp [items, kv, Function.comp_def]

/-- … and they still agree after any history of calls. -/
theorem views_agree_after (ops : List Op) (e : Entry) (m : Map) (hR : R e m)
    (hk : ∀ op ∈ ops, ¬ reserved op.key) :
    let e' := (runE ops e).1
    fieldsDict e'.fields = e'.fields.map kv ∧
    (items e').drop 2 = (fieldsDict e'.fields).map (fun p => (p.1, p.2.value)) := by
  obtain ⟨h1, h2, h3⟩ := views_agree _ _ (refines_history ops e m hR hk).1
  intro e'
  refine ⟨by rw [h2, h1], ?_⟩
  rw [h3, h2]; rfl

/-- **Reserved names.**  `e["ENTRYTYPE"]` and `e["ID"]` return the entry's type and key, whatever
the fields are. -/
theorem reserved_lookup (e : Entry) :
    getItem e "ENTRYTYPE".toList = .ok (.str e.ty) ∧ getItem e "ID".toList = .ok (.str e.key) := by
  constructor
  · simp [getItem]
  · simp [getItem]

/-- The calls leave type, key, start line, raw text and metadata of the entry alone. -/
theorem other_attributes_kept (op : Op) (e : Entry) :
    let e' := (applyE op e).1
    e'.ty = e.ty ∧ e'.key = e.key ∧ e'.line = e.line ∧ e'.raw = e.raw ∧ e'.md = e.md := by
  have hs : ∀ f e', setField e f = .ok e' →
      e'.ty = e.ty ∧ e'.key = e.key ∧ e'.line = e.line ∧ e'.raw = e.raw ∧ e'.md = e.md := by
    intro f e' h
    unfold setField at h
    split at h
    · split at h
      · cases h; simp
      · cases h
    · cases h; simp
  cases op with
  | setField f =>
    simp only [applyE]
    cases h : setField e f with
    | ok e' => exact hs f e' h
    | error x => simp
  | setItem k v =>
    simp only [applyE, setItem]
    cases h : setField e ⟨k, v, noLine⟩ with
    | ok e' => exact hs _ e' h
    | error x => simp
  | pop k d => simp only [applyE, pop]; split <;> simp
  | delItem k => simp only [applyE, delItem, pop]; split <;> simp
  | get k d => simp [applyE]
  | contains k => simp [applyE]
  | getItem k => simp only [applyE]; split <;> simp

/-! ### equality is structural -/

/-- `Field.__eq__` holds exactly for fields with the same key, value and start line. -/
theorem fieldEq_iff (a b : Field) : fieldEq a b = true ↔ a = b := by
  cases a; cases b
  simp only [fieldEq, Bool.and_eq_true, beq_iff_eq, strEq_iff, valEq_iff, Field.mk.injEq]
  constructor
  · rintro ⟨⟨h1, h2⟩, h3⟩; exact ⟨h2, h3, h1⟩
  · rintro ⟨h1, h2, h3⟩; exact ⟨⟨h3, h1⟩, h2⟩

/-- `Block.__eq__` on the five non-failed classes holds exactly for blocks of the same class with
the same content: key, value / fields in order, type, start line, raw text, and the parser
metadata as a mapping (`dict.__eq__` ignores insertion order, also of nested dicts). -/
theorem liveEq_iff_same (a b : Live) (ha : MdWF (Live.md a)) (hb : MdWF (Live.md b)) :
    liveEq a b = true ↔ Live.Same a b := by
  cases a <;> cases b <;> simp only [liveEq, Live.Same, Bool.false_eq_true, Live.md] at ha hb ⊢
  all_goals
    simp only [Bool.and_eq_true, beq_iff_eq, strEq_iff, valEq_iff, listEq_iff _ fieldEq_iff,
      mdEq_iff _ _ ha hb]
    constructor
    · intro h; simp only [h, and_self]
    · intro h; simp only [h, and_self]

/-- With the metadata of both blocks listed in the same order — in particular for blocks without
metadata, as the parser produces them — `==` is equality of the modelled data. -/
theorem liveEq_iff_eq (a b : Live) (ha : Live.md a = []) (hb : Live.md b = []) :
    liveEq a b = true ↔ a = b := by
  have wa : MdWF (Live.md a) := by rw [ha]; exact ⟨by simp [KeysNodup, keys], by simp⟩
  have wb : MdWF (Live.md b) := by rw [hb]; exact ⟨by simp [KeysNodup, keys], by simp⟩
  rw [liveEq_iff_same a b wa wb]
  cases a <;> cases b <;> simp only [Live.md] at ha hb <;> subst_vars <;>
    simp only [Live.Same, mdSame_refl, and_true, reduceCtorEq, Live.string.injEq,
      Live.preamble.injEq, Live.expl.injEq, Live.impl.injEq, Live.entry.injEq]
  case entry.entry x y =>
    cases x; cases y
    simp only at ha hb
    subst ha; subst hb
    simp only [mdSame_refl, and_true, Entry.mk.injEq]

/-- **Copies equal their originals** (`copy.copy` shares, `copy.deepcopy` rebuilds the same
attribute values in the same order — either way the copy is the same modelled value, also with
arbitrary metadata). -/
theorem copy_eq (a : Live) (ha : MdWF (Live.md a)) : liveEq a a = true := by
  rw [liveEq_iff_same a a ha ha]
  cases a <;> simp [Live.Same, mdSame_refl]

theorem field_copy_eq (a : Field) : fieldEq a a = true := (fieldEq_iff a a).mpr rfl

/-- different classes are never equal, even with identical attributes -/
theorem class_matters (c : Str) (l : Int) (r : Str) (m : MetaD) :
    liveEq (.expl c l r m) (.impl c l r m) = false := rfl

/-! ### non-vacuity -/

/-- a two-field entry satisfies `R`; replacing `a` keeps its position, `C` (≠ `c`) appends,
removing `a` closes the gap — evaluated by the kernel on the model -/
example :
    let e : Entry :=
      { ty := "article".toList, key := "k".toList, line := 0, raw := [],
        fields := [⟨"a".toList, .str "1".toList, 1⟩, ⟨"c".toList, .str "2".toList, 2⟩] }
    R e (e.fields.map kv) ∧
    ((runE [.setItem "a".toList (.int 7), .setItem "C".toList (.int 8), .delItem "a".toList,
            .getItem "a".toList] e).1.fields.map (fun f => (String.ofList f.key, f.value)),
     (runE [.setItem "a".toList (.int 7), .setItem "C".toList (.int 8), .delItem "a".toList,
            .getItem "a".toList] e).2.getLast?)
      = ([("c", .str "2".toList), ("C", .int 8)], some (.raise .keyError)) := by
  refine ⟨⟨rfl, by decide, by decide⟩, by decide⟩

/-- metadata in a different insertion order: equal for Python (and `liveEq`), `Live.Same`, yet not
the same list — the reason `liveEq_iff_same` speaks of mappings -/
example :
    let m1 : MetaD := [("x".toList, .bool true), ("y".toList, .str "v".toList)]
    let m2 : MetaD := [("y".toList, .str "v".toList), ("x".toList, .bool true)]
    MdWF m1 ∧ MdWF m2 ∧ liveEq (.preamble [] 0 [] m1) (.preamble [] 0 [] m2) = true ∧ m1 ≠ m2 := by
  refine ⟨by simp [MdWF, KeysNodup, keys, Meta.WF], by simp [MdWF, KeysNodup, keys, Meta.WF],
    by decide, by decide⟩

end Bib.C19
