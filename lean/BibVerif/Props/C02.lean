/-
  C02 — Well-formed BibTeX yields exactly the blocks, keys, fields and values written.

  The dialect grammar G (DESIGN.md §5) is `Grammar.lean`: a document is `Junk (Block Junk)*`; a
  derivation is given by its components together with `Doc.WF`.  `Doc.toks` is its token list and
  `Doc.expected` the blocks it denotes: one block per source block and one implicit comment per
  non-blank junk region, in source order; entry type lower-cased; keys, values, @string values and
  explicit comments stripped; preambles verbatim; raw = the block's source text; start lines =
  number of newlines before the block; a field's line = line of its `=`.
  Statements only; the scanner lemmas are in Lemmas/Scan.lean, Blocks.lean, Doc.lean.
-/
import BibVerif.Lemmas.Doc
import BibVerif.Lemmas.NoRaise
import BibVerif.Lemmas.Relex
namespace Bib.C02
open Bib

variable (P : PyChars)

/-- **C02 (token level).** For every derivation of the grammar — any number of blocks, any
nesting depth of braces, quotes inside braces inside quotes, `=`/`,` inside braces, any junk
between blocks — the splitter returns exactly the expected blocks: no failed block, nothing merged,
nothing dropped. -/
theorem split_correct (d : Doc) (h : d.WF P) : splitToks P d.toks = .ok (d.expected P (-1)) :=
  splitToks_doc P d h

/-- **C02 (character level).** If the text lexes to the tokens of a derivation, `split` returns the
expected blocks.  (That every canonical derivation is the lexing of its own flattening is the
re-lexing lemma of C05; the correspondence run exercises it on generated documents.) -/
theorem split_correct_chars (d : Doc) (h : d.WF P) (s : Str) (hl : lex P s = d.toks) :
    split P s = .ok (d.expected P (-1)) := by
  unfold split; rw [hl]; exact split_correct P d h

/-- **C02 (text level).** Every canonical derivation is realisable: it is the lexing of its own
flattening (`relex`), so for the text `s` it spells (after the newline `Splitter` prepends) `split`
returns the expected blocks.  `Canon` = what the lexer produces (`lex_canonical`): text chunks
contain no unescaped delimiter and no block start, `@type` marks are `@\w*[ \t]*` before `{`. -/
theorem split_correct_text (hP : WordOK2 P) (d : Doc) (h : d.WF P) (hc : Canon P false d.toks)
    (s : Str) (hs : '\n' :: s = flatten d.toks) : split P s = .ok (d.expected P (-1)) := by
  unfold split lex
  rw [hs, relex P hP hc]
  exact split_correct P d h

/-- … and conversely every text lexes to a canonical token list. -/
theorem lex_is_canonical (s : Str) : Canon P false (lex P s) := lex_canonical P false _

/-- an entry whose field keys are pairwise distinct is expected as a plain entry -/
theorem expected_entry_of_distinct (line : Int) (lit : Str) (key : List Tok) (fields : List FieldSrc)
    (tr : Option (List Tok)) (h : (BlockSrc.entry lit key fields tr).DistinctFields P) :
    (BlockSrc.entry lit key fields tr).expected P line =
      .live (.entry { ty := (classify P lit).2, key := strip P (flatten key),
                      fields := expFields P (line + nlCount key) fields, line := line,
                      raw := flatten (BlockSrc.entry lit key fields tr).toks }) := by
  simp only [BlockSrc.expected]
  exact mkEntry_of_nodup _ _ _ _ _ (by rw [expFields_keys]; exact h)

/-- No failed block is produced for a derivation whose entries have pairwise distinct field keys. -/
theorem no_failed_block (d : Doc) (hd : d.DistinctFields P) :
    ∀ b ∈ d.expected P (-1), b.isFailed = false := by
  have hj : ∀ line j, ∀ b ∈ expJunk P line j, b.isFailed = false := by
    intro line j b hb
    simp only [expJunk] at hb
    split at hb
    · cases hb
    · simp only [List.mem_singleton] at hb; subst hb; rfl
  have hb : ∀ line (x : BlockSrc), x.DistinctFields P → (x.expected P line).isFailed = false := by
    intro line x hx
    cases x with
    | entry lit key fields tr => rw [expected_entry_of_distinct P line lit key fields tr hx]; rfl
    | _ => rfl
  have hi : ∀ items, (∀ bj ∈ items, bj.1.DistinctFields P) →
      ∀ line, ∀ b ∈ expItems P line items, b.isFailed = false := by
    intro items
    induction items with
    | nil => intro _ line b hb'; cases hb'
    | cons bj rest ih =>
      intro hdf line b hb'
      obtain ⟨x, j⟩ := bj
      simp only [expItems, List.mem_cons, List.mem_append] at hb'
      rcases hb' with rfl | hb' | hb'
      · exact hb line x (hdf (x, j) (List.mem_cons_self))
      · exact hj _ _ b hb'
      · exact ih (fun y hy => hdf y (List.mem_cons_of_mem _ hy)) _ b hb'
  intro b hb'
  simp only [Doc.expected, List.mem_append] at hb'
  rcases hb' with hb' | hb'
  · exact hj _ _ b hb'
  · exact hi _ hd _ b hb'

/-- One block per source block: the expected list has a block for every item (plus implicit
comments). -/
theorem count_blocks (d : Doc) :
    ((d.expected P (-1)).filter fun b => match b with | .live (.impl ..) => false | _ => true).length
      = d.items.length := by
  have hj : ∀ line j, (expJunk P line j).filter (fun b => match b with | .live (.impl ..) => false | _ => true) = [] := by
    intro line j; simp only [expJunk]; split <;> simp
  have hb : ∀ line (x : BlockSrc), (match x.expected P line with | .live (.impl ..) => false | _ => true) = true := by
    intro line x
    cases x with
    | entry lit key fields tr =>
      simp only [BlockSrc.expected, mkEntry]
      by_cases h : (dupKeys (expFields P (line + nlCount key) fields)).isEmpty = true <;> simp [h]
    | _ => rfl
  have hi : ∀ items line, ((expItems P line items).filter
      fun b => match b with | .live (.impl ..) => false | _ => true).length = items.length := by
    intro items
    induction items with
    | nil => intro line; rfl
    | cons bj rest ih =>
      intro line
      obtain ⟨x, j⟩ := bj
      simp only [expItems, List.filter_cons, hb line x, ↓reduceIte, List.filter_append, hj,
        List.nil_append, List.length_cons, ih]
  simp only [Doc.expected, List.filter_append, hj, List.nil_append, hi]

/-! ### non-vacuity: a four-block document with the adversarial shapes, checked by the kernel -/

def T (s : String) : Tok := .text s.toList
def NL : Tok := .mark .nl ['\n']
def Q : Tok := .mark .quote ['"']

/-- `NL junk NL @Article{key, a = "x{"}y", b = {p{=,}q} # z ,} NL @string{s = {v}} @comment{c{}} t @preamble{"p"}` -/
def exampleDoc : Doc where
  head := [NL, T "junk", NL]
  items := [
    (.entry "@Article".toList [T "key"]
        [⟨[T " a "], [T " ", Q, T "x", LB, Q, RB, T "y", Q]⟩,
         ⟨[NL, T " b "], [T " ", LB, T "p", LB, EQ, CM, RB, T "q", RB, T " # z "]⟩]
        (some [NL]), [NL]),
    (.string "@string".toList [T "s "] [T " ", LB, T "v", RB], [T " "]),
    (.comment "@comment".toList [T "c", LB, RB], [T " t "]),
    (.preamble "@preamble".toList [Q, T "p", Q], [])]

/-- the example is a derivation of the grammar (the hypotheses of `split_correct` are satisfiable
by a document with a quote inside braces inside quotes, `=` and `,` inside nested braces, a
concatenation, a trailing comma and junk between blocks) -/
example : exampleDoc.WF asciiChars := by
  have bal_c : IsBal [T "c", LB, RB] :=
    IsBal.plain _ _ rfl (IsBal.grp _ _ [] [] IsBal.nil IsBal.nil)
  have bal_p : IsBal [Q, T "p", Q] :=
    IsBal.plain _ _ rfl (IsBal.plain _ _ rfl (IsBal.plain _ _ rfl IsBal.nil))
  have bal_v : IsBal [T " ", LB, T "v", RB] :=
    IsBal.plain _ _ rfl (IsBal.grp _ _ [T "v"] [] (IsBal.plain _ _ rfl IsBal.nil) IsBal.nil)
  have val_a : IsValue [T " ", Q, T "x", LB, Q, RB, T "y", Q] :=
    IsValue.plain _ _ rfl (IsValue.quoted _ _ [T "x", LB, Q, RB, T "y"] []
      (IsQBody.plain _ _ rfl (IsQBody.grp _ _ [Q] [T "y"] (IsBal.plain _ _ rfl IsBal.nil)
        (IsQBody.plain _ _ rfl IsQBody.nil))) IsValue.nil)
  have val_b : IsValue [T " ", LB, T "p", LB, EQ, CM, RB, T "q", RB, T " # z "] :=
    IsValue.plain _ _ rfl (IsValue.braced _ _ [T "p", LB, EQ, CM, RB, T "q"] [T " # z "]
      (IsBal.plain _ _ rfl (IsBal.grp _ _ [EQ, CM] [T "q"]
        (IsBal.plain _ _ rfl (IsBal.plain _ _ rfl IsBal.nil)) (IsBal.plain _ _ rfl IsBal.nil)))
      (IsValue.plain _ _ rfl IsValue.nil))
  refine ⟨by decide, ?_⟩
  intro bj hbj
  simp only [exampleDoc, List.mem_cons, List.not_mem_nil, or_false] at hbj
  rcases hbj with rfl | rfl | rfl | rfl
  · refine ⟨⟨by decide +kernel, by decide, ?_, ?_⟩, by decide⟩
    · intro f hf
      simp only [List.mem_cons, List.not_mem_nil, or_false] at hf
      rcases hf with rfl | rfl
      · exact ⟨by decide, val_a⟩
      · exact ⟨by decide, val_b⟩
    · intro w hw; injection hw with hw; subst hw; decide
  · exact ⟨⟨by decide +kernel, by decide, bal_v⟩, by decide⟩
  · exact ⟨⟨by decide +kernel, bal_c⟩, by decide⟩
  · exact ⟨⟨by decide +kernel, bal_p⟩, by decide⟩

example : exampleDoc.DistinctFields asciiChars := by
  intro bj hbj
  simp only [exampleDoc, List.mem_cons, List.not_mem_nil, or_false] at hbj
  rcases hbj with rfl | rfl | rfl | rfl
  · simp only [BlockSrc.DistinctFields]; decide +kernel
  all_goals trivial

example : (splitToks asciiChars exampleDoc.toks).toOption.map (fun bs => bs.map fun b => (b.isFailed, b.line))
    = some [(false, 0), (false, 1), (false, 4), (false, 4), (false, 4), (false, 4)] := by
  decide +kernel

example : (exampleDoc.expected asciiChars (-1)).map (fun b => (b.isFailed, b.line))
    = [(false, 0), (false, 1), (false, 4), (false, 4), (false, 4), (false, 4)] := by
  decide +kernel

end Bib.C02
