/-
  C05 — parse → write → parse preserves content; the written text is a fixpoint.

  Statements only.  `Pipeline.parseDefault` / `Pipeline.writeDefault` are the models of `parse_string`
  / `write_string` with the default stacks (Pipeline.lean); `contentOf` is what C05 compares (class,
  type, key, field keys and values in order, value / comment text - not raw, lines, metadata).

  Hypotheses (Lemmas/PrintParseDefs.lean):
  * `PrintOK P`   - per-character facts about CPython's `\w`, `str.isspace`, `str.lower` (each checked
                    against the running CPython over all code points on every run);
  * `FormatOK F`  - `indent` consists of blanks/tabs, `block_separator` of blanks/tabs/newlines; any
                    `value_column` (int or "auto"), any `trailing_comma`;
  * `Writable P L`- the library consists of entries, @strings, @preambles, explicit and free-text
                    comments (no failed block); entry keys pairwise distinct, @string keys pairwise
                    distinct, field keys distinct within an entry; entry types are lower-case `\w` words
                    other than comment/preamble/string...; keys are `KeyOK` (Lemmas/KeyOK.lean: the tokens of the
                    key are text / newline tokens only - every other delimiter in it is escaped by a
                    backslash, no `@` in it starts a block - and it does not end in a backslash; `KeyText`
                    = additionally no newline, `SimpleText` = no delimiter, `@`, backslash at all) and
                    stripped; every entry field value is `EncVal` (the enclosed text `{v}`,
                    followed by `,` or a newline, lexes to a `Value` of the grammar - the content `v`
                    itself may be unbalanced: `A} # {B`, `a}{b`); every @string value is `EncBal` (the
                    enclosed text `{v}` lexes to brace-balanced tokens); every preamble / explicit comment,
                    which are written without added braces, is `CleanVal` (its text, followed by `}`,
                    lexes to brace-balanced tokens and the closing brace);
                    free-text comments are non-empty, stripped, contain no block start (`noStart`: the
                    regex `@\w*[ \t]*{` does not match; other `@` are fine), and no two are adjacent;
                    an entry's `removed_enclosing` metadata is absent or a dict.
  Proof: Lemmas/PrintParseLex (text → tokens of a grammar derivation, block by block),
  PrintParseDoc (the derivation is well formed, C02 `split_correct` gives the blocks),
  PrintParsePipe / PrintParseMain (write stack, parse stack on enclosed values), PrintParseFix (fixpoint);
  ParsedInv / ParsedWritable (what every parsed library satisfies); for the grammar level TrimLex
  (stripping white space off a token sequence), GrammarShapes (the shapes of a stripped value), GrammarPipe
  (resolution and enclosing removal on source values), GrammarType, GrammarDoc (from a derivation to `SideOK`).
-/
import BibVerif.Lemmas.PrintParseFix
import BibVerif.Lemmas.PrintParseClean
import BibVerif.Lemmas.ParsedWritable
import BibVerif.Lemmas.GrammarDoc
import BibVerif.Lemmas.GrammarExample
namespace Bib.C05
open Bib Bib.Pipeline Bib.PrintParse Bib.Writer

/-- the content of a block does not mention raw text, lines or metadata -/
theorem content_ignores_position (e : Entry) (l : Int) (r : Str) (m : MetaD) :
    contentOf (.live (.entry { e with line := l, raw := r, md := m })) = contentOf (.live (.entry e)) := rfl

/-! ### the property, at full strength -/

/-- **print → parse**: writing a writable library and parsing the text gives the same content -/
def print_parse_full : Prop :=
  ∀ (P : PyChars) (F : BibtexFormat) (L : List Block), PrintOK P → FormatOK F → Writable P L →
    ∃ t L', writeDefault P F L = .ok t ∧ parseDefault P t = .ok L' ∧ L'.map contentOf = L.map contentOf

/-- **fixpoint**: writing the re-parsed library reproduces the text byte for byte -/
def fixpoint_full : Prop :=
  ∀ (P : PyChars) (F : BibtexFormat) (L : List Block), PrintOK P → FormatOK F → Writable P L →
    ∃ t L', writeDefault P F L = .ok t ∧ parseDefault P t = .ok L' ∧ writeDefault P F L' = .ok t

/-- **parsed ⇒ writable**: a library returned by `parse_string` whose blocks pass the content side
conditions `SideOK` (Lemmas/ParsedWritable.lean: no failed block; entry types are lower-case `\w` words;
keys are `KeyOK`; every entry field value is `ValueOK` = the tokens of the enclosed text `{v}` are a
`Value` of the grammar and `v` does not end in a backslash; every @string value is `StrValOK` = the
tokens of `{v}` are brace-balanced, no trailing backslash; every preamble / explicit comment is `TextOK`
= its own tokens are brace-balanced and it does not end in a backslash; free-text comments contain no
block-start sequence `@\w*[ \t]*{`) is writable -/
def parsed_writable_full : Prop :=
  ∀ (P : PyChars) (s : Str) (L : List Block), PrintOK P →
    parseDefault P s = .ok L → (∀ b ∈ L, SideOK P b) → Writable P L

/-- **content_preserved**: for such a document the whole round trip parse → write → parse → write
succeeds; both libraries have the same content, both texts are equal -/
def content_preserved_full : Prop :=
  ∀ (P : PyChars) (F : BibtexFormat) (s : Str) (L : List Block), PrintOK P → FormatOK F →
    parseDefault P s = .ok L → (∀ b ∈ L, SideOK P b) →
    ∃ rt, roundTrip P F s = .ok rt ∧ rt.lib1 = L ∧ rt.lib2.map contentOf = rt.lib1.map contentOf ∧
      rt.text2 = rt.text1

/-! The property's "well-formed document" at the level of the dialect grammar (DESIGN §6 C05, `WF₅`):
a derivation with pairwise distinct keys, no stripped key / value / explicit comment ending in a
backslash, entry types that are `\w` words after lower-casing.

As DESIGN states it, this is FALSE of model and code alike, for two reasons (both in the harness corpus):
  * the grammar lets an @string value be any `Bal`, e.g. `@string{s = {a}, {b}}` (a comma at brace depth
    0).  `@a{k, t = s}` then resolves `t` to `{a}, {b}`, one layer is stripped (`a}, {b`), the writer emits
    `t = {a}, {b}` - and the re-parse reads `t = {a}` followed by junk: the entry comes back as a
    `ParsingFailedBlock`.  So @string values have to be `Value`s of the grammar (as in BibTeX), like
    field values.
  * "no stripped value ending in a backslash" is not enough: the stripped source value `"a"b\"` ends in
    a quote, its content `a"b\` (one enclosing layer removed) ends in a backslash; the writer emits
    `{a"b\}` whose closing brace is escaped, and the block does not parse back.  It is the CONTENT of
    a value that must not end in a backslash (`srcContentNoBS`).
`Doc.WF5` below is the statement with these two corrections; `content_preserved_grammar_full` is proved
for it (`content_preserved_grammar`). -/

/-- the stripped text of a source piece does not end in a backslash -/
def srcNoBS (P : PyChars) (ts : List Tok) : Prop := Reparse.endBS false (strip P (flatten ts)) = false

/-- the content of a source value (stripped, one enclosing layer removed) does not end in a backslash -/
def srcContentNoBS (P : PyChars) (ts : List Tok) : Prop :=
  Reparse.endBS false (Enclosing.stripEnclosing P (strip P (flatten ts))).1 = false

def BlockSrc.WF5 (P : PyChars) : BlockSrc → Prop
  | .comment _ body => srcNoBS P body
  | .preamble _ _ => True
  | .string _ key val => srcNoBS P key ∧ IsValue val ∧ srcContentNoBS P val
  | .entry lit key fields _ =>
    (∀ c ∈ (classify P lit).2, P.isWord c = true) ∧ srcNoBS P key ∧
    ∀ f ∈ fields, srcNoBS P f.key ∧ srcContentNoBS P f.val

/-- `d.WF`: `d` is a derivation of the grammar (C02); field keys distinct within an entry; the side
conditions on each block; entry keys and @string keys pairwise distinct -/
def Doc.WF5 (P : PyChars) (d : Doc) : Prop :=
  d.WF P ∧ d.DistinctFields P ∧ (∀ bj ∈ d.items, BlockSrc.WF5 P bj.1) ∧
  (srcEntryKeys P d.items).Nodup ∧ (srcStringKeys P d.items).Nodup

def content_preserved_grammar_full : Prop :=
  ∀ (P : PyChars) (F : BibtexFormat) (d : Doc) (s : Str), PrintOK P → LowerOK P → FormatOK F → Doc.WF5 P d →
    Canon P false d.toks → '\n' :: s = flatten d.toks →
    ∃ rt, roundTrip P F s = .ok rt ∧ rt.lib2.map contentOf = rt.lib1.map contentOf ∧ rt.text2 = rt.text1

/-! ### what is proved -/

variable {P : PyChars}

/-- **The text `write_string` produces** for a writable library: the blocks `render`ed with the
column `wcol` (the `value_column`, or the longest field key + 3 for `"auto"`). -/
theorem written_text (F : BibtexFormat) (L : List Block) (hw : Writable P L) :
    writeDefault P F L = .ok (render F (wcol F L) L) :=
  writeDefault_render F L hw

/-- **print_parse** (all block classes, free-text comments, every separator / indent / column /
trailing-comma setting): the written text parses back to the same sequence of blocks with the same
types, keys, field order and values and the same comment / preamble / @string content. -/
theorem print_parse : print_parse_full := by
  intro P F L hP hF hw
  obtain ⟨L', h1, h2, h3, _⟩ := print_parse_render hP F hF L hw
  exact ⟨_, L', h1, h2, h3⟩

/-- **The re-parsed library is writable again** (so the two theorems can be iterated). -/
theorem reparsed_writable (hP : PrintOK P) (F : BibtexFormat) (hF : FormatOK F) (L : List Block)
    (hw : Writable P L) (t : Str) (L' : List Block) (ht : writeDefault P F L = .ok t)
    (hp : parseDefault P t = .ok L') : L'.map contentOf = L.map contentOf ∧ Writable P L' := by
  obtain ⟨L'', h1, h2, h3, h4⟩ := print_parse_render hP F hF L hw
  rw [h1] at ht; injection ht with ht; subst ht
  rw [h2] at hp; injection hp with hp; subst hp
  exact ⟨h3, writable_congr L L'' h3 hw h4⟩

/-- **fixpoint**: writing the re-parsed library gives the first output byte for byte. -/
theorem fixpoint : fixpoint_full := by
  intro P F L hP hF hw
  obtain ⟨L', h1, h2, h3, h4⟩ := print_parse_render hP F hF L hw
  refine ⟨_, L', h1, h2, ?_⟩
  rw [writeDefault_render F L' (writable_congr L L' h3 hw h4), render_congr F L L' h3]

/-- The written text depends only on the content of the library. -/
theorem write_content_only (F : BibtexFormat) (L₁ L₂ : List Block) (h₁ : Writable P L₁) (h₂ : Writable P L₂)
    (hc : L₁.map contentOf = L₂.map contentOf) : writeDefault P F L₁ = writeDefault P F L₂ := by
  rw [writeDefault_render F L₁ h₁, writeDefault_render F L₂ h₂, render_congr F L₂ L₁ hc]

/-- **parse → write → parse → write** on a text whose parse is writable: the model's `roundTrip`
succeeds, both libraries have the same content and both texts are equal. -/
theorem roundtrip (hP : PrintOK P) (F : BibtexFormat) (hF : FormatOK F) (s : Str) (L : List Block)
    (hs : parseDefault P s = .ok L) (hw : Writable P L) :
    ∃ rt, roundTrip P F s = .ok rt ∧ rt.lib1 = L ∧ rt.lib2.map contentOf = rt.lib1.map contentOf ∧
      rt.text2 = rt.text1 := by
  obtain ⟨L', h1, h2, h3, h4⟩ := print_parse_render hP F hF L hw
  have h5 : writeDefault P F L' = .ok (render F (wcol F L) L) := by
    rw [writeDefault_render F L' (writable_congr L L' h3 hw h4), render_congr F L L' h3]
  refine ⟨⟨L, render F (wcol F L) L, L', render F (wcol F L) L⟩, ?_, rfl, h3, rfl⟩
  simp only [roundTrip, hs, h1, h2, h5, bind, Except.bind, pure, Except.pure]

/-- **parsed_writable**: whatever the text, the library `parse_string` returns has stripped keys,
pairwise distinct live keys and field keys, no adjacent free-text comments and string values
(`parsed_inv`, splitter and pipeline invariants); with the content side conditions it is writable. -/
theorem parsed_writable : parsed_writable_full := by
  intro P s L hP hs hside
  exact parsed_writable_lemma hP.rbWord s L hs hside

/-- what every parsed library satisfies, with no side condition at all -/
theorem parsed_library_invariants (s : Str) (L : List Block) (h : parseDefault P s = .ok L) :
    (∀ b ∈ L, BInv P b) ∧ NoAdjImpl L ∧ (entryKeys L).Nodup ∧ (stringKeys L).Nodup ∧
      StrBlocks L ∧ MdBlocks L := by
  obtain ⟨⟨h1, h2⟩, h3, h4, h5, h6⟩ := parsed_inv s L h
  exact ⟨h1, h2, h3, h4, h5, h6⟩

/-- **content_preserved**: parse → write → parse → write on a document whose parse passes the side
conditions. -/
theorem content_preserved : content_preserved_full := by
  intro P F s L hP hF hs hside
  exact roundtrip hP F hF s L hs (parsed_writable P s L hP hs hside)

/-- `Doc.WF5` is the hypothesis `Doc.OK5` of the lemmas (Lemmas/GrammarDoc.lean), spelled out -/
theorem ok5_of_wf5 (d : Doc) (h : Doc.WF5 P d) : Doc.OK5 P d := by
  refine ⟨h.1, h.2.1, fun bj hbj => ?_, h.2.2.2.1, h.2.2.2.2⟩
  have := h.2.2.1 bj hbj
  cases hb : bj.1 <;> rw [hb] at this <;> exact this

/-- the intermediate fact: the parse of a grammar document passes the content side conditions -/
theorem parsed_grammar_sideOK (hP : PrintOK P) (hL : LowerOK P) (d : Doc) (hd : Doc.WF5 P d) (hc : Canon P false d.toks)
    (s : Str) (hs : '\n' :: s = flatten d.toks) :
    ∃ L, parseDefault P s = .ok L ∧ (∀ b ∈ L, SideOK P b) ∧ Writable P L := by
  obtain ⟨L, hp, hside⟩ := parse_grammar hP hL d (ok5_of_wf5 d hd) hc s hs
  exact ⟨L, hp, hside, parsed_writable P s L hP hp hside⟩

/-- **content_preserved_grammar**: the round trip for a grammar document.  `d` is a derivation of the
dialect grammar with the side conditions `Doc.WF5`: `d.WF`, field keys distinct within an entry, entry
keys and @string keys pairwise distinct; entry types are `\w` words (after lower-casing); no stripped
key or explicit comment and no content of a value (stripped, one enclosing layer removed) ends in a
backslash; @string values are `Value`s.  `Canon` says its tokens are what the lexer produces, and `s` is
the text it spells.  `LowerOK` are three facts about `str.lower` (checked over all code points).  Then
`parse_string s` is a library passing `SideOK` (`parse_grammar`: C02 `split_correct`, re-lexing of the
stripped pieces, the three value shapes `{w}` / `"w"` / bare-or-concatenated, resolution of @string
references; that the type is a fixed point of `lower` not starting with a keyword and that a preamble
does not end in a backslash follow from canonicity), hence parse → write → parse → write succeeds with
equal contents and equal texts. -/
theorem content_preserved_grammar : content_preserved_grammar_full := by
  intro P F d s hP hL hF hd hc hs
  obtain ⟨L, hp, hside⟩ := parse_grammar hP hL d (ok5_of_wf5 d hd) hc s hs
  obtain ⟨rt, h1, _, h3, h4⟩ := content_preserved P F s L hP hF hp hside
  exact ⟨rt, h1, h3, h4⟩

/-- A sufficient, purely lexical condition for a value to be `CleanVal`: its own tokens are
brace-balanced and it does not end in a backslash (`TextOK`). -/
theorem cleanVal_of_textOK (hP : PrintOK P) (v : Str) (h : TextOK P v) : CleanVal P v :=
  cleanVal_of_lex hP.rbWord v h.1 h.2

/-- ... and for an entry field value to be `EncVal`: the tokens of the enclosed text `{v}` are a `Value`
of the grammar and `v` does not end in a backslash (`ValueOK`). -/
theorem encVal_of_valueOK (hP : PrintOK P) (v : Str) (h : ValueOK P v) : EncVal P v :=
  encVal_of_lex hP.rbWord v h.1 h.2

/-- The balanced case is a special case: `CleanVal ⇒ EncVal`, `TextOK ⇒ ValueOK` (so everything proved
for balanced field values before remains a corollary). -/
theorem encVal_of_cleanVal (v : Str) (h : CleanVal P v) : EncVal P v := encVal_of_clean h

theorem valueOK_of_textOK' (hP : PrintOK P) (v : Str) (h : TextOK P v) : ValueOK P v :=
  valueOK_of_textOK hP.rbWord v h

/-- a free-text comment without any `@` is in particular without block start -/
theorem noStart_of_no_at (c : Str) (h : '@' ∉ c) : noStart P c = true := noStart_of_not_mem c h

/-- the same for @string values -/
theorem encBal_of_strValOK (hP : PrintOK P) (v : Str) (h : StrValOK P v) : EncBal P v :=
  encBal_of_lex hP.rbWord v h.1 h.2

theorem encBal_of_cleanVal (v : Str) (h : CleanVal P v) : EncBal P v := encBal_of_clean h

theorem strValOK_of_textOK' (hP : PrintOK P) (v : Str) (h : TextOK P v) : StrValOK P v :=
  strValOK_of_textOK hP.rbWord v h

/-! ### non-vacuity -/

def exF1 : Field := ⟨"title".toList, .str "x{y{z}}".toList, 0⟩
def exF2 : Field := ⟨"averyveryverylongkey".toList, .str "2020".toList, 0⟩
def exF3 : Field := ⟨"t".toList, .str "w".toList, 0⟩
/-- content of the source value `{A} # {B}`: not brace-balanced -/
def exF4 : Field := ⟨"note".toList, .str "A} # {B".toList, 0⟩
/-- content of the source value `{a}{b}` -/
def exF5 : Field := ⟨"adj".toList, .str "a}{b".toList, 0⟩
/-- a field key with an escaped delimiter and a non-block-start `@` (`KeyText`, not `SimpleText`) -/
def exF6 : Field := ⟨"a\\=b@c".toList, .str "v".toList, 0⟩

def exE1 : Entry :=
  { ty := "article".toList, key := "k1".toList, fields := [exF1, exF2, exF4, exF5, exF6], line := 0, raw := [] }

def exE2 : Entry :=
  { ty := "book".toList, key := "".toList,
    fields := [exF3], line := 0, raw := [],
    md := [(Enclosing.REMOVED_ENCLOSING_KEY, .dict [("t".toList, "{".toList)])] }

/-- two entries (a nested-brace value, two concatenation-shaped values with unbalanced content, an empty
key, metadata from a previous parse), two @strings (one with unbalanced content), a
free-text comment, a preamble and an explicit comment -/
def exLib : List Block :=
  [.live (.entry exE1), .live (.string "s".toList (.str "v".toList) 0 [] []),
   .live (.string "s2".toList (.str "a}{b".toList) 0 [] []),
   .live (.impl "mail a@b.org, with = and {".toList 0 [] []), .live (.entry exE2),
   .live (.preamble "x{y{z}}".toList 0 [] []), .live (.expl "2020".toList 0 [] [])]

theorem simple_of_decide (t : Str) (h : t.all simpleChar = true) : SimpleText t :=
  fun c hc => List.all_eq_true.mp h c hc

/-- `KeyText ⇒ KeyOK`: a key that is one text token (every delimiter escaped, no newline, no block
start, no trailing backslash) is a key in the general sense (tokens are text / newline only) -/
theorem keyOK_of_keyText' (k : Str) (h : KeyText P k) : KeyOK P k := keyOK_of_keyText k h

/-- `SimpleText ⇒ KeyText`: everything proved for keys without delimiter / `@` / backslash remains -/
theorem keyText_of_simpleText (k : Str) (h : SimpleText k) : KeyText P k := keyText_of_simple k h

/-- `KeyText` can be decided by one scan (`keyTextB`) -/
theorem keyText_of_scan (k : Str) (h : keyTextB P k = true) : KeyText P k := keyText_of_keyTextB k h

/-- keys may span lines -/
theorem keyOK_newline (hP : PrintOK P) (a b : Str) (ha : KeyOK P a) (hb : KeyOK P b) : KeyOK P (a ++ '\n' :: b) :=
  keyOK_nl hP.nlWord a b ha hb

theorem kt (t : Str) (h : keyTextB asciiChars t = true) : KeyOK asciiChars t :=
  keyOK_of_keyText t (keyText_of_keyTextB t h)

/-- a key with a newline and an escaped comma in it -/
example : KeyOK asciiChars "k\\,1\nx".toList :=
  keyOK_newline printOK_ascii "k\\,1".toList "x".toList (kt _ (by decide)) (kt _ (by decide))

theorem exLib_writable : Writable asciiChars exLib := by
  have c1 : CleanVal asciiChars "x{y{z}}".toList := cleanVal_nested
  have c2 : CleanVal asciiChars "2020".toList := cleanVal_simple _ (simple_of_decide _ (by decide))
  have c3 : CleanVal asciiChars "w".toList := cleanVal_simple _ (simple_of_decide _ (by decide))
  have c4 : CleanVal asciiChars "v".toList := cleanVal_simple _ (simple_of_decide _ (by decide))
  refine ⟨?_, by decide, by decide, by simp [exLib, NoAdjImpl, isImpl]⟩
  intro b hb
  simp only [exLib, List.mem_cons, List.not_mem_nil, or_false] at hb
  rcases hb with rfl | rfl | rfl | rfl | rfl | rfl | rfl
  · refine ⟨by decide, by decide, by decide, by decide, by decide, by decide,
      kt _ (by decide), by decide, ?_, by decide, Or.inl rfl⟩
    intro f hf
    change f ∈ [exF1, exF2, exF4, exF5, exF6] at hf
    simp only [List.mem_cons, List.not_mem_nil, or_false] at hf
    rcases hf with rfl | rfl | rfl | rfl | rfl
    · exact ⟨kt _ (by decide), by decide, _, rfl, encVal_of_clean c1⟩
    · exact ⟨kt _ (by decide), by decide, _, rfl, encVal_of_clean c2⟩
    · exact ⟨kt _ (by decide), by decide, _, rfl, encVal_concat⟩
    · exact ⟨kt _ (by decide), by decide, _, rfl, encVal_adj⟩
    · exact ⟨kt _ (by decide), by decide, _, rfl, encVal_of_clean c4⟩
  · exact ⟨kt _ (by decide), by decide, _, rfl, encBal_of_clean c4⟩
  · exact ⟨kt _ (by decide), by decide, _, rfl, encBal_adj⟩
  · exact ⟨by decide, by decide, by decide⟩
  · refine ⟨by decide, by decide, by decide, by decide, by decide, by decide,
      kt _ (by decide), by decide, ?_, by decide, Or.inr ⟨_, rfl⟩⟩
    intro f hf
    change f ∈ [exF3] at hf
    simp only [List.mem_cons, List.not_mem_nil, or_false] at hf
    subst hf
    exact ⟨kt _ (by decide), by decide, _, rfl, encVal_of_clean c3⟩
  · exact c1
  · exact ⟨c2, by decide⟩

/-- keys that span lines (`KeyOK`, not `KeyText`): entry key `k NL k`, field key `t NL u` -/
def exE3 : Entry :=
  { ty := "a".toList, key := "k\nk".toList, fields := [⟨"t\nu".toList, .str "v".toList, 0⟩], line := 0, raw := [] }

def exLibNL : List Block := [.live (.entry exE3)]

theorem exLibNL_writable : Writable asciiChars exLibNL := by
  have k1 : KeyOK asciiChars "k\nk".toList :=
    keyOK_newline printOK_ascii "k".toList "k".toList (kt _ (by decide)) (kt _ (by decide))
  have k2 : KeyOK asciiChars "t\nu".toList :=
    keyOK_newline printOK_ascii "t".toList "u".toList (kt _ (by decide)) (kt _ (by decide))
  refine ⟨?_, by decide, by decide, by simp [exLibNL, NoAdjImpl]⟩
  intro b hb
  simp only [exLibNL, List.mem_cons, List.not_mem_nil, or_false] at hb
  subst hb
  refine ⟨by decide, by decide, by decide, by decide, by decide, by decide, k1, by decide, ?_, by decide, Or.inl rfl⟩
  intro f hf
  change f ∈ [(⟨"t\nu".toList, .str "v".toList, 0⟩ : Field)] at hf
  simp only [List.mem_cons, List.not_mem_nil, or_false] at hf
  subst hf
  exact ⟨k2, by decide, _, rfl, encVal_of_clean (cleanVal_simple _ (simple_of_decide _ (by decide)))⟩

def exFormat : BibtexFormat :=
  { indent := "  ".toList, valueColumn := .auto, blockSeparator := "\n \n".toList, trailingComma := true }

example : PrintOK asciiChars ∧ FormatOK exFormat ∧ Writable asciiChars exLib :=
  ⟨printOK_ascii, ⟨by decide, by decide⟩, exLib_writable⟩

/-- `print_parse` / `fixpoint` apply to the library with multi-line keys -/
example : ∃ t L', writeDefault asciiChars exFormat exLibNL = .ok t ∧ parseDefault asciiChars t = .ok L' ∧
    L'.map contentOf = exLibNL.map contentOf :=
  print_parse asciiChars exFormat exLibNL printOK_ascii ⟨by decide, by decide⟩ exLibNL_writable

/-- the text the model's write stack produces for the example (kernel evaluation): `auto` column,
trailing commas, two-space indent, separator `"\n \n"` -/
example : writeDefault asciiChars exFormat exLib = .ok
    ("@article{k1,\n  title                = {x{y{z}}},\n  averyveryverylongkey = {2020},\n" ++
     "  note                 = {A} # {B},\n  adj                  = {a}{b},\n  a\\=b@c               = {v},\n}\n\n \n" ++
     "@string{s = {v}}\n\n \n@string{s2 = {a}{b}}\n\n \nmail a@b.org, with = and {\n\n \n@book{,\n  t                    = {w},\n}\n\n \n" ++
     "@preamble{x{y{z}}}\n\n \n@comment{2020}\n").toList := by
  decide +kernel

/-- ... and by `print_parse` / `fixpoint` that text parses back to the same content and is a fixpoint -/
example : ∃ t L', writeDefault asciiChars exFormat exLib = .ok t ∧ parseDefault asciiChars t = .ok L' ∧
    writeDefault asciiChars exFormat L' = .ok t :=
  fixpoint asciiChars exFormat exLib printOK_ascii ⟨by decide, by decide⟩ exLib_writable

theorem exLib_sideOK : ∀ b ∈ exLib, SideOK asciiChars b := by
  have t1 : TextOK asciiChars "x{y{z}}".toList := textOK_nested
  have t2 : TextOK asciiChars "2020".toList := textOK_simple _ (simple_of_decide _ (by decide))
  have t3 : TextOK asciiChars "w".toList := textOK_simple _ (simple_of_decide _ (by decide))
  have t4 : TextOK asciiChars "v".toList := textOK_simple _ (simple_of_decide _ (by decide))
  have hv' : ∀ v, TextOK asciiChars v → ValueOK asciiChars v := fun v h => valueOK_of_textOK (by decide) v h
  intro b hb
  simp only [exLib, List.mem_cons, List.not_mem_nil, or_false] at hb
  rcases hb with rfl | rfl | rfl | rfl | rfl | rfl | rfl
  · refine ⟨by decide, by decide, by decide, by decide, by decide, kt _ (by decide), ?_⟩
    intro f hf
    change f ∈ [exF1, exF2, exF4, exF5, exF6] at hf
    simp only [List.mem_cons, List.not_mem_nil, or_false] at hf
    rcases hf with rfl | rfl | rfl | rfl | rfl
    · exact ⟨kt _ (by decide), fun v hv => by injection hv with hv; subst hv; exact hv' _ t1⟩
    · exact ⟨kt _ (by decide), fun v hv => by injection hv with hv; subst hv; exact hv' _ t2⟩
    · exact ⟨kt _ (by decide), fun v hv => by injection hv with hv; subst hv; exact valueOK_concat⟩
    · exact ⟨kt _ (by decide), fun v hv => by injection hv with hv; subst hv; exact valueOK_adj⟩
    · exact ⟨kt _ (by decide), fun v hv => by injection hv with hv; subst hv; exact hv' _ t4⟩
  · exact ⟨kt _ (by decide), fun v hv => by
      injection hv with hv; subst hv; exact strValOK_of_textOK (by decide) _ t4⟩
  · exact ⟨kt _ (by decide), fun v hv => by injection hv with hv; subst hv; exact strValOK_adj⟩
  · show noStart asciiChars _ = true; decide
  · refine ⟨by decide, by decide, by decide, by decide, by decide, kt _ (by decide), ?_⟩
    intro f hf
    change f ∈ [exF3] at hf
    simp only [List.mem_cons, List.not_mem_nil, or_false] at hf
    subst hf
    exact ⟨kt _ (by decide), fun v hv => by injection hv with hv; subst hv; exact hv' _ t3⟩
  · exact t1
  · exact t2

/-- non-vacuity of `parsed_writable` / `content_preserved`: there is a document (the written text of the
example) whose parse has seven blocks, all passing the side conditions -/
example : ∃ s L, parseDefault asciiChars s = .ok L ∧ L.length = 7 ∧ ∀ b ∈ L, SideOK asciiChars b := by
  obtain ⟨L', _, h2, h3, _⟩ := print_parse_render printOK_ascii exFormat ⟨by decide, by decide⟩ exLib exLib_writable
  refine ⟨_, L', h2, ?_, sideOK_congr exLib L' h3 exLib_sideOK⟩
  have := congrArg List.length h3
  simpa [exLib] using this

/-- `TextOK` is satisfiable: the nested-brace value of the example -/
example : Reparse.endBS false "x{y{z}}".toList = false := by decide

/-- non-vacuity of `content_preserved_grammar`: the document
`@string{s = {x}}` NL `@a{k, t = {A} # {B}, u = "q", w = s}` - an @string, a concatenation, a quoted value and a
reference that the default stack resolves - has a derivation `gDoc` that meets every hypothesis (`Doc.WF5`,
canonical tokens, the text is the flattening of the tokens) for the model's ASCII table -/
theorem gDoc_wf5 : Doc.WF5 asciiChars gDoc :=
  ⟨gDoc_ok5.wf, gDoc_ok5.distinctFields, fun bj hbj => by
    have := gDoc_ok5.blocks bj hbj
    cases hb : bj.1 <;> rw [hb] at this <;> exact this, gDoc_ok5.entryKeys, gDoc_ok5.stringKeys⟩

example : Doc.WF5 asciiChars gDoc ∧ Canon asciiChars false gDoc.toks ∧ '\n' :: gText = flatten gDoc.toks :=
  ⟨gDoc_wf5, gDoc_canon, gDoc_text⟩

example : ∃ rt, roundTrip asciiChars exFormat gText = .ok rt ∧
    rt.lib2.map contentOf = rt.lib1.map contentOf ∧ rt.text2 = rt.text1 :=
  content_preserved_grammar asciiChars exFormat gDoc gText printOK_ascii lowerOK_ascii ⟨by decide, by decide⟩ gDoc_wf5
    gDoc_canon gDoc_text

example : ∃ L, parseDefault asciiChars gText = .ok L ∧ (∀ b ∈ L, SideOK asciiChars b) ∧ Writable asciiChars L :=
  parsed_grammar_sideOK printOK_ascii lowerOK_ascii gDoc gDoc_wf5 gDoc_canon gText gDoc_text

end Bib.C05
