/-
  C05 — parse → write → parse preserves content; written text is a fixpoint.  (under construction)
-/
import BibVerif.Pipeline
namespace Bib.C05
open Bib Bib.Pipeline

/-- the content of a block does not mention raw text, lines or metadata -/
theorem content_ignores_position (e : Entry) (l : Int) (r : Str) (m : MetaD) :
    contentOf (.live (.entry { e with line := l, raw := r, md := m })) = contentOf (.live (.entry e)) := rfl

end Bib.C05
