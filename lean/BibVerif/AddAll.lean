/-
  Model of `Library.add` applied block by block (`Library._add_to_dicts` + append), as the
  splitter and `Library(blocks)` use it: key-safe insertion that wraps a later block with the same
  key in a `DuplicateBlockKeyBlock`.  (The full `Library` with remove/replace is `Library.lean`.)
-/
import BibVerif.Model
namespace Bib

structure KLib where
  /-- `_blocks` in order -/
  blocks : List Block := []
  /-- `_entries_by_key` -/
  eidx : List (Str × Live) := []
  /-- `_strings_by_key` -/
  sidx : List (Str × Live) := []
deriving Repr

def Live.key? : Live → Option Str
  | .entry e => some e.key
  | .string k _ _ _ _ => some k
  | _ => none

/-- `_cast_to_duplicate`: both asserts are explicit (the type assert holds by construction: the two
indexes are separate; the key assert is checked) -/
def castToDuplicate (prev dup : Live) : Except PyErr Block :=
  match dup.key? with
  | some k => if prev.key? = some k then .ok (.dupKey k prev dup) else .error .assertion
  | none => .error .assertion

/-- `self._add_to_dicts(block)` followed by `self._blocks.append(block)` -/
def addOne (L : KLib) (b : Block) : Except PyErr KLib :=
  match b with
  | .live (.entry e) =>
    match L.eidx.lookup e.key with
    | some prev => do
      let w ← castToDuplicate prev (.entry e)
      pure { L with blocks := L.blocks ++ [w] }
    | none => pure { L with blocks := L.blocks ++ [b], eidx := L.eidx ++ [(e.key, .entry e)] }
  | .live (.string k v l r m) =>
    match L.sidx.lookup k with
    | some prev => do
      let w ← castToDuplicate prev (.string k v l r m)
      pure { L with blocks := L.blocks ++ [w] }
    | none => pure { L with blocks := L.blocks ++ [b], sidx := L.sidx ++ [(k, .string k v l r m)] }
  | _ => pure { L with blocks := L.blocks ++ [b] }

def addMany (L : KLib) : List Block → Except PyErr KLib
  | [] => pure L
  | b :: bs => do addMany (← addOne L b) bs

/-- `Library(blocks)` -/
def libraryOfE (bs : List Block) : Except PyErr KLib := addMany {} bs

/-! ### the specification the theorems compare with -/

/-- the first live entry with key `k` in a block list -/
def firstEntry (k : Str) : List Block → Option Live
  | [] => none
  | .live (.entry e) :: bs => if e.key = k then some (.entry e) else firstEntry k bs
  | _ :: bs => firstEntry k bs

def firstString (k : Str) : List Block → Option Live
  | [] => none
  | .live (.string k' v l r m) :: bs => if k' = k then some (.string k' v l r m) else firstString k bs
  | _ :: bs => firstString k bs

/-- what a block becomes when it is added after the blocks `pre`: itself, or — if an earlier live
entry (string) has the same key — a duplicate-key block exposing the key, the first block and the
complete duplicate -/
def addSpec (pre : List Block) (b : Block) : Block :=
  match b with
  | .live (.entry e) =>
    match firstEntry e.key pre with
    | some p => .dupKey e.key p (.entry e)
    | none => b
  | .live (.string k v l r m) =>
    match firstString k pre with
    | some p => .dupKey k p (.string k v l r m)
    | none => b
  | _ => b

/-- `addSpec` along a list: block `i` is added after blocks `0..i-1` -/
def addAllSpec (pre : List Block) : List Block → List Block
  | [] => []
  | b :: bs => addSpec pre b :: addAllSpec (pre ++ [b]) bs

end Bib
