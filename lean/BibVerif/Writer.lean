/-
  Model of `bibtexparser/writer.py`: `BibtexFormat`, `write`, `_treat_block` and friends.

  * `library.blocks` is a list of `Item`s: one of the modelled block classes, or any other
    object (`_treat_block` answers `ValueError("Unknown block type")` for those).
  * The writer collects a list of *pieces* and joins them at the very end; a piece that is not a
    `str` (an int field value, a name list, ...) makes `"".join` raise `TypeError` - after every
    block has been treated, which is why pieces are modelled (`Piece`) and joined last.
  * `str.format(n=lines)` on the configured comment is modelled for templates built from literal
    text, `{{`, `}}` and the replacement field `{n}` (`tplModelled`).  Any other replacement field
    (positional, other names, conversions `!r`, format specs `:>5`, attribute/index access) is
    OUTSIDE THE MODEL: `formatN` answers `KeyError` there (what CPython does for an unknown field
    name) and the correspondence run only sends `tplModelled` templates.
  * `write` replaces `value_column == "auto"` on a *copy* of the format object; `writeSt` returns the
    caller's format object next to the result so that "left unchanged" is a statement.
-/
import BibVerif.Model
namespace Bib.Writer

/-- `BibtexFormat.value_column`: an int ≥ 0 (the setter rejects negatives) or `"auto"` -/
inductive Col
  | num (n : Nat)
  | auto
deriving DecidableEq, Repr, Inhabited

structure BibtexFormat where
  indent : Str := ['\t']
  valueColumn : Col := .num 0
  blockSeparator : Str := ['\n', '\n']
  trailingComma : Bool := false
  parsingFailedComment : Str := "% WARNING Parsing failed for the following {n} lines.".toList
deriving DecidableEq, Repr, Inhabited

/-- an element of `library.blocks` -/
inductive Item
  | block (b : Block)
  | other
deriving DecidableEq, Repr, Inhabited

/-- an element of the list handed to `"".join` -/
inductive Piece
  | s (x : Str)
  | nonstr
deriving DecidableEq, Repr, Inhabited

def pieceOfVal : Val → Piece
  | .str s => .s s
  | _ => .nonstr

/-- `"".join(pieces)`: `TypeError` at the first item that is not a `str` -/
def joinPieces : List Piece → Except PyErr Str
  | [] => .ok []
  | .s x :: r =>
    match joinPieces r with
    | .ok t => .ok (x ++ t)
    | .error e => .error e
  | .nonstr :: _ => .error .typeError

def VAL_SEP : Str := " = ".toList

/-- `template.format(n=n)`, scanning left to right like CPython's `MarkupIterator`:
`{{`/`}}` are literal braces, `{n}` is replaced by `str(n)`, a single `}` or a `{` at the very end is a
`ValueError`; every other replacement field is outside the model (answered as `KeyError`). -/
def prependOk (pre : Str) : Except PyErr Str → Except PyErr Str
  | .ok t => .ok (pre ++ t)
  | .error e => .error e

def formatN (n : Nat) : Str → Except PyErr Str
  | [] => .ok []
  | c :: r =>
    if c = '{' then
      match r with
      | '{' :: r' => prependOk ['{'] (formatN n r')
      | 'n' :: '}' :: r' => prependOk (natToStr n) (formatN n r')
      | [] => .error .valueError
      | _ => .error .keyError
    else if c = '}' then
      match r with
      | '}' :: r' => prependOk ['}'] (formatN n r')
      | _ => .error .valueError
    else prependOk [c] (formatN n r)

/-- the template uses no replacement field other than `{n}` (single braces that make CPython raise
`ValueError` are inside the model) -/
def tplModelled : Str → Bool
  | [] => true
  | c :: r =>
    if c = '{' then
      match r with
      | '{' :: r' => tplModelled r'
      | 'n' :: '}' :: r' => tplModelled r'
      | [] => true
      | _ => false
    else if c = '}' then
      match r with
      | '}' :: r' => tplModelled r'
      | _ => true
    else tplModelled r

/-- `_val_intent_string`: the spaces between key and `" = "`.  Called with the format whose
`value_column` has been resolved to an int; `"auto" - int` would be a `TypeError`. -/
def valIndentString (F : BibtexFormat) (key : Str) : Except PyErr Str :=
  match F.valueColumn with
  | .num col =>
    let length : Int := (col : Int) - (key.length : Int) - (VAL_SEP.length : Int)
    .ok (if length ≤ 0 then [] else List.replicate length.toNat ' ')
  | .auto => .error .typeError

/-- the pieces appended for field number `i` of `n` (`_treat_entry`, loop body) -/
def fieldPieces (F : BibtexFormat) (n i : Nat) (f : Field) : Except PyErr (List Piece) :=
  match valIndentString F f.key with
  | .error e => .error e
  | .ok pad =>
    .ok ([.s F.indent, .s f.key, .s pad, .s VAL_SEP, pieceOfVal f.value] ++
         (if F.trailingComma || decide ((i : Int) < (n : Int) - 1) then [.s [',']] else []) ++
         [.s ['\n']])

/-- the loop `for i, field in enumerate(block.fields)` -/
def fieldsLoop (F : BibtexFormat) (n : Nat) : Nat → List Field → Except PyErr (List Piece)
  | _, [] => .ok []
  | i, f :: rest =>
    match fieldPieces F n i f with
    | .error e => .error e
    | .ok p =>
      match fieldsLoop F n (i + 1) rest with
      | .error e => .error e
      | .ok r => .ok (p ++ r)

/-- `_treat_entry` -/
def treatEntry (F : BibtexFormat) (e : Entry) : Except PyErr (List Piece) :=
  match fieldsLoop F e.fields.length 0 e.fields with
  | .error err => .error err
  | .ok body => .ok ([.s ['@'], .s e.ty, .s ['{'], .s e.key, .s [',', '\n']] ++ body ++ [.s ['}', '\n']])

/-- `_treat_failed_block` -/
def treatFailed (P : PyChars) (F : BibtexFormat) (raw : Str) : Except PyErr (List Piece) :=
  let lines := splitlinesCount P raw
  match formatN lines F.parsingFailedComment with
  | .error e => .error e
  | .ok c => .ok [.s c, .s ['\n'], .s raw, .s ['\n']]

/-- `_treat_block`: the `isinstance` chain -/
def treatBlock (P : PyChars) (F : BibtexFormat) : Item → Except PyErr (List Piece)
  | .block (.live (.entry e)) => treatEntry F e
  | .block (.live (.string k v _ _ _)) => .ok [.s "@string{".toList, .s k, .s VAL_SEP, pieceOfVal v, .s ['}', '\n']]
  | .block (.live (.preamble v _ _ _)) => .ok [.s ("@preamble{".toList ++ v ++ ['}', '\n'])]
  | .block (.live (.expl c _ _ _)) => .ok [.s "@comment{".toList, .s c, .s ['}', '\n']]
  | .block (.live (.impl c _ _ _)) => .ok [.s c, .s ['\n']]
  | .block b => treatFailed P F b.raw      -- every remaining class is a ParsingFailedBlock
  | .other => .error .valueError

/-- `library.entries`: the blocks that are `Entry` instances (wrapped entries are not) -/
def liveEntries : List Item → List Entry
  | [] => []
  | .block (.live (.entry e)) :: r => e :: liveEntries r
  | _ :: r => liveEntries r

/-- keys of `entry.fields_dict`, in dict order (first occurrence of each key) -/
def dictKeys (fs : List Field) : List Str :=
  fs.foldl (fun acc f => if acc.contains f.key then acc else acc ++ [f.key]) []

/-- `_calculate_auto_value_align`: the two nested loops over `library.entries` / `fields_dict` -/
def maxKeyLen (L : List Item) : Nat :=
  (liveEntries L).foldl (fun m e => (dictKeys e.fields).foldl (fun m k => max m k.length) m) 0

def autoValueAlign (L : List Item) : Nat := maxKeyLen L + VAL_SEP.length

/-- the format object the blocks are written with: the caller's, or for `"auto"` a deep copy whose
`value_column` is the computed int -/
def resolveFormat (F : BibtexFormat) (L : List Item) : BibtexFormat :=
  match F.valueColumn with
  | .auto => { F with valueColumn := .num (autoValueAlign L) }
  | .num _ => F

/-- `for i, block in enumerate(library.blocks): pieces.extend(...); if i < len - 1: separator` -/
def writeLoop (P : PyChars) (F : BibtexFormat) (n : Nat) : Nat → List Item → Except PyErr (List Piece)
  | _, [] => .ok []
  | i, b :: rest =>
    match treatBlock P F b with
    | .error e => .error e
    | .ok p =>
      match writeLoop P F n (i + 1) rest with
      | .error e => .error e
      | .ok r => .ok (p ++ (if (i : Int) < (n : Int) - 1 then [.s F.blockSeparator] else []) ++ r)

/-- `write(library, bibtex_format)`: the result (text or exception) and the caller's format object
after the call -/
def writeSt (P : PyChars) (F : BibtexFormat) (L : List Item) : Except PyErr Str × BibtexFormat :=
  let F' := resolveFormat F L          -- `deepcopy` + assignment on the copy
  let res := match writeLoop P F' L.length 0 L with
    | .error e => .error e
    | .ok pieces => joinPieces pieces
  (res, F)

def write (P : PyChars) (F : BibtexFormat) (L : List Item) : Except PyErr Str := (writeSt P F L).1

end Bib.Writer
