/-
  C07: the copy patterns of the middleware framework as programs of `Heap.lean`, generated
  from the *shape* of a library (its blocks with their numbers of fields).

  object layout (slot keys):   Library {0: blocks list, 1: entries dict, 2: strings dict}
                               list    {i: item i}
                               Block   {0: fields list | value, 1: metadata dict, 2: key/raw… (immutable)}
                               Field   {0: key, 1: value}
                               Format  {0: indent, 1: value_column, 2: separator, 3: trailing comma, 4: comment}
  Immutable attributes are `V.imm`; exception objects of failed blocks are `V.imm` as well
  (`ParsingException.__deepcopy__` returns `self`: shared by design).
-/
import BibVerif.Heap
namespace Bib.Heap

/-- a block of the library: `some n` = an Entry with `n` fields, `none` = any other block -/
abbrev Shape := List (Option Nat)

/-- build the abstract heap of a library of the given shape; returns the heap and the address of
the Library object. Layout: [Library, blocks-list, (block, fields-list, meta, field…)*]. -/
def mkLibrary (sh : Shape) : Heap × Nat :=
  let rec go (σ : Heap) (items : List (Nat × V)) (i : Nat) : Shape → Heap × List (Nat × V)
    | [] => (σ, items)
    | b :: rest =>
      let base := σ.length
      match b with
      | none =>
        -- block {0: value (imm), 1: meta}; meta dict (empty)
        go (σ ++ [⟨10, [(0, .imm 1), (1, .ref (base + 1)), (2, .imm 2)]⟩, ⟨1, []⟩])
          (items ++ [(i, .ref base)]) (i + 1) rest
      | some n =>
        -- entry {0: fields list, 1: meta, 2: key}; fields list; meta dict; n fields
        let fields : List Obj := (List.range n).map fun _ => ⟨20, [(0, .imm 3), (1, .imm 4)]⟩
        let flist : Obj := ⟨0, (List.range n).map fun j => (j, .ref (base + 3 + j))⟩
        go (σ ++ [⟨11, [(0, .ref (base + 1)), (1, .ref (base + 2)), (2, .imm 2)]⟩, flist, ⟨1, []⟩] ++ fields)
          (items ++ [(i, .ref base)]) (i + 1) rest
  let (σ, items) := go [⟨30, [(0, .ref 1), (1, .imm 0), (2, .imm 0)]⟩, ⟨0, []⟩] [] 0 sh
  (σ.set 1 ⟨0, items⟩, 0)

/-- program builder: instructions so far and the number of registers in use -/
structure B where
  code : List Instr := []
  n : Nat

def B.emit (b : B) (i : Instr) (pushes : Bool) : B × Nat :=
  ({ code := b.code ++ [i], n := if pushes then b.n + 1 else b.n }, b.n)

/-- the per-block body every shipped block middleware is an instance of: it may rewrite the
value of every field (or the block's own value), replace the field list by a new list of the same
field objects, and record metadata — all through its block argument `rb` -/
def blockBody (b : B) (rb : Nat) : Option Nat → B
  | none =>
    let (b, rc) := b.emit (.const 7) true
    let (b, _) := b.emit (.store rb 0 rc) false
    let (b, rm) := b.emit (.load rb 1) true
    let (b, _) := b.emit (.store rm 5 rc) false
    b
  | some n =>
    let (b, rfls) := b.emit (.load rb 0) true
    let rec fields (b : B) (j : Nat) (acc : List (Nat × Nat)) : Nat → B × List (Nat × Nat)
      | 0 => (b, acc)
      | k + 1 =>
        let (b, rf) := b.emit (.load rfls j) true
        let (b, rc) := b.emit (.const 8) true
        let (b, _) := b.emit (.store rf 1 rc) false
        fields b (j + 1) (acc ++ [(j, rf)]) k
    let (b, regsF) := fields b 0 [] n
    -- entry.fields = sorted(entry.fields …): a new list holding the same field objects
    let (b, rnl) := b.emit (.alloc 0 regsF) true
    let (b, _) := b.emit (.store rb 0 rnl) false
    let (b, rm) := b.emit (.load rb 1) true
    let (b, rc) := b.emit (.const 9) true
    let (b, _) := b.emit (.store rm 5 rc) false
    b

/-- `BlockMiddleware.transform`: per block `deepcopy` (copy mode) or the block itself (in-place
mode), the body, then `Library(blocks=[…])`.  Register 0 holds the input library. -/
def progBlockMw (inplace : Bool) (sh : Shape) : List Instr :=
  let b : B := { n := 1 }
  let (b, rl) := b.emit (.load 0 0) true
  let rec go (b : B) (i : Nat) (acc : List (Nat × Nat)) : Shape → B × List (Nat × Nat)
    | [] => (b, acc)
    | s :: rest =>
      let (b, rb) := b.emit (.load rl i) true
      let (b, rb) := if inplace then (b, rb) else b.emit (.deepcopy rb) true
      let b := blockBody b rb s
      go b (i + 1) (acc ++ [(i, rb)]) rest
  let (b, items) := go b 0 [] sh
  let (b, rnew) := b.emit (.alloc 0 items) true
  let (b, rz) := b.emit (.const 0) true
  let (b, _) := b.emit (.alloc 30 [(0, rnew), (1, rz), (2, rz)]) true
  b.code

/-- `LibraryMiddleware` in copy mode (e.g. ResolveStringReferences): `deepcopy(library)`, then the
body on every block of the copy; the copy is returned -/
def progLibraryMw (inplace : Bool) (sh : Shape) : List Instr :=
  let b : B := { n := 1 }
  let (b, rL) := if inplace then (b, 0) else b.emit (.deepcopy 0) true
  let (b, rl) := b.emit (.load rL 0) true
  let rec go (b : B) (i : Nat) : Shape → B
    | [] => b
    | s :: rest =>
      let (b, rb) := b.emit (.load rl i) true
      go (blockBody b rb s) (i + 1) rest
  (go b 0 sh).code

/-- `SortBlocksByTypeAndKeyMiddleware.transform`: `blocks = deepcopy(library.blocks)`, sort (in
place, on the copy), `Library(blocks=[…])` -/
def progSortBlocks (sh : Shape) : List Instr :=
  let b : B := { n := 1 }
  let (b, rl) := b.emit (.load 0 0) true
  let (b, rc) := b.emit (.deepcopy rl) true
  let rec items (b : B) (i : Nat) (acc : List (Nat × Nat)) : Shape → B × List (Nat × Nat)
    | [] => (b, acc)
    | _ :: rest =>
      let (b, rb) := b.emit (.load rc i) true
      items b (i + 1) ([(i, rb)] ++ acc.map fun (k, r) => (k, r)) rest
  let (b, its) := items b 0 [] sh
  -- `blocks.sort(...)`: the copied list is permuted in place (here: reversed)
  let perm := (its.map (·.2)).reverse
  let (b, _) := b.emit (.setSlots rc ((List.range perm.length).zip perm)) false
  let (b, rnew) := b.emit (.alloc 0 ((List.range perm.length).zip perm)) true
  let (b, rz) := b.emit (.const 0) true
  let (b, _) := b.emit (.alloc 30 [(0, rnew), (1, rz), (2, rz)]) true
  b.code

/-- `writer.write` with `value_column = "auto"`: `bibtex_format = deepcopy(bibtex_format)`, then
`bibtex_format.value_column = auto_val` (register 0 = the format object); `copyFirst = false` is the
variant that forgets the copy -/
def progWriteFormat (copyFirst : Bool) : List Instr :=
  if copyFirst then [.deepcopy 0, .const 5, .store 1 1 2] else [.const 5, .store 0 1 1]

/-- objects of the input that differ after the run (addresses < n0) -/
def changedOld (σ σ' : Heap) : List Nat :=
  (List.range σ.length).filter fun a => σ'[a]? != σ[a]?

/-- is some object below `n0` reachable from `v`? (bounded depth-first search) -/
def reachesOld (σ : Heap) (n0 : Nat) : Nat → V → Bool
  | _, .imm _ => false
  | 0, .ref a => decide (a < n0)
  | fuel + 1, .ref a =>
    if a < n0 then true else
    match σ[a]? with
    | none => false
    | some o => o.slots.any fun (_, w) => reachesOld σ n0 fuel w

end Bib.Heap
