/-
  Model of `entrypoint.py` (stack construction and application) and of
  `BlockMiddleware.transform` (middleware.py: per-block dispatch and splicing).

  A middleware is a function on the library's block list that may raise; the splitter, the
  writer and the default stacks are parameters here, so the theorems hold for every choice of them
  (the shipped middlewares are separate models; probes are used by the correspondence run).
-/
import BibVerif.AddAll
namespace Bib

/-- `Middleware.transform` observed on the block list of the library -/
abbrev Mw := List Block → Except PyErr (List Block)

/-- apply the stack left to right (`for middleware in stack: library = middleware.transform(library)`) -/
def applyStack : List Mw → List Block → Except PyErr (List Block)
  | [], bs => .ok bs
  | m :: ms, bs => do applyStack ms (← m bs)

/-- `_build_parse_stack` -/
def buildParseStack (dflt : List Mw) (parseStack appendMw : Option (List Mw)) : Except PyErr (List Mw) :=
  match parseStack, appendMw with
  | some _, some _ => .error .valueError
  | some s, none => .ok s
  | none, none => .ok dflt
  | none, some a => .ok (dflt ++ a)

/-- `_build_unparse_stack` -/
def buildUnparseStack (dflt : List Mw) (unparseStack prependMw : Option (List Mw)) : Except PyErr (List Mw) :=
  match unparseStack, prependMw with
  | some _, some _ => .error .valueError
  | some s, none => .ok s
  | none, none => .ok dflt
  | none, some p => .ok (p ++ dflt)

/-- `parse_string`: `splitted` is `Splitter(text).split().blocks` -/
def parseString (dflt : List Mw) (splitted : Except PyErr (List Block))
    (parseStack appendMw : Option (List Mw)) : Except PyErr (List Block) := do
  -- NB: the real code splits first and builds the stack afterwards
  let bs ← splitted
  let stack ← buildParseStack dflt parseStack appendMw
  applyStack stack bs

/-- `write_string` with writer `w` -/
def writeString {α} (dflt : List Mw) (w : List Block → Except PyErr α) (bs : List Block)
    (unparseStack prependMw : Option (List Mw)) : Except PyErr α := do
  let stack ← buildUnparseStack dflt unparseStack prependMw
  w (← applyStack stack bs)

/-! ### `BlockMiddleware.transform` -/

/-- what `transform_block` may return -/
inductive TRes
  | none                          -- `None`: the block is removed
  | one (b : Block)               -- a block
  | many (bs : List Block)        -- a collection of blocks (possibly empty)
  | badCollection                 -- a collection containing a non-block: TypeError
  | illegal                       -- any other object (e.g. a generator, an int): TypeError
deriving Repr

/-- the loop of `BlockMiddleware.transform` before `Library(blocks=blocks)` -/
def spliceAll (f : Block → TRes) : List Block → Except PyErr (List Block)
  | [] => .ok []
  | b :: bs =>
    match f b with
    | .none => spliceAll f bs
    | .one b' => do pure (b' :: (← spliceAll f bs))
    | .many l => do pure (l ++ (← spliceAll f bs))
    | .badCollection => .error .typeError
    | .illegal => .error .typeError

/-- `BlockMiddleware.transform`: splice, then rebuild the library (`Library(blocks=blocks)`) -/
def blockTransform (f : Block → TRes) : Mw := fun bs => do
  let L ← libraryOfE (← spliceAll f bs)
  pure L.blocks

end Bib
