/-
  Model of `_PyStringTransformerMiddleware` (latex_encoding.py): the wrapper that applies a
  string converter to every str field value, to the strings of a `NameParts` value and to @string
  values, collecting error messages.  The converter itself (pylatexenc + the rule lists of
  `LatexEncodingMiddleware` / `LatexDecodingMiddleware`) is a parameter:

      conv s = (result, errorMessage)     -- `_transform_python_value_string`: ("…", "") on success,
                                          -- (s, str(e)) when the third-party converter raised
-/
import BibVerif.AddAll
namespace Bib

abbrev Conv := Str → Str × Str

/-- `_transform_all_strings`: results, and the error messages appended in order -/
def convAll (conv : Conv) : List Str → List Str × List Str
  | [] => ([], [])
  | s :: rest =>
    let (r, e) := conv s
    let (rs, es) := convAll conv rest
    (r :: rs, e :: es)

/-- one field of `transform_entry`: the new value and the error messages it contributes.
Order of the NameParts attributes as in the code: first, last, von, jr. -/
def convVal (conv : Conv) : Val → Val × List Str
  | .str s => let (r, e) := conv s; (.str r, [e])
  | .part p =>
    let (f, e1) := convAll conv p.first
    let (l, e2) := convAll conv p.last
    let (v, e3) := convAll conv p.von
    let (j, e4) := convAll conv p.jr
    (.part { first := f, von := v, last := l, jr := j }, e1 ++ e2 ++ e3 ++ e4)
  | v => (v, [])         -- "Cannot python-str transform field …": logged, untouched

def convFields (conv : Conv) : List Field → List Field × List Str
  | [] => ([], [])
  | f :: rest =>
    let (v, e) := convVal conv f.value
    let (fs, es) := convFields conv rest
    ({ f with value := v } :: fs, e ++ es)

/-- `transform_entry` -/
def latexEntry (conv : Conv) (e : Entry) : Block :=
  let (fs, errs) := convFields conv e.fields
  let e' := { e with fields := fs }
  if (errs.filter (· ≠ [])).isEmpty then .live (.entry e') else .mwError .partialMw (.entry e')

/-- `transform_string` -/
def latexString (conv : Conv) (k : Str) (v : Val) (l : Int) (r : Str) (m : MetaD) : Block :=
  match v with
  | .str s =>
    let (s', e) := conv s
    if e = [] then .live (.string k (.str s') l r m) else .mwError .partialMw (.string k (.str s') l r m)
  | v => .live (.string k v l r m)

/-- `transform_block` of the LaTeX middlewares on one block (other blocks are returned as they are) -/
def latexBlock (conv : Conv) : Block → Block
  | .live (.entry e) => latexEntry conv e
  | .live (.string k v l r m) => latexString conv k v l r m
  | b => b

/-- the middleware on a library: per block, then `Library(blocks)` -/
def latexLibrary (conv : Conv) (bs : List Block) : List Block :=
  addAllSpec [] (bs.map (latexBlock conv))

end Bib
