/-
  Python `str` primitives used by python-bibtexparser, as total functions on `List Char`.

  Everything that depends on the Unicode database enters through the structure `PyChars`;
  theorems are stated for every `PyChars` (plus explicit hypotheses where needed), the
  driver instantiates it with ASCII defaults overridden by a per-request table computed
  by the running CPython.
-/
namespace Bib

abbrev Str := List Char

/-- The Unicode-dependent character classes of CPython that the modelled code consults. -/
structure PyChars where
  /-- `str.isspace` on one character -/
  isSpace : Char → Bool
  /-- regex `\w` (re, str pattern) -/
  isWord : Char → Bool
  /-- `str.isalpha` -/
  isAlpha : Char → Bool
  /-- `str.isupper` on one character -/
  isUpper : Char → Bool
  /-- `str.isdigit` -/
  isDigit : Char → Bool
  /-- decimal value for `int()`, `none` for digits such as '²' that `int` rejects -/
  decVal : Char → Option Nat
  /-- `str.lower` on one character (may yield several characters) -/
  lowerC : Char → List Char
  /-- line boundary for `str.splitlines` (other than the `\r\n` pair rule) -/
  isLineBreak : Char → Bool

/-- CPython's behaviour on ASCII characters (the driver overrides non-ASCII ones per request) -/
def asciiChars : PyChars where
  isSpace c := c = ' ' || c = '\t' || c = '\n' || c = '\r' || c.toNat = 11 || c.toNat = 12 ||
    (28 ≤ c.toNat && c.toNat ≤ 31)
  isWord c := c.isAlphanum || c = '_'
  isAlpha c := c.isAlpha
  isUpper c := c.isUpper
  isDigit c := c.isDigit
  decVal c := if c.isDigit then some (c.toNat - 48) else none
  lowerC c := [c.toLower]
  isLineBreak c := c = '\n' || c = '\r' || c.toNat = 11 || c.toNat = 12 ||
    (28 ≤ c.toNat && c.toNat ≤ 30)

variable (P : PyChars)

def lower (s : Str) : Str := s.flatMap P.lowerC

def lstrip (s : Str) : Str := s.dropWhile P.isSpace
def rstrip (s : Str) : Str := (s.reverse.dropWhile P.isSpace).reverse
def strip (s : Str) : Str := rstrip P (lstrip P s)

def allSpace (s : Str) : Prop := ∀ c ∈ s, P.isSpace c = true

def startsWith (p s : Str) : Bool := p.isPrefixOf s
def endsWith (p s : Str) : Bool := p.isSuffixOf s

/-- `len(s.splitlines())`: the number of line breaks (`\r\n` counting once) plus one if text
follows the last break. `cur` = the current line is non-empty, `prevCR` = the previous
character was a carriage return. -/
def splitlinesGo (cur prevCR : Bool) : Str → Nat
  | [] => if cur then 1 else 0
  | c :: rest =>
    if c = '\n' && prevCR then splitlinesGo false false rest
    else if c = '\r' then 1 + splitlinesGo false true rest
    else if c = '\n' || P.isLineBreak c then 1 + splitlinesGo false false rest
    else splitlinesGo true false rest

def splitlinesCount (s : Str) : Nat := splitlinesGo P false false s

/-- `"sep".join(parts)` -/
def joinWith (sep : Str) : List Str → Str
  | [] => []
  | [x] => x
  | x :: y :: r => x ++ sep ++ joinWith sep (y :: r)

/-- decimal rendering of a natural number / an integer, as `str(int)` does -/
def natToStr (n : Nat) : Str := (Nat.toDigits 10 n)
def intToStr (i : Int) : Str :=
  match i with
  | .ofNat n => natToStr n
  | .negSucc n => '-' :: natToStr (n + 1)

/-! ### basic lemmas -/

theorem mem_takeWhile_imp {α} {p : α → Bool} {l : List α} {x : α} (h : x ∈ l.takeWhile p) :
    p x = true := by
  have := List.all_takeWhile (l := l) (p := p)
  exact (List.all_eq_true.mp this) x h

theorem all_of_dropWhile_nil {α} {p : α → Bool} {l : List α} (h : l.dropWhile p = []) :
    ∀ x ∈ l, p x = true := by
  induction l with
  | nil => simp
  | cons a t ih =>
    by_cases ha : p a = true
    · simp [ha] at h
      intro x hx; rcases List.mem_cons.mp hx with rfl | hx
      · exact ha
      · exact ih h x hx
    · simp [ha] at h

theorem allSpace_nil : allSpace P [] := by simp [allSpace]

theorem allSpace_append {a b : Str} (ha : allSpace P a) (hb : allSpace P b) :
    allSpace P (a ++ b) := by
  intro c hc; rcases List.mem_append.mp hc with h | h
  · exact ha c h
  · exact hb c h

theorem allSpace_takeWhile (r : Str) : allSpace P (r.takeWhile P.isSpace) := by
  intro c hc; exact mem_takeWhile_imp hc

theorem allSpace_of_rstrip_nil (r : Str) (h : rstrip P r = []) : allSpace P r := by
  unfold rstrip at h
  have h' : r.reverse.dropWhile P.isSpace = [] := by simpa using h
  intro c hc
  have : ∀ x ∈ r.reverse, P.isSpace x = true := all_of_dropWhile_nil h'
  exact this c (List.mem_reverse.mpr hc)

/-- the stripped part of a region, with whitespace on both sides -/
theorem region_decomp (r : Str) :
    ∃ trail, allSpace P trail ∧
      r = r.takeWhile P.isSpace ++ rstrip P (r.dropWhile P.isSpace) ++ trail := by
  refine ⟨((r.dropWhile P.isSpace).reverse.takeWhile P.isSpace).reverse, ?_, ?_⟩
  · intro c hc
    have := List.mem_reverse.mp hc
    exact (mem_takeWhile_imp this)
  · unfold rstrip
    rw [List.append_assoc, ← List.reverse_append, List.takeWhile_append_dropWhile,
      List.reverse_reverse, List.takeWhile_append_dropWhile]

/-- `strip` keeps a contiguous middle part: `s = lead ++ strip s ++ trail`, both whitespace. -/
theorem strip_decomp (s : Str) :
    ∃ lead trail, allSpace P lead ∧ allSpace P trail ∧ s = lead ++ strip P s ++ trail := by
  obtain ⟨trail, ht, h⟩ := region_decomp P s
  exact ⟨s.takeWhile P.isSpace, trail, allSpace_takeWhile P s, ht, h⟩

end Bib
