/-
  Model of `parse_single_name_into_parts(name, strict=True)`
  (bibtexparser/middlewares/names.py:216-508).

  * `scan`: the single pass over the characters (lines 275-422).  The Python code pulls the
    character after a backslash out of the iterator; here that is the pending-escape flag `esc`,
    so that `run` is a structural recursion over the input.  `sections`/`cases` are two lists
    that the code always extends in lockstep; the model keeps each word together with its case
    (`Word`), `done` = `sections[:-1]`, `cur` = `sections[-1]`.
  * `assign`: the First/von/Last/Jr partition (lines 424-508).  The index arithmetic
    (`cases.index(0)`, `cases[-2::-1].index(0)`, `rindex`) is written with
    `takeWhile`/`dropWhile` over the words of the section.
  * The four `InvalidNameError` reasons are the constructors of `NameErr`.

  `str.isalpha` / `str.isupper` come from `P : PyChars`.
-/
import BibVerif.Model
namespace Bib.NameP

-- core has no `DecidableEq (Except ε α)`; the instance name stays inside this namespace
deriving instance DecidableEq for Except

/-- the `reason` of an `InvalidNameError` -/
inductive NameErr
  | unmatchedClose   -- "Unmatched closing brace"
  | tooManyCommas    -- "Too many commas"
  | unterminated     -- "Unterminated opening brace"
  | trailingComma    -- "Trailing comma at end of name"
deriving DecidableEq, Repr, Inhabited

/-- case of a word: `none` = caseless (-1), `some false` = lower (0), `some true` = upper (1) -/
abbrev Case := Option Bool

/-- a word with its case (`sections[i][j]`, `cases[i][j]`) -/
abbrev Word := Str × Case

/-- `whitespace = set(" ~\r\n\t")` -/
def isWs (c : Char) : Bool := c = ' ' || c = '~' || c = '\r' || c = '\n' || c = '\t'

structure S where
  /-- `sections[:-1]` with `cases[:-1]` -/
  done : List (List Word) := []
  /-- `sections[-1]` with `cases[-1]` -/
  cur : List Word := []
  word : Str := []
  case : Case := none
  level : Nat := 0
  bracestart : Bool := false
  controlseq : Bool := true
  specialchar : Bool := false
  /-- the previous character was a backslash whose `next(nameiter)` is this character -/
  esc : Bool := false
deriving Repr, Inhabited, DecidableEq

variable (P : PyChars)

/-- `if (case == -1) and char.isalpha(): case = 1 if char.isupper() else 0` -/
def learn (cs : Case) (c : Char) : Case :=
  if cs.isNone && P.isAlpha c then some (P.isUpper c) else cs

/-- `if word: sections[-1].append("".join(word)); …` at a separator -/
def pushWord (s : S) : S :=
  if s.word.isEmpty then s
  else { s with cur := s.cur ++ [(s.word, s.case)], word := [], case := none,
                controlseq := false, specialchar := false }

/-- the loop body from `# Start of a braced expression` on, for the character `c` -/
def plain (s : S) (c : Char) : Except NameErr S :=
  if c = '{' then
    .ok { s with level := s.level + 1, word := s.word ++ [c], bracestart := true,
                 controlseq := false, specialchar := false }
  else
    let s := { s with bracestart := false }
    if c = '}' then
      if s.level = 0 then .error .unmatchedClose
      else .ok { s with level := s.level - 1, controlseq := false, specialchar := false,
                        word := s.word ++ [c] }
    else if s.level > 0 then
      if s.controlseq then .ok { s with controlseq := P.isAlpha c, word := s.word ++ [c] }
      else if s.specialchar then .ok { s with case := learn P s.case c, word := s.word ++ [c] }
      else .ok { s with word := s.word ++ [c] }
    else if c = ',' || isWs c then
      let s := pushWord s
      if c = ',' then
        if s.done.length + 1 < 3 then .ok { s with done := s.done ++ [s.cur], cur := [] }
        else .error .tooManyCommas
      else .ok s
    else .ok { s with word := s.word ++ [c], case := learn P s.case c }

/-- one character of the loop -/
def stepc (s : S) (c : Char) : Except NameErr S :=
  if s.esc then
    let s := { s with esc := false }
    if isWs c then
      -- whitespace cannot be escaped: copy the backslash, handle the whitespace normally
      plain P { s with word := s.word ++ ['\\'] } c
    else
      let s :=
        if s.bracestart then
          { s with bracestart := false, controlseq := P.isAlpha c, specialchar := true }
        else { s with case := learn P s.case c }
      .ok { s with word := s.word ++ ['\\', c] }
  else if c = '\\' then .ok { s with esc := true }
  else plain P s c

/-- the `for char in nameiter` loop -/
def run (s : S) : Str → Except NameErr S
  | [] => .ok s
  | c :: r =>
    match stepc P s c with
    | .error e => .error e
    | .ok s' => run s' r

/-- after the loop: a backslash at the very end is just a backslash; unterminated brace; the
final word; the trailing (empty) section. Result: `sections` zipped with `cases`. -/
def finish (s : S) : Except NameErr (List (List Word)) :=
  let word := if s.esc then s.word ++ ['\\'] else s.word
  if s.level > 0 then .error .unterminated
  else
    let cur := if word.isEmpty then s.cur else s.cur ++ [(word, s.case)]
    if cur.isEmpty then
      if s.done.length + 1 > 1 then .error .trailingComma else .ok []
    else .ok (s.done ++ [cur])

def init : S := {}

/-- the comma sections of a name, each a list of words with their cases -/
def scan (name : Str) : Except NameErr (List (List Word)) :=
  match run P init name with
  | .error e => .error e
  | .ok s => finish s

def isLowerW (w : Word) : Bool := w.2 == some false
def notLower (w : Word) : Bool := !isLowerW w
def words (l : List Word) : List Str := l.map Prod.fst

/-- drop the elements satisfying `p` from the end -/
def rstripBy {α} (p : α → Bool) (l : List α) : List α := (l.reverse.dropWhile p).reverse

/-- the four parts as words with their cases (the `NameParts` under construction) -/
structure WParts where
  first : List Word := []
  von : List Word := []
  last : List Word := []
  jr : List Word := []
deriving Repr, DecidableEq, Inhabited

def WParts.toNameParts (w : WParts) : NameParts :=
  { first := words w.first, von := words w.von, last := words w.last, jr := words w.jr }

/-- `x if x and x[0] else []` for a section -/
def sectionIfContent (sec : List Word) : List Word :=
  match sec with
  | [] => []
  | w :: _ => if w.1.isEmpty then [] else sec

/-- forms 2 and 3 (lines 466-505) -/
def assign23 (p0 jr first : List Word) (three : Bool) : WParts :=
  let f := sectionIfContent first
  let j := if three then sectionIfContent jr else []
  if p0.length = 1 then { first := f, jr := j, last := p0 }
  else if p0.any isLowerW then
    -- split = rindex(lcases[:-1], 0, -1) + 1
    let vonEnd := rstripBy notLower p0.dropLast
    { first := f, jr := j, von := p0.take vonEnd.length, last := p0.drop vonEnd.length }
  else { first := f, jr := j, last := p0 }

/-- lines 420-505, on words with their cases -/
def assignW : List (List Word) → WParts
  | [] => {}
  | [p0] =>
    if p0.length = 1 then { last := p0 }
    else if p0.length = 2 then { first := p0.take 1, last := p0.drop 1 }
    else
      let init := p0.dropLast
      if init.any isLowerW then
        -- p0[: lastl + 1], the words up to the last lower-case word that is not the final one
        let vonEnd := rstripBy notLower init
        { first := vonEnd.takeWhile notLower,
          von := vonEnd.dropWhile notLower,
          last := p0.drop vonEnd.length }
      else { first := init, last := p0.drop init.length }
  | [p0, f] => assign23 p0 [] f false
  | [p0, j, f] => assign23 p0 j f true
  | _ => {}   -- the scanner never returns more than three sections

/-- the `NameParts` returned: the words without their cases -/
def assign (secs : List (List Word)) : NameParts := (assignW secs).toNameParts

/-- `parse_single_name_into_parts(name, strict=True)` -/
def parse (name : Str) : Except NameErr NameParts :=
  match scan P name with
  | .error e => .error e
  | .ok secs => .ok (assign secs)

end Bib.NameP
