/-
  Model of `NameParts.merge_last_name_first` / `merge_first_name_first`
  (bibtexparser/middlewares/names.py:113-154) and of the four name middlewares
  `SeparateCoAuthors`, `MergeCoAuthors`, `SplitNameParts`, `MergeNameParts` with the shared
  `_NameTransformerMiddleware.transform_entry` (lines 35-70, 73-98, 157-213).
-/
import BibVerif.Names.CoAuthors
import BibVerif.Names.Parse
namespace Bib.Names
open Bib.NameP

/-- `" ".join(ws)` -/
def joinSp (ws : List Str) : Str := joinWith [' '] ws

/-- `" ".join(x) if x else None` -/
def part (ws : List Str) : Option Str := if ws.isEmpty then none else some (joinSp ws)

/-- keep the values that are truthy (`if name`): not `None` and not the empty string -/
def truthy (xs : List (Option Str)) : List Str :=
  xs.filterMap fun x => match x with
    | some s => if s.isEmpty then none else some s
    | none => none

/-- `escape_last_slash`: append a backslash if the string ends in an odd number of them -/
def escapeLastSlash (s : Str) : Str :=
  let numSlashes := (s.reverse.takeWhile (· = '\\')).length    -- len(s) - len(s.rstrip("\\"))
  if numSlashes % 2 = 0 then s else s ++ ['\\']

/-- `NameParts.merge_last_name_first`: `von Last, Jr, First` -/
def mergeLastFirst (p : NameParts) : Str :=
  let vonLast := joinSp (truthy [part p.von, part p.last])
  joinWith ", ".toList ((truthy [some vonLast, part p.jr, part p.first]).map escapeLastSlash)

/-- `NameParts.merge_first_name_first` (filters on `is not None` only) -/
def mergeFirstFirst (p : NameParts) : Str :=
  joinSp ([part p.first, part p.von, part p.last, part p.jr].filterMap id)

/-! ### the middlewares -/

/-- what `_transform_field_value` can raise -/
inductive FErr
  | invalid (e : NameErr)      -- InvalidNameError: caught by `transform_entry`
  | py (e : PyErr)             -- anything else leaves the middleware
deriving DecidableEq, Repr, Inhabited

inductive Op
  | separate          -- SeparateCoAuthors
  | mergeCo           -- MergeCoAuthors
  | splitParts        -- SplitNameParts
  | mergeParts (last : Bool)   -- MergeNameParts(style="last" / "first")
deriving DecidableEq, Repr, Inhabited

variable (P : PyChars)

/-- `[parse_single_name_into_parts(n) for n in name]` -/
def parseAll : List Str → Except FErr (List NameParts)
  | [] => .ok []
  | n :: r =>
    match parse P n with
    | .error e => .error (.invalid e)
    | .ok p =>
      match parseAll r with
      | .error e => .error e
      | .ok ps => .ok (p :: ps)

/-- `_transform_field_value` of the four classes on a field value.  A Python list of `str` is
`.names`, a list of `NameParts` is `.parts`; the empty list is both. -/
def transformValue : Op → Val → Except FErr Val
  -- split_multiple_persons_names(name): `name.strip` needs a str
  | .separate, .str s => .ok (.names (CoAuth.split s))
  | .separate, _ => .error (.py .attributeError)
  -- `" and ".join(name) if isinstance(name, list) else name`
  | .mergeCo, .names l => .ok (.str (CoAuth.join l))
  | .mergeCo, .parts [] => .ok (.str [])
  | .mergeCo, .parts (_ :: _) => .error (.py .typeError)
  | .mergeCo, v => .ok v
  -- SplitNameParts: not a list ⇒ ValueError
  | .splitParts, .names l =>
    match parseAll P l with
    | .ok ps => .ok (.parts ps)
    | .error e => .error e
  | .splitParts, .parts [] => .ok (.parts [])
  | .splitParts, .parts (_ :: _) => .error (.py .typeError)       -- iterating a NameParts
  | .splitParts, _ => .error (.py .valueError)
  -- MergeNameParts: the guard is `not isinstance(name, list) and all(...)`
  | .mergeParts l, .parts ps => .ok (.names (ps.map (if l then mergeLastFirst else mergeFirstFirst)))
  | .mergeParts _, .names [] => .ok (.names [])
  | .mergeParts _, .names (_ :: _) => .error (.py .attributeError)
  | .mergeParts _, .str [] => .error (.py .valueError)            -- all(()) is True
  | .mergeParts _, .str (_ :: _) => .error (.py .attributeError)  -- 'str' has no merge_…
  | .mergeParts _, _ => .error (.py .typeError)                   -- not iterable

/-- `("author", "editor", "translator")` -/
def nameFields : List Str := ["author".toList, "editor".toList, "translator".toList]

/-- the `for field in entry.fields` loop: fields converted so far, and the error that stopped it -/
def mapFields (f : Val → Except FErr Val) : List Field → List Field × Option FErr
  | [] => ([], none)
  | fld :: r =>
    if nameFields.contains fld.key then
      match f fld.value with
      | .ok v =>
        let (r', e) := mapFields f r
        ({ fld with value := v } :: r', e)
      | .error e => (fld :: r, some e)
    else
      let (r', e) := mapFields f r
      (fld :: r', e)

/-- `_NameTransformerMiddleware.transform_entry` -/
def transformEntry (op : Op) (e : Entry) : Except PyErr Block :=
  match mapFields (transformValue P op) e.fields with
  | (fs, none) => .ok (.live (.entry { e with fields := fs }))
  | (fs, some (.invalid _)) => .ok (.mwError .invalidName (.entry { e with fields := fs }))
  | (_, some (.py err)) => .error err

/-- `BlockMiddleware.transform_block`: only entries are touched -/
def transformBlock (op : Op) : Block → Except PyErr Block
  | .live (.entry e) => transformEntry P op e
  | b => .ok b

/-- a stack of name middlewares applied to one block, in order -/
def applyOps : List Op → Block → Except PyErr Block
  | [], b => .ok b
  | op :: r, b =>
    match transformBlock P op b with
    | .error e => .error e
    | .ok b' => applyOps r b'

/-- the empty Python list has no element type: canonical form for comparison with CPython -/
def normVal : Val → Val
  | .parts [] => .names []
  | v => v

end Bib.Names
