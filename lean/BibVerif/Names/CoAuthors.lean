/-
  Model of `split_multiple_persons_names` (bibtexparser/middlewares/names.py:511-663) and of
  `MergeCoAuthors._transform_field_value` (`" and ".join`).

  The Python loop walks the (stripped) string once with six "steps" looking for
  whitespace, `a`, `n`, `d`, whitespace, next word.  An escape consumes the following character
  (`next(namesiter)`); here this is a pending-escape flag so that the whole function is one
  `foldl` over the characters.  `pos` counts the characters consumed so far, so inside `stepc`
  the index of the current character is the old `pos` (Python's `pos - 1` after `pos += 1`).

  Nothing here depends on the Unicode database: the whitespace set is the literal `" \r\n\t"`.
-/
import BibVerif.Model
namespace Bib.CoAuth

/-- START_WHITESPACE, FIND_A, FIND_N, FIND_D, END_WHITESPACE, NEXT_WORD -/
inductive Step | startWs | findA | findN | findD | endWs | nextWord
deriving DecidableEq, Repr, Inhabited

/-- `char in set(" \r\n\t")` -/
def isWs (c : Char) : Bool := c = ' ' || c = '\r' || c = '\n' || c = '\t'

structure M where
  step : Step := .startWs
  /-- number of characters consumed -/
  pos : Nat := 0
  /-- `bracelevel` -/
  level : Nat := 0
  /-- `possible_end` -/
  possibleEnd : Nat := 0
  /-- start of the open span `spans[-1][0]` -/
  curStart : Nat := 0
  /-- the finished spans `spans[:-1]`, reversed -/
  done : List (Nat × Nat) := []
  /-- the previous character was a backslash that escapes this one -/
  esc : Bool := false
deriving Repr, Inhabited, DecidableEq

def init : M := {}

/-- `spans[-1].append(possible_end); spans.append([pos - 1])` -/
def M.newSpan (m : M) (start : Nat) : M :=
  { m with done := (m.curStart, m.possibleEnd) :: m.done, curStart := start }

/-- the six-way `if step == …` chain for an ordinary character `c` at index `p`, brace level 0 -/
def plainStep (m : M) (p : Nat) (c : Char) : M :=
  match m.step with
  | .startWs => if isWs c then { m with step := .findA, possibleEnd := p } else m
  | .findA => if c = 'a' || c = 'A' then { m with step := .findN }
              else if isWs c then m else { m with step := .startWs }
  | .findN => if c = 'n' || c = 'N' then { m with step := .findD }
              else if isWs c then { m with step := .findA, possibleEnd := p }
              else { m with step := .startWs }
  | .findD => if c = 'd' || c = 'D' then { m with step := .endWs }
              else if isWs c then { m with step := .findA, possibleEnd := p }
              else { m with step := .startWs }
  | .endWs => if isWs c then { m with step := .nextWord } else { m with step := .startWs }
  | .nextWord => if isWs c then m else { m.newSpan p with step := .startWs }

/-- one character of the loop (with the character the escape swallowed as a separate step) -/
def stepc (m : M) (c : Char) : M :=
  let p := m.pos
  let m := { m with pos := m.pos + 1 }
  if m.esc then { m with esc := false }
  else if c = '\\' then
    let m := if m.step = .nextWord then m.newSpan p else m
    { m with step := .startWs, esc := true }
  else if c = '{' then
    let m := if m.step = .nextWord then m.newSpan p else m
    { m with level := m.level + 1, step := .startWs }
  else if c = '}' then
    { m with level := m.level - 1, step := .startWs }
  else if m.level > 0 then { m with step := .startWs }
  else plainStep m p c

def run (m : M) (t : Str) : M := t.foldl stepc m

/-- `names.strip(" \r\n\t")` -/
def stripWs (s : Str) : Str := ((s.dropWhile isWs).reverse.dropWhile isWs).reverse

/-- `names[a:b]` -/
def slice (t : Str) (ab : Nat × Nat) : Str := (t.drop ab.1).take (ab.2 - ab.1)

/-- the spans after the loop, the last one closed at the end of the string (`None`) -/
def spans (t : Str) : List (Nat × Nat) :=
  let m := run init t
  ((m.curStart, t.length) :: m.done).reverse

/-- `split_multiple_persons_names` -/
def split (s : Str) : List Str :=
  let t := stripWs s
  if t.isEmpty then [] else (spans t).map (slice t)

/-- `" and ".join(names)` -/
def join (names : List Str) : Str := joinWith " and ".toList names

end Bib.CoAuth
