/-
  BibTeX's case of ONE word, as a function of the word alone (C13).

  `wordCase P w` is a plain left fold over the characters of the word `w`; it does not refer to
  the scanner model (`NameP.stepc`, `NameP.S`): it knows nothing about sections, separators or
  the word under construction.  It mirrors `word_case` of harness/names_util.py:

  * the first letter that counts decides (`learn`): upper 1, lower 0; no such letter: caseless -1;
  * letters count at brace depth 0, and as the character of an escape `\e` that does not open a
    special character;
  * an escape `\e` standing directly after an opening brace opens a *special character* with a
    control sequence: the letters following the backslash and the one non-letter that ends them
    do not count, the letters after that (up to the next brace) do;
  * ordinary brace groups are skipped;
  * a backslash in front of whitespace (or at the very end) is not an escape.

  The Python reference looks one character ahead (`w[i + 1] not in NAME_WS`); here that is the
  pending flag `esc`, so that the function is a fold.  The brace depth is an `Int` as in the
  reference (a word of a valid name never drives it below 0).
-/
import BibVerif.Names.Parse
namespace Bib.NameP

/-- the state of `word_case`: `case, level, bracestart, controlseq, special` and the pending
backslash -/
structure W where
  case : Case := none
  level : Int := 0
  bracestart : Bool := false
  controlseq : Bool := false
  special : Bool := false
  /-- the previous character was a backslash whose successor is this character -/
  esc : Bool := false
deriving Repr, Inhabited, DecidableEq

variable (P : PyChars)

/-- a character that is not (the second half of) an escape -/
def wplain (t : W) (c : Char) : W :=
  if c = '{' then
    { t with level := t.level + 1, bracestart := true, controlseq := false, special := false }
  else if c = '}' then
    { t with bracestart := false, level := t.level - 1, controlseq := false, special := false }
  else if t.level > 0 then
    if t.controlseq then { t with bracestart := false, controlseq := P.isAlpha c }
    else if t.special then { t with bracestart := false, case := learn P t.case c }
    else { t with bracestart := false }
  else { t with bracestart := false, case := learn P t.case c }

/-- one character of the word -/
def wstep (t : W) (c : Char) : W :=
  if t.esc then
    if isWs c then wplain P { t with esc := false } c      -- the backslash was just a backslash
    else if t.bracestart then
      { t with esc := false, bracestart := false, controlseq := P.isAlpha c, special := true }
    else { t with esc := false, case := learn P t.case c }
  else if c = '\\' then { t with esc := true }
  else wplain P t c

/-- the fold over the characters of a word -/
def wrun (w : Str) : W := w.foldl (wstep P) {}

/-- the case of the word `w` in the scanner's type: `none` caseless, `some false` lower,
`some true` upper -/
def wordCaseC (w : Str) : Case := (wrun P w).case

/-- `-1` caseless, `0` lower, `1` upper -/
def caseInt : Case → Int
  | none => -1
  | some false => 0
  | some true => 1

/-- BibTeX's case of the word `w`: 1 upper, 0 lower, -1 caseless -/
def wordCase (w : Str) : Int := caseInt (wordCaseC P w)

end Bib.NameP
