/-
  The name middlewares at the level of a whole library, and the two entry points of C14's second
  sentence:

    parse_string(text, append_middleware=[SeparateCoAuthors(), SplitNameParts()])
        = default parse, then each appended middleware over the whole library    (`parseNames`)
    write_string(lib, prepend_middleware=[MergeNameParts(), MergeCoAuthors()])
        = each prepended middleware over the whole library, then the default write (`writeNames`)

  `entrypoint.py` runs `for middleware in stack: library = middleware.transform(library)`, and
  `BlockMiddleware.transform` (middleware.py:76-103) is `Library(blocks=[transform_block(b) for b in
  library.blocks])` - one middleware over ALL blocks, then the next (`applyMws`, with `libraryOf` =
  `Library(blocks)` of MwCommon.lean after every middleware).  `applyOpsLib` is the block-by-block reading
  (all ops on the first block, then all on the second ...); Lemmas/NamesPipeline.lean shows that both
  succeed together with the same result on every library whose live keys are unique (every `Library`).
-/
import BibVerif.Names.Merge
import BibVerif.MwCommon
import BibVerif.Pipeline
namespace Bib.Names
open Bib

variable (P : PyChars)

/-- `BlockMiddleware.transform` of one name middleware: the blocks one by one, in order (the first
exception leaves the middleware), then `Library(blocks)` -/
def mwLib (op : Op) (L : List Block) : Except PyErr (List Block) :=
  match L.mapM (transformBlock P op) with
  | .ok out => .ok (libraryOf out)
  | .error e => .error e

/-- `for middleware in stack: library = middleware.transform(library)` -/
def applyMws : List Op → List Block → Except PyErr (List Block)
  | [], L => .ok L
  | op :: r, L =>
    match mwLib P op L with
    | .error e => .error e
    | .ok L' => applyMws r L'

/-- the block-by-block reading: `applyOps P ops` on every block in order (first error wins); no
`Library(blocks)` in between -/
def applyOpsLib (ops : List Op) (L : List Block) : Except PyErr (List Block) :=
  L.mapM (applyOps P ops)

/-- `parse_string(text, append_middleware=[SeparateCoAuthors(), SplitNameParts()])` -/
def parseNames (text : Str) : Except PyErr (List Block) :=
  match Pipeline.parseDefault P text with
  | .error e => .error e
  | .ok L => applyMws P [.separate, .splitParts] L

/-- `write_string(library, prepend_middleware=[MergeNameParts(), MergeCoAuthors()], bibtex_format=F)` -/
def writeNames (F : Writer.BibtexFormat) (L : List Block) : Except PyErr Str :=
  match applyMws P [.mergeParts true, .mergeCo] L with
  | .error e => .error e
  | .ok L' => Pipeline.writeDefault P F L'

/-- parse with the split middlewares, write with the merge middlewares, parse again -/
structure NamesTrip where
  lib1 : List Block
  merged : List Block
  text : Str
  lib2 : List Block

def namesTrip (F : Writer.BibtexFormat) (text : Str) : Except PyErr NamesTrip :=
  match parseNames P text with
  | .error e => .error e
  | .ok lib1 =>
    match applyMws P [.mergeParts true, .mergeCo] lib1 with
    | .error e => .error e
    | .ok merged =>
      match Pipeline.writeDefault P F merged with
      | .error e => .error e
      | .ok t =>
        match parseNames P t with
        | .error e => .error e
        | .ok lib2 => .ok { lib1 := lib1, merged := merged, text := t, lib2 := lib2 }

end Bib.Names
