/-
  Model of bibtexparser/middlewares/sorting_entry_fields.py.

  `sorted(xs, key=k)` is `List.mergeSort` with `le a b := k a ≤ k b` (a stable sort; that CPython's
  `sorted` is one is in the trusted base).  Python compares `str` keys by code point: `keyLe`.
-/
import BibVerif.MwCommon
namespace Bib.SortFields
open Bib

/-- Python's `a <= b` on `str`: lexicographic by code point (`¬ b < a`) -/
def keyLe (a b : Str) : Bool := decide (a ≤ b)

/-- `sorted(entry.fields, key=lambda f: f.key)` -/
def sortAlpha (fs : List Field) : List Field := fs.mergeSort (fun a b => keyLe a.key b.key)

def alphaKey : Str := "sorted_fields_alphabetically".toList
def customKey : Str := "sorted_fields_custom".toList

/-- `SortFieldsAlphabeticallyMiddleware.transform_entry` (sorting_entry_fields.py:20-23) -/
def alphaEntry (e : Entry) : Entry :=
  { e with fields := sortAlpha e.fields, md := mdSet e.md alphaKey (.bool true) }

/-- `len(set(xs))`: the number of distinct elements -/
def distinct : List Str → List Str
  | [] => []
  | a :: r => if a ∈ r then distinct r else a :: distinct r

/-- `SortFieldsCustomMiddleware.__init__` (sorting_entry_fields.py:46-58): the stored order list, or
`ValueError` when it has duplicates (after lower-casing unless `case_sensitive`) -/
def mkOrder (P : PyChars) (order : List Str) (caseSensitive : Bool) : Except PyErr (List Str) :=
  let o := if !caseSensitive then order.map (lower P) else order
  if o.length ≠ (distinct o).length then .error .valueError else .ok o

/-- `_sort_key` (sorting_entry_fields.py:62-68): index in the order list, `len(order)` when absent -/
def rank (P : PyChars) (o : List Str) (caseSensitive : Bool) (f : Field) : Nat :=
  let key := if !caseSensitive then lower P f.key else f.key
  match o.idxOf? key with
  | some i => i
  | none => o.length

/-- `sorted(entry.fields, key=_sort_key)` -/
def sortCustom (P : PyChars) (o : List Str) (caseSensitive : Bool) (fs : List Field) : List Field :=
  fs.mergeSort (fun a b => decide (rank P o caseSensitive a ≤ rank P o caseSensitive b))

/-- `SortFieldsCustomMiddleware.transform_entry` (sorting_entry_fields.py:61-72) -/
def customEntry (P : PyChars) (o : List Str) (caseSensitive : Bool) (e : Entry) : Entry :=
  { e with fields := sortCustom P o caseSensitive e.fields, md := mdSet e.md customKey (.strs o) }

/-- `SortFieldsAlphabeticallyMiddleware().transform(Library(blocks)).blocks` -/
def transformAlpha (bs : List Block) : List Block :=
  libraryOf (bs.map (mapEntries alphaEntry))

/-- `SortFieldsCustomMiddleware(order, case_sensitive).transform(Library(blocks)).blocks` -/
def transformCustom (P : PyChars) (order : List Str) (caseSensitive : Bool) (bs : List Block) :
    Except PyErr (List Block) :=
  match mkOrder P order caseSensitive with
  | .error e => .error e
  | .ok o => .ok (libraryOf (bs.map (mapEntries (customEntry P o caseSensitive))))

end Bib.SortFields
