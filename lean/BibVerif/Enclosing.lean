/-
  Model of `bibtexparser/middlewares/enclosing.py`:
  `RemoveEnclosingMiddleware` (`_strip_enclosing`, `transform_entry`, `transform_string`) and
  `AddEnclosingMiddleware` (`_enclose`, `transform_entry`, `transform_string`), plus the per-block
  dispatch of `BlockMiddleware.transform` they run under.

  * Python dicts (`parser_metadata`, the `removed_enclosing` dict) are insertion-ordered association
    lists with update-in-place / append / pop semantics (`assocSet`, `assocPop`).
  * `value.strip()` on a value that is not a `str` (int, list, any object) is an `AttributeError`.
  * `str(value)` / f-string formatting is modelled for `str` and `int` values (`pyStr`); for lists,
    `NameParts` lists and other objects the rendering is Python's `repr` and OUTSIDE THE MODEL:
    `enclose` answers `TypeError` there and the correspondence run sends str/int values only.
  * The constants `ENTRY_POTENTIALLY_INT_FIELDS`, `STRINGS_CAN_BE_UNESCAPED_INTS`,
    `REMOVED_ENCLOSING_KEY` are regenerated from the module on every run (Generated/Enclosing.lean).
  * `BlockMiddleware.transform` ends with `Library(blocks)`; no key changes here, so re-adding the
    blocks of a library is the identity (C09 `survives_default_stack`) and is not modelled again.
    With in-place modification the `previous_block` of a duplicate-key wrapper *is* the live block
    (same object), so it shows the transformation too; with copies it does not.
-/
import BibVerif.Model
import BibVerif.Generated.Enclosing
namespace Bib.Enclosing
open Bib

def REMOVED_ENCLOSING_KEY : Str := Generated.Enclosing.removedEnclosingKey
def NO_ENCLOSING : Str := "no-enclosing".toList

/-! ### dict operations -/

/-- `d[k] = v` -/
def assocSet {β : Type} (d : List (Str × β)) (k : Str) (v : β) : List (Str × β) :=
  match d with
  | [] => [(k, v)]
  | (k', v') :: r => if k' = k then (k', v) :: r else (k', v') :: assocSet r k v

/-- `d.get(k)` -/
def assocGet {β : Type} (d : List (Str × β)) (k : Str) : Option β :=
  match d with
  | [] => none
  | (k', v') :: r => if k' = k then some v' else assocGet r k

/-- the dict after `d.pop(k, None)` -/
def assocErase {β : Type} (d : List (Str × β)) (k : Str) : List (Str × β) :=
  match d with
  | [] => []
  | (k', v') :: r => if k' = k then r else (k', v') :: assocErase r k

/-! ### RemoveEnclosingMiddleware -/

/-- `_strip_enclosing` -/
def stripEnclosing (P : PyChars) (v : Str) : Str × Str :=
  let value := strip P v
  if decide (value.length ≥ 2) && startsWith ['{'] value && endsWith ['}'] value then
    ((value.drop 1).dropLast, ['{'])
  else if decide (value.length ≥ 2) && startsWith ['"'] value && endsWith ['"'] value then
    ((value.drop 1).dropLast, ['"'])
  else (value, NO_ENCLOSING)

/-- the loop of `transform_entry`: strips every field, filling the `metadata` dict -/
def removeFields (P : PyChars) : List Field → List (Str × Str) → Except PyErr (List Field × List (Str × Str))
  | [], md => .ok ([], md)
  | f :: r, md =>
    match f.value with
    | .str s =>
      match removeFields P r (assocSet md f.key (stripEnclosing P s).2) with
      | .ok (fs, md') => .ok ({ f with value := .str (stripEnclosing P s).1 } :: fs, md')
      | .error e => .error e
    | _ => .error .attributeError        -- `value.strip()` on a non-str

/-- `RemoveEnclosingMiddleware.transform_entry` -/
def removeEntry (P : PyChars) (e : Entry) : Except PyErr Entry :=
  match removeFields P e.fields [] with
  | .error err => .error err
  | .ok (fs, md) => .ok { e with fields := fs, md := assocSet e.md REMOVED_ENCLOSING_KEY (.dict md) }

/-- `transform_block` of the remove middleware: entries and strings, everything else unchanged -/
def removeLive (P : PyChars) : Live → Except PyErr Live
  | .entry e =>
    match removeEntry P e with
    | .ok e' => .ok (.entry e')
    | .error err => .error err
  | .string k v l r m =>
    match v with
    | .str s => .ok (.string k (.str (stripEnclosing P s).1) l r
                      (assocSet m REMOVED_ENCLOSING_KEY (.str (stripEnclosing P s).2)))
    | _ => .error .attributeError
  | b => .ok b

/-! ### AddEnclosingMiddleware -/

structure AddCfg where
  reusePrevious : Bool
  encloseIntegers : Bool
  /-- `"{"` or `"\""` (anything else is rejected by `__init__`) -/
  defaultEnclosing : Str
deriving DecidableEq, Repr, Inhabited

/-- `AddEnclosingMiddleware.__init__`'s argument check -/
def AddCfg.valid (c : AddCfg) : Bool := c.defaultEnclosing = ['{'] || c.defaultEnclosing = ['"']

/-- `str(value)` where it is modelled -/
def pyStr : Val → Option Str
  | .str s => some s
  | .int i => some (intToStr i)
  | _ => none

/-- `s.isdigit()` -/
def isDigitStr (P : PyChars) (s : Str) : Bool := !s.isEmpty && s.all P.isDigit

/-- the tail of `_enclose`: wrap `value` (rendered `sv`) according to `enclosing` -/
def wrapWith (enclosing : Meta) (value : Val) (sv : Str) : Except PyErr Val :=
  match enclosing with
  | .str e =>
    if e = ['{'] then .ok (.str ('{' :: sv ++ ['}']))
    else if e = ['"'] then .ok (.str ('"' :: sv ++ ['"']))
    else if e = NO_ENCLOSING then .ok value
    else .error .valueError
  | _ => .error .valueError

/-- `_enclose(value, metadata_enclosing, apply_int_rule)` -/
def enclose (P : PyChars) (cfg : AddCfg) (value : Val) (mdEnc : Option Meta) (applyIntRule : Bool) :
    Except PyErr Val :=
  match pyStr value with
  | none => .error .typeError           -- rendering outside the model (see header)
  | some sv =>
    match (if cfg.reusePrevious then mdEnc else none) with
    | some enc => wrapWith enc value sv
    | none =>
      if applyIntRule && !cfg.encloseIntegers && isDigitStr P sv then .ok (.str sv)
      else wrapWith (.str cfg.defaultEnclosing) value sv

/-- `metadata_enclosing.get(field.key, None) if metadata_enclosing is not None else None` -/
def prevEnclosing (mdEnc : Option Meta) (key : Str) : Except PyErr (Option Meta) :=
  match mdEnc with
  | none => .ok none
  | some (.dict d) => .ok ((assocGet d key).map Meta.str)
  | some _ => .error .attributeError    -- `.get` on something that is not a dict

def isIntField (key : Str) : Bool := Generated.Enclosing.entryPotentiallyIntFields.contains key

/-- the loop of `AddEnclosingMiddleware.transform_entry` -/
def addFields (P : PyChars) (cfg : AddCfg) (mdEnc : Option Meta) : List Field → Except PyErr (List Field)
  | [] => .ok []
  | f :: r =>
    match prevEnclosing mdEnc f.key with
    | .error e => .error e
    | .ok prev =>
      match enclose P cfg f.value prev (isIntField f.key) with
      | .error e => .error e
      | .ok v =>
        match addFields P cfg mdEnc r with
        | .error e => .error e
        | .ok fs => .ok ({ f with value := v } :: fs)

/-- `AddEnclosingMiddleware.transform_entry` (pops the metadata) -/
def addEntry (P : PyChars) (cfg : AddCfg) (e : Entry) : Except PyErr Entry :=
  match addFields P cfg (assocGet e.md REMOVED_ENCLOSING_KEY) e.fields with
  | .error err => .error err
  | .ok fs => .ok { e with fields := fs, md := assocErase e.md REMOVED_ENCLOSING_KEY }

/-- `transform_block` of the add middleware (`transform_string` reads the metadata, no pop) -/
def addLive (P : PyChars) (cfg : AddCfg) : Live → Except PyErr Live
  | .entry e =>
    match addEntry P cfg e with
    | .ok e' => .ok (.entry e')
    | .error err => .error err
  | .string k v l r m =>
    match enclose P cfg v (assocGet m REMOVED_ENCLOSING_KEY) Generated.Enclosing.stringsCanBeUnescapedInts with
    | .ok v' => .ok (.string k v' l r m)
    | .error err => .error err
  | b => .ok b

/-! ### `BlockMiddleware.transform` -/

/-- one block: live blocks are transformed; failed blocks are returned as they are ("Unknown block
type" warning), except that an in-place run is visible through `previous_block` (aliasing) -/
def mapBlock (inplace : Bool) (f : Live → Except PyErr Live) : Block → Except PyErr Block
  | .live l =>
    match f l with
    | .ok l' => .ok (.live l')
    | .error e => .error e
  | .dupKey k p d =>
    if inplace then
      match f p with
      | .ok p' => .ok (.dupKey k p' d)
      | .error e => .error e
    else .ok (.dupKey k p d)
  | b => .ok b

def mapBlocks (inplace : Bool) (f : Live → Except PyErr Live) : List Block → Except PyErr (List Block)
  | [] => .ok []
  | b :: r =>
    match mapBlock inplace f b with
    | .error e => .error e
    | .ok b' =>
      match mapBlocks inplace f r with
      | .error e => .error e
      | .ok r' => .ok (b' :: r')

/-- `RemoveEnclosingMiddleware(allow_inplace_modification=inplace).transform(library).blocks` -/
def removeLib (P : PyChars) (inplace : Bool) (bs : List Block) : Except PyErr (List Block) :=
  mapBlocks inplace (removeLive P) bs

/-- `AddEnclosingMiddleware(...).transform(library).blocks` -/
def addLib (P : PyChars) (cfg : AddCfg) (inplace : Bool) (bs : List Block) : Except PyErr (List Block) :=
  mapBlocks inplace (addLive P cfg) bs

end Bib.Enclosing
