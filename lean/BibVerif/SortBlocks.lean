/-
  Model of bibtexparser/middlewares/sorting_blocks.py (`SortBlocksByTypeAndKeyMiddleware`).

  * The type order is a tuple of classes; `tuple.index(block.__class__)` compares classes by identity,
    so a block is "listed" only under its exact class (`BType`): a `DuplicateBlockKeyBlock` is not a
    `ParsingFailedBlock` for this purpose.  `BType.block` stands for a `Block` subclass no block is an
    exact instance of (the abstract `Block` itself), `BType.notBlock` for a class that is not a
    `Block` subclass (rejected by the constructor with `ValueError`).
  * `block.key` exists on `Entry`, `String` and `DuplicateBlockKeyBlock` only; keys are `str`
    (compared by code point).  Sort keys are the tuples `(index or len(order), key)`.
  * `list.sort` / `sorted` = `List.mergeSort` (stable).  `deepcopy` is the identity on values.
  * `Library(blocks)` at the end re-adds the blocks (`libraryOf`): a library whose entry keys and
    string keys are already unique (every `Library` is) comes back as it is.
-/
import BibVerif.MwCommon
namespace Bib.SortBlocks
open Bib

/-- the exact class of a block, as far as `tuple.index` can tell -/
inductive BType
  | string | preamble | entry | impl | expl | failed | mwError | dupKey | dupField | block | notBlock
deriving DecidableEq, Repr, Inhabited

/-- `block.__class__` / `type(block)` -/
def btype : Block → BType
  | .live (.entry _) => .entry
  | .live (.string ..) => .string
  | .live (.preamble ..) => .preamble
  | .live (.expl ..) => .expl
  | .live (.impl ..) => .impl
  | .failed .. => .failed
  | .dupField .. => .dupField
  | .dupKey .. => .dupKey
  | .mwError .. => .mwError

/-- `block.key`, `none` = `AttributeError` -/
def key? : Block → Option Str
  | .live (.entry e) => some e.key
  | .live (.string k ..) => some k
  | .dupKey k .. => some k
  | _ => none

/-- `isinstance(block, ExplicitComment) or isinstance(block, ImplicitComment)` -/
def isComment : Block → Bool
  | .live (.expl ..) => true
  | .live (.impl ..) => true
  | _ => false

/-- `order.index(t)` with the `except ValueError: len(order)` of both `_sort_key`s -/
def typeRank (order : List BType) (t : BType) : Nat :=
  match order.idxOf? t with
  | some i => i
  | none => order.length

/-- Python's `<=` on `str` (code-point lexicographic) -/
def keyLe (a b : Str) : Bool := decide (a ≤ b)

/-- `(r₁, k₁) <= (r₂, k₂)` on tuples `(int, str)` -/
def tupleLe (a b : Nat × Str) : Bool := decide (a.1 < b.1) || (a.1 == b.1 && keyLe a.2 b.2)

/-- `_sort_key(block)` of the plain mode (sorting_blocks.py:112-119): `getattr(block, "key", "")` -/
def blockSortKey (order : List BType) (b : Block) : Nat × Str :=
  (typeRank order (btype b), match key? b with | some k => k | none => [])

/-- `blocks.sort(key=_sort_key)` -/
def sortPlain (order : List BType) (bs : List Block) : List Block :=
  bs.mergeSort (fun a b => tupleLe (blockSortKey order a) (blockSortKey order b))

/-- `_BlockJunk`: zero or more comments together with the block below them -/
structure Junk where
  sortKey : Str := []
  blocks : List Block := []
deriving DecidableEq, Repr, Inhabited

/-- one iteration of the loop of `_block_junks` (sorting_blocks.py:68-81): state = finished junks and
the current junk -/
def junkStep (s : List Junk × Junk) (b : Block) : List Junk × Junk :=
  let cur : Junk :=
    { blocks := s.2.blocks ++ [b],
      sortKey := match key? b with | some k => k | none => s.2.sortKey }
  if !isComment b then (s.1 ++ [cur], {}) else (s.1, cur)

/-- `_block_junks(blocks)` (sorting_blocks.py:64-87) -/
def blockJunks (bs : List Block) : List Junk :=
  let s := bs.foldl junkStep ([], {})
  if s.2.blocks ≠ [] then s.1 ++ [s.2] else s.1

inductive Err
  | valueError     -- the constructor: an entry of the order is not a `Block` subclass
  | runtimeError   -- `main_block_type` of an empty junk ("This is a bug in bibtexparser")
deriving DecidableEq, Repr, Inhabited

/-- `_sort_key(block_junk)` (sorting_blocks.py:95-105): `main_block_type` is the class of the LAST block -/
def junkSortKey (order : List BType) (j : Junk) : Except Err (Nat × Str) :=
  match j.blocks.getLast? with
  | some b => .ok (typeRank order (btype b), j.sortKey)
  | none => .error .runtimeError

/-- the same for a junk known to be non-empty (used as the comparison key of the sort) -/
def junkKey (order : List BType) (j : Junk) : Nat × Str :=
  match j.blocks.getLast? with
  | some b => (typeRank order (btype b), j.sortKey)
  | none => (order.length, j.sortKey)

def sortJunks (order : List BType) (js : List Junk) : List Junk :=
  js.mergeSort (fun a b => tupleLe (junkKey order a) (junkKey order b))

/-- the preserving branch of `transform` up to `Library(...)`; the sort raises `RuntimeError` if
some junk is empty (it never is: theorem `junks_nonempty`) -/
def sortPreserve (order : List BType) (bs : List Block) : Except Err (List Block) :=
  let js := blockJunks bs
  match js.mapM (junkSortKey order) with
  | .error e => .error e
  | .ok _ => .ok ((sortJunks order js).flatMap (·.blocks))

/-- `SortBlocksByTypeAndKeyMiddleware.__init__`: `_verify_all_types_are_block_types` -/
def checkOrder (order : List BType) : Except Err Unit :=
  if order.any (· == .notBlock) then .error .valueError else .ok ()

/-- `SortBlocksByTypeAndKeyMiddleware(order, preserve).transform(Library(blocks)).blocks` -/
def transform (order : List BType) (preserve : Bool) (bs : List Block) : Except Err (List Block) :=
  match checkOrder order with
  | .error e => .error e
  | .ok () =>
    if preserve then
      match sortPreserve order bs with
      | .error e => .error e
      | .ok out => .ok (libraryOf out)
    else .ok (libraryOf (sortPlain order bs))

end Bib.SortBlocks
