/-
  The two default pipelines of `entrypoint.py`, composed from the models of their parts:

    parse_string(text)            = Splitter → Library.add → ResolveStringReferences → RemoveEnclosing
                                    (both in place) → Library(blocks)            (`Interpolate.defaultParse`)
    write_string(library, format) = AddEnclosing('{', reuse=False, enclose_integers=True, copy mode)
                                    → Library(blocks) → writer.write
-/
import BibVerif.Interpolate
import BibVerif.Enclosing
import BibVerif.Writer
namespace Bib.Pipeline
open Bib

/-- the configuration of `default_unparse_stack` -/
def defaultAddCfg : Enclosing.AddCfg :=
  { reusePrevious := false, encloseIntegers := true, defaultEnclosing := ['{'] }

/-- `parse_string(text)` with the default stack: the blocks of the resulting library -/
def parseDefault (P : PyChars) (text : Str) : Except PyErr (List Block) :=
  (Interpolate.defaultParse P text).map (·.blocks)

/-- `write_string(library, bibtex_format=F)` with the default stack -/
def writeDefault (P : PyChars) (F : Writer.BibtexFormat) (bs : List Block) : Except PyErr Str :=
  match Enclosing.addLib P defaultAddCfg false bs with
  | .error e => .error e
  | .ok bs' => Writer.write P F ((Interpolate.addAll bs').blocks.map Writer.Item.block)

/-- what C05 compares: class, type, key, field keys and values in order, value/comment text —
not raw text, start lines or parser metadata -/
inductive Content
  | entry (ty key : Str) (fields : List (Str × Val))
  | string (key : Str) (value : Val)
  | preamble (value : Str)
  | expl (c : Str)
  | impl (c : Str)
  | failed (raw : Str)
deriving DecidableEq, Repr

def contentOf : Block → Content
  | .live (.entry e) => .entry e.ty e.key (e.fields.map fun f => (f.key, f.value))
  | .live (.string k v _ _ _) => .string k v
  | .live (.preamble v _ _ _) => .preamble v
  | .live (.expl c _ _ _) => .expl c
  | .live (.impl c _ _ _) => .impl c
  | b => .failed b.raw

/-- parse → write → parse → write -/
structure RoundTrip where
  lib1 : List Block
  text1 : Str
  lib2 : List Block
  text2 : Str

def roundTrip (P : PyChars) (F : Writer.BibtexFormat) (text : Str) : Except PyErr RoundTrip := do
  let lib1 ← parseDefault P text
  let text1 ← writeDefault P F lib1
  let lib2 ← parseDefault P text1
  let text2 ← writeDefault P F lib2
  pure { lib1 := lib1, text1 := text1, lib2 := lib2, text2 := text2 }

end Bib.Pipeline
