/-
  Model of `bibtexparser/middlewares/interpolate.py` (`ResolveStringReferencesMiddleware`), of the part
  of `library.py` it depends on (the key indexes built by `Library.add`), and of the default parse
  stack of `parsestack.py` (resolution, then enclosing removal).

  * `Lib` is the library as this middleware sees it: the block list, `_entries_by_key`,
    `_strings_by_key` (insertion-ordered association lists holding the live blocks).  `addAll` is
    `Library.add` for the blocks the splitter hands over: the first `Entry` / `String` with a key is
    indexed, later ones become `DuplicateBlockKeyBlock`s (the two asserts of `_cast_to_duplicate` hold
    by construction: the previous block comes from the index of the same class).  The full `Library`
    model (remove / replace, invariants) is C08's; nothing here depends on it.
  * `transform` loops over `library.entries` - the *live* entries; entries wrapped in failed blocks are
    not touched.  It mutates the entries in place, so the `previous_block` of a duplicate-key wrapper
    (the same object as the live entry) shows the resolution as well, in-place or on the deep copy
    (`deepcopy` keeps aliasing); the model applies the same function there.
  * The `UserWarning` about a preceding `RemoveEnclosingMiddleware` is not modelled (warnings are
    outside the model).  The middleware has no raising path of its own.
-/
import BibVerif.Model
import BibVerif.Split
import BibVerif.Enclosing
namespace Bib.Interpolate
open Bib Bib.Enclosing

def METADATA_KEY : Str := "ResolveStringReferences".toList

/-! ### the library indexes -/

structure Lib where
  blocks : List Block
  /-- `_entries_by_key` -/
  entries : List (Str × Live)
  /-- `_strings_by_key` -/
  strings : List (Str × Live)
deriving Repr, Inhabited

def Lib.empty : Lib := { blocks := [], entries := [], strings := [] }

/-- `d.get(k)` / `k in d` / `d[k]` on an index -/
def lookup (d : List (Str × Live)) (k : Str) : Option Live :=
  match d with
  | [] => none
  | (k', b) :: r => if k' = k then some b else lookup r k

/-- `Library._add_to_dicts` followed by `self._blocks.append` -/
def addOne (L : Lib) (b : Block) : Lib :=
  match b with
  | .live (.entry e) =>
    match lookup L.entries e.key with
    | some prev => { L with blocks := L.blocks ++ [.dupKey e.key prev (.entry e)] }
    | none => { L with blocks := L.blocks ++ [b], entries := L.entries ++ [(e.key, .entry e)] }
  | .live (.string k v l r m) =>
    match lookup L.strings k with
    | some prev => { L with blocks := L.blocks ++ [.dupKey k prev (.string k v l r m)] }
    | none => { L with blocks := L.blocks ++ [b], strings := L.strings ++ [(k, .string k v l r m)] }
  | _ => { L with blocks := L.blocks ++ [b] }

/-- `Library(blocks)` / the splitter's `library.add(block)` calls -/
def addAll (bs : List Block) : Lib := bs.foldl addOne Lib.empty

/-! ### ResolveStringReferencesMiddleware -/

/-- `_value_is_nonstring_or_enclosed` -/
def valueIsNonstringOrEnclosed : Val → Bool
  | .str s => (startsWith ['"'] s && endsWith ['"'] s) || (startsWith ['{'] s && endsWith ['}'] s)
  | _ => true

/-- the new value of a field, if the loop body replaces it: the value is a bare `str` that is a key of
the string index -/
def resolution (strings : List (Str × Live)) (v : Val) : Option Val :=
  if valueIsNonstringOrEnclosed v then none          -- `continue`
  else
    match v with
    | .str s =>
      match lookup strings s with
      | some (.string _ sv _ _ _) => some sv            -- `library.strings_dict[field.value].value`
      | _ => none                                       -- `field.value not in library.strings_dict`
    | _ => none

/-- the loop `for field in entry.fields`: the fields afterwards and `resolved_fields` -/
def resolveFields (strings : List (Str × Live)) : List Field → List Field × List Str
  | [] => ([], [])
  | f :: r =>
    match resolution strings f.value with
    | some v => ({ f with value := v } :: (resolveFields strings r).1, f.key :: (resolveFields strings r).2)
    | none => (f :: (resolveFields strings r).1, (resolveFields strings r).2)

/-- one iteration of `for entry in library.entries` -/
def resolveEntry (strings : List (Str × Live)) (e : Entry) : Entry :=
  { e with
    fields := (resolveFields strings e.fields).1,
    md := if (resolveFields strings e.fields).2.isEmpty then e.md
          else assocSet e.md METADATA_KEY (.strs (resolveFields strings e.fields).2) }

def resolveLive (strings : List (Str × Live)) : Live → Live
  | .entry e => .entry (resolveEntry strings e)
  | b => b

/-- what a block of the library looks like after the loop (see the header for `previous_block`) -/
def resolveBlock (strings : List (Str × Live)) : Block → Block
  | .live (.entry e) => .live (.entry (resolveEntry strings e))
  | .dupKey k (.entry p) d => .dupKey k (.entry (resolveEntry strings p)) d
  | b => b

/-- `ResolveStringReferencesMiddleware.transform(library)` -/
def transform (L : Lib) : Lib :=
  { blocks := L.blocks.map (resolveBlock L.strings),
    entries := L.entries.map (fun kb => (kb.1, resolveLive L.strings kb.2)),
    strings := L.strings }

/-! ### the default parse stack -/

/-- `parse_string(text)`: splitter, `Library.add`, resolution, enclosing removal (in place), and the
`Library(blocks)` the block middleware ends with -/
def defaultParse (P : PyChars) (text : Str) : Except PyErr Lib :=
  match split P text with
  | .error e => .error e
  | .ok bs =>
    match removeLib P true (transform (addAll bs)).blocks with
    | .error e => .error e
    | .ok bs' => .ok (addAll bs')

/-- `Library.strings`: the values of `_strings_by_key` -/
def Lib.stringBlocks (L : Lib) : List Live := L.strings.map (·.2)

end Bib.Interpolate
