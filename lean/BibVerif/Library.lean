/-
  Model of `bibtexparser/library.py` (class `Library`), generic in the block type.

  * State = `_blocks` (a list), `_entries_by_key`, `_strings_by_key` (Python dicts = insertion-
    ordered association lists, `PyDict`), and a counter of identity tokens (see below).
  * What `Library` needs to know about a block is collected in `Sig β`: the `isinstance` dispatch
    (`kind`: Entry and String are indexed by key; Preamble, the two comment classes and every
    `ParsingFailedBlock` subclass are not), and the construction of a `DuplicateBlockKeyBlock`
    (`wrap`).
  * `list.remove` / `list.index` compare with `==`.  `Block.__eq__` is structural for the non-failed
    classes (C19), but a failed block holds an `Exception` object, which Python compares by
    identity.  Every failed block therefore carries an identity token for its error object, and a
    wrapper built by `_cast_to_duplicate` takes a *fresh* token (`Lib.next`): two wrappers are
    equal only if they are the same object.  With the token part of the block value, `==` is
    equality of block values (`DecidableEq β`).
  * A call can raise after it mutated the library, so every operation returns the new state
    together with its outcome.  The "cannot happen" raises are explicit: the two `assert`s of
    `_cast_to_duplicate` (`PyErr.assertion`), `del d[k]` on a missing key (`PyErr.keyError`).
-/
import BibVerif.EntryOps
namespace Bib
namespace Lib
open PyDict

/-- the `isinstance` tests `Library` performs on a block -/
inductive Kind
  | entry (key : Str)       -- `Entry`: indexed in `_entries_by_key`
  | string (key : Str)      -- `String`: indexed in `_strings_by_key`
  | preamble
  | comment                 -- `ExplicitComment` or `ImplicitComment`
  | failed                  -- `ParsingFailedBlock` and its subclasses (incl. `DuplicateBlockKeyBlock`)
deriving DecidableEq, Repr

/-- the class as far as the first `assert` of `_cast_to_duplicate` can tell (it is only ever asked
about two indexed blocks) -/
def Kind.cls : Kind → Nat
  | .entry _ => 0 | .string _ => 1 | .preamble => 2 | .comment => 3 | .failed => 4

def Kind.key? : Kind → Option Str
  | .entry k => some k | .string k => some k | _ => none

structure Sig (β : Type) where
  kind : β → Kind
  /-- `DuplicateBlockKeyBlock(key=dup.key, previous_block=prev, duplicate_block=dup,
  start_line=dup.start_line, raw=dup.raw)`, its new `Exception` object having identity `eid` -/
  wrap : (eid : Nat) → (key : Str) → (prev dup : β) → β
  /-- an upper bound (exclusive) of the identity tokens of the error objects a block holds itself -/
  bound : β → Nat

structure Lib (β : Type) where
  blocks : List β
  eidx : List (Str × β)
  sidx : List (Str × β)
  /-- the next unused identity token -/
  next : Nat
deriving Repr

inductive Outcome
  | ok
  | raise (e : PyErr)
deriving DecidableEq, Repr

variable {β : Type} [DecidableEq β] (S : Sig β)

/-- `Library()` -/
def empty (n : Nat) : Lib β := { blocks := [], eidx := [], sidx := [], next := n }

/-! ### list primitives -/

/-- `l.index(x)` (`none` = `ValueError`) -/
def listIndex : List β → β → Option Nat
  | [], _ => none
  | a :: r, x => if a = x then some 0 else (listIndex r x).map (· + 1)

/-- `l.insert(i, x)` for `0 ≤ i` -/
def listInsert (l : List β) (i : Nat) (x : β) : List β := l.take i ++ x :: l.drop i

/-! ### `_cast_to_duplicate`, `_add_to_dicts` -/

def castToDuplicate (n : Nat) (prev dup : β) : Except PyErr β :=
  -- assert isinstance(prev, type(dup)) or isinstance(dup, type(prev))
  if (S.kind prev).cls ≠ (S.kind dup).cls then .error .assertion
  else match (S.kind prev).key?, (S.kind dup).key? with
    | some kp, some kd =>
      -- assert prev.key == dup.key
      if kp ≠ kd then .error .assertion else .ok (S.wrap n kd prev dup)
    | _, _ => .error .attributeError        -- `.key` of a block that has none

/-- `_add_to_dicts(block)`: the state, the block to put into `_blocks`, and whether that is a
wrapper made here (`original is not added`) -/
def addToDicts (L : Lib β) (b : β) : Except PyErr (Lib β × β × Bool) :=
  match S.kind b with
  | .entry k =>
    match get L.eidx k with
    | some prev =>
      match castToDuplicate S L.next prev b with
      | .ok w => .ok ({ L with next := L.next + 1 }, w, true)
      | .error e => .error e
    | none => .ok ({ L with eidx := set L.eidx k b }, b, false)       -- `except KeyError:`
  | .string k =>
    match get L.sidx k with
    | some prev =>
      match castToDuplicate S L.next prev b with
      | .ok w => .ok ({ L with next := L.next + 1 }, w, true)
      | .error e => .error e
    | none => .ok ({ L with sidx := set L.sidx k b }, b, false)
  | _ => .ok (L, b, false)

/-! ### `add` -/

/-- `for block in blocks: block = self._add_to_dicts(block); self._blocks.append(block); ...`;
the Boolean: has any block been wrapped so far -/
def addLoop : Lib β → List β → Bool → Lib β × Except PyErr Bool
  | L, [], dup => (L, .ok dup)
  | L, b :: rest, dup =>
    match addToDicts S L b with
    | .error e => (L, .error e)
    | .ok (L', added, w) => addLoop { L' with blocks := L'.blocks ++ [added] } rest (dup || w)

/-- `add(blocks, fail_on_duplicate_key)` with `blocks` a list -/
def add (L : Lib β) (bs : List β) (failOnDup : Bool) : Lib β × Outcome :=
  match addLoop S L bs false with
  | (L', .error e) => (L', .raise e)
  | (L', .ok dup) =>
    if failOnDup && dup then (L', .raise .valueError)      -- `len(duplicate_keys) > 0`
    else (L', .ok)

/-- `add(block, ...)` with a single block: `blocks = [blocks]` -/
def addBlock (L : Lib β) (b : β) (failOnDup : Bool) : Lib β × Outcome := add S L [b] failOnDup

/-! ### `remove` -/

/-- `remaining = list(self._blocks); for block in blocks: remaining.remove(block)` — does it get
through without `ValueError` -/
def preCheck : List β → List β → Bool
  | _, [] => true
  | rem, b :: rest => if b ∈ rem then preCheck (rem.erase b) rest else false

/-- one round of the second loop: `self._blocks.remove(block)` and the `del` on the index -/
def removeOne (L : Lib β) (b : β) : Lib β × Outcome :=
  if b ∈ L.blocks then
    let L1 := { L with blocks := L.blocks.erase b }
    match S.kind b with
    | .entry k =>
      if has L1.eidx k then ({ L1 with eidx := del L1.eidx k }, .ok) else (L1, .raise .keyError)
    | .string k =>
      if has L1.sidx k then ({ L1 with sidx := del L1.sidx k }, .ok) else (L1, .raise .keyError)
    | _ => (L1, .ok)
  else (L, .raise .valueError)

def removeLoop : Lib β → List β → Lib β × Outcome
  | L, [] => (L, .ok)
  | L, b :: rest =>
    match removeOne S L b with
    | (L', .ok) => removeLoop L' rest
    | r => r

/-- `remove(blocks)` with `blocks` a list -/
def remove (L : Lib β) (bs : List β) : Lib β × Outcome :=
  if preCheck L.blocks bs then removeLoop S L bs else (L, .raise .valueError)

/-- `remove(block)` with a single block -/
def removeBlock (L : Lib β) (b : β) : Lib β × Outcome := remove S L [b]

/-! ### `replace` -/

/-- `replace` up to and including `self._blocks.insert(index, block_after_add)`: the state and,
if nothing raised, the inserted block and whether it is a wrapper made here -/
def replaceStep (L : Lib β) (old new : β) : Lib β × Except PyErr (β × Bool) :=
  match listIndex L.blocks old with
  | none => (L, .error .valueError)                   -- `except ValueError: raise ValueError(...)`
  | some i =>
    match remove S L [old] with
    | (L1, .raise e) => (L1, .error e)                -- a `ValueError` is re-raised as `ValueError`
    | (L1, .ok) =>
      match addToDicts S L1 new with
      | .error e => (L1, .error e)
      | .ok (L2, added, w) => ({ L2 with blocks := listInsert L2.blocks i added }, .ok (added, w))

/-- `replace(old_block, new_block, fail_on_duplicate_key)`.  The nested call
`self.replace(block_after_add, old_block, fail_on_duplicate_key=False)` is `replaceStep` again (with
`False` the final `if` of the nested call does nothing). -/
def replace (L : Lib β) (old new : β) (failOnDup : Bool) : Lib β × Outcome :=
  match replaceStep S L old new with
  | (L', .error e) => (L', .raise e)
  | (L', .ok (added, w)) =>
    if w && failOnDup then
      match replaceStep S L' added old with
      | (L'', .error e) => (L'', .raise e)
      | (L'', .ok _) => (L'', .raise .valueError)     -- `raise ValueError("Duplicate key found.")`
    else (L', .ok)

/-! ### views -/

def isEntry (b : β) : Bool := match S.kind b with | .entry _ => true | _ => false
def isString (b : β) : Bool := match S.kind b with | .string _ => true | _ => false
def isPreamble (b : β) : Bool := match S.kind b with | .preamble => true | _ => false
def isComment (b : β) : Bool := match S.kind b with | .comment => true | _ => false
def isFailed (b : β) : Bool := match S.kind b with | .failed => true | _ => false

def entries (L : Lib β) : List β := L.blocks.filter (isEntry S)
def entriesDict (L : Lib β) : List (Str × β) := L.eidx
/-- `list(self._strings_by_key.values())`: index order, not block order -/
def strings (L : Lib β) : List β := values L.sidx
def stringsDict (L : Lib β) : List (Str × β) := L.sidx
def preambles (L : Lib β) : List β := L.blocks.filter (isPreamble S)
def comments (L : Lib β) : List β := L.blocks.filter (isComment S)
def failedBlocks (L : Lib β) : List β := L.blocks.filter (isFailed S)

/-! ### histories -/

/-- an argument of a call: a block the caller has at hand, or "the block currently at position i"
(how a caller gets hold of a wrapper the library made) -/
inductive Arg (β : Type)
  | blk (b : β)
  | pos (i : Nat)
deriving Repr

def Arg.resolve (L : Lib β) : Arg β → Option β
  | .blk b => some b
  | .pos i => L.blocks[i]?

inductive Op (β : Type)
  | add (bs : List (Arg β)) (failOnDup : Bool)
  | remove (bs : List (Arg β))
  | replace (old new : Arg β) (failOnDup : Bool)
deriving Repr

/-- one call; `none` = an argument names a position that does not exist (no call is made) -/
def applyOp (L : Lib β) : Op β → Option (Lib β × Outcome)
  | .add as f => (as.mapM (Arg.resolve L)).map fun bs => add S L bs f
  | .remove as => (as.mapM (Arg.resolve L)).map fun bs => remove S L bs
  | .replace o n f =>
    match Arg.resolve L o, Arg.resolve L n with
    | some o, some n => some (replace S L o n f)
    | _, _ => none

def step (L : Lib β) (op : Op β) : Lib β :=
  match applyOp S L op with
  | some r => r.1
  | none => L

def run (L : Lib β) (ops : List (Op β)) : Lib β := ops.foldl (step S) L

end Lib

/-! ### the concrete block type -/

/-- blocks as `Library` sees them: the five non-failed classes, any `ParsingFailedBlock` (sub)class
instance coming from outside (content as in `Model.lean`, plus the identity of its error object),
and the `DuplicateBlockKeyBlock`s `Library` builds itself (which may reference any block) -/
inductive LBlock
  | live (l : Live)
  | failed (eid : Nat) (content : Block)
  | wrapper (eid : Nat) (key : Str) (line : Int) (raw : Str) (prev dup : LBlock)
deriving DecidableEq, Repr, Inhabited

namespace LBlock

def kind : LBlock → Lib.Kind
  | .live (.entry e) => .entry e.key
  | .live (.string k _ _ _ _) => .string k
  | .live (.preamble _ _ _ _) => .preamble
  | .live (.expl _ _ _ _) => .comment
  | .live (.impl _ _ _ _) => .comment
  | .failed _ _ => .failed
  | .wrapper _ _ _ _ _ _ => .failed

def line : LBlock → Int
  | .live l => l.line
  | .failed _ c => c.line
  | .wrapper _ _ l _ _ _ => l

def raw : LBlock → Str
  | .live l => l.raw
  | .failed _ c => c.raw
  | .wrapper _ _ _ r _ _ => r

def sig : Lib.Sig LBlock where
  kind := kind
  wrap n key prev dup := .wrapper n key (line dup) (raw dup) prev dup
  bound
    | .live _ => 0
    | .failed eid _ => eid + 1
    | .wrapper eid _ _ _ _ _ => eid + 1

end LBlock
end Bib
