/-
  Model of `bibtexparser/model.py`: the mapping-style operations of `Entry` (lines 277-362)
  and `__eq__` of `Field` / `Block` (lines 70-76, 227-233).

  * A Python `dict` is an insertion-ordered association list (`PyDict`): assignment updates in
    place when the key is present and appends otherwise; deletion closes the gap; lookup finds the
    (only) pair with the key.
  * `Entry.fields_dict` is rebuilt from the field list on every call (a dict comprehension = one
    assignment per field, in order), exactly as the property does.
  * Python exceptions are values (`PyErr`); "cannot happen" raises stay explicit
    (`list.index` inside `set_field`).
  * `Field(key, value)` as built by `__setitem__` has `start_line = None`; the shared data model
    renders `None` as the line number `-999` (`harness/blocks.py`), so does `noLine`.
-/
import BibVerif.Model
namespace Bib

/-! ### Python dict = insertion-ordered association list -/
namespace PyDict
variable {α : Type}

/-- `d[k] = v` -/
def set : List (Str × α) → Str → α → List (Str × α)
  | [], k, v => [(k, v)]
  | (k', v') :: r, k, v => if k' = k then (k', v) :: r else (k', v') :: set r k v

/-- `d.get(k)` / `d[k]` (`none` = absent, i.e. `KeyError` for `d[k]`) -/
def get : List (Str × α) → Str → Option α
  | [], _ => none
  | (k', v) :: r, k => if k' = k then some v else get r k

/-- `k in d` -/
def has (d : List (Str × α)) (k : Str) : Bool := (get d k).isSome

/-- `del d[k]` (the dict without the pair; meaningful when `has d k`) -/
def del : List (Str × α) → Str → List (Str × α)
  | [], _ => []
  | (k', v) :: r, k => if k' = k then r else (k', v) :: del r k

def keys (d : List (Str × α)) : List Str := d.map (·.1)
def values (d : List (Str × α)) : List α := d.map (·.2)

end PyDict

namespace EntryOps
open PyDict

/-- the line number standing for `start_line = None` in the shared data model -/
def noLine : Int := -999

/-- `Entry.fields_dict`: `{field.key: field for field in self._fields}` -/
def fieldsDict (fs : List Field) : List (Str × Field) :=
  fs.foldl (fun d f => PyDict.set d f.key f) []

/-- `[f.key for f in self._fields].index(k)` (`none` = `ValueError`) -/
def keyIndex (k : Str) : List Field → Option Nat
  | [] => none
  | f :: r => if f.key = k then some 0 else (keyIndex k r).map (· + 1)

/-- `Entry.set_field` -/
def setField (e : Entry) (f : Field) : Except PyErr Entry :=
  if has (fieldsDict e.fields) f.key then
    match keyIndex f.key e.fields with
    | some i => .ok { e with fields := e.fields.set i f }
    | none => .error .valueError          -- `list.index` found nothing: cannot happen
  else
    .ok { e with fields := e.fields ++ [f] }

/-- `Entry.__setitem__`: `self.set_field(Field(key, value))` -/
def setItem (e : Entry) (k : Str) (v : Val) : Except PyErr Entry :=
  setField e ⟨k, v, noLine⟩

/-- `Entry.pop(key, default)`: the new entry and the returned object -/
def pop (e : Entry) (k : Str) (dflt : Option Field) : Entry × Option Field :=
  match get (fieldsDict e.fields) k with
  | none => (e, dflt)                     -- `except KeyError: return default`
  | some f => ({ e with fields := e.fields.filter (fun g => g.key ≠ k) }, some f)

/-- `Entry.__delitem__`: `self.pop(key)` -/
def delItem (e : Entry) (k : Str) : Entry := (pop e k none).1

/-- `Entry.get(key, default)` -/
def getField (e : Entry) (k : Str) (dflt : Option Field) : Option Field :=
  match get (fieldsDict e.fields) k with
  | some f => some f
  | none => dflt

/-- `Entry.__contains__` -/
def contains (e : Entry) (k : Str) : Bool := has (fieldsDict e.fields) k

/-- `Entry.__getitem__` -/
def getItem (e : Entry) (k : Str) : Except PyErr Val :=
  if k = "ENTRYTYPE".toList then .ok (.str e.ty)
  else if k = "ID".toList then .ok (.str e.key)
  else match get (fieldsDict e.fields) k with
    | some f => .ok f.value
    | none => .error .keyError

/-- `Entry.items()` -/
def items (e : Entry) : List (Str × Val) :=
  [("ENTRYTYPE".toList, .str e.ty), ("ID".toList, .str e.key)] ++ e.fields.map (fun f => (f.key, f.value))

/-! ### one call = one `Op`; the observable result of the call = `Res` -/

inductive Op
  | setField (f : Field)
  | setItem (k : Str) (v : Val)
  | pop (k : Str) (dflt : Option Field)
  | delItem (k : Str)
  | get (k : Str) (dflt : Option Field)
  | contains (k : Str)
  | getItem (k : Str)
deriving DecidableEq, Repr

inductive Res
  | none                          -- the call returned `None` (set_field, `e[k] = v`, `del e[k]`)
  | field (f : Option Field)      -- pop / get: a field, or `None`
  | bool (b : Bool)
  | val (v : Val)
  | raise (err : PyErr)
deriving DecidableEq, Repr

def applyE (op : Op) (e : Entry) : Entry × Res :=
  match op with
  | .setField f => match setField e f with
    | .ok e' => (e', .none) | .error x => (e, .raise x)
  | .setItem k v => match setItem e k v with
    | .ok e' => (e', .none) | .error x => (e, .raise x)
  | .pop k d => let r := pop e k d; (r.1, .field r.2)
  | .delItem k => (delItem e k, .none)
  | .get k d => (e, .field (getField e k d))
  | .contains k => (e, .bool (contains e k))
  | .getItem k => match getItem e k with
    | .ok v => (e, .val v) | .error x => (e, .raise x)

/-- a history of calls: the final entry and the result of every call -/
def runE : List Op → Entry → Entry × List Res
  | [], e => (e, [])
  | op :: ops, e =>
    let r := applyE op e
    let rest := runE ops r.1
    (rest.1, r.2 :: rest.2)

/-! ### `__eq__`

`Field.__eq__` / `Block.__eq__`: `isinstance(other, self.__class__) and isinstance(self,
other.__class__) and self.__dict__ == other.__dict__`.  None of the modelled classes is a subclass
of another, so the two `isinstance` tests say "same class"; `dict.__eq__` compares the attribute
dictionaries key by key (same attribute names for the same class), each value with its own `==`:
`str`/`int` by value, `list` element-wise in order, `dict` (the parser metadata) as a mapping,
i.e. regardless of insertion order. -/

/-- `list.__eq__` -/
def listEq {α} (eq : α → α → Bool) : List α → List α → Bool
  | [], [] => true
  | a :: r, b :: s => eq a b && listEq eq r s
  | _, _ => false

/-- `dict.__eq__`: same size, and every key of `a` is in `b` with an equal value -/
def dictEq {α} (veq : α → α → Bool) (a b : List (Str × α)) : Bool :=
  a.length == b.length &&
  a.all fun p => match get b p.1 with
    | some w => veq p.2 w
    | none => false

def strEq (a b : Str) : Bool := listEq (fun (x y : Char) => x == y) a b

def partsEq (a b : NameParts) : Bool :=
  listEq strEq a.first b.first && listEq strEq a.von b.von &&
  listEq strEq a.last b.last && listEq strEq a.jr b.jr

/-- `==` on field values: `str`, `int`, list of `str`, list of `NameParts` (a dataclass), any other
object (identity, the tag) -/
def valEq : Val → Val → Bool
  | .str a, .str b => strEq a b
  | .int a, .int b => a == b
  | .names a, .names b => listEq strEq a b
  | .parts a, .parts b => listEq partsEq a b
  | .part a, .part b => partsEq a b
  | .opaque a, .opaque b => a == b
  | _, _ => false

/-- `Field.__eq__` (attributes `_start_line`, `_key`, `_value`) -/
def fieldEq (a b : Field) : Bool :=
  a.line == b.line && strEq a.key b.key && valEq a.value b.value

def metaEq : Meta → Meta → Bool
  | .str a, .str b => strEq a b
  | .strs a, .strs b => listEq strEq a b
  | .dict a, .dict b => dictEq strEq a b
  | .bool a, .bool b => a == b
  | _, _ => false

def mdEq (a b : MetaD) : Bool := dictEq metaEq a b

/-- `Block.__eq__` on the five non-failed classes (attributes `_start_line_in_file`, `_raw`,
`_parser_metadata`, then the class's own) -/
def liveEq : Live → Live → Bool
  | .entry x, .entry y =>
    x.line == y.line && strEq x.raw y.raw && mdEq x.md y.md &&
    strEq x.ty y.ty && strEq x.key y.key && listEq fieldEq x.fields y.fields
  | .string k v l r m, .string k' v' l' r' m' =>
    l == l' && strEq r r' && mdEq m m' && strEq k k' && valEq v v'
  | .preamble v l r m, .preamble v' l' r' m' =>
    l == l' && strEq r r' && mdEq m m' && strEq v v'
  | .expl c l r m, .expl c' l' r' m' =>
    l == l' && strEq r r' && mdEq m m' && strEq c c'
  | .impl c l r m, .impl c' l' r' m' =>
    l == l' && strEq r r' && mdEq m m' && strEq c c'
  | _, _ => false

/-- `Block.__eq__` under the name used in DESIGN.md -/
abbrev blockEq := liveEq

end EntryOps
end Bib
