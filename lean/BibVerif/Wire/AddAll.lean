import BibVerif.Wire.Split
import BibVerif.AddAll
namespace Bib.Wire
open Bib Sx

/-- `(parse0 <str>)`: `parse_string(s, parse_stack=[]).blocks` = split, then `library.add` per block -/
def hParse0 : Handler := fun P args =>
  match args with
  | [.str s] =>
    encExcept (fun (L : KLib) => .list (L.blocks.map encBlock)) (do libraryOfE (← split P s))
  | _ => badArgs

/-- `(libof (block ...))`: `Library(blocks).blocks` -/
def hLibOf : Handler := fun _ args =>
  match args with
  | [bs] =>
    match decBlocks bs with
    | some l => encExcept (fun (L : KLib) => .list (L.blocks.map encBlock)) (libraryOfE l)
    | none => badArgs
  | _ => badArgs

def addAllHandlers : List (String × Handler) := [("parse0", hParse0), ("libof", hLibOf)]

end Bib.Wire
