/-
  Line protocol between the Python harness and the model driver: one S-expression per line.

    atom  ::= 's' hex ('.' hex)*   -- a Python str as code points ("s" alone = empty string)
            | 'i' ['-'] digits     -- an int
            | symbol               -- T, F, N, command and constructor names
    sx    ::= atom | '(' sx* ')'

  This file is glue (not part of any theorem): parser, printer, and codecs for the data model.
-/
import BibVerif.Model
namespace Bib

inductive Sx
  | sym (s : String)
  | str (s : Str)
  | int (i : Int)
  | list (xs : List Sx)
deriving Repr, Inhabited

namespace Sx

def hexDigit (c : Char) : Nat :=
  if c.isDigit then c.toNat - 48 else if 'a' ≤ c ∧ c ≤ 'f' then c.toNat - 87 else c.toNat - 55

def parseHexStr (w : List Char) : Str :=
  -- w = hex ('.' hex)*
  let rec go (acc : Nat) (started : Bool) (out : List Char) : List Char → List Char
    | [] => (if started then Char.ofNat acc :: out else out).reverse
    | c :: r => if c = '.' then go 0 false (if started then Char.ofNat acc :: out else out) r
                else go (acc * 16 + hexDigit c) true out r
  go 0 false [] w

def parseAtom (w : List Char) : Sx :=
  match w with
  | 's' :: r =>
    -- a bare symbol may also start with 's' (e.g. "string"): strings contain only hex and dots
    if r.all (fun c => c = '.' || c.isDigit || ('a' ≤ c && c ≤ 'f')) then .str (parseHexStr r)
    else .sym (String.ofList w)
  | 'i' :: '-' :: r =>
    if r.all Char.isDigit && !r.isEmpty then .int (-(Int.ofNat ((String.ofList r).toNat!))) else .sym (String.ofList w)
  | 'i' :: r =>
    if r.all Char.isDigit && !r.isEmpty then .int (Int.ofNat ((String.ofList r).toNat!)) else .sym (String.ofList w)
  | _ => .sym (String.ofList w)

/-- tokens: "(" ")" and atoms -/
def tokenize (s : List Char) : List (List Char) :=
  let rec go (cur : List Char) (out : List (List Char)) : List Char → List (List Char)
    | [] => (if cur.isEmpty then out else cur.reverse :: out).reverse
    | c :: r =>
      if c = '(' || c = ')' then
        go [] ([c] :: (if cur.isEmpty then out else cur.reverse :: out)) r
      else if c = ' ' || c = '\n' || c = '\r' || c = '\t' then
        go [] (if cur.isEmpty then out else cur.reverse :: out) r
      else go (c :: cur) out r
  go [] [] s

/-- parse with an explicit stack of open lists -/
def parseToks (toks : List (List Char)) : Option Sx :=
  let rec go (stack : List (List Sx)) (cur : List Sx) : List (List Char) → Option Sx
    | [] => match stack with
      | [] => cur.head?
      | _ => none
    | t :: r =>
      if t = ['('] then go (cur :: stack) [] r
      else if t = [')'] then
        match stack with
        | [] => none
        | top :: rest => go rest (.list cur.reverse :: top) r
      else go stack (parseAtom t :: cur) r
  go [] [] toks

def parse (line : String) : Option Sx := parseToks (tokenize line.toList)

def hexOfNat (n : Nat) : String := String.ofList (Nat.toDigits 16 n)

def strToWire (s : Str) : String :=
  "s" ++ ".".intercalate (s.map fun c => hexOfNat c.toNat)

partial def render : Sx → String
  | .sym s => s
  | .str s => strToWire s
  | .int i => "i" ++ toString i
  | .list xs => "(" ++ " ".intercalate (xs.map render) ++ ")"

def bool (b : Bool) : Sx := .sym (if b then "T" else "F")
def none' : Sx := .sym "N"
def tag (name : String) (args : List Sx) : Sx := .list (.sym name :: args)
def strs (l : List Str) : Sx := .list (l.map .str)

def asStr : Sx → Option Str | .str s => some s | _ => none
def asInt : Sx → Option Int | .int i => some i | _ => none
def asNat : Sx → Option Nat | .int i => if i ≥ 0 then some i.toNat else none | _ => none
def asBool : Sx → Option Bool | .sym "T" => some true | .sym "F" => some false | _ => none
def asList : Sx → Option (List Sx) | .list l => some l | _ => none
def asStrs (x : Sx) : Option (List Str) := do (← x.asList).mapM asStr

end Sx

open Sx

/-! ### codecs for the data model -/

def encNameParts (p : NameParts) : Sx :=
  tag "np" [strs p.first, strs p.von, strs p.last, strs p.jr]

def encVal : Val → Sx
  | .str s => .str s
  | .int i => .int i
  | .names l => tag "names" (l.map .str)
  | .parts l => tag "parts" (l.map encNameParts)
  | .part p => tag "part" [encNameParts p]
  | .opaque t => tag "opaque" [.int t]

def encMeta : Meta → Sx
  | .str s => .str s
  | .strs l => tag "strs" (l.map .str)
  | .dict d => tag "dict" (d.map fun (k, v) => .list [.str k, .str v])
  | .bool b => bool b

def encMd (m : MetaD) : Sx := tag "md" (m.map fun (k, v) => .list [.str k, encMeta v])

def encField (f : Field) : Sx := tag "f" [.str f.key, encVal f.value, .int f.line]

def encEntry (e : Entry) : Sx :=
  tag "entry" [.str e.ty, .str e.key, .list (e.fields.map encField), .int e.line, .str e.raw, encMd e.md]

def encLive : Live → Sx
  | .entry e => encEntry e
  | .string k v l r m => tag "string" [.str k, encVal v, .int l, .str r, encMd m]
  | .preamble v l r m => tag "preamble" [.str v, .int l, .str r, encMd m]
  | .expl c l r m => tag "expl" [.str c, .int l, .str r, encMd m]
  | .impl c l r m => tag "impl" [.str c, .int l, .str r, encMd m]

def encFail : Fail → Sx
  | .eof => .sym "eof" | .atInBracket => .sym "atInBracket" | .atInValue => .sym "atInValue"
  | .expectedEq => .sym "expectedEq" | .expectedComma => .sym "expectedComma"
  | .expectedEqString => .sym "expectedEqString"

def encMwErr : MwErr → Sx
  | .invalidName => .sym "invalidName" | .partialMw => .sym "partialMw"

/-- insertion sort on strings by code points (Python's `sorted` on str), for canonical output -/
def strLe (a b : Str) : Bool := !(b.map Char.toNat < a.map Char.toNat)
def sortStrs (l : List Str) : List Str := l.mergeSort strLe

def encBlock : Block → Sx
  | .live l => encLive l
  | .failed w l r => tag "failed" [encFail w, .int l, .str r]
  | .dupField d e => tag "dupfield" [strs (sortStrs d), encEntry e]
  | .dupKey k p d => tag "dupkey" [.str k, encLive p, encLive d]
  | .mwError w i => tag "mwerror" [encMwErr w, encLive i]

/-- as `encBlock`, but a duplicate-key block shows its `previous_block` only as (class, key): in
Python that attribute is a *reference* to the first live block, so after an in-place middleware it
shows the transformed block, after a copying one the untransformed copy — the value model does not
track this aliasing, and the comparison of middleware results leaves it out -/
def encBlockShallow : Block → Sx
  | .dupKey k p d =>
    tag "dupkey" [.str k, tag "prev" [.sym (match p with | .entry _ => "entry" | .string .. => "string" | _ => "other"),
      .str (match p with | .entry e => e.key | .string k' .. => k' | _ => [])], encLive d]
  | b => encBlock b

def encErr : PyErr → Sx
  | .parserState => .sym "ParserStateException" | .assertion => .sym "AssertionError"
  | .valueError => .sym "ValueError" | .typeError => .sym "TypeError"
  | .keyError => .sym "KeyError" | .attributeError => .sym "AttributeError"

def encExcept {α} (f : α → Sx) : Except PyErr α → Sx
  | .ok a => tag "ok" [f a]
  | .error e => tag "raise" [encErr e]

def decNameParts : Sx → Option NameParts
  | .list [.sym "np", a, b, c, d] => do
    pure { first := ← a.asStrs, von := ← b.asStrs, last := ← c.asStrs, jr := ← d.asStrs }
  | _ => none

def decVal : Sx → Option Val
  | .str s => some (.str s)
  | .int i => some (.int i)
  | .list (.sym "names" :: l) => do pure (.names (← l.mapM Sx.asStr))
  | .list (.sym "parts" :: l) => do pure (.parts (← l.mapM decNameParts))
  | .list [.sym "part", p] => do pure (.part (← decNameParts p))
  | .list [.sym "opaque", .int t] => some (.opaque t.toNat)
  | _ => none

def decMeta : Sx → Option Meta
  | .str s => some (.str s)
  | .sym "T" => some (.bool true)
  | .sym "F" => some (.bool false)
  | .list (.sym "strs" :: l) => do pure (.strs (← l.mapM Sx.asStr))
  | .list (.sym "dict" :: l) => do
    pure (.dict (← l.mapM fun x => match x with
      | .list [.str k, .str v] => some (k, v) | _ => none))
  | _ => none

def decMd : Sx → Option MetaD
  | .list (.sym "md" :: l) => l.mapM fun x => match x with
      | .list [.str k, v] => do pure (k, ← decMeta v) | _ => none
  | _ => none

def decField : Sx → Option Field
  | .list [.sym "f", .str k, v, .int l] => do pure ⟨k, ← decVal v, l⟩
  | _ => none

def decEntry : Sx → Option Entry
  | .list [.sym "entry", .str ty, .str k, .list fs, .int l, .str r, md] => do
    pure { ty := ty, key := k, fields := ← fs.mapM decField, line := l, raw := r, md := ← decMd md }
  | _ => none

def decLive (x : Sx) : Option Live :=
  match x with
  | .list (.sym "entry" :: _) => do pure (.entry (← decEntry x))
  | .list [.sym "string", .str k, v, .int l, .str r, md] => do pure (.string k (← decVal v) l r (← decMd md))
  | .list [.sym "preamble", .str v, .int l, .str r, md] => do pure (.preamble v l r (← decMd md))
  | .list [.sym "expl", .str c, .int l, .str r, md] => do pure (.expl c l r (← decMd md))
  | .list [.sym "impl", .str c, .int l, .str r, md] => do pure (.impl c l r (← decMd md))
  | _ => none

def decFail : Sx → Option Fail
  | .sym "eof" => some .eof | .sym "atInBracket" => some .atInBracket
  | .sym "atInValue" => some .atInValue | .sym "expectedEq" => some .expectedEq
  | .sym "expectedComma" => some .expectedComma | .sym "expectedEqString" => some .expectedEqString
  | _ => none

def decMwErr : Sx → Option MwErr
  | .sym "invalidName" => some .invalidName | .sym "partialMw" => some .partialMw | _ => none

def decBlock (x : Sx) : Option Block :=
  match x with
  | .list [.sym "failed", w, .int l, .str r] => do pure (.failed (← decFail w) l r)
  | .list [.sym "dupfield", d, e] => do pure (.dupField (← d.asStrs) (← decEntry e))
  | .list [.sym "dupkey", .str k, p, d] => do pure (.dupKey k (← decLive p) (← decLive d))
  | .list [.sym "mwerror", w, i] => do pure (.mwError (← decMwErr w) (← decLive i))
  | _ => do pure (.live (← decLive x))

def decBlocks (x : Sx) : Option (List Block) := do (← x.asList).mapM decBlock

/-! ### the Unicode table sent with a request -/

structure CharInfo where
  cp : Nat
  flags : Nat
  dec : Option Nat
  lower : Str

def decCharInfo : Sx → Option CharInfo
  | .list [.int cp, .int fl, d, .str lo] =>
    some { cp := cp.toNat, flags := fl.toNat, dec := (d.asInt.map Int.toNat), lower := lo }
  | _ => none

/-- ASCII behaviour for code points < 128, the table (computed by CPython) otherwise;
non-ASCII characters missing from the table are treated as ordinary symbols -/
def charsWith (tbl : List CharInfo) : PyChars :=
  let look (c : Char) : Option CharInfo := if c.toNat < 128 then none else tbl.find? (·.cp = c.toNat)
  let fl (bit : Nat) (dflt : Char → Bool) (c : Char) : Bool :=
    if c.toNat < 128 then dflt c else
    match look c with | some i => (i.flags / bit) % 2 = 1 | none => false
  { isSpace := fl 1 asciiChars.isSpace
    isWord := fl 2 asciiChars.isWord
    isAlpha := fl 4 asciiChars.isAlpha
    isUpper := fl 8 asciiChars.isUpper
    isDigit := fl 16 asciiChars.isDigit
    isLineBreak := fl 32 asciiChars.isLineBreak
    decVal := fun c => if c.toNat < 128 then asciiChars.decVal c else (look c).bind (·.dec)
    lowerC := fun c => if c.toNat < 128 then asciiChars.lowerC c else
      match look c with | some i => i.lower | none => [c] }

end Bib
