import BibVerif.Wire.Mw
import BibVerif.SortBlocks
namespace Bib.Wire
open Bib Sx

def decBType : Sx → Option SortBlocks.BType
  | .sym "String" => some .string
  | .sym "Preamble" => some .preamble
  | .sym "Entry" => some .entry
  | .sym "ImplicitComment" => some .impl
  | .sym "ExplicitComment" => some .expl
  | .sym "ParsingFailedBlock" => some .failed
  | .sym "MiddlewareErrorBlock" => some .mwError
  | .sym "DuplicateBlockKeyBlock" => some .dupKey
  | .sym "DuplicateFieldKeyBlock" => some .dupField
  | .sym "Block" => some .block
  | .sym "NotBlock" => some .notBlock
  | _ => none

/-- `(sortblocks (Class ...) T|F (block ...) T|F)` → `(ok (block ...))` | `(raise E)`; the last flag says
that the blocks are those of an existing library (sent as they are) rather than the arguments of
`Library(...)` -/
def hSortBlocks : Handler := fun _ args =>
  match args with
  | [.list order, preserve, bs, raw] =>
    match order.mapM decBType, preserve.asBool, decBlocks bs, raw.asBool with
    | some o, some p, some blocks, some isRaw =>
      match SortBlocks.transform o p (if isRaw then blocks else libraryOf blocks) with
      -- the middleware works on a deep copy: its input is never modified (a constant of the model,
      -- observed on the real code by the harness on every case)
      | .ok out => tag "ok" [encBlocksR out, .sym "input-unchanged"]
      | .error .valueError => tag "raise" [.sym "ValueError"]
      | .error .runtimeError => tag "raise" [.sym "RuntimeError"]
    | _, _, _, _ => badArgs
  | _ => badArgs

def sortBlocksHandlers : List (String × Handler) := [("sortblocks", hSortBlocks)]

end Bib.Wire
