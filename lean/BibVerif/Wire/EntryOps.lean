/-
  Driver handlers for the `Entry` model (C19).  Glue, not part of any theorem.

    (entryops <entry> (<op> ...))  ->  ((<result> (<field>...) ((<key> <field>)...) ((<key> <value>)...)) ...)
        one answer item per call: what the call returned / raised, then `fields`, `fields_dict`,
        `items()` after the call.
        <op> ::= (setfield <f>) | (setitem <k> <v>) | (pop <k> <f>|N) | (delitem <k>)
               | (get <k> <f>|N) | (contains <k>) | (getitem <k>)
    (liveeq <live> <live>)   ->  (<a == b> <b == a>)
    (fieldeq <f> <f>)        ->  (<a == b> <b == a>)
-/
import BibVerif.Wire.Split
import BibVerif.EntryOps
namespace Bib.Wire
open Bib Sx EntryOps

def decOptField : Sx → Option (Option Field)
  | .sym "N" => some none
  | x => (decField x).map some

def decEOp : Sx → Option Op
  | .list [.sym "setfield", f] => do pure (.setField (← decField f))
  | .list [.sym "setitem", .str k, v] => do pure (.setItem k (← decVal v))
  | .list [.sym "pop", .str k, d] => do pure (.pop k (← decOptField d))
  | .list [.sym "delitem", .str k] => some (.delItem k)
  | .list [.sym "get", .str k, d] => do pure (.get k (← decOptField d))
  | .list [.sym "contains", .str k] => some (.contains k)
  | .list [.sym "getitem", .str k] => some (.getItem k)
  | _ => none

def encRes : Res → Sx
  | .none => none'
  | .field none => none'
  | .field (some f) => encField f
  | .bool b => bool b
  | .val v => encVal v
  | .raise e => tag "raise" [encErr e]

def encEntryViews (e : Entry) : List Sx :=
  [ .list (e.fields.map encField),
    .list ((fieldsDict e.fields).map fun (k, f) => .list [.str k, encField f]),
    .list ((items e).map fun (k, v) => .list [.str k, encVal v]) ]

def runEntryOps : List Op → Entry → List Sx
  | [], _ => []
  | op :: ops, e =>
    let r := applyE op e
    .list (encRes r.2 :: encEntryViews r.1) :: runEntryOps ops r.1

def hEntryOps : Handler := fun _ args =>
  match args with
  | [e, .list ops] =>
    match decEntry e, ops.mapM decEOp with
    | some e, some ops => .list (runEntryOps ops e)
    | _, _ => badArgs
  | _ => badArgs

def hLiveEq : Handler := fun _ args =>
  match args with
  | [a, b] =>
    match decLive a, decLive b with
    | some a, some b => .list [bool (liveEq a b), bool (liveEq b a)]
    | _, _ => badArgs
  | _ => badArgs

def hFieldEq : Handler := fun _ args =>
  match args with
  | [a, b] =>
    match decField a, decField b with
    | some a, some b => .list [bool (fieldEq a b), bool (fieldEq b a)]
    | _, _ => badArgs
  | _ => badArgs

def entryOpsHandlers : List (String × Handler) :=
  [("entryops", hEntryOps), ("liveeq", hLiveEq), ("fieldeq", hFieldEq)]

end Bib.Wire
