import BibVerif.Wire.Split
import BibVerif.Writer
namespace Bib.Wire.WriterW
open Bib Sx Bib.Wire Bib.Writer

def decCol : Sx → Option Col
  | .sym "auto" => some .auto
  | .int i => if i ≥ 0 then some (.num i.toNat) else none
  | _ => none

def encCol : Col → Sx
  | .auto => .sym "auto"
  | .num n => .int n

/-- `(fmt <indent> <value_column> <block_separator> <trailing_comma> <parsing_failed_comment>)` -/
def decFormat : Sx → Option BibtexFormat
  | .list [.sym "fmt", .str ind, col, .str sep, tc, .str cm] => do
    pure { indent := ind, valueColumn := ← decCol col, blockSeparator := sep,
           trailingComma := ← tc.asBool, parsingFailedComment := cm }
  | _ => none

def encFormat (F : BibtexFormat) : Sx :=
  tag "fmt" [.str F.indent, encCol F.valueColumn, .str F.blockSeparator, bool F.trailingComma,
    .str F.parsingFailedComment]

def decItem : Sx → Option Item
  | .sym "other" => some .other
  | x => do pure (.block (← decBlock x))

def decItems (x : Sx) : Option (List Item) := do (← x.asList).mapM decItem

/-- `(write <fmt> (<item> ...))` → `(res (ok <text>)|(raise E) <fmt after the call>)` -/
def hWrite : Handler := fun P args =>
  match args with
  | [f, items] =>
    match decFormat f, decItems items with
    | some F, some L =>
      if tplModelled F.parsingFailedComment then
        let (r, F') := writeSt P F L
        tag "res" [encExcept (fun t => .str t) r, encFormat F']
      else .sym "unmodelled-template"
    | _, _ => badArgs
  | _ => badArgs

/-- `(formatn <template> <n>)` → `(ok <text>)` | `(raise E)` | `unmodelled-template` -/
def hFormatN : Handler := fun _ args =>
  match args with
  | [.str t, .int n] =>
    if tplModelled t then encExcept (fun t => .str t) (formatN n.toNat t) else .sym "unmodelled-template"
  | _ => badArgs

/-- `(splitlines <text>)` → `len(text.splitlines())` -/
def hSplitlines : Handler := fun P args =>
  match args with
  | [.str t] => .int (splitlinesCount P t)
  | _ => badArgs

end Bib.Wire.WriterW

namespace Bib.Wire
def writerHandlers : List (String × Handler) :=
  [("c06.write", WriterW.hWrite), ("c06.formatn", WriterW.hFormatN), ("c06.splitlines", WriterW.hSplitlines)]
end Bib.Wire
