import BibVerif.Wire.Writer
import BibVerif.Enclosing
namespace Bib.Wire.EnclosingW
open Bib Sx Bib.Wire Bib.Enclosing

/-- `(cfg <reuse_previous_enclosing> <enclose_integers> <default_enclosing>)` -/
def decCfg : Sx → Option AddCfg
  | .list [.sym "cfg", r, i, .str d] => do
    pure { reusePrevious := ← r.asBool, encloseIntegers := ← i.asBool, defaultEnclosing := d }
  | _ => none

def decOptMeta : Sx → Option (Option Meta)
  | .sym "N" => some none
  | x => (decMeta x).map some

def encBlocksR (r : Except PyErr (List Block)) : Sx := encExcept (fun bs => .list (bs.map encBlock)) r

/-- `(c10.strip <value>)` → `(<stripped> <kind>)` : `RemoveEnclosingMiddleware._strip_enclosing` -/
def hStrip : Handler := fun P args =>
  match args with
  | [.str v] => let r := stripEnclosing P v; .list [.str r.1, .str r.2]
  | _ => badArgs

/-- `(c10.enclose <cfg> <value> <metadata_enclosing|N> <apply_int_rule>)` → `(ok <value>)` | `(raise E)` :
constructing the middleware (argument check) and calling `_enclose` -/
def hEnclose : Handler := fun P args =>
  match args with
  | [c, v, m, a] =>
    match decCfg c, decVal v, decOptMeta m, a.asBool with
    | some cfg, some v, some m, some a =>
      if cfg.valid then encExcept encVal (enclose P cfg v m a) else encExcept encVal (.error .valueError)
    | _, _, _, _ => badArgs
  | _ => badArgs

/-- `(c10.remove <inplace> (<block> ...))` -/
def hRemove : Handler := fun P args =>
  match args with
  | [ip, bs] =>
    match ip.asBool, decBlocks bs with
    | some ip, some bs => encBlocksR (removeLib P ip bs)
    | _, _ => badArgs
  | _ => badArgs

/-- `(c10.add <cfg> <inplace> (<block> ...))` -/
def hAdd : Handler := fun P args =>
  match args with
  | [c, ip, bs] =>
    match decCfg c, ip.asBool, decBlocks bs with
    | some cfg, some ip, some bs =>
      if cfg.valid then encBlocksR (addLib P cfg ip bs) else encBlocksR (.error .valueError)
    | _, _, _ => badArgs
  | _ => badArgs

/-- `(c10.pipe <cfg> <inplace> (<block> ...))` → `(pipe r1 r2 r3 r4 r5)`:
r1 = remove, r2 = add after remove, r3 = add alone, r4 = `write` of r2 with the default format,
r5 = the splitter on r4 (the re-parse) -/
def hPipe : Handler := fun P args =>
  match args with
  | [c, ip, bs] =>
    match decCfg c, ip.asBool, decBlocks bs with
    | some cfg, some ip, some bs =>
      if !cfg.valid then .sym "invalid-cfg" else
      let r1 := removeLib P ip bs
      let r2 := match r1 with | .ok b => addLib P cfg ip b | .error e => .error e
      let r3 := addLib P cfg ip bs
      let r4 := match r2 with
        | .ok b => Writer.write P {} (b.map Writer.Item.block)
        | .error e => .error e
      let r5 := match r4 with | .ok t => split P t | .error e => .error e
      tag "pipe" [encBlocksR r1, encBlocksR r2, encBlocksR r3, encExcept (fun t => .str t) r4, encBlocksR r5]
    | _, _, _ => badArgs
  | _ => badArgs

end Bib.Wire.EnclosingW

namespace Bib.Wire
def enclosingHandlers : List (String × Handler) :=
  [("c10.strip", EnclosingW.hStrip), ("c10.enclose", EnclosingW.hEnclose), ("c10.remove", EnclosingW.hRemove),
   ("c10.add", EnclosingW.hAdd), ("c10.pipe", EnclosingW.hPipe)]
end Bib.Wire
