import BibVerif.Wire.Sx
import BibVerif.Split
namespace Bib.Wire
open Bib Sx

abbrev Handler := PyChars → List Sx → Sx

def badArgs : Sx := .sym "bad-request"

/-- `(split <str>)` → `(ok (block ...))` | `(raise Err)` : `Splitter(s).split().blocks` before `Library.add` -/
def hSplit : Handler := fun P args =>
  match args with
  | [.str s] => encExcept (fun bs => .list (bs.map encBlock)) (split P s)
  | _ => badArgs

def splitHandlers : List (String × Handler) := [("split", hSplit)]

end Bib.Wire
