import BibVerif.Wire.Split
import BibVerif.Wire.AddAll
import BibVerif.Wire.Stack
import BibVerif.Wire.Heap
import BibVerif.Wire.Latex
import BibVerif.Wire.EntryOps
import BibVerif.Wire.Library
import BibVerif.Wire.Writer
import BibVerif.Wire.Enclosing
import BibVerif.Wire.Interpolate
import BibVerif.Wire.Month
import BibVerif.Wire.SortFields
import BibVerif.Wire.SortBlocks
import BibVerif.Wire.Names
import BibVerif.Wire.Pipeline
import BibVerif.Wire.NamesPipeline
namespace Bib.Wire

/-- every command the driver understands -/
def handlers : List (String × Handler) :=
  splitHandlers ++ addAllHandlers ++ stackHandlers ++ heapHandlers ++ latexHandlers
  ++ entryOpsHandlers ++ libraryHandlers
  ++ writerHandlers ++ enclosingHandlers ++ interpolateHandlers
  ++ monthHandlers ++ fieldHandlers ++ sortBlocksHandlers
  ++ namesHandlers ++ pipelineHandlers
  ++ namesPipelineHandlers

end Bib.Wire
