import BibVerif.Wire.Split
import BibVerif.Wire.AddAll
namespace Bib.Wire

/-- every command the driver understands -/
def handlers : List (String × Handler) :=
  splitHandlers ++ addAllHandlers

end Bib.Wire
