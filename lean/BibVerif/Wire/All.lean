import BibVerif.Wire.Split
namespace Bib.Wire

/-- every command the driver understands -/
def handlers : List (String × Handler) :=
  splitHandlers

end Bib.Wire
