import BibVerif.Wire.Split
import BibVerif.Wire.AddAll
import BibVerif.Wire.Stack
import BibVerif.Wire.Heap
import BibVerif.Wire.Latex
import BibVerif.Wire.EntryOps
import BibVerif.Wire.Library
namespace Bib.Wire

/-- every command the driver understands -/
def handlers : List (String × Handler) :=
  splitHandlers ++ addAllHandlers ++ stackHandlers ++ heapHandlers ++ latexHandlers
  ++ entryOpsHandlers ++ libraryHandlers

end Bib.Wire
