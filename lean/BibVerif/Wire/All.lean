import BibVerif.Wire.Split
import BibVerif.Wire.AddAll
import BibVerif.Wire.Stack
namespace Bib.Wire

/-- every command the driver understands -/
def handlers : List (String × Handler) :=
  splitHandlers ++ addAllHandlers ++ stackHandlers

end Bib.Wire
