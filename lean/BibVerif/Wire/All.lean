import BibVerif.Wire.Split
import BibVerif.Wire.AddAll
import BibVerif.Wire.Stack
import BibVerif.Wire.Heap
import BibVerif.Wire.Latex
import BibVerif.Wire.EntryOps
import BibVerif.Wire.Library
import BibVerif.Wire.Writer
import BibVerif.Wire.Enclosing
import BibVerif.Wire.Interpolate
namespace Bib.Wire

/-- every command the driver understands -/
def handlers : List (String × Handler) :=
  splitHandlers ++ addAllHandlers ++ stackHandlers ++ heapHandlers ++ latexHandlers
  ++ entryOpsHandlers ++ libraryHandlers
  ++ writerHandlers ++ enclosingHandlers ++ interpolateHandlers

end Bib.Wire
