import BibVerif.Wire.Mw
import BibVerif.SortFields
import BibVerif.FieldKeys
namespace Bib.Wire
open Bib Sx

/-- one middleware of a stack: `alpha` | `norm` | `(custom (key ...) T|F)` -/
def runFieldOp (P : PyChars) (op : Sx) (bs : List Block) : Option (Except PyErr (List Block)) :=
  match op with
  | .sym "alpha" => some (.ok (SortFields.transformAlpha bs))
  | .sym "norm" => some (.ok (FieldKeys.transform P bs))
  | .list [.sym "custom", order, cs] =>
    match order.asStrs, cs.asBool with
    | some o, some c => some (SortFields.transformCustom P o c bs)
    | _, _ => none
  | _ => none

/-- `(fieldmw (op ...) (block ...))` → `(ok (block ...))` | `(raise E)`: the listed middlewares are
constructed first (a constructor may raise), then applied one after the other to `Library(blocks)` -/
def hFieldMw : Handler := fun P args =>
  match args with
  | [.list ops, bs] =>
    match decBlocks bs with
    | none => badArgs
    | some blocks =>
      -- constructors run before any transform: a bad order list raises even if an earlier stage would not
      let ctorErr := ops.findSome? fun op => match op with
        | .list [.sym "custom", order, cs] =>
          match order.asStrs, cs.asBool with
          | some o, some c => match SortFields.mkOrder P o c with | .error e => some e | .ok _ => none
          | _, _ => none
        | _ => none
      match ctorErr with
      | some e => tag "raise" [encErr e]
      | none =>
        let run := ops.foldl (fun (acc : Option (Except PyErr (List Block))) op =>
          match acc with
          | some (.ok cur) => runFieldOp P op cur
          | other => other) (some (.ok (libraryOf blocks)))
        match run with
        | some (.ok out) => tag "ok" [encBlocksR out]
        | some (.error e) => tag "raise" [encErr e]
        | none => badArgs
  | _ => badArgs

def fieldHandlers : List (String × Handler) := [("fieldmw", hFieldMw)]

end Bib.Wire
