import BibVerif.Wire.Writer
import BibVerif.Pipeline
namespace Bib.Wire
open Bib Sx Bib.Pipeline

/-- `(roundtrip <fmt> <text>)` → `(ok ((block ..)) <text1> ((block ..)) <text2>)`:
parse_string, write_string, parse_string again, write_string again -/
def hRoundTrip : Handler := fun P args =>
  match args with
  | [f, .str t] =>
    match WriterW.decFormat f with
    | some F =>
      match roundTrip P F t with
      | .ok r => tag "ok" [.list (r.lib1.map encBlockShallow), .str r.text1,
                           .list (r.lib2.map encBlockShallow), .str r.text2]
      | .error e => tag "raise" [encErr e]
    | none => badArgs
  | _ => badArgs

/-- `(parsedefault <text>)` → the library of `parse_string(text)` -/
def hParseDefault : Handler := fun P args =>
  match args with
  | [.str t] => encExcept (fun bs => .list (bs.map encBlockShallow)) (parseDefault P t)
  | _ => badArgs

/-- `(parsewrite <text>)` → `(ok ((block ..)) <written text>)`: `parse_string` then `write_string`
with the default format (C01's whole pipeline) -/
def hParseWrite : Handler := fun P args =>
  match args with
  | [.str t] =>
    match parseDefault P t with
    | .error e => tag "raise" [encErr e]
    | .ok bs =>
      match writeDefault P {} bs with
      | .error e => tag "raise" [encErr e]
      | .ok w => tag "ok" [.list (bs.map encBlockShallow), .str w]
  | _ => badArgs

def pipelineHandlers : List (String × Handler) :=
  [("roundtrip", hRoundTrip), ("parsedefault", hParseDefault), ("parsewrite", hParseWrite)]

end Bib.Wire
