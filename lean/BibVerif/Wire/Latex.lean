import BibVerif.Wire.Split
import BibVerif.Latex
namespace Bib.Wire
open Bib Sx

/-- the converter as a finite table `(input output error)` computed by the real middleware;
strings missing from the table are left unchanged without error -/
def decConvTable (x : Sx) : Option Conv := do
  let rows ← x.asList
  let tbl ← rows.mapM fun r => match r with
    | .list [.str i, .str o, .str e] => some (i, o, e)
    | _ => none
  pure fun s => match tbl.find? (·.1 = s) with
    | some (_, o, e) => (o, e)
    | none => (s, [])

/-- `(latex (block ...) ((in out err) ...))` → the library after the LaTeX middleware -/
def hLatex : Handler := fun _ args =>
  match args with
  | [bs, tbl] =>
    match decBlocks bs, decConvTable tbl with
    | some l, some conv => tag "ok" [.list ((latexLibrary conv l).map encBlockShallow)]
    | _, _ => badArgs
  | _ => badArgs

def latexHandlers : List (String × Handler) := [("latex", hLatex)]

end Bib.Wire
