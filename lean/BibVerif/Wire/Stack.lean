import BibVerif.Wire.Split
import BibVerif.Stack
namespace Bib.Wire
open Bib Sx

/-- which block class a probe acts on -/
def kindOf : Block → String
  | .live (.entry _) => "entry"
  | .live (.string ..) => "string"
  | .live (.preamble ..) => "preamble"
  | .live (.expl ..) => "expl"
  | .live (.impl ..) => "impl"
  | _ => "other"

def retag (t : Str) : Block → Block
  | .live (.entry e) => .live (.entry { e with key := e.key ++ t })
  | .live (.string k v l r m) => .live (.string (k ++ t) v l r m)
  | .live (.preamble v l r m) => .live (.preamble (v ++ t) l r m)
  | .live (.expl c l r m) => .live (.expl (c ++ t) l r m)
  | .live (.impl c l r m) => .live (.impl (c ++ t) l r m)
  | b => b

/-- probe middlewares used by the C20 correspondence (mirrored by harness/props/c20.py):
`(tag s)` appends `s` to every entry key; `(splice kind how)` answers for blocks of `kind`:
`none`, `empty`, `same`, `(dup s1 s2 ..)` (copies with suffixed key/text), `illegal`, `badcoll`. -/
def decProbe : Sx → Option Mw
  | .list [.sym "tag", .str t] =>
    some (blockTransform fun b => match b with
      | .live (.entry e) => .one (.live (.entry { e with key := e.key ++ t }))
      | b => .one b)
  | .list [.sym "vtag", .str t] =>
    -- appends `t` to every str field value of every entry (does not commute with the enclosing middlewares)
    some (blockTransform fun b => match b with
      | .live (.entry e) => .one (.live (.entry { e with fields := e.fields.map fun f =>
          match f.value with | .str v => { f with value := .str (v ++ t) } | _ => f }))
      | b => .one b)
  | .list [.sym "splice", .sym kind, how] =>
    let res : Block → Option TRes := fun b =>
      match how with
      | .sym "none" => some .none
      | .sym "empty" => some (.many [])
      | .sym "same" => some (.one b)
      | .sym "illegal" => some .illegal
      | .sym "badcoll" => some .badCollection
      | .list (.sym "dup" :: ts) => (ts.mapM Sx.asStr).map fun l => .many (l.map fun t => retag t b)
      | _ => Option.none
    -- the wire description must be well-formed for every block: check it on a dummy
    match res (.failed .eof 0 []) with
    | Option.none => Option.none
    | some _ =>
      some (blockTransform fun b =>
        if kindOf b = kind then (res b).getD .illegal else .one b)
  | _ => Option.none

def decStack : Sx → Option (Option (List Mw))
  | .sym "N" => some Option.none
  | .list l => (l.mapM decProbe).map some
  | _ => Option.none

def encBlocksRes (r : Except PyErr (List Block)) : Sx :=
  encExcept (fun bs => .list (bs.map encBlock)) r

/-- `(parsestack (block..) dflt ps am)`: `parse_string` from the splitter's blocks with default
stack `dflt`, `parse_stack=ps`, `append_middleware=am` (`N` = not given) -/
def hParseStack : Handler := fun _ args =>
  match args with
  | [bs, d, ps, am] =>
    match decBlocks bs, decStack d, decStack ps, decStack am with
    | some l, some (some dflt), some ps, some am => encBlocksRes (parseString dflt (.ok l) ps am)
    | _, _, _, _ => badArgs
  | _ => badArgs

/-- `(unparsestack (block..) dflt us pm)`: the library handed to the writer by `write_string` -/
def hUnparseStack : Handler := fun _ args =>
  match args with
  | [bs, d, us, pm] =>
    match decBlocks bs, decStack d, decStack us, decStack pm with
    | some l, some (some dflt), some us, some pm =>
      encBlocksRes (writeString dflt (fun x => .ok x) l us pm)
    | _, _, _, _ => badArgs
  | _ => badArgs

def stackHandlers : List (String × Handler) :=
  [("parsestack", hParseStack), ("unparsestack", hUnparseStack)]

end Bib.Wire
