import BibVerif.Wire.Split
import BibVerif.HeapProgs
namespace Bib.Wire
open Bib Sx Bib.Heap

def decShape (x : Sx) : Option Shape := do
  let l ← x.asList
  l.mapM fun y => do
    let i ← y.asInt
    pure (if i < 0 then none else some i.toNat)

/-- run one copy pattern on the abstract library of the given shape:
`(verdict <disciplined> <input unchanged> <result disjoint from input>)` -/
def runPattern (pat : String) (inplace : Bool) (sh : Shape) : Option (Bool × Bool × Bool) :=
  let (σ, _) := mkLibrary sh
  let fuel := σ.length + 5
  let (σ0, env0, prog, resultReg) : Heap × Env × List Instr × Option Nat :=
    match pat with
    | "block" => (σ, [.ref 0], progBlockMw inplace sh, none)
    | "library" => (σ, [.ref 0], progLibraryMw inplace sh, some (if inplace then 0 else 1))
    | "sort" => (σ, [.ref 0], progSortBlocks sh, none)
    | "fmt" => ([⟨40, [(0, .imm 1), (1, .imm 2), (2, .imm 3), (3, .imm 4), (4, .imm 5)]⟩], [.ref 0],
                progWriteFormat (!inplace), some (if inplace then 0 else 1))
    | _ => (σ, [.ref 0], [], none)
  let disciplined := (check (env0.map fun _ => Ty.old) prog).isSome
  match exec fuel σ0 env0 prog with
  | none => none
  | some (σ', env') =>
    let res := match resultReg with | some r => env'[r]? | none => env'.getLast?
    some (disciplined, (changedOld σ0 σ').isEmpty,
          match res with | some v => !(reachesOld σ' σ0.length (σ'.length + 1) v) | none => false)

/-- `(heappat (pat ...) inplace shape)`: the conjunction over a stack of patterns -/
def hHeapPat : Handler := fun _ args =>
  match args with
  | [.list pats, ip, sh] =>
    match ip.asBool, decShape sh with
    | some inplace, some shape =>
      let rs := pats.map fun p => match p with
        | .sym s => runPattern s inplace shape
        | _ => none
      if rs.any Option.isNone then .sym "model-program-failed" else
      let vs := rs.filterMap id
      tag "verdict" [bool (vs.all (·.1)), bool (vs.all (·.2.1)), bool (vs.all (·.2.2))]
    | _, _ => badArgs
  | _ => badArgs

def heapHandlers : List (String × Handler) := [("heappat", hHeapPat)]

end Bib.Wire
