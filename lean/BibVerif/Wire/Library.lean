/-
  Driver handler for the `Library` model (C08).  Glue, not part of any theorem.

    (libhist <next> (<ublock> ...) (<op> ...))  ->  ((<outcome> <blocks> <entries> <entries_dict>
                                                      <strings> <strings_dict> <preambles> <comments>
                                                      <failed_blocks>) ...)
      one answer item per call, all views rendered by value after the call.
      <ublock>  ::= <live block>                 -- Entry, String, Preamble, ExplicitComment, ImplicitComment
                  | (fb <eid> <failed block>)    -- any ParsingFailedBlock; <eid> = identity of its error object
      <arg>     ::= (u <i>)                      -- the i-th block of the universe
                  | (p <i>)                      -- the block currently at position i of `blocks`
      <op>      ::= (add1 <arg> <T|F>) | (addl (<arg>...) <T|F>) | (rem1 <arg>) | (reml (<arg>...))
                  | (repl <arg> <arg> <T|F>)
      <outcome> ::= ok | (raise <Err>) | skip    -- skip: a (p i) with no such position; no call made
-/
import BibVerif.Wire.Split
import BibVerif.Library
namespace Bib.Wire
open Bib Sx Lib

def decUBlock (x : Sx) : Option LBlock :=
  match x with
  | .list [.sym "fb", .int eid, b] =>
    match decBlock b with
    | some (.live _) => none
    | some c => some (.failed eid.toNat c)
    | none => none
  | _ => (decLive x).map .live

/-- by value: no identity tokens -/
def encLBlock : LBlock → Sx
  | .live l => encLive l
  | .failed _ c => encBlock c
  | .wrapper _ k _ _ p d => tag "dupkey" [.str k, encLBlock p, encLBlock d]

def decArg (u : List LBlock) : Sx → Option (Arg LBlock)
  | .list [.sym "u", .int i] => (u[i.toNat]?).map .blk
  | .list [.sym "p", .int i] => some (.pos i.toNat)
  | _ => none

def decLOp (u : List LBlock) : Sx → Option (Op LBlock)
  | .list [.sym "add1", a, f] => do pure (.add [← decArg u a] (← f.asBool))
  | .list [.sym "addl", .list as, f] => do pure (.add (← as.mapM (decArg u)) (← f.asBool))
  | .list [.sym "rem1", a] => do pure (.remove [← decArg u a])
  | .list [.sym "reml", .list as] => do pure (.remove (← as.mapM (decArg u)))
  | .list [.sym "repl", o, n, f] => do pure (.replace (← decArg u o) (← decArg u n) (← f.asBool))
  | _ => none

def encDict (d : List (Str × LBlock)) : Sx := .list (d.map fun (k, b) => .list [.str k, encLBlock b])
def encBs (l : List LBlock) : Sx := .list (l.map encLBlock)

def encViews (L : Lib LBlock) : List Sx :=
  let S := LBlock.sig
  [encBs L.blocks, encBs (entries S L), encDict (entriesDict L), encBs (strings L), encDict (stringsDict L),
   encBs (preambles S L), encBs (comments S L), encBs (failedBlocks S L)]

def encOutcome : Outcome → Sx
  | .ok => .sym "ok"
  | .raise e => tag "raise" [encErr e]

def runHist : Lib LBlock → List (Op LBlock) → List Sx
  | _, [] => []
  | L, op :: ops =>
    match applyOp LBlock.sig L op with
    | some (L', o) => .list (encOutcome o :: encViews L') :: runHist L' ops
    | none => .list (.sym "skip" :: encViews L) :: runHist L ops

def hLibHist : Handler := fun _ args =>
  match args with
  | [.int n, .list us, .list ops] =>
    match us.mapM decUBlock with
    | some u =>
      match ops.mapM (decLOp u) with
      | some ops => .list (runHist (Lib.empty n.toNat) ops)
      | none => badArgs
    | none => badArgs
  | _ => badArgs

def libraryHandlers : List (String × Handler) := [("libhist", hLibHist)]

end Bib.Wire
