/-
  Rendering shared by the middleware handlers: like `encBlock`, except that the `previous_block` of a
  `DuplicateBlockKeyBlock` - a *reference* to another block of the library, aliased and therefore
  showing whatever an in-place middleware did to that block - is rendered as a reference
  `(ref class key line)`, not by value (aliasing is the subject of C07, not of C15-C17).
-/
import BibVerif.Wire.Split
import BibVerif.MwCommon
namespace Bib.Wire
open Bib Sx

def encRef : Live → Sx
  | .entry e => tag "ref" [.sym "entry", .str e.key, .int e.line]
  | .string k _ l _ _ => tag "ref" [.sym "string", .str k, .int l]
  | .preamble _ l _ _ => tag "ref" [.sym "preamble", .str [], .int l]
  | .expl _ l _ _ => tag "ref" [.sym "expl", .str [], .int l]
  | .impl _ l _ _ => tag "ref" [.sym "impl", .str [], .int l]

def encBlockR : Block → Sx
  | .dupKey k p d => tag "dupkey" [.str k, encRef p, encLive d]
  | b => encBlock b

def encBlocksR (bs : List Block) : Sx := .list (bs.map encBlockR)

end Bib.Wire
