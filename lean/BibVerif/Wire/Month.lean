import BibVerif.Wire.Mw
import BibVerif.Month
namespace Bib.Wire
open Bib Sx Bib.Month

def encMonthErr : Month.Err → Sx
  | .valueError => tag "raise" [.sym "ValueError"]
  | .keyError => tag "raise" [.sym "KeyError"]
  | .indexError => tag "raise" [.sym "IndexError"]

def decKind : Sx → Option Month.Kind
  | .sym "toInt" => some Month.Kind.toInt
  | .sym "toAbbr" => some Month.Kind.toAbbr
  | .sym "toLong" => some Month.Kind.toLong
  | _ => none

/-- `(month (kind ...) <maxdigits> (block ...))` → `(ok (block ...))` | `(raise E)`:
the listed month middlewares applied one after the other to `Library(blocks)` -/
def hMonth : Handler := fun P args =>
  match args with
  | [.list ks, .int d, bs] =>
    match ks.mapM decKind, decBlocks bs with
    | some kinds, some blocks =>
      let run := kinds.foldl (fun (acc : Except Month.Err (List Block)) k => acc.bind (Month.transform P d.toNat k))
        (.ok (libraryOf blocks))
      match run with
      | .ok out => tag "ok" [encBlocksR out]
      | .error e => encMonthErr e
    | _, _ => badArgs
  | _ => badArgs

/-- `(monthval kind <maxdigits> val)` → `(ok val msg)` | `(raise E)`: `resolve_month_field_val` alone -/
def hMonthVal : Handler := fun P args =>
  match args with
  | [k, .int d, v] =>
    match decKind k, decVal v with
    | some kind, some val =>
      match Month.resolve P d.toNat kind val with
      | .ok (nv, msg) => tag "ok" [encVal nv, .str msg]
      | .error e => encMonthErr e
    | _, _ => badArgs
  | _ => badArgs

def monthHandlers : List (String × Handler) := [("month", hMonth), ("monthval", hMonthVal)]

end Bib.Wire
