import BibVerif.Wire.Enclosing
import BibVerif.Interpolate
namespace Bib.Wire.InterpolateW
open Bib Sx Bib.Wire Bib.Interpolate

/-- `(lib (<block> ...) (<string block> ...) (<entry key> ...))`: blocks, `Library.strings`, keys of
`entries_dict` -/
def encLib (L : Lib) : Sx :=
  tag "lib" [.list (L.blocks.map encBlock), .list (L.stringBlocks.map encLive), .list (L.entries.map fun kb => .str kb.1)]

/-- `(c11.resolveb (<block> ...))`: `ResolveStringReferencesMiddleware().transform(Library(blocks))` -/
def hResolveBlocks : Handler := fun _ args =>
  match args with
  | [bs] =>
    match decBlocks bs with
    | some bs => encLib (transform (addAll bs))
    | none => badArgs
  | _ => badArgs

/-- `(c11.resolve <text>)`: the middleware alone on `parse_string(text, parse_stack=[])` -/
def hResolveText : Handler := fun P args =>
  match args with
  | [.str t] => encExcept (fun bs => encLib (transform (addAll bs))) (split P t)
  | _ => badArgs

/-- `(c11.parse <text>)`: `parse_string(text)` with the default stack -/
def hParse : Handler := fun P args =>
  match args with
  | [.str t] => encExcept encLib (defaultParse P t)
  | _ => badArgs

end Bib.Wire.InterpolateW

namespace Bib.Wire
def interpolateHandlers : List (String × Handler) :=
  [("c11.resolveb", InterpolateW.hResolveBlocks), ("c11.resolve", InterpolateW.hResolveText),
   ("c11.parse", InterpolateW.hParse)]
end Bib.Wire
