/-
  Request handlers for the name models (C12, C13, C14):

    (coauth <str>)                       -> (ok (<str> ...))               split_multiple_persons_names
    (coauthref <str>)                    -> (ok (<str> ...))               reference splitter of the C12 statement
    (namespec <str>)                     -> (spec T) | (spec F <str>)              `Invalid`, `dropTopSeps` of the C13 statements
    (cojoin (<str> ...))                 -> (ok <str>)                     " and ".join
    (nameparse <str>)                    -> (ok (np ..)) | (invalid <reason>)   parse_single_name_into_parts
    (wordcase (<str> ...))               -> (cases ((<str> <int> T|F) ...))   `wordCase` of the C13 statement `case_spec` on each word, and `wordCase = 0`
    (namecases <str>)                    -> (cases ((<str> <int> T|F) ...)) | (invalid)   the same on every word of the parsed name (first von last jr)
    (mergelast (np ..)) (mergefirst (np ..)) -> (ok <str>)
    (nameroundtrip <str>)                -> the function-pair round trip of C14 (see `hRound`)
    (namestack <block> ((op ...) ...))   -> ((ok <block>) ... [(raise Err)])   one answer per op group
-/
import BibVerif.Wire.Sx
import BibVerif.Wire.Split
import BibVerif.Names.Merge
import BibVerif.Names.Case
import BibVerif.Lemmas.NamesSpec
namespace Bib.Wire
open Bib Sx Bib.Names Bib.NameP

def encNameErr : NameErr → Sx
  | .unmatchedClose => .sym "unmatchedClose"
  | .tooManyCommas => .sym "tooManyCommas"
  | .unterminated => .sym "unterminated"
  | .trailingComma => .sym "trailingComma"

def encParse : Except NameErr NameParts → Sx
  | .ok p => tag "ok" [encNameParts p]
  | .error e => tag "invalid" [encNameErr e]

def hCoauth : Handler := fun _ args =>
  match args with
  | [.str s] => tag "ok" [strs (CoAuth.split s)]
  | _ => badArgs

/-- `(coauthref s)`: the word-level reference splitter of the C12 statement (for cross-checking the
statement itself against the Python reference of the harness) -/
def hCoauthRef : Handler := fun _ args =>
  match args with
  | [.str s] => tag "ok" [strs (CoAuth.splitWords s)]
  | _ => badArgs

/-- `(namespec s)`: the reference notions of the C13 statements on `s`, for cross-checking the
statements themselves against the real code: `(spec <Invalid s> <dropTopSeps s>)` -/
def hNameSpec : Handler := fun _ args =>
  match args with
  | [.str s] =>
    if decide (NameP.Invalid s) then tag "spec" [bool true]
    else tag "spec" [bool false, .str (NameP.dropTopSeps false 0 s)]
  | _ => badArgs

def hCojoin : Handler := fun _ args =>
  match args with
  | [l] => match l.asStrs with
    | some ns => tag "ok" [.str (CoAuth.join ns)]
    | none => badArgs
  | _ => badArgs

def hNameparse : Handler := fun P args =>
  match args with
  | [.str s] => encParse (parse P s)
  | _ => badArgs

/-- `wordCase` of the C13 statement `case_spec` on each word (1 upper, 0 lower, -1 caseless) and
the reading "lower-case word" = `wordCase P w = 0` of `rule_form1_case` / `rule_form23_case` -/
def encWordCases (P : PyChars) (ws : List Str) : Sx :=
  tag "cases" [.list (ws.map fun w => .list [.str w, .int (wordCase P w), bool (decide (wordCase P w = 0))])]

/-- `(wordcase (w ...))`: the per-word function on arbitrary strings, for cross-checking against the
Python reference `word_case` -/
def hWordCase : Handler := fun P args =>
  match args with
  | [l] => match l.asStrs with
    | some ws => encWordCases P ws
    | none => badArgs
  | _ => badArgs

/-- `(namecases s)`: the per-word function on every word of the parsed name `s`, in the order
first, von, last, jr - compared with `word_case` of the words the REAL parser returns and with the
real parser's own treatment of each word (von or not between an upper-case and a final word) -/
def hNameCases : Handler := fun P args =>
  match args with
  | [.str s] =>
    match parse P s with
    | .ok p => encWordCases P (p.first ++ p.von ++ p.last ++ p.jr)
    | .error _ => tag "invalid" []
  | _ => badArgs

def hMergeLast : Handler := fun _ args =>
  match args with
  | [x] => match decNameParts x with
    | some p => tag "ok" [.str (mergeLastFirst p)]
    | none => badArgs
  | _ => badArgs

def hMergeFirst : Handler := fun _ args =>
  match args with
  | [x] => match decNameParts x with
    | some p => tag "ok" [.str (mergeFirstFirst p)]
    | none => badArgs
  | _ => badArgs

/-- `(nameroundtrip s)`: split the co-authors, parse each, merge last-name-first, join with
" and ", split and parse again.  Answer: `(names.. ) (parts|invalid) <merged> (names..) (parts|invalid)`. -/
def hRound : Handler := fun P args =>
  match args with
  | [.str s] =>
    let ns := CoAuth.split s
    match parseAll P ns with
    | .error _ => .list [strs ns, .sym "invalid"]
    | .ok ps =>
      let merged := CoAuth.join (ps.map mergeLastFirst)
      let ns2 := CoAuth.split merged
      let r2 := match parseAll P ns2 with
        | .error _ => .sym "invalid"
        | .ok ps2 => .list (ps2.map encNameParts)
      .list [strs ns, .list (ps.map encNameParts), .str merged, strs ns2, r2]
  | _ => badArgs

def decOp : Sx → Option Op
  | .sym "separate" => some .separate
  | .sym "mergeCo" => some .mergeCo
  | .sym "splitParts" => some .splitParts
  | .sym "mergePartsLast" => some (.mergeParts true)
  | .sym "mergePartsFirst" => some (.mergeParts false)
  | _ => none

def normField (f : Field) : Field := { f with value := normVal f.value }
def normLive : Live → Live
  | .entry e => .entry { e with fields := e.fields.map normField }
  | l => l
def normBlock : Block → Block
  | .live l => .live (normLive l)
  | .mwError w i => .mwError w (normLive i)
  | b => b

def runGroups (P : PyChars) : List (List Op) → Block → List Sx
  | [], _ => []
  | g :: r, b =>
    match applyOps P g b with
    | .error e => [tag "raise" [encErr e]]
    | .ok b' => tag "ok" [encBlock (normBlock b')] :: runGroups P r b'

def hNamestack : Handler := fun P args =>
  match args with
  | [blk, .list groups] =>
    match decBlock blk, groups.mapM (fun g => do (← g.asList).mapM decOp) with
    | some b, some gs => .list (runGroups P gs b)
    | _, _ => badArgs
  | _ => badArgs

def namesHandlers : List (String × Handler) :=
  [("coauth", hCoauth), ("coauthref", hCoauthRef), ("cojoin", hCojoin), ("namespec", hNameSpec), ("nameparse", hNameparse), ("wordcase", hWordCase), ("namecases", hNameCases), ("mergelast", hMergeLast),
   ("mergefirst", hMergeFirst), ("nameroundtrip", hRound), ("namestack", hNamestack)]

end Bib.Wire
