/-
  Request handler for the model of C14's second sentence (Names/Pipeline.lean):

    (namespipe <fmt> <text>) -> ((ok (<block> ...)) (ok (<block> ...)) (ok <text>) (ok (<block> ...)))

  one answer per stage, cut short by `(raise E)` at the first stage that raises:
    1. `parse_string(text, append_middleware=[SeparateCoAuthors(), SplitNameParts()])`   (`parseNames`)
    2. `MergeNameParts()` then `MergeCoAuthors()` over that library                       (`applyMws`)
    3. the default unparse stack + writer on the merged library                           (`writeDefault`)
       - 2 and 3 together are `write_string(lib, prepend_middleware=[…], bibtex_format=fmt)` (`writeNames`)
    4. `parse_string(written, append_middleware=[…])` again
-/
import BibVerif.Wire.Writer
import BibVerif.Wire.Names
import BibVerif.Names.Pipeline
namespace Bib.Wire
open Bib Sx Bib.Names Bib.Pipeline

def encLib (bs : List Block) : Sx := .list (bs.map fun b => encBlockShallow (normBlock b))

def runNamesPipe (P : PyChars) (F : Writer.BibtexFormat) (text : Str) : List Sx :=
  match parseNames P text with
  | .error e => [tag "raise" [encErr e]]
  | .ok lib1 =>
    tag "ok" [encLib lib1] ::
    match applyMws P [.mergeParts true, .mergeCo] lib1 with
    | .error e => [tag "raise" [encErr e]]
    | .ok merged =>
      tag "ok" [encLib merged] ::
      match writeDefault P F merged with
      | .error e => [tag "raise" [encErr e]]
      | .ok t =>
        tag "ok" [.str t] ::
        match parseNames P t with
        | .error e => [tag "raise" [encErr e]]
        | .ok lib2 => [tag "ok" [encLib lib2]]

def hNamesPipe : Handler := fun P args =>
  match args with
  | [f, .str t] =>
    match WriterW.decFormat f with
    | some F => .list (runNamesPipe P F t)
    | none => badArgs
  | _ => badArgs

def namesPipelineHandlers : List (String × Handler) := [("namespipe", hNamesPipe)]

end Bib.Wire
