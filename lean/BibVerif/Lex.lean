/-
  Model of the mark regex of `Splitter.split` (splitter.py):

      (?<!\\)[\{\}\",=]|\n|@[\w]*( |\t)*(?={)

  scanned left to right with `re.finditer`.  The input becomes a list of tokens carrying
  their own text: marks (the regex matches) and the text between them.
-/
import BibVerif.Py
namespace Bib

inductive Kind | lbrace | rbrace | quote | comma | eq | nl | at
deriving DecidableEq, Repr, Inhabited

inductive Tok
  | text (cs : Str)
  | mark (k : Kind) (lit : Str)
deriving DecidableEq, Repr, Inhabited

def Tok.lit : Tok → Str
  | .text cs => cs
  | .mark _ l => l

def flatten (ts : List Tok) : Str := ts.flatMap Tok.lit

/-- the single-character alternatives of the regex -/
def delimKind (c : Char) : Option Kind :=
  if c = '{' then some .lbrace else if c = '}' then some .rbrace
  else if c = '"' then some .quote else if c = ',' then some .comma
  else if c = '=' then some .eq else if c = '\n' then some .nl else none

def isBlank (c : Char) : Bool := c = ' ' || c = '\t'

def pushText (c : Char) : List Tok → List Tok
  | .text cs :: t => .text (c :: cs) :: t
  | t => .text [c] :: t

/-- `@[\w]*( |\t)*(?={)` tried right after an '@': the matched tail and the remainder.
Greedy matching cannot be improved by backtracking: `\w` and blank are disjoint from `{`
(hypotheses `WordOK`), so giving back characters never makes the look-ahead succeed. -/
def atMatch (P : PyChars) (rest : Str) : Option (Str × Str) :=
  let w := rest.takeWhile P.isWord
  let r1 := rest.dropWhile P.isWord
  let b := r1.takeWhile isBlank
  let r2 := r1.dropWhile isBlank
  match r2 with
  | '{' :: _ => some (w ++ b, r2)
  | _ => none

theorem atMatch_spec (P : PyChars) (rest lit r2 : Str) (h : atMatch P rest = some (lit, r2)) :
    lit ++ r2 = rest ∧ r2.length ≤ rest.length ∧ ∃ r3, r2 = '{' :: r3 := by
  unfold atMatch at h
  simp only at h
  split at h
  · rename_i tl heq
    injection h with h; injection h with h1 h2
    subst h1 h2
    refine ⟨?_, ?_, ⟨tl, heq⟩⟩
    · rw [List.append_assoc, List.takeWhile_append_dropWhile, List.takeWhile_append_dropWhile]
    · have h1 := (List.dropWhile_sublist (l := List.dropWhile P.isWord rest) isBlank).length_le
      have h2 := (List.dropWhile_sublist (l := rest) P.isWord).length_le
      omega
  · cases h

/-- the lexer: `prevBS` = the previous character was a backslash (the look-behind) -/
def lexFrom (P : PyChars) (prevBS : Bool) : Str → List Tok
  | [] => []
  | c :: rest =>
    match (if prevBS && c ≠ '\n' then none else delimKind c) with
    | some k => .mark k [c] :: lexFrom P false rest
    | none =>
      if c = '@' then
        match h : atMatch P rest with
        | some (lit, r2) => .mark .at ('@' :: lit) :: lexFrom P false r2
        | none => pushText c (lexFrom P false rest)
      else pushText c (lexFrom P (c = '\\') rest)
termination_by s => s.length
decreasing_by
  all_goals simp_wf
  all_goals try omega
  have := (atMatch_spec P rest lit r2 h).2.1
  omega

/-- tokens of `"\n" + bibstr`, as `Splitter.__init__` prepends a newline -/
def lex (P : PyChars) (s : Str) : List Tok := lexFrom P false ('\n' :: s)

theorem flatten_pushText (c : Char) (ts : List Tok) : flatten (pushText c ts) = c :: flatten ts := by
  unfold pushText flatten
  split <;> simp [Tok.lit]

theorem flatten_cons_mark (k : Kind) (l : Str) (ts : List Tok) :
    flatten (.mark k l :: ts) = l ++ flatten ts := by simp [flatten, Tok.lit]

theorem flatten_append (a b : List Tok) : flatten (a ++ b) = flatten a ++ flatten b := by
  simp [flatten]

/-- nothing is lost or invented by lexing -/
theorem flatten_lexFrom (P : PyChars) (b : Bool) (s : Str) : flatten (lexFrom P b s) = s := by
  fun_induction lexFrom P b s with
  | case1 => simp [flatten]
  | case2 b c rest k hk ih => simp [flatten_cons_mark, ih]
  | case3 b rest lit r2 h hk ih =>
    have := (atMatch_spec P rest lit r2 h).1
    simp [flatten_cons_mark, ih, this]
  | case4 b rest h hk ih => simp [flatten_pushText, ih]
  | case5 b c rest hk hc ih => simp [flatten_pushText, ih]

/-- In a lexed token list every `@type` mark is immediately followed by the `{` mark
(the regex look-ahead). -/
def AtOK : List Tok → Prop
  | [] => True
  | .mark .at _ :: rest =>
    (match rest with | .mark .lbrace _ :: _ => True | _ => False) ∧ AtOK rest
  | _ :: rest => AtOK rest

theorem atOK_pushText (c : Char) (ts : List Tok) (h : AtOK ts) : AtOK (pushText c ts) := by
  cases ts with
  | nil => simp [pushText, AtOK]
  | cons a t' =>
    cases a with
    | text cs => simpa [pushText, AtOK] using h
    | mark k l => simpa [pushText, AtOK] using h

theorem lexFrom_lbrace (P : PyChars) (r3 : Str) :
    lexFrom P false ('{' :: r3) = .mark .lbrace ['{'] :: lexFrom P false r3 := by
  rw [lexFrom]; simp [delimKind]

theorem atOK_lexFrom (P : PyChars) (b : Bool) (s : Str) : AtOK (lexFrom P b s) := by
  fun_induction lexFrom P b s with
  | case1 => simp [AtOK]
  | case2 b c rest k hk ih =>
    have : k ≠ .at := by
      intro hk'; subst hk'
      split at hk
      · cases hk
      · simp only [delimKind] at hk
        repeat' split at hk
        all_goals cases hk
    cases k <;> first | exact absurd rfl this | simpa [AtOK] using ih
  | case3 b rest lit r2 h hk ih =>
    obtain ⟨r3, hr⟩ := (atMatch_spec P rest lit r2 h).2.2
    subst hr
    rw [lexFrom_lbrace] at ih ⊢
    exact ⟨trivial, ih⟩
  | case4 b rest h hk ih => exact atOK_pushText _ _ ih
  | case5 b c rest hk hc ih => exact atOK_pushText _ _ ih

end Bib
