/-
  Data model: `bibtexparser/model.py` as plain Lean data.

  * `Field`, `Entry`, the five non-failed block classes (`Live`), and the failed-block
    classes (`ParsingFailedBlock`, `DuplicateFieldKeyBlock`, `DuplicateBlockKeyBlock`,
    `MiddlewareErrorBlock`).  A failed wrapper never wraps another wrapper in the real code
    (`Library._add_to_dicts` only wraps `Entry`/`String`, middlewares only wrap the block they
    were given after the `isinstance` dispatch), so `Block` is not recursive.
  * Field values are `Val`: the splitter only produces `.str`; middlewares may produce ints,
    name lists and `NameParts` lists.
  * `parser_metadata` is an insertion-ordered association list.
-/
import BibVerif.Py
namespace Bib

structure NameParts where
  first : List Str := []
  von : List Str := []
  last : List Str := []
  jr : List Str := []
deriving DecidableEq, Repr, Inhabited

inductive Val
  | str (s : Str)
  | int (i : Int)
  | names (l : List Str)
  | parts (l : List NameParts)
  | part (p : NameParts)
  | opaque (tag : Nat)
deriving DecidableEq, Repr, Inhabited

inductive Meta
  | str (s : Str)
  | strs (l : List Str)
  | dict (d : List (Str × Str))
  | bool (b : Bool)
deriving DecidableEq, Repr, Inhabited

abbrev MetaD := List (Str × Meta)

structure Field where
  key : Str
  value : Val
  line : Int
deriving DecidableEq, Repr, Inhabited

structure Entry where
  ty : Str
  key : Str
  fields : List Field
  line : Int
  raw : Str
  md : MetaD := []
deriving DecidableEq, Repr, Inhabited

/-- the five block classes that are not failed blocks -/
inductive Live
  | entry (e : Entry)
  | string (key : Str) (value : Val) (line : Int) (raw : Str) (md : MetaD)
  | preamble (value : Str) (line : Int) (raw : Str) (md : MetaD)
  | expl (comment : Str) (line : Int) (raw : Str) (md : MetaD)
  | impl (comment : Str) (line : Int) (raw : Str) (md : MetaD)
deriving DecidableEq, Repr, Inhabited

/-- why the splitter gave up on a block (`BlockAbortedException.abort_reason`, by call site) -/
inductive Fail
  | eof | atInBracket | atInValue | expectedEq | expectedComma | expectedEqString
deriving DecidableEq, Repr, Inhabited

/-- middleware errors that become a `MiddlewareErrorBlock` -/
inductive MwErr
  | invalidName | partialMw
deriving DecidableEq, Repr, Inhabited

inductive Block
  | live (l : Live)
  | failed (why : Fail) (line : Int) (raw : Str)
  | dupField (dups : List Str) (e : Entry)
  | dupKey (key : Str) (prev dup : Live)
  | mwError (why : MwErr) (inner : Live)
deriving DecidableEq, Repr, Inhabited

def Live.line : Live → Int
  | .entry e => e.line
  | .string _ _ l _ _ => l
  | .preamble _ l _ _ => l
  | .expl _ l _ _ => l
  | .impl _ l _ _ => l

def Live.raw : Live → Str
  | .entry e => e.raw
  | .string _ _ _ r _ => r
  | .preamble _ _ r _ => r
  | .expl _ _ r _ => r
  | .impl _ _ r _ => r

def Block.line : Block → Int
  | .live l => l.line
  | .failed _ l _ => l
  | .dupField _ e => e.line
  | .dupKey _ _ d => d.line
  | .mwError _ i => i.line

def Block.raw : Block → Str
  | .live l => l.raw
  | .failed _ _ r => r
  | .dupField _ e => e.raw
  | .dupKey _ _ d => d.raw
  | .mwError _ i => i.raw

def Block.isFailed : Block → Bool
  | .live _ => false
  | _ => true

/-- Python exceptions that can leave the modelled code -/
inductive PyErr
  | parserState      -- ParserStateException / RegexMismatchException (re-raised by `split`)
  | assertion        -- the asserts in `_cast_to_duplicate`
  | valueError
  | typeError
  | keyError
  | attributeError
deriving DecidableEq, Repr, Inhabited

end Bib
