/-
  Model of `Splitter` (splitter.py) as an automaton over the tokens of `Lex`:

      split s = finish (foldl step init (lex s))

  Each constructor of `Mode` is one program point of the recursive-descent code; every branch of
  every handler is one `match` arm.  A handed-back mark (`_unaccepted_mark`) after an abort is
  "re-dispatch the same token once from the reset state" (`redo`).
-/
import BibVerif.Model
import BibVerif.Lex
namespace Bib

inductive BKind | comment | preamble | string | entry
deriving DecidableEq, Repr, Inhabited

/-- program points of the splitter -/
inductive Mode
  /-- outside blocks; the tokens of the pending implicit comment (reversed) and its start line -/
  | top (impl : List Tok) (implLine : Int)
  /-- consumed `@type`; the next mark must be `{` (the handlers' first `_next_mark`) -/
  | afterAt (k : BKind) (ty : Str)
  /-- `_move_to_closed_bracket` for @comment / @preamble -/
  | bracket (k : BKind) (depth : Nat) (body : List Tok)
  /-- `_handle_string`, waiting for `=` -/
  | strKey (key : List Tok)
  /-- `_move_to_closed_bracket` for @string -/
  | strVal (key : Str) (depth : Nat) (val : List Tok)
  /-- `_handle_entry`, waiting for `,` or `}` after the key -/
  | entKey (ty : Str) (key : List Tok)
  /-- `_move_to_end_of_entry`, waiting for `=` or `}` -/
  | fldKey (ty key : Str) (fields : List Field) (fk : List Tok)
  /-- `_move_to_comma_or_closing_curly_bracket` with its quote flag and brace counters -/
  | fldVal (ty key : Str) (fields : List Field) (fk : Str) (eqLine : Int)
           (q : Bool) (curls qcurls : Nat) (val : List Tok)
deriving Repr, Inhabited

structure St where
  /-- blocks handed to `library.add`, reversed -/
  out : List Block
  /-- `_current_line` -/
  line : Int
  /-- `start_line` of the block being scanned -/
  blockLine : Int
  /-- reversed tokens of the block being scanned (its raw text so far) -/
  raw : List Tok
  mode : Mode
  /-- an exception that leaves `split` -/
  err : Option PyErr := none
deriving Repr, Inhabited

def rflat (ts : List Tok) : Str := flatten ts.reverse

variable (P : PyChars)

/-- dispatch on the lower-cased mark text, as `split` does -/
def classify (lit : Str) : BKind × Str :=
  let l := lower P lit
  if startsWith "@comment".toList l then (.comment, [])
  else if startsWith "@preamble".toList l then (.preamble, [])
  else if startsWith "@string".toList l then (.string, [])
  else (.entry, strip P (l.drop 1))

/-- `_end_implicit_comment` -/
def endImplicit (impl : List Tok) (implLine : Int) : List Block :=
  let region := rflat impl
  let lead := region.takeWhile P.isSpace
  let nls := (lead.filter (· = '\n')).length
  let c := rstrip P (region.dropWhile P.isSpace)
  if c.isEmpty then [] else [Block.live (.impl c (implLine + nls) c [])]

/-- keys that occur more than once, in order of first repetition (`duplicate_keys`) -/
def dupKeysGo (seen dups : List Str) : List Field → List Str
  | [] => dups
  | f :: r =>
    if seen.contains f.key then
      dupKeysGo seen (if dups.contains f.key then dups else dups ++ [f.key]) r
    else dupKeysGo (f.key :: seen) dups r

def dupKeys (fs : List Field) : List Str := dupKeysGo [] [] fs

def mkEntry (ty key : Str) (fields : List Field) (line : Int) (raw : Str) : Block :=
  let e : Entry := { ty := ty, key := key, fields := fields, line := line, raw := raw }
  let d := dupKeys fields
  if d.isEmpty then .live (.entry e) else .dupField d e

def toTop (s : St) (b : Block) : St :=
  { s with out := b :: s.out, raw := [], mode := .top [] s.line }

/-- abort at an unaccepted mark: the failed block ends before it -/
def abort (s : St) (why : Fail) : St :=
  toTop s (.failed why s.blockLine (rflat s.raw))

def stepTop (s : St) (impl : List Tok) (implLine : Int) (t : Tok) : St :=
  match t with
  | .mark .at lit =>
    let (k, ty) := classify P lit
    { s with out := (endImplicit P impl implLine).reverse ++ s.out, blockLine := s.line,
             raw := [t], mode := .afterAt k ty }
  | .mark .nl _ => { s with line := s.line + 1, mode := .top (t :: impl) implLine }
  | _ => { s with mode := .top (t :: impl) implLine }

/-- the token joins the text of the block being scanned (text and newlines are invisible to
the handlers: `_next_mark` skips newlines, text is never a mark) -/
def absorb (s : St) (m : Mode) (t : Tok) : St :=
  let s' := { s with raw := t :: s.raw }
  match m with
  | .bracket k d b => { s' with mode := .bracket k d (t :: b) }
  | .strKey key => { s' with mode := .strKey (t :: key) }
  | .strVal key d v => { s' with mode := .strVal key d (t :: v) }
  | .entKey ty key => { s' with mode := .entKey ty (t :: key) }
  | .fldKey ty key fs fk => { s' with mode := .fldKey ty key fs (t :: fk) }
  | .fldVal ty key fs fk el q c qc v => { s' with mode := .fldVal ty key fs fk el q c qc (t :: v) }
  | _ => s'

def step (s : St) (t : Tok) : St :=
  if s.err.isSome then s else
  match s.mode with
  | .top impl il => stepTop P s impl il t
  | m =>
  match t with
  | .mark .nl _ => absorb { s with line := s.line + 1 } m t
  | .text _ => absorb s m t
  | .mark k _ =>
    let push : St := { s with raw := t :: s.raw }
    let redo (why : Fail) : St :=
      let s0 := abort s why
      match s0.mode with
      | .top impl il => stepTop P s0 impl il t
      | _ => s0
    match m with
    | .top _ _ => s   -- excluded by the outer match
    | .afterAt bk ty =>
      match k with
      | .lbrace =>
        match bk with
        | .comment | .preamble => { push with mode := .bracket bk 0 [] }
        | .string => { push with mode := .strKey [] }
        | .entry => { push with mode := .entKey ty [] }
      -- "should never happen, as we check for the `{` in the regex": ParserStateException
      | _ => { s with err := some .parserState }
    | .bracket bk d b =>
      match k with
      | .lbrace => { push with mode := .bracket bk (d+1) (t :: b) }
      | .rbrace =>
        if d = 0 then
          let body := rflat b
          let blk : Block := match bk with
            | .comment => .live (.expl (strip P body) s.blockLine (rflat push.raw) [])
            | _ => .live (.preamble body s.blockLine (rflat push.raw) [])
          toTop push blk
        else { push with mode := .bracket bk (d-1) (t :: b) }
      | .at => redo .atInBracket
      | _ => { push with mode := .bracket bk d (t :: b) }
    | .strKey key =>
      match k with
      | .eq => { push with mode := .strVal (strip P (rflat key)) 0 [] }
      | _ => redo .expectedEqString
    | .strVal key d v =>
      match k with
      | .lbrace => { push with mode := .strVal key (d+1) (t :: v) }
      | .rbrace =>
        if d = 0 then
          toTop push (.live (.string key (.str (strip P (rflat v))) s.blockLine (rflat push.raw) []))
        else { push with mode := .strVal key (d-1) (t :: v) }
      | .at => redo .atInBracket
      | _ => { push with mode := .strVal key d (t :: v) }
    | .entKey ty key =>
      match k with
      | .rbrace => toTop push (mkEntry ty (strip P (rflat key)) [] s.blockLine (rflat push.raw))
      | .comma => { push with mode := .fldKey ty (strip P (rflat key)) [] [] }
      | _ => redo .expectedComma
    | .fldKey ty key fs fk =>
      match k with
      | .rbrace => toTop push (mkEntry ty key fs s.blockLine (rflat push.raw))
      | .eq => { push with mode := .fldVal ty key fs (strip P (rflat fk)) s.line false 0 0 [] }
      | _ => redo .expectedEq
    | .fldVal ty key fs fk el q c qc v =>
      let cont (q : Bool) (c qc : Nat) : St :=
        { push with mode := .fldVal ty key fs fk el q c qc (t :: v) }
      let fld : Unit → Field := fun _ => ⟨fk, .str (strip P (rflat v)), el⟩
      match k with
      | .quote => if c > 0 then cont q c qc else if qc = 0 then cont (!q) c qc else cont q c qc
      | .lbrace => if q then cont q c (qc+1) else cont q (c+1) qc
      | .rbrace =>
        if q then (if qc > 0 then cont q c (qc-1) else cont q c qc)
        else if c > 0 then cont q (c-1) qc
        else toTop push (mkEntry ty key (fs ++ [fld ()]) s.blockLine (rflat push.raw))
      | .comma =>
        if q || c > 0 then cont q c qc
        else { push with mode := .fldKey ty key (fs ++ [fld ()]) [] }
      | .at => redo .atInValue
      | _ => cont q c qc

/-- end of input: a pending implicit comment is closed, an open block fails ("Unexpectedly
reached end of file") -/
def finish (s : St) : Except PyErr (List Block) :=
  match s.err with
  | some e => .error e
  | none =>
    match s.mode with
    | .top impl il => .ok ((endImplicit P impl il).reverse ++ s.out).reverse
    | _ => .ok (Block.failed .eof s.blockLine (rflat s.raw) :: s.out).reverse

def init : St := { out := [], line := -1, blockLine := -1, raw := [], mode := .top [] (-1) }

def run (s : St) (ts : List Tok) : St := ts.foldl (step P) s

def splitToks (ts : List Tok) : Except PyErr (List Block) := finish P (run P init ts)

/-- `Splitter(bibstr).split()` as the list of blocks handed to `Library.add`, in order -/
def split (s : Str) : Except PyErr (List Block) := splitToks P (lex P s)

theorem run_append (s : St) (a b : List Tok) : run P s (a ++ b) = run P (run P s a) b := by
  simp [run, List.foldl_append]

theorem run_cons (s : St) (t : Tok) (ts : List Tok) : run P s (t :: ts) = run P (step P s t) ts := rfl

theorem run_nil (s : St) : run P s [] = s := rfl

end Bib
