/-
  Model of bibtexparser/middlewares/fieldkeys.py (`NormalizeFieldKeys`).

  The loop lower-cases `field.key` in place and stores the field object in a dict keyed by the
  normalised key: a later field with the same normalised key REPLACES the earlier one at the earlier
  one's position (dict update keeps the insertion position), a new key is appended.
-/
import BibVerif.MwCommon
namespace Bib.FieldKeys
open Bib

/-- `new_fields_dict[field.key] = field` on an insertion-ordered dict of fields -/
def dictSet : List Field → Field → List Field
  | [], f => [f]
  | g :: r, f => if g.key = f.key then f :: r else g :: dictSet r f

/-- `field.key = field.key.lower()` -/
def lowerKey (P : PyChars) (f : Field) : Field := { f with key := lower P f.key }

/-- the loop of `transform_entry` (fieldkeys.py:31-54) followed by `list(new_fields_dict.values())` -/
def normalize (P : PyChars) (fs : List Field) : List Field :=
  fs.foldl (fun d f => dictSet d (lowerKey P f)) []

/-- `NormalizeFieldKeys.transform_entry`: no metadata is recorded -/
def normEntry (P : PyChars) (e : Entry) : Entry := { e with fields := normalize P e.fields }

/-- `NormalizeFieldKeys().transform(Library(blocks)).blocks` -/
def transform (P : PyChars) (bs : List Block) : List Block :=
  libraryOf (bs.map (mapEntries (normEntry P)))

end Bib.FieldKeys
