/-
  C07: a store model of the Python object graph, `copy.deepcopy`, and straight-line programs
  over it — only *which object is written and which reference is stored* is tracked; what is
  computed is the business of the value-level models of the other properties.

  * `Heap = List Obj`, address = index, allocation appends.
  * `V.imm t`  : immutable payload (str, int, None, bool, and exception objects whose
                 `__deepcopy__` returns `self` — shared by design);
    `V.ref a`  : a mutable object (instance, list, dict).
  * `deepcopy` with memo (as `copy.deepcopy`: the new object is registered in the memo before
    its parts are copied) and fuel (recursion depth).
  * programs: registers are append-only (`Env`), instructions read slots, allocate, deep-copy
    and store.
-/
namespace Bib.Heap

inductive V
  | imm (tag : Nat)
  | ref (a : Nat)
deriving DecidableEq, Repr, Inhabited

structure Obj where
  cls : Nat
  slots : List (Nat × V)
deriving DecidableEq, Repr, Inhabited

abbrev Heap := List Obj
abbrev Memo := List (Nat × Nat)

def setAt {α} (l : List α) (i : Nat) (x : α) : List α := l.set i x

/-- copy the parts of an object one after the other, threading heap and memo -/
def copySlotsWith (f : Heap → Memo → V → Option (Heap × Memo × V)) :
    Heap → Memo → List (Nat × V) → Option (Heap × Memo × List (Nat × V))
  | σ, m, [] => some (σ, m, [])
  | σ, m, (k, v) :: rest =>
    match f σ m v with
    | none => none
    | some (σ2, m2, v') =>
      match copySlotsWith f σ2 m2 rest with
      | none => none
      | some (σ3, m3, rest') => some (σ3, m3, (k, v') :: rest')

/-- `copy.deepcopy` of a value; `none` = ran out of fuel or dangling reference -/
def copyV : Nat → Heap → Memo → V → Option (Heap × Memo × V)
  | _, σ, m, .imm t => some (σ, m, .imm t)
  | 0, _, _, .ref _ => none
  | fuel + 1, σ, m, .ref a =>
    match m.lookup a with
    | some a' => some (σ, m, .ref a')
    | none =>
      match σ[a]? with
      | none => none
      | some o =>
        -- y = new empty object; memo[id(x)] = y; then copy the parts into y
        match copySlotsWith (copyV fuel) (σ ++ [{ cls := o.cls, slots := [] }]) ((a, σ.length) :: m) o.slots with
        | none => none
        | some (σ2, m2, slots') =>
          some (σ2.set σ.length { cls := o.cls, slots := slots' }, m2, .ref σ.length)

/-- top-level `copy.deepcopy(v)` (fresh memo) -/
def deepcopy (fuel : Nat) (σ : Heap) (v : V) : Option (Heap × V) :=
  (copyV fuel σ [] v).map fun (σ', _, v') => (σ', v')

/-! ### programs -/

abbrev Env := List V

inductive Instr
  /-- push an immutable constant (a computed str/int/None …) -/
  | const (t : Nat)
  /-- push slot `k` of the object in register `r` -/
  | load (r k : Nat)
  /-- push `copy.deepcopy(reg r)` -/
  | deepcopy (r : Nat)
  /-- allocate a new object whose slots hold the given registers; push its reference -/
  | alloc (cls : Nat) (slots : List (Nat × Nat))
  /-- `reg r`.slot k := `reg rv` (attribute assignment / list item / dict item) -/
  | store (r k rv : Nat)
  /-- replace all slots of `reg r` (e.g. `entry.fields = new_list` is a store; `list.sort()` is this) -/
  | setSlots (r : Nat) (slots : List (Nat × Nat))
deriving Repr

def slotOf (o : Obj) (k : Nat) : Option V := o.slots.lookup k

def setSlot (o : Obj) (k : Nat) (v : V) : Obj :=
  if (o.slots.lookup k).isSome then
    { o with slots := o.slots.map fun (k', v') => if k' = k then (k', v) else (k', v') }
  else { o with slots := o.slots ++ [(k, v)] }

def regs (env : Env) : List (Nat × Nat) → Option (List (Nat × V))
  | [] => some []
  | (k, r) :: rest =>
    match env[r]?, regs env rest with
    | some v, some l => some ((k, v) :: l)
    | _, _ => none

/-- one instruction; `none` = the program is ill-formed for this heap (dangling register,
missing slot, store through an immutable value) -/
def execI (fuel : Nat) (σ : Heap) (env : Env) : Instr → Option (Heap × Env)
  | .const t => some (σ, env ++ [.imm t])
  | .load r k =>
    match env[r]? with
    | some (.ref a) => (σ[a]?).bind fun o => (slotOf o k).map fun v => (σ, env ++ [v])
    | _ => none
  | .deepcopy r =>
    match env[r]? with
    | some v => (deepcopy fuel σ v).map fun (σ', v') => (σ', env ++ [v'])
    | none => none
  | .alloc cls slots =>
    (regs env slots).map fun sl => (σ ++ [{ cls := cls, slots := sl }], env ++ [.ref σ.length])
  | .store r k rv =>
    match env[r]?, env[rv]? with
    | some (.ref a), some v => (σ[a]?).map fun o => (σ.set a (setSlot o k v), env)
    | _, _ => none
  | .setSlots r slots =>
    match env[r]? with
    | some (.ref a) =>
      (σ[a]?).bind fun o => (regs env slots).map fun sl => (σ.set a { o with slots := sl }, env)
    | _ => none

def exec (fuel : Nat) : Heap → Env → List Instr → Option (Heap × Env)
  | σ, env, [] => some (σ, env)
  | σ, env, i :: is => (execI fuel σ env i).bind fun (σ', env') => exec fuel σ' env' is

/-! ### the ownership discipline -/

/-- a register is `fresh` if it can only hold an immutable value or an object allocated by this
program run; `old` otherwise (it may reach the caller's objects) -/
inductive Ty | old | fresh
deriving DecidableEq, Repr

def tyRegs (tys : List Ty) (slots : List (Nat × Nat)) : Bool :=
  slots.all fun (_, r) => tys[r]? = some .fresh

/-- abstract execution: the type of the pushed register, and whether the instruction respects the
discipline (writes only to fresh objects, stores only fresh values into them) -/
def checkI (tys : List Ty) : Instr → Option (List Ty)
  | .const _ => some (tys ++ [.fresh])
  | .load r _ => (tys[r]?).map fun t => tys ++ [t]      -- a slot of a fresh object is fresh
  | .deepcopy r => if r < tys.length then some (tys ++ [.fresh]) else none
  | .alloc _ slots => if tyRegs tys slots then some (tys ++ [.fresh]) else none
  | .store r _ rv => if tys[r]? = some .fresh ∧ tys[rv]? = some .fresh then some tys else none
  | .setSlots r slots => if tys[r]? = some .fresh ∧ tyRegs tys slots then some tys else none

def check : List Ty → List Instr → Option (List Ty)
  | tys, [] => some tys
  | tys, i :: is => (checkI tys i).bind fun tys' => check tys' is

/-- a program is disciplined for inputs of the given types if every write targets a fresh object
and stores only fresh values -/
def Disciplined (tys : List Ty) (p : List Instr) : Prop := (check tys p).isSome

end Bib.Heap
