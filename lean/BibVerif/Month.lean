/-
  Model of bibtexparser/middlewares/month.py.

  Field values are `Val`: `.str`, `.int`, anything else (lists, None, floats ... = the remaining
  constructors) is neither `str` nor `int` for the `isinstance` tests.  (`bool`, Python's subclass of
  `int`, is outside the model; the harness sends such values only to the real code.)

  The month table is `Generated.months`, rebuilt from the behaviour of the real middlewares on every
  run.  Unicode enters through `P` (`str.lower`, `str.isdigit`, `int()`); `D` is
  `sys.get_int_max_str_digits()` (0 = no limit).
-/
import BibVerif.MwCommon
import BibVerif.Generated.Months
namespace Bib.Month
open Bib

/-- exceptions that month.py could raise: all are "cannot happen" table lookups (`KeyError`, `IndexError`,
`ValueError` of `list.index`) -/
inductive Err
  | valueError | keyError | indexError
deriving DecidableEq, Repr, Inhabited

inductive Kind
  | toInt | toAbbr | toLong
deriving DecidableEq, Repr, Inhabited

/-- `_MONTH_ABBREV` -/
def abbrs : List Str := Generated.months.map (·.1)
/-- `_MONTH_FULL` -/
def fulls : List Str := Generated.months.map (·.2)

variable (P : PyChars) (D : Nat)

/-- `_LOWERCASE_FULL = [m.lower() for m in _MONTH_FULL]` -/
def lowerFulls : List Str := fulls.map (lower P)

/-- `s.isdigit()`: non-empty and every character is a digit character -/
def isDigitStr (s : Str) : Bool := !s.isEmpty && s.all P.isDigit

/-- positional value of a string of decimal characters (`none` as soon as one is not decimal) -/
def decValue (s : Str) : Option Nat :=
  s.foldl (fun acc c => match acc, P.decVal c with
    | some a, some d => some (a * 10 + d)
    | _, _ => none) (some 0)

/-- `int(s)` for a string with `s.isdigit()`: `ValueError` (here `none`) when the string has more than
`D` characters (leading zeros count) or contains a digit character that is not decimal (`'²'`) -/
def pyInt (s : Str) : Option Nat :=
  if 0 < D ∧ D < s.length then none else decValue P s

/-- `_digits_to_int` (month.py:72-83) -/
def digitsToInt (v : Val) : Val :=
  match v with
  | .str s =>
    if isDigitStr P s then
      match pyInt P D s with
      | some n => .int n
      | none => v
    else v
  | _ => v

/-- the text shown in place of an int that `str()` refuses to print -/
def tooManyDigits : Str := "<integer with too many digits>".toList

/-- `shown` in `_unknown_month_message` (month.py:72-78): `str(v)`, and when CPython refuses to print
an int of more than `D` decimal digits (`|v| ≥ 10^D`, `ValueError`) the placeholder text -/
def fmtInt (i : Int) : Str :=
  if 0 < D ∧ 10 ^ D ≤ i.natAbs then tooManyDigits else intToStr i

def msgUnknownPrefix : Str := "month-field unchanged - unknown month ".toList

/-- `_unknown_month_message(v)` -/
def msgUnknown (i : Int) : Str := msgUnknownPrefix ++ fmtInt D i

def msgUnchanged : Str := "month field unchanged".toList
def msgLongInt : Str := "transformed int-month to str-month".toList
def msgLongAbbr : Str := "transformed abbreviated month to full month".toList
def msgLongCase : Str := "transformed month casing".toList
def msgAbbrInt : Str := "transformed int-month to abbreviated month".toList
def msgAbbrFull : Str := "transformed full month to abbreviated month".toList
def msgAbbrLower : Str := "use lowercase month abbreviation".toList
def msgIntCast : Str := "cast month int-string to int".toList
def msgIntAbbr : Str := "transformed full month to int-month".toList
def msgIntFull : Str := "transformed abbreviated month to int-month".toList

/-- `MonthLongStringMiddleware.resolve_month_field_val` (month.py:103-126) -/
def resolveLong (orig : Val) : Except Err (Val × Str) :=
  match digitsToInt P D orig with
  | .int i =>
    if i < 1 ∨ i > 12 then pure (orig, msgUnknown D i)
    else
      match fulls[(i - 1).toNat]? with
      | some f => pure (.str f, msgLongInt)
      | none => throw .indexError
  | .str s =>
    let l := lower P s
    if l ∈ abbrs then
      match Generated.months.lookup l with
      | some f => pure (.str f, msgLongAbbr)
      | none => throw .keyError
    else if l ∈ lowerFulls P then
      match Generated.months.lookup (l.take 3) with
      | some dc =>
        if s ≠ dc then pure (.str dc, msgLongCase)
        else pure (orig, msgUnchanged)
      | none => throw .keyError
    else pure (orig, msgUnchanged)
  | _ => pure (orig, msgUnchanged)

/-- `MonthAbbreviationMiddleware.resolve_month_field_val` (month.py:145-159) -/
def resolveAbbr (orig : Val) : Except Err (Val × Str) :=
  match digitsToInt P D orig with
  | .int i =>
    if i < 1 ∨ i > 12 then pure (orig, msgUnknown D i)
    else
      match abbrs[(i - 1).toNat]? with
      | some a => pure (.str a, msgAbbrInt)
      | none => throw .indexError
  | .str s =>
    let l := lower P s
    if l ∈ lowerFulls P then
      pure (.str (l.take 3), msgAbbrFull)
    else if l ∈ abbrs ∧ ¬ l = s then
      pure (.str l, msgAbbrLower)
    else pure (orig, msgUnchanged)
  | _ => pure (orig, msgUnchanged)

/-- the second `if` of `MonthIntMiddleware.resolve_month_field_val` (month.py:193-197) -/
def resolveIntDigits (orig : Val) : Val × Str :=
  match digitsToInt P D orig with
  | .int n => if 1 ≤ n ∧ n ≤ 12 then (.int n, msgIntCast) else (orig, msgUnchanged)
  | _ => (orig, msgUnchanged)

/-- `MonthIntMiddleware.resolve_month_field_val` (month.py:178-197); the two messages are swapped in
the source ("full" for abbreviations and vice versa) and are modelled as they are -/
def resolveInt (orig : Val) : Except Err (Val × Str) :=
  match orig with
  | .str s =>
    let l := lower P s
    if l ∈ abbrs then
      match abbrs.idxOf? (l.take 3) with
      | some k => pure (.int (Int.ofNat (k + 1)), msgIntAbbr)
      | none => throw .valueError
    else if l ∈ lowerFulls P then
      match (lowerFulls P).idxOf? l with
      | some k => pure (.int (Int.ofNat (k + 1)), msgIntFull)
      | none => throw .valueError
    else pure (resolveIntDigits P D orig)
  | _ => pure (orig, msgUnchanged)

def resolve (k : Kind) (v : Val) : Except Err (Val × Str) :=
  match k with
  | .toInt => resolveInt P D v
  | .toAbbr => resolveAbbr P D v
  | .toLong => resolveLong P D v

/-- the new month value only -/
def resolveVal (k : Kind) (v : Val) : Except Err Val :=
  match resolve P D k v with
  | .ok r => .ok r.1
  | .error e => .error e

def metadataKey : Kind → Str
  | .toInt => "MonthIntMiddleware".toList
  | .toAbbr => "MonthAbbreviationMiddleware".toList
  | .toLong => "MonthLongStringMiddleware".toList

def monthKey : Str := "month".toList

/-- `entry.fields_dict["month"]`: the dict comprehension keeps, per key, the LAST field -/
def lastMonth : List Field → Option Field
  | [] => none
  | f :: r =>
    match lastMonth r with
    | some g => some g
    | none => if f.key = monthKey then some f else none

/-- `month.value = new_val` on that (last) field object -/
def setLastMonth (nv : Val) : List Field → List Field
  | [] => []
  | f :: r =>
    match lastMonth r with
    | some _ => f :: setLastMonth nv r
    | none => if f.key = monthKey then { f with value := nv } :: r else f :: r

/-- `_MonthInterpolator.transform_entry` (month.py:25-34) -/
def transformEntry (k : Kind) (e : Entry) : Except Err Entry :=
  match lastMonth e.fields with
  | none => pure e
  | some f => do
    let (nv, msg) ← resolve P D k f.value
    pure { e with fields := setLastMonth nv e.fields, md := mdSet e.md (metadataKey k) (.str msg) }

/-- `Month…Middleware().transform(Library(blocks)).blocks` -/
def transform (k : Kind) (bs : List Block) : Except Err (List Block) :=
  blockMw (transformEntry P D k) bs

end Bib.Month
