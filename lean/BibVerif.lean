-- root of the library: every module, so that `lake build` checks everything
import BibVerif.Py
import BibVerif.Model
import BibVerif.Lex
import BibVerif.Split
import BibVerif.Grammar
import BibVerif.Lemmas.Tile
import BibVerif.Lemmas.LexNl
import BibVerif.Lemmas.NoRaise
import BibVerif.Lemmas.Scan
import BibVerif.Lemmas.Blocks
import BibVerif.Lemmas.Doc
import BibVerif.Lemmas.Resync
import BibVerif.Props.C01
import BibVerif.Props.C02
import BibVerif.Props.C03
import BibVerif.Props.C04
import BibVerif.Wire.All
