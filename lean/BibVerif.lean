import BibVerif.Py
import BibVerif.Model
import BibVerif.Lex
import BibVerif.Split
