/-
  Model driver: reads one request per line on stdin, writes one answer per line on stdout.

    (cmd arg ...)                        -- run handler `cmd` with ASCII character classes
    (withchars ((cp flags dec lower) ...) (cmd arg ...))
                                         -- same, with CPython's classification of the
                                         -- non-ASCII characters that occur in the request
-/
import BibVerif.Wire.All
open Bib Bib.Wire Bib.Sx

def dispatch (P : PyChars) : Sx → Sx
  | .list (.sym cmd :: args) =>
    match handlers.lookup cmd with
    | some h => h P args
    | none => .sym "unknown-command"
  | _ => .sym "bad-request"

def answer (line : String) : String :=
  match Sx.parse line with
  | none => "parse-error"
  | some (.list [.sym "withchars", .list tbl, req]) =>
    match tbl.mapM decCharInfo with
    | some t => render (dispatch (charsWith t) req)
    | none => "bad-table"
  | some req => render (dispatch asciiChars req)

partial def loop (inp : IO.FS.Stream) (out : IO.FS.Stream) : IO Unit := do
  let line ← inp.getLine
  if line.isEmpty then return ()
  out.putStrLn (answer line)
  loop inp out

def main : IO Unit := do
  let out ← IO.getStdout
  loop (← IO.getStdin) out
  out.flush
